#!/usr/bin/env python3
"""Runs the demonstration of every seeded change (seeded/<name>/demo.py) against the UNCHANGED tree (/repo or VERIF_REPO).

Every demonstration printed PASS on the tree it was filed against; one that fails on the current tree means that a later
repair changed the behaviour the demonstration relies on — either on purpose (then the seed carries a `status_note`) or
as a regression of ours (this is how the regression of 6d69e21, repaired by 8847295, came to light). The demonstrations
use real-time sleeps: a failure is re-run alone before it is reported.

usage: tools/seeded_demos.py [name …] [-j N]
"""
import argparse
import concurrent.futures
import json
import os
import subprocess
import sys

VERIF = os.path.dirname(os.path.dirname(os.path.abspath(__file__)))
SEEDED = os.path.join(VERIF, 'seeded')
REPO = os.path.realpath(os.environ.get('VERIF_REPO', '/repo'))

PY_IN = r'''
import sys, runpy
for k in [k for k in sys.modules if k == 'qtoggleserver' or k.startswith('qtoggleserver.')]: del sys.modules[k]
sys.path.insert(0, sys.argv[1])
import qtoggleserver.version as v
assert v.__file__.startswith(sys.argv[1] + '/'), v.__file__
script = sys.argv[2]
sys.argv = [script]
runpy.run_path(script, run_name='__main__')
'''


def run(name):
    script = os.path.join(SEEDED, name, 'demo.py')
    try:
        r = subprocess.run(['/venv/bin/python', '-c', PY_IN, REPO, script], cwd=REPO, capture_output=True, text=True,
                           timeout=600, env={k: v for k, v in os.environ.items() if k != 'QTOGGLESERVER_VERIF'})
        return name, r.returncode, (r.stdout + r.stderr)[-400:]
    except subprocess.TimeoutExpired:
        return name, 124, 'timeout'


def main():
    ap = argparse.ArgumentParser()
    ap.add_argument('names', nargs='*')
    ap.add_argument('-j', type=int, default=6)
    a = ap.parse_args()
    names = a.names or sorted(n for n in os.listdir(SEEDED) if os.path.exists(os.path.join(SEEDED, n, 'demo.py'))
                              and os.path.exists(os.path.join(SEEDED, n, 'meta.json')))
    bad = []
    with concurrent.futures.ThreadPoolExecutor(a.j) as ex:
        for name, rc, tail in ex.map(run, names):
            if rc:
                bad.append(name)
    really = []
    for name in bad:                       # alone, once more: the demonstrations sleep in real time
        _, rc, tail = run(name)
        if rc:
            meta = json.load(open(os.path.join(SEEDED, name, 'meta.json')))
            print(f'{name}: demonstration FAILS on the unchanged tree (exit {rc})'
                  + (' [status_note: ' + meta['status_note'][:120] + ']' if meta.get('status_note') else ''))
            print('   ' + tail.strip().replace('\n', '\n   '))
            if not meta.get('status_note'):
                really.append(name)
    print(f'{len(names)} demonstrations, {len(bad)} failed in the parallel pass, {len(really)} fail alone without a note')
    sys.exit(1 if really else 0)


if __name__ == '__main__':
    main()
