#!/usr/bin/env python3
"""Runs the registered quick check of a property against each seeded change under /verif/seeded/<name>/.

usage: tools/seeded_run.py [name …] [--tier quick|thorough] [--seed N] [--all-checks]

For every seeded/<name>/ (meta.json names the property, patch.diff is the change) a scratch worktree of /repo's HEAD is
created under /tmp/wt/, the patch applied there, `VERIF_REPO=<worktree> ./check <prop>` run, the outcome written to
seeded/<name>/result.json, and the worktree removed. Nothing is ever applied to /repo itself.
"""
import argparse
import json
import os
import subprocess
import sys
import time

VERIF = os.path.dirname(os.path.dirname(os.path.abspath(__file__)))
SEEDED = os.path.join(VERIF, 'seeded')


def sh(cmd, **kw):
    return subprocess.run(cmd, shell=True, capture_output=True, text=True, **kw)


def run_one(name, tier, seed, all_checks, only=None):
    d = os.path.join(SEEDED, name)
    meta = json.load(open(os.path.join(d, 'meta.json')))
    prop = meta['property']
    wt = f'/tmp/wt/seeded-{name}-{os.getpid()}'
    sh(f'git -C /repo worktree remove --force {wt}')
    r = sh(f'git -C /repo worktree add --detach {wt} HEAD')
    if r.returncode:
        return {'name': name, 'error': r.stderr}
    res = {'name': name, 'property': prop, 'repo_head': sh('git -C /repo rev-parse --short HEAD').stdout.strip(),
           'tier': tier, 'seed': seed, 'runs': []}
    try:
        r = sh(f'git -C {wt} apply {os.path.join(d, "patch.diff")}')
        if r.returncode:
            r = sh(f'git -C {wt} apply --3way {os.path.join(d, "patch.diff")}')
        if r.returncode:
            res['error'] = 'patch does not apply: ' + r.stderr[-500:]
            return res
        props = [prop]
        if all_checks:
            man = json.load(open(os.path.join(VERIF, 'MANIFEST.json')))
            props = [c['property_id'] for c in man['checks']]
        if only:
            props = only
        for p in props:
            t0 = time.time()
            env = dict(os.environ, VERIF_REPO=wt, VERIF_SEED=str(seed))
            r = subprocess.run(['./check', p, '--tier', tier, '--seed', str(seed)], cwd=VERIF, env=env,
                               capture_output=True, text=True)
            lines = [l for l in r.stdout.splitlines() if l.startswith(('VIOLATION', 'KNOWN-FINDING', 'BROKEN', p))]
            res['runs'].append({'check': p, 'exit': r.returncode, 'caught': r.returncode == 1,
                                'wall_s': round(time.time() - t0, 1), 'lines': lines[:6]})
        own = [x for x in res['runs'] if x['check'] == prop]
        res['caught'] = bool(own and own[0]['caught']) if not only else any(x['caught'] for x in res['runs'])
        res['caught_by'] = [x['check'] for x in res['runs'] if x['caught']]
        if meta.get('kind') == 'refactor':
            res['expected'] = 'silent'
            res['silent'] = all(x['exit'] == 0 for x in res['runs'])
    finally:
        sh(f'git -C /repo worktree remove --force {wt}')
    out = 'result.json' if not only else 'result-' + '-'.join(only) + '.json'
    json.dump(res, open(os.path.join(d, out), 'w'), indent=1)
    return res


def main():
    ap = argparse.ArgumentParser()
    ap.add_argument('names', nargs='*')
    ap.add_argument('--tier', default='quick')
    ap.add_argument('--seed', type=int, default=0)
    ap.add_argument('--all-checks', action='store_true')
    ap.add_argument('--checks', help='comma-separated check ids to run instead of the seeded property\'s own')
    a = ap.parse_args()
    names = a.names or sorted(n for n in os.listdir(SEEDED)
                              if os.path.exists(os.path.join(SEEDED, n, 'meta.json')))
    bad = 0
    for n in names:
        res = run_one(n, a.tier, a.seed, a.all_checks, a.checks.split(',') if a.checks else None)
        if res.get('expected') == 'silent':
            print(n, 'SILENT (ok)' if res.get('silent') else 'FALSE ALARM', [(x['check'], x['exit']) for x in res.get('runs', [])], res.get('error', ''))
            bad += not res.get('silent')
            continue
        print(n, 'CAUGHT' if res.get('caught') else 'MISSED', res.get('caught_by'), res.get('error', ''))
        bad += not res.get('caught')
    sys.exit(1 if bad else 0)


if __name__ == '__main__':
    main()
