#!/usr/bin/env python3
"""Rewrites the table between the `<!-- seeded-table -->` markers of DESIGN.md from seeded/*/meta.json + result.json."""
import json
import os
import re

VERIF = os.path.dirname(os.path.dirname(os.path.abspath(__file__)))
rows = []
for name in sorted(os.listdir(os.path.join(VERIF, 'seeded'))):
    d = os.path.join(VERIF, 'seeded', name)
    if not os.path.exists(os.path.join(d, 'meta.json')):
        continue
    meta = json.load(open(os.path.join(d, 'meta.json')))
    res = json.load(open(os.path.join(d, 'result.json'))) if os.path.exists(os.path.join(d, 'result.json')) else {}
    import glob as _g
    others = []
    for f in _g.glob(os.path.join(d, 'result-*.json')):
        o = json.load(open(f))
        others += [c for c in o.get('caught_by', []) if c != meta.get('property')]
    run = (res.get('runs') or [{}])[0]
    viol = [l for l in run.get('lines', []) if l.startswith('VIOLATION')]
    how = ''
    if res.get('caught'):
        how = 'failing input' if any('no-failing-input-found' not in l for l in viol) else 'correspondence only'
    summary = re.sub(r'\s+', ' ', str(meta.get('summary', ''))).replace('|', '/')
    if len(summary) > 150:
        summary = summary[:147] + '…'
    needs = re.sub(r'\s+', ' ', str(meta.get('needs_to_manifest', ''))).replace('|', '/')
    if len(needs) > 110:
        needs = needs[:107] + '…'
    verdict = "caught (" + how + ")" if res.get("caught") else ("MISSED" if res else "not run")
    if meta.get('kind') == 'refactor':
        verdict = ('silent, as it must be' if res.get('silent') else 'FALSE ALARM') if res else 'not run'
    if others:
        verdict += '; caught by ' + ', '.join(sorted(set(others)))
    if meta.get('status_note'):
        verdict = 'n/a now — ' + meta['status_note'][:160].replace('|', '/') + '…'
    rows.append(f'| {name} | {meta.get("property")} | {meta.get("site", "")} | {summary} | {needs} | '
                f'{verdict} | '
                f'{res.get("repo_head", "")} |')
table = ('| Seeded change | Property | Site | What it does | Needs, to manifest | `./check` (quick) | /repo HEAD |\n'
         '|---|---|---|---|---|---|---|\n' + '\n'.join(rows))
p = os.path.join(VERIF, 'DESIGN.md')
s = open(p).read()
a, b = '<!-- seeded-table -->', '<!-- /seeded-table -->'
if a in s:
    s = s[:s.index(a) + len(a)] + '\n' + table + '\n' + s[s.index(b):]
    open(p, 'w').write(s)
print(table)
