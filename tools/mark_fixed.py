#!/usr/bin/env python3
"""usage: tools/mark_fixed.py <finding id> <commit>  — turns a fixed-pending entry of known.d/*.json into a `fixed` one
(`fixed: property=<id> <commit> <what failed>`); fixed entries suppress nothing."""
import glob
import json
import os
import sys

VERIF = os.path.dirname(os.path.dirname(os.path.abspath(__file__)))
fid, commit = sys.argv[1], sys.argv[2]
done = False
for path in sorted(glob.glob(os.path.join(VERIF, 'known.d', '*.json'))) + [os.path.join(VERIF, 'known_findings.json')]:
    data = json.load(open(path))
    for f in data.get('findings', []):
        if f.get('id') == fid:
            what = f.get('what', '')
            if what.startswith('fixed:'):
                what = what.split(' ', 3)[-1] if what.count(' ') >= 3 else what
            f['status'] = 'fixed'
            f['commit'] = commit
            f['what'] = f'fixed: property={f["property"]} {commit} {what}'
            done = True
    if done:
        json.dump(data, open(path, 'w'), indent=1, ensure_ascii=False)
        print('updated', path)
        break
if not done:
    sys.exit(f'no finding {fid}')
