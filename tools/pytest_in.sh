#!/bin/sh
# usage: tools/pytest_in.sh <repo worktree> [pytest args…]   — runs the repository's test-suite with qtoggleserver
# imported from that worktree (the venv's editable install points at /repo; this redirects it).
WT=$(realpath "$1"); shift
cd "$WT" || exit 2
env -u QTOGGLESERVER_VERIF PYTHONPATH="$WT" /venv/bin/python -c "
import sys
for k in [k for k in sys.modules if k == 'qtoggleserver' or k.startswith('qtoggleserver.')]: del sys.modules[k]
import qtoggleserver.version as v
assert v.__file__.startswith('$WT/'), v.__file__
print('qtoggleserver from', v.__file__)
import pytest
sys.exit(pytest.main(['-q', '-p', 'no:cacheprovider', '--timeout=900', '--continue-on-collection-errors'] + sys.argv[1:]))
" "$@"
