#!/usr/bin/env python3
"""Confirms a candidate seeded change and files it under /verif/seeded/<name>/.

usage: tools/seeded_verify.py <candidate dir with patch.diff demo.py meta.json> <name>

Confirms in a scratch worktree of /repo HEAD: (1) the patch applies; (2) the repository's unedited test-suite still
passes with it (592 passed); (3) the demonstration passes on the pristine tree and fails on the changed tree.
Only then is the candidate copied to seeded/<name>/ with a `confirmed` record added to meta.json.
"""
import json
import os
import re
import shutil
import subprocess
import sys

VERIF = os.path.dirname(os.path.dirname(os.path.abspath(__file__)))

PY_IN = r'''
import sys, runpy
for k in [k for k in sys.modules if k == 'qtoggleserver' or k.startswith('qtoggleserver.')]: del sys.modules[k]
sys.path.insert(0, sys.argv[1])
import qtoggleserver.version as v
assert v.__file__.startswith(sys.argv[1] + '/'), v.__file__
script = sys.argv[2]
sys.argv = [script]
runpy.run_path(script, run_name='__main__')
'''


def sh(cmd, **kw):
    return subprocess.run(cmd, shell=True, capture_output=True, text=True, **kw)


def demo(tree, script):
    r = subprocess.run(['/venv/bin/python', '-c', PY_IN, os.path.realpath(tree), os.path.realpath(script)],
                       cwd=tree, capture_output=True, text=True, timeout=600,
                       env={k: v for k, v in os.environ.items() if k != 'QTOGGLESERVER_VERIF'})
    return r.returncode, (r.stdout + r.stderr)[-600:]


def main():
    src, name = sys.argv[1], sys.argv[2]
    meta = json.load(open(os.path.join(src, 'meta.json')))
    wt = f'/tmp/wt/verify-{name}'
    sh(f'git -C /repo worktree remove --force {wt}')
    assert sh(f'git -C /repo worktree add --detach {wt} HEAD').returncode == 0
    rec = {'repo_head': sh('git -C /repo rev-parse --short HEAD').stdout.strip()}
    try:
        rc0, out0 = demo(wt, os.path.join(src, 'demo.py'))
        rec['demo_pristine'] = {'exit': rc0, 'tail': out0[-200:]}
        r = sh(f'git -C {wt} apply {os.path.realpath(os.path.join(src, "patch.diff"))}')
        if r.returncode:
            print('patch does not apply:', r.stderr)
            return 1
        r = sh(f'{VERIF}/tools/pytest_in.sh {wt}', timeout=1800)
        m = re.search(r'(\d+) passed', r.stdout)
        rec['suite_with_change'] = r.stdout.strip().splitlines()[-1] if r.stdout.strip() else r.stderr[-200:]
        rc1, out1 = demo(wt, os.path.join(src, 'demo.py'))
        rec['demo_changed'] = {'exit': rc1, 'tail': out1[-300:]}
        ok = rc0 == 0 and rc1 != 0 and m and int(m.group(1)) >= 592 and ' failed' not in rec['suite_with_change']
        rec['confirmed'] = bool(ok)
    finally:
        sh(f'git -C /repo worktree remove --force {wt}')
    print(json.dumps(rec, indent=1))
    if not rec.get('confirmed'):
        print('NOT CONFIRMED')
        return 1
    dst = os.path.join(VERIF, 'seeded', name)
    os.makedirs(dst, exist_ok=True)
    for f in ('patch.diff', 'demo.py'):
        shutil.copy(os.path.join(src, f), os.path.join(dst, f))
    meta['confirmed_by_coordinator'] = rec
    meta['what_was_run'] = ['git apply patch.diff in a scratch worktree of /repo HEAD', 'tools/pytest_in.sh <worktree>',
                            'demo.py on the pristine worktree (exit 0) and on the changed worktree (exit != 0)']
    json.dump(meta, open(os.path.join(dst, 'meta.json'), 'w'), indent=1)
    print('filed as', dst)
    return 0


if __name__ == '__main__':
    sys.exit(main())
