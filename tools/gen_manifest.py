#!/usr/bin/env python3
"""Regenerates /verif/MANIFEST.json from the table below (kept in one place so it stays valid)."""
import json
import os

VERIF = os.path.dirname(os.path.dirname(os.path.abspath(__file__)))

BASELINE_OFF = ('cd /repo && env -u QTOGGLESERVER_VERIF /venv/bin/python -m pytest -ra -q -p no:cacheprovider '
                '--timeout=900 --continue-on-collection-errors')

COMMON_NOTE = ('Trusted: Lean 4.33 kernel (axioms ⊆ {propext, Classical.choice, Quot.sound}, audited on every run; '
               'no sorry/native_decide/bv_decide); the hand-written Lean model is tied to /repo only through the '
               'correspondence check of each run (differential testing at public entry points, seeded, shrinking); '
               'CPython/asyncio/third-party libraries and the harness are trusted. ')

# id -> dict(text, note, technique, design_ref): one file per claimed property in manifest.d/Cxx.json
CLAIMED = {}
_d = os.path.join(VERIF, 'manifest.d')
for _f in sorted(os.listdir(_d)):
    if _f.endswith('.json'):
        _c = json.load(open(os.path.join(_d, _f)))
        if not _c.get('note', '').startswith('Trusted: Lean'):
            _c['note'] = COMMON_NOTE + _c.get('note', '')
        CLAIMED[_f[:-5]] = _c

PENDING_REASON = 'check under construction in this session (model/proof/correspondence not committed yet); not claimed until it runs'

ALL = [f'C{i:02d}' for i in range(1, 21)]


def main():
    checks = []
    for pid in ALL:
        if pid not in CLAIMED:
            continue
        c = CLAIMED[pid]
        checks.append({
            'property_id': pid,
            'quick_cmd': f'./check {pid} --tier quick',
            'thorough_cmd': f'./check {pid} --tier thorough',
            'evidence_file': f'evidence/{pid}.json',
            'replay_cmd_template': f'./check {pid} --replay {{path}}',
            'engine': 'lean4+correspondence',
            'level_claimed': {'category': 'proof', 'text': c['text'], 'design_ref': c['design_ref']},
            'level_note': c['note'],
            'technique': c['technique'],
        })
    man = {
        'version': 1,
        'setup_cmd': 'cd lean && lake build',
        'hooks': {
            'guard': 'QTOGGLESERVER_VERIF',
            'enable': 'environment variable QTOGGLESERVER_VERIF=1 (set by ./check); no hook is currently needed in /repo',
            'baseline_off_cmd': BASELINE_OFF,
            'source_commits': [],
            'add_only': True,
        },
        'engines': [{
            'name': 'lean4+correspondence',
            'path': 'lean/ (theorems, models, drivers) + harness/ (correspondence, oracles) + check',
            'serves_properties': sorted(CLAIMED),
            'kind_free_text': 'Lean 4 machine-checked proofs about hand-written executable models; model tied to the '
                              'code by a differential correspondence check and a property oracle on every run',
        }],
        'checks': checks,
        'notes': 'See DESIGN.md. Exit codes: 0 held, 1 VIOLATION, 2 machinery broken/timeout. known_findings.json lists '
                 'genuine defects (fixed or recorded).',
        'not_applicable': [{'property_id': p, 'reason': PENDING_REASON} for p in ALL if p not in CLAIMED],
    }
    with open(os.path.join(VERIF, 'MANIFEST.json'), 'w') as f:
        json.dump(man, f, indent=1, ensure_ascii=False)
        f.write('\n')


if __name__ == '__main__':
    main()
