/-
Model of the per-port driver I/O slice of qtoggleserver/core/ports.py (+ the polling read of core/main.py)
for property C14.  The model is a transition system whose actions are the atomic stretches of code between
two `await`s (asyncio runs every such stretch without interruption):

  BasePort._write_value_queued     -> submit v        (put_nowait; on QueueFull: get_nowait the OLDEST entry, reject ITS
                                                       future with the QueueFull error, retry — `putLoop`)
  BasePort._write_value_loop       -> writerTake      (`await queue.get()` returns, `_writing = True`, and — repaired
                                                       code — enters `async with self._write_lock`)
                                      writerAcquire   (the lock was busy at writerTake: the writer got it later)
                                      writeEnd ok     (`write_value` returned / raised: resolve the future, `_writing =
                                                       False`, release the lock, go on to `await main.update()`)
                                      confirmEnd      (the confirming `main.update()` returned; back to `queue.get()`)
  BasePort.load_from_data          -> loadWriteBegin  (direct `await self.write_value(value)` of the persisted value —
                                                       repaired code: inside `async with self._write_lock`)
                                      loadWriteEnd
                                      loadDone        (`load()` returns without a direct write)
  BasePort.read_transformed_value  -> readBegin       (`while self._reading: await sleep(1)` — a requester that finds a
                                                       read running WAITS and re-tests, it neither skips nor returns the
                                                       last value, so it is simply not enabled; then `_reading = True`)
                                      readEnd         (`finally: self._reading = False`)

`cap` = `WRITE_VALUE_QUEUE_SIZE` (a parameter; `asyncio.Queue(maxsize)` with maxsize ≤ 0 is unbounded — `full`).
`lockFix` = the per-port write lock of fixes/C14-load-write-lock.diff is present (false = the code before the fix, kept
only to prove the counter-example `unrepaired_writes_overlap`).
`readGuard` = the `_reading` test is present (false only to show that `reads_exclusive` depends on it).

Ghost history (never read by `step`): driver calls in flight (`rIn`, `wIn`), every submission, every queued write that
entered the driver, every ticket resolution, every drop with the queue contents at that moment.
Core Lean only.
-/
namespace QtVerif.PortIO

/-- How a submitter's future (`done`) is resolved. -/
inductive Outcome
  | ok          -- write_value returned
  | err         -- write_value raised
  | queueFull   -- dropped from the queue: rejected with asyncio.QueueFull
  deriving DecidableEq, Repr

/-- A queued `(value, done)` pair; `tk` numbers the submissions of this port from 0. -/
structure Entry where
  val : Int
  tk  : Nat
  deriving DecidableEq, Repr

/-- Program counter of the writer task `_write_value_loop`. -/
inductive Pc
  | idle                    -- in `await self._write_value_queue.get()`
  | lockWait (e : Entry)    -- dequeued `e`, waiting for the write lock (repaired code only)
  | writing (e : Entry)     -- inside `await self.write_value(e.val)`
  | confirming              -- inside `await main.update()`
  deriving DecidableEq, Repr

/-- One executed drop: `e` was the head of the queue `e :: rest` when submission `cause` found the queue full. -/
structure Drop where
  e    : Entry
  rest : List Entry
  cause : Nat
  deriving DecidableEq, Repr

structure Cfg where
  cap       : Nat
  lockFix   : Bool := true
  readGuard : Bool := true
  deriving Repr

structure State where
  queue       : List Entry := []     -- `_write_value_queue`, head = oldest
  pc          : Pc := .idle
  writingFlag : Bool := false        -- `_writing` (informative only, as in the code)
  lockHeld    : Bool := false        -- `_write_lock.locked()`
  loadWriting : Bool := false        -- the direct write of `load_from_data` is in flight
  loaded      : Bool := false        -- `load()` has returned
  reading     : Bool := false        -- `_reading`
  nextTk      : Nat := 0
  -- ghost history
  rIn         : Nat := 0             -- `read_value` calls in flight
  wIn         : Nat := 0             -- `write_value` calls in flight (queued and direct)
  submitted   : List Entry := []     -- in submission order
  started     : List Entry := []     -- queued writes in the order they entered `write_value`
  resolved    : List (Nat × Outcome) := []   -- (ticket, outcome) in resolution order
  drops       : List Drop := []
  deriving Repr

inductive Action
  | submit (v : Int)
  | writerTake
  | writerAcquire
  | writeEnd (ok : Bool)
  | confirmEnd
  | loadWriteBegin
  | loadWriteEnd
  | loadDone
  | readBegin
  | readEnd
  deriving DecidableEq, Repr

/-- `asyncio.Queue.full()`: `False if maxsize <= 0 else qsize() >= maxsize`. -/
def full (cap : Nat) (q : List Entry) : Bool := decide (0 < cap) && decide (cap ≤ q.length)

/-- The `while True: try put_nowait … except QueueFull: get_nowait + reject … else break` loop of
`_write_value_queued`: new queue and the drops made, oldest first. -/
def putLoop (cap : Nat) (e : Entry) : List Entry → List Entry × List Drop
  | [] => ([e], [])
  | h :: t =>
    if full cap (h :: t) then
      let r := putLoop cap e t
      (r.1, ⟨h, t, e.tk⟩ :: r.2)
    else ((h :: t) ++ [e], [])

/-- One atomic step; `none` = the action is not enabled in this state. -/
def step (c : Cfg) (s : State) : Action → Option State
  | .submit v =>
    let e : Entry := ⟨v, s.nextTk⟩
    let r := putLoop c.cap e s.queue
    some { s with queue := r.1, nextTk := s.nextTk + 1, submitted := s.submitted ++ [e],
                  drops := s.drops ++ r.2,
                  resolved := s.resolved ++ r.2.map (fun d => (d.e.tk, Outcome.queueFull)) }
  | .writerTake =>
    match s.pc, s.queue with
    | .idle, e :: q =>
      if c.lockFix && s.lockHeld then
        some { s with queue := q, pc := .lockWait e, writingFlag := true }
      else
        some { s with queue := q, pc := .writing e, writingFlag := true, lockHeld := c.lockFix,
                      wIn := s.wIn + 1, started := s.started ++ [e] }
    | _, _ => none
  | .writerAcquire =>
    match s.pc with
    | .lockWait e =>
      if s.lockHeld then none
      else some { s with pc := .writing e, lockHeld := c.lockFix, wIn := s.wIn + 1, started := s.started ++ [e] }
    | _ => none
  | .writeEnd ok =>
    match s.pc with
    | .writing e =>
      some { s with pc := .confirming, writingFlag := false, lockHeld := false, wIn := s.wIn - 1,
                    resolved := s.resolved ++ [(e.tk, if ok then Outcome.ok else Outcome.err)] }
    | _ => none
  | .confirmEnd =>
    match s.pc with
    | .confirming => some { s with pc := .idle }
    | _ => none
  | .loadWriteBegin =>
    if s.loaded || s.loadWriting || (c.lockFix && s.lockHeld) then none
    else some { s with loadWriting := true, lockHeld := c.lockFix, wIn := s.wIn + 1 }
  | .loadWriteEnd =>
    if s.loadWriting then some { s with loadWriting := false, loaded := true, lockHeld := false, wIn := s.wIn - 1 }
    else none
  | .loadDone =>
    if s.loadWriting || s.loaded then none else some { s with loaded := true }
  | .readBegin =>
    if c.readGuard && s.reading then none
    else some { s with reading := true, rIn := s.rIn + 1 }
  | .readEnd =>
    if s.rIn = 0 then none else some { s with reading := false, rIn := s.rIn - 1 }

def State.init : State := {}

/-- Run a schedule; `none` as soon as an action is not enabled. -/
def exec (c : Cfg) : State → List Action → Option State
  | s, [] => some s
  | s, a :: as => match step c s a with
    | some s' => exec c s' as
    | none => none

/-- States reachable by any interleaving of enabled actions. -/
inductive Reachable (c : Cfg) : State → Prop
  | init : Reachable c State.init
  | step {s s' : State} (a : Action) : Reachable c s → step c s a = some s' → Reachable c s'

/-- The entry the writer has dequeued but not yet handed to the driver. -/
def held (s : State) : List Entry := match s.pc with | .lockWait e => [e] | _ => []

/-- The queued write that is inside the driver. -/
def inFlight (s : State) : List Entry := match s.pc with | .writing e => [e] | _ => []

def dropped (s : State) : List Entry := s.drops.map (·.e)

/-- Nothing is queued and the writer task holds no entry. -/
def quiescent (s : State) : Prop := s.queue = [] ∧ (s.pc = .idle ∨ s.pc = .confirming)

/-! ### Several ports: each port has its own configuration and state; an action names its port. -/

abbrev Sys := List (Cfg × State)

def sysStep (σ : Sys) (p : Nat) (a : Action) : Option Sys :=
  match σ[p]? with
  | none => none
  | some (c, s) => (step c s a).map (fun s' => σ.set p (c, s'))

inductive SysReachable (cfgs : List Cfg) : Sys → Prop
  | init : SysReachable cfgs (cfgs.map (fun c => (c, State.init)))
  | step {σ σ' : Sys} (p : Nat) (a : Action) : SysReachable cfgs σ → sysStep σ p a = some σ' → SysReachable cfgs σ'

/-! ### The transform stage in front of the queue (`transform_and_write_value`)

A call of the public `transform_and_write_value` first evaluates the port's write transform — which suspends the
caller for a number of loop iterations that depends on the value (function arguments are gathered, `IF` is lazy) — and
only then queues the value (`submit`). Repaired code (fixes/C14-submit-order-lock.diff, `fair = true`): the transform
and the enqueue happen inside `async with self._submit_lock` — taken by EVERY call, whether or not a transform is set —,
an asyncio.Lock hands over in FIFO order, so the callers leave the stage in call order (`pass`). Code before that fix
(`fair = false`): any caller whose evaluation happens to finish first is queued first (`jump i`). A caller whose
transform cannot be evaluated leaves without queueing (`pass false`).

The `transform_write` attribute can be set, changed and cleared (`setTr`, `attr_set_transform_write`) at any moment,
also between and during submissions. The code reads it (`if self._transform_write: … self._transform_write.eval(…)`)
in the atomic stretch in which the caller gets the submit lock: at the call itself when nobody holds or waits for the
lock (`enter` on an empty stage), otherwise when the caller, woken by the release of its predecessor, runs again
(`acquire`). What is evaluated — and queued — is that transform applied to the submitted value; with no transform
(`0`) the value is queued as it is (`applied`). Transforms are numbered; `xf k v` is the value of transform `k` on `v`
(a parameter: every theorem holds for every `xf`). -/

structure Call where
  id  : Nat
  val : Int          -- the value submitted (before the write transform)
  tr  : Nat := 0     -- `transform_write` at the moment of the call (what the code before the fix evaluated)
  deriving DecidableEq, Repr

/-- A call that has left the stage: the transform it evaluated and whether its value was queued. -/
structure Passed where
  call : Call
  tr   : Nat
  ok   : Bool
  deriving DecidableEq, Repr

/-- `if self._transform_write: value = transform(value)`: no transform (0) leaves the value as submitted. -/
def applied (xf : Nat → Int → Int) (k : Nat) (v : Int) : Int := if k = 0 then v else xf k v

/-- The value a call that left the stage has queued (if `ok`). -/
def Passed.queuedVal (xf : Nat → Int → Int) (p : Passed) : Int := applied xf p.tr p.call.val

structure TState where
  stage   : List Call := []             -- callers holding or waiting for the submit lock, in call order
  acq     : Option Nat := none          -- the head of the stage holds the lock and evaluates this transform
                                        -- (`none`: the stage is empty, or its head was handed the lock but has not run yet)
  tr      : Nat := 0                    -- the port's `transform_write` attribute (0 = not set)
  port    : State := {}
  nextId  : Nat := 0
  entered : List Call := []             -- ghost: every call, in call order
  passed  : List Passed := []           -- ghost: calls that left the stage, in that order
  deriving Repr

inductive TAction
  | enter (v : Int)
  | acquire
  | pass (ok : Bool)
  | jump (i : Nat)
  | setTr (k : Nat)
  | port (a : Action)
  deriving DecidableEq, Repr

def tstep (fair : Bool) (xf : Nat → Int → Int) (c : Cfg) (t : TState) : TAction → Option TState
  | .enter v =>
    let k : Call := ⟨t.nextId, v, t.tr⟩
    some { t with stage := t.stage ++ [k], nextId := t.nextId + 1, entered := t.entered ++ [k],
                  acq := if t.stage.isEmpty then some t.tr else t.acq }
  | .acquire =>
    match t.stage, t.acq with
    | _ :: _, none => some { t with acq := some t.tr }
    | _, _ => none
  | .pass ok =>
    match t.stage, t.acq with
    | k :: rest, some tk =>
      if ok then
        (step c t.port (.submit (applied xf tk k.val))).map fun p =>
          { t with stage := rest, acq := none, port := p, passed := t.passed ++ [⟨k, tk, true⟩] }
      else some { t with stage := rest, acq := none, passed := t.passed ++ [⟨k, tk, false⟩] }
    | _, _ => none
  | .jump i =>
    if fair then none else
    match t.stage[i]? with
    | none => none
    | some k =>
      (step c t.port (.submit (applied xf k.tr k.val))).map fun p =>
        { t with stage := t.stage.eraseIdx i, acq := none, port := p, passed := t.passed ++ [⟨k, k.tr, true⟩] }
  | .setTr k => some { t with tr := k }
  | .port a =>
    match a with
    | .submit _ => none                  -- values reach the queue only through the stage
    | a => (step c t.port a).map fun p => { t with port := p }

def texec (fair : Bool) (xf : Nat → Int → Int) (c : Cfg) : TState → List TAction → Option TState
  | t, [] => some t
  | t, a :: as => match tstep fair xf c t a with
    | some t' => texec fair xf c t' as
    | none => none

inductive TReachable (fair : Bool) (xf : Nat → Int → Int) (c : Cfg) : TState → Prop
  | init : TReachable fair xf c {}
  | step {t t' : TState} (a : TAction) : TReachable fair xf c t → tstep fair xf c t a = some t' → TReachable fair xf c t'

end QtVerif.PortIO
