import QtVerif.Model.Slave
/-
Master restart for a PERMANENTLY OFFLINE slave (`Slave.is_permanently_offline()`: neither listened to nor polled — a
webhook-driven device that POSTs its events to /devices/<name>/events), property C13.

Mirrors

  SlavePort.prepare_for_save                       -> MPort.record     (what the persisted record holds)
  Slave.enable -> _load_ports -> _add_port -> SlavePort.__init__ + BasePort.load -> SlavePort.load_from_data
                                                   -> loadPort         (one port rebuilt from its record)
  slaves.devices.load (Slave(**entry), enable)     -> restartPermOffline

`load_from_data` uses the persisted attributes ONLY for permanently offline slaves (for a slave the master connects
to, the ports are re-created later by the refresh — known finding C13-restart-port-edits; not modelled here):

    attrs = data.get('attrs')
    if attrs and self._slave.is_permanently_offline():
        if 'value' in data: attrs['value'] = data['value']        # prepare_for_save always writes 'value'
        self.update_cached_attrs(attrs)                            # cache := attrs; the value is QUEUED (push_remote_value)
    …
    self._provisioning = set(data.get('provisioning', []))
    if 'value' in self._provisioning and 'value' in data:          # commit 8847295 (`restore`)
        self._cached_value = data['value']
    await self.update_enabled()

`restore = false` is the code between 6d69e21 and 8847295 (seeded change C13-r4-3): the pending value was only queued,
and `read_value` (since 6d69e21, `Fix.keepPendingValue`) no longer copies queued values into `_cached_value` while a
value is pending — the value to push is lost.

The record is taken from the port's state at the moment of the restart: every operation that changes what the record
holds saves the port (`write_value` offline: `await self.save()`; `patch_port`: `await port.save()`;
`apply_provisioning`: `await port.save()`; `_handle_value_change`: `save_asap`). The device-level data
(`attrs`, `webhooks`, `reverse`, `provisioning_*`) is persisted by `Slave.prepare_for_save` and given back to
`Slave.__init__`; the new object is neither online nor ready.
Core Lean only.
-/
namespace QtVerif.Slave

/-- What `SlavePort.prepare_for_save` writes, as far as `load_from_data` reads it back. -/
structure PortRec where
  id        : Nat
  attrs     : Attrs            -- 'attrs': _cached_attrs
  value     : PVal             -- 'value': _cached_value
  prov      : List Nat         -- 'provisioning' without 'value'
  provValue : Bool             -- 'value' ∈ 'provisioning'
  deriving Repr, DecidableEq

def MPort.record (p : MPort) : PortRec := ⟨p.id, p.attrs, p.cached, p.prov, p.provValue⟩

/-- `SlavePort.__init__` + `load_from_data` for a port of a permanently offline slave. A fresh port object: nothing
read yet (`_last_read_value` is None), the persisted value queued as a remote value, the pending names restored, and
— `restore` — the pending value put back into `_cached_value`. An empty `attrs` record is skipped (`if attrs and …`).
`update_enabled` enables the port when the cached attributes say so; the slave is not ready, so no value is fetched. -/
def loadPort (restore : Bool) (r : PortRec) : MPort :=
  let usable := !r.attrs.isEmpty
  { id := r.id,
    attrs := if usable then r.attrs else [],
    rq := if usable then [r.value] else [],
    cached := if restore && r.provValue then r.value else none,
    prov := r.prov, provValue := r.provValue, lastRead := none,
    enabled := usable && truthy r.attrs }

/-- A master restart seen from one permanently offline slave: every port is rebuilt from its record, in registry
order (`_load_ports` walks the persisted records); the device-level caches and pending sets come back from the
persisted `slaves` entry; the new `Slave` object is neither online nor ready. -/
def restartPermOffline (restore : Bool) (m : Master) : Master :=
  { m with ports := m.ports.map (fun p => loadPort restore p.record), online := false, ready := false }

end QtVerif.Slave
