/-
Abstract syntax of qToggle expressions, shared by the parser model (C03), the evaluator model (C02), the
dependency walk (C04) and the scheduler model (C01). Core Lean only.

Mirrors the class tree built by `qtoggleserver.core.expressions.parse`:
  LiteralValue(sexpression)          ↦ lit text        (text kept verbatim: `str(expr)` returns it unchanged)
  PortValue(port_id) / SelfPortValue ↦ portVal id / selfVal         (`$id` / `$`)
  PortRef(port_id)   / SelfPortRef   ↦ portRef id / selfRef         (`@id` / `@`)
  Function subclass NAME(args…)      ↦ call NAME args
-/
namespace QtVerif.Syntax

inductive Expr where
  | lit (text : String)
  | portVal (id : String)
  | selfVal
  | portRef (id : String)
  | selfRef
  | call (name : String) (args : List Expr)
  deriving Repr, Inhabited

mutual
/-- `str(expr)` of the real classes: `NAME(a, b)`, `$id`, `@id`, `$`, `@`, literal text verbatim. -/
def Expr.print : Expr → String
  | .lit t => t
  | .portVal id => "$" ++ id
  | .selfVal => "$"
  | .portRef id => "@" ++ id
  | .selfRef => "@"
  | .call n args => n ++ "(" ++ printArgs args ++ ")"
def printArgs : List Expr → String
  | [] => ""
  | [a] => a.print
  | a :: b :: rest => a.print ++ ", " ++ printArgs (b :: rest)
end

mutual
def Expr.size : Expr → Nat
  | .call _ args => 1 + sizeArgs args
  | _ => 1
def sizeArgs : List Expr → Nat
  | [] => 0
  | a :: rest => a.size + sizeArgs rest
end

mutual
/-- Ids of the ports whose *value* the expression reads (`PortValue._get_deps`, without the `$` prefix);
`selfId` is the port the expression is attached to (`SelfPortValue` reads it). -/
def Expr.portValueIds (selfId : String) : Expr → List String
  | .portVal id => [id]
  | .selfVal => [selfId]
  | .call _ args => argsPortValueIds selfId args
  | _ => []
def argsPortValueIds (selfId : String) : List Expr → List String
  | [] => []
  | a :: rest => a.portValueIds selfId ++ argsPortValueIds selfId rest
end

end QtVerif.Syntax
