/-
Numeric carrier of the expression evaluator model (C02; reusable by C01/C16/C17). Core Lean only.

Python values inside expressions are `bool | int (unbounded) | float (binary64)`.  `Val α` keeps the three apart,
generic in the carrier `α` of the floats.  `PyFloat α` lists the float-level primitives the `_eval` bodies of
`qtoggleserver/core/expressions/*.py` reach through Python's operators and builtins (`+ - * / % ** < <= ==`,
`int()`, `math.floor`, `math.ceil`, `round`, `abs`, `sum`), with Python's error outcomes made explicit
(`Crash` = a Python exception that is not an `ExpressionEvalError`).

* Structural theorems (laziness, failure propagation, frame, taxonomy) are proved for EVERY `α` and every instance.
* Per-function theorems are proved either on the integer fragment (exact for every `α`) or under explicit order laws.
* `instance : PyFloat Float` (second half of this file) is what the driver runs: `+ - * /` and comparisons are the
  machine's IEEE operations; everything where libm / language semantics could differ (int→float, int/int, `%`,
  `int()`, floor, ceil, `round(x, n)`, int↔float comparison) is computed exactly on the decoded mantissa/exponent and
  rounded once (half-even).  Only `pow` on positive finite bases calls libm (`Float.pow`, the same libm.so CPython uses).
-/
namespace QtVerif.Num

/-- Python exceptions outside `ExpressionEvalError` that the stateless functions can raise. -/
inductive Crash where
  | zeroDiv     -- ZeroDivisionError
  | valueErr    -- ValueError (int(nan), negative shift count)
  | overflow    -- OverflowError (int too large for float, int(inf), result too large)
  | typeErr     -- TypeError
  deriving DecidableEq, Repr, Inhabited

/-- Outcome of CPython's `float_pow`. -/
inductive PowOut (α : Type) where
  | val (x : α)
  | complex        -- negative base, non-integral exponent: Python returns a complex number
  | zeroDiv        -- 0.0 ** negative
  | overflow       -- libm reported ERANGE (result too large)

/-- Float-level primitives (binary64 in the driver). -/
class PyFloat (α : Type) where
  zero : α
  add : α → α → α
  sub : α → α → α
  mul : α → α → α
  /-- true division; only called with a non-zero divisor -/
  div : α → α → α
  neg : α → α
  abs : α → α
  lt : α → α → Bool
  le : α → α → Bool
  beq : α → α → Bool
  isFinite : α → Bool
  /-- `PyLong_AsDouble`: `none` = OverflowError -/
  ofInt : Int → Option α
  /-- exact comparison of a Python int with a float; `none` when the float is NaN -/
  cmpInt : Int → α → Option Ordering
  /-- `int(x)` -/
  trunc : α → Except Crash Int
  /-- `math.floor(x)` -/
  floor : α → Except Crash Int
  /-- `math.ceil(x)` -/
  ceil : α → Except Crash Int
  /-- `x % y` of two floats (CPython `float_rem`); only called with a non-zero divisor -/
  pyMod : α → α → α
  /-- `a / b` of two ints (correctly rounded); only called with `b ≠ 0`; `none` = OverflowError -/
  intDiv : Int → Int → Option α
  /-- `round(x, n)` of a float; `none` = OverflowError -/
  round : α → Int → Option α
  /-- `x ** y` of two floats -/
  pow : α → α → PowOut α

/-- A Python value of the expression language. -/
inductive Val (α : Type) where
  | b (v : Bool)
  | i (n : Int)
  | f (x : α)
  deriving Repr, Inhabited, DecidableEq

variable {α : Type}

/-- `bool ⊂ int`: the integer a bool/int value stands for in arithmetic. -/
def Val.int? : Val α → Option Int
  | .b v => some (if v then 1 else 0)
  | .i n => some n
  | .f _ => none

/-- Numeric view of a value: an exact integer (bool or int) or a float. -/
inductive NumV (α : Type) where
  | z (n : Int)
  | r (x : α)

def Val.num : Val α → NumV α
  | .b v => .z (if v then 1 else 0)
  | .i n => .z n
  | .f x => .r x

section ops
variable [PyFloat α]
open PyFloat

/-- Python truthiness (`if v:`, `bool(v)`, `not v`). NaN is truthy. -/
def truthy : Val α → Bool
  | .b v => v
  | .i n => n != 0
  | .f x => !(beq x (zero : α))

/-- Implicit int→float coercion of mixed arithmetic (`PyLong_AsDouble`, may raise OverflowError). -/
def toFloat : Val α → Except Crash α
  | .f x => .ok x
  | .b v => match ofInt (α := α) (if v then 1 else 0) with | some x => .ok x | none => .error .overflow
  | .i n => match ofInt (α := α) n with | some x => .ok x | none => .error .overflow

/-- `a ∘ b` for `+ - *`: int∘int stays int, anything with a float becomes float. -/
def arith (fi : Int → Int → Int) (ff : α → α → α) (a b : Val α) : Except Crash (Val α) :=
  match a.int?, b.int? with
  | some x, some y => .ok (.i (fi x y))
  | _, _ =>
    match toFloat a with
    | .error e => .error e
    | .ok x =>
      match toFloat b with
      | .error e => .error e
      | .ok y => .ok (.f (ff x y))

def vadd (a b : Val α) : Except Crash (Val α) := arith (· + ·) add a b
def vsub (a b : Val α) : Except Crash (Val α) := arith (· - ·) sub a b
def vmul (a b : Val α) : Except Crash (Val α) := arith (· * ·) mul a b

/-- `a / b` with `b` truthy (the caller checks). -/
def vdiv (a b : Val α) : Except Crash (Val α) :=
  match a.int?, b.int? with
  | some x, some y => match intDiv (α := α) x y with | some r => .ok (.f r) | none => .error .overflow
  | _, _ =>
    match toFloat a with
    | .error e => .error e
    | .ok x =>
      match toFloat b with
      | .error e => .error e
      | .ok y => .ok (.f (div x y))

/-- `a % b` with `b` truthy: floor-mod with the divisor's sign on ints, `float_rem` otherwise. -/
def vmod (a b : Val α) : Except Crash (Val α) :=
  match a.int?, b.int? with
  | some x, some y => .ok (.i (Int.fmod x y))
  | _, _ =>
    match toFloat a with
    | .error e => .error e
    | .ok x =>
      match toFloat b with
      | .error e => .error e
      | .ok y => .ok (.f (pyMod x y))

/-- `a < b` (never raises: int↔float comparison is exact in Python; anything against NaN is false). -/
def vlt (a b : Val α) : Bool :=
  match a.num, b.num with
  | .z m, .z n => decide (m < n)
  | .z m, .r y => cmpInt m y == some .lt
  | .r x, .z n => cmpInt n x == some .gt
  | .r x, .r y => lt x y

def vle (a b : Val α) : Bool :=
  match a.num, b.num with
  | .z m, .z n => decide (m ≤ n)
  | .z m, .r y => (cmpInt m y == some .lt || cmpInt m y == some .eq)
  | .r x, .z n => (cmpInt n x == some .gt || cmpInt n x == some .eq)
  | .r x, .r y => le x y

def veq (a b : Val α) : Bool :=
  match a.num, b.num with
  | .z m, .z n => decide (m = n)
  | .z m, .r y => cmpInt m y == some .eq
  | .r x, .z n => cmpInt n x == some .eq
  | .r x, .r y => beq x y

/-- `a > b` is the reflected `b < a`; `a >= b` the reflected `b <= a`. -/
def vgt (a b : Val α) : Bool := vlt b a
def vge (a b : Val α) : Bool := vle b a

/-- `int(v)` -/
def toInt : Val α → Except Crash Int
  | .b v => .ok (if v then 1 else 0)
  | .i n => .ok n
  | .f x => trunc x

/-- `math.floor(v)` / `math.ceil(v)` (ints and bools are their own floor). -/
def vfloor : Val α → Except Crash Int
  | .f x => floor x
  | v => toInt v
def vceil : Val α → Except Crash Int
  | .f x => ceil x
  | v => toInt v

/-- `abs(v)` (`abs(True)` is the int 1). -/
def vabs : Val α → Val α
  | .b v => .i (if v then 1 else 0)
  | .i n => .i (if n < 0 then -n else n)
  | .f x => .f (abs x)

/-- Round-half-even division to the nearest multiple: `round(n, -k)` of a Python int (`_PyLong_DivmodNear`). -/
def roundIntTo (n : Int) (m : Nat) : Int :=
  if m = 0 then n else
  let q := n / (m : Int)          -- floor (m > 0)
  let r := n - q * (m : Int)      -- 0 ≤ r < m
  let up := decide (2 * r > (m : Int)) || (decide (2 * r = (m : Int)) && decide (q % 2 = 1))
  (if up then q + 1 else q) * (m : Int)

/-- `round(v, n)` with an int `n`. -/
def vround (v : Val α) (n : Int) : Except Crash (Val α) :=
  match v with
  | .f x => match round x n with | some r => .ok (.f r) | none => .error .overflow
  | v =>
    match v.int? with
    | some k => .ok (.i (if n ≥ 0 then k else roundIntTo k (10 ^ (-n).toNat)))
    | none => .error .typeErr

/-! ### Python ints: bitwise operators (two's complement on unbounded ints) -/

def iand : Int → Int → Int
  | .ofNat a, .ofNat b => Int.ofNat (a &&& b)
  | .ofNat a, .negSucc b => Int.ofNat (a ^^^ (a &&& b))          -- a & ~b
  | .negSucc a, .ofNat b => Int.ofNat (b ^^^ (a &&& b))          -- ~a & b
  | .negSucc a, .negSucc b => Int.negSucc (a ||| b)              -- ~a & ~b = ~(a | b)

def ior : Int → Int → Int
  | .ofNat a, .ofNat b => Int.ofNat (a ||| b)
  | .ofNat a, .negSucc b => Int.negSucc (b ^^^ (a &&& b))        -- a | ~b = ~(b & ~a)
  | .negSucc a, .ofNat b => Int.negSucc (a ^^^ (a &&& b))        -- ~a | b = ~(a & ~b)
  | .negSucc a, .negSucc b => Int.negSucc (a &&& b)              -- ~a | ~b = ~(a & b)

def ixor : Int → Int → Int
  | .ofNat a, .ofNat b => Int.ofNat (a ^^^ b)
  | .ofNat a, .negSucc b => Int.negSucc (a ^^^ b)
  | .negSucc a, .ofNat b => Int.negSucc (a ^^^ b)
  | .negSucc a, .negSucc b => Int.ofNat (a ^^^ b)

/-- `~n = -n - 1` -/
def inot (n : Int) : Int := -n - 1

/-- `a << n` / `a >> n`: a negative count raises ValueError. -/
def ishl (a n : Int) : Except Crash Int :=
  if n < 0 then .error .valueErr else .ok (a * (2 : Int) ^ n.toNat)
def ishr (a n : Int) : Except Crash Int :=
  if n < 0 then .error .valueErr else .ok (a / (2 : Int) ^ n.toNat)

/-! ### `**` -/

/-- `a ** b` (`long_pow` / `float_pow`). `complex` is reported to the caller, which decides what it means. -/
inductive VPow (α : Type) where
  | ok (v : Val α)
  | crash (k : Crash)
  | complex
  deriving DecidableEq

def vpow (a b : Val α) : VPow α :=
  let viaFloat : VPow α :=
    match toFloat a with
    | .error e => .crash e
    | .ok x =>
      match toFloat b with
      | .error e => .crash e
      | .ok y =>
        match pow x y with
        | .val r => .ok (.f r)
        | .complex => .complex
        | .zeroDiv => .crash .zeroDiv
        | .overflow => .crash .overflow
  match a.int?, b.int? with
  | some x, some y => if y ≥ 0 then .ok (.i (x ^ y.toNat)) else viaFloat
  | _, _ => viaFloat

/-! ### builtin `sum()` (CPython 3.12: C-long fast path, Neumaier-compensated float path, generic path) -/

/-- State of CPython's `builtin_sum` loop. -/
inductive SumSt (α : Type) where
  | fast (acc : Int)          -- `i_result` in a C long
  | flt (f c : α)             -- `f_result`, compensation `c`
  | gen (acc : Val α)         -- generic `PyNumber_Add` loop
  | fail (k : Crash)

def longMax : Int := 9223372036854775807
def longMin : Int := -9223372036854775808
def fitsLong (n : Int) : Bool := decide (longMin ≤ n) && decide (n ≤ longMax)

/-- leaving the float loop: `if (c && isfinite(c)) f_result += c` -/
def applyComp (f c : α) : α := if !(beq c (zero : α)) && isFinite c then add f c else f

def sumStep (s : SumSt α) (v : Val α) : SumSt α :=
  match s with
  | .fail k => .fail k
  | .gen acc => match vadd acc v with | .ok r => .gen r | .error e => .fail e
  | .fast acc =>
    match v.int? with
    | some n =>
      if fitsLong n && fitsLong (acc + n) then .fast (acc + n)
      else .gen (.i (acc + n))
    | none =>
      match vadd (.i acc) v with
      | .ok (.f x) => .flt x (zero : α)
      | .ok r => .gen r
      | .error e => .fail e
  | .flt f c =>
    match v with
    | .f x =>
      let t := add f x
      let c' := if le (abs x) (abs f) then add c (add (sub f t) x) else add c (add (sub x t) f)
      .flt t c'
    | v =>
      match v.int? with
      | some n =>
        if fitsLong n then
          match ofInt (α := α) n with
          | some x => .flt (add f x) c
          | none => .fail .overflow
        else
          match vadd (.f (applyComp f c)) v with
          | .ok r => .gen r
          | .error e => .fail e
      | none => .fail .typeErr

def sumDone : SumSt α → Except Crash (Val α)
  | .fast acc => .ok (.i acc)
  | .flt f c => .ok (.f (applyComp f c))
  | .gen acc => .ok acc
  | .fail k => .error k

/-- `sum(vs)` -/
def pySum (vs : List (Val α)) : Except Crash (Val α) := sumDone (vs.foldl sumStep (.fast 0))

end ops

/-! ## binary64 instance (exact where libm / the language could differ) -/
namespace F64

/-- A finite double: `(-1)^neg · m · 2^e`. -/
structure Dy where
  neg : Bool
  m : Nat
  e : Int

def decode (x : Float) : Option Dy :=
  let b := x.toBits.toNat
  let s := (b >>> 63) == 1
  let ex := (b >>> 52) % 2048
  let fr := b % 4503599627370496          -- 2^52
  if ex == 2047 then none
  else if ex == 0 then some ⟨s, fr, -1074⟩
  else some ⟨s, fr + 4503599627370496, (ex : Int) - 1075⟩

def signBit (x : Float) : Bool := (x.toBits.toNat >>> 63) == 1

/-- Bits of the double nearest (ties to even) to `n / d` (`d > 0`), or `none` if that is `≥ 2^1024`. -/
def encodePos (n d : Nat) : Option Nat :=
  if n == 0 then some 0 else
  let l : Int := (n.log2 : Int) - (d.log2 : Int)
  let ge : Bool := if l ≥ 0 then decide (n ≥ d * 2 ^ l.toNat) else decide (n * 2 ^ (-l).toNat ≥ d)
  let lg : Int := if ge then l else l - 1             -- floor(log2(n/d))
  let q : Int := if lg - 52 < -1074 then -1074 else lg - 52
  let num : Nat := if q ≥ 0 then n else n * 2 ^ (-q).toNat
  let den : Nat := if q ≥ 0 then d * 2 ^ q.toNat else d
  let k := num / den
  let r := num % den
  let k' := if 2 * r > den || (2 * r == den && k % 2 == 1) then k + 1 else k
  let bits := k' + (q + 1074).toNat * 4503599627370496
  if bits ≥ 0x7ff0000000000000 then none else some bits

def ofBitsNat (neg : Bool) (bits : Nat) : Float :=
  Float.ofBits (UInt64.ofNat (if neg then bits + 0x8000000000000000 else bits))

/-- Correctly rounded `±n/d`; `none` on overflow. -/
def ofRat (neg : Bool) (n d : Nat) : Option Float := (encodePos n d).map (ofBitsNat neg)

def ofInt (n : Int) : Option Float := ofRat (decide (n < 0)) n.natAbs 1

/-- exact value of a finite double as `num / 2^k` or `num * 2^k` -/
def Dy.toInt (d : Dy) (roundUpMagnitude : Bool) : Int :=
  let a : Nat :=
    if d.e ≥ 0 then d.m * 2 ^ d.e.toNat
    else
      let p := 2 ^ (-d.e).toNat
      if roundUpMagnitude && d.m % p != 0 then d.m / p + 1 else d.m / p
  if d.neg then -(a : Int) else (a : Int)

def nonFinite (x : Float) : Crash := if x.isNaN then .valueErr else .overflow

def trunc (x : Float) : Except Crash Int :=
  match decode x with
  | none => .error (nonFinite x)
  | some d => .ok (d.toInt false)

def floor (x : Float) : Except Crash Int :=
  match decode x with
  | none => .error (nonFinite x)
  | some d => .ok (d.toInt d.neg)         -- negative: magnitude rounds up

def ceil (x : Float) : Except Crash Int :=
  match decode x with
  | none => .error (nonFinite x)
  | some d => .ok (d.toInt (!d.neg))

def cmpInt (n : Int) (x : Float) : Option Ordering :=
  if x.isNaN then none else
  match decode x with
  | none => some (if signBit x then .gt else .lt)
  | some d =>
    let xv : Int := if d.neg then -(d.m : Int) else (d.m : Int)
    if d.e ≥ 0 then some (compare n (xv * (2 : Int) ^ d.e.toNat))
    else some (compare (n * (2 : Int) ^ (-d.e).toNat) xv)

/-- C `fmod` on finite `x`, finite non-zero `y`: exact, sign of `x`. -/
def fmodFinite (dx dy : Dy) : Float :=
  let e := if dx.e ≤ dy.e then dx.e else dy.e
  let X := dx.m * 2 ^ (dx.e - e).toNat
  let Y := dy.m * 2 ^ (dy.e - e).toNat
  let R := X % Y
  -- R · 2^e is exactly representable (R < Y)
  let r := if e ≥ 0 then ofRat dx.neg (R * 2 ^ e.toNat) 1 else ofRat dx.neg R (2 ^ (-e).toNat)
  match r with
  | some v => v
  | none => 0.0 / 0.0

def nan : Float := 0.0 / 0.0

/-- CPython `float_rem` (divisor non-zero). -/
def pyMod (x y : Float) : Float :=
  let m : Float :=
    if x.isNaN || y.isNaN then nan
    else match decode x, decode y with
      | none, _ => nan                      -- fmod(±inf, y)
      | some _, none => x                   -- fmod(x, ±inf) = x
      | some dx, some dy => if dy.m == 0 then nan else fmodFinite dx dy
  if m != 0.0 then                          -- `if (mod)` (NaN is truthy)
    if (y < 0.0) != (m < 0.0) then m + y else m
  else
    if signBit y then -0.0 else 0.0

def intDiv (a b : Int) : Option Float :=
  if b == 0 then none else ofRat (decide (a < 0) != decide (b < 0)) a.natAbs b.natAbs

/-- `round(x, n)` (CPython `float___round___impl` + `double_round`: correctly rounded decimal rounding, half-even
on the exact binary value, then correctly rounded back). -/
def round (x : Float) (n : Int) : Option Float :=
  match decode x with
  | none => some x
  | some d =>
    if n > 323 then some x
    else if n < -308 then some (0.0 * x)
    else
      -- exact x = d.m · 2^d.e = P / Q
      let P : Nat := if d.e ≥ 0 then d.m * 2 ^ d.e.toNat else d.m
      let Q : Nat := if d.e ≥ 0 then 1 else 2 ^ (-d.e).toNat
      -- y = x · 10^n = P' / Q'
      let P' := if n ≥ 0 then P * 10 ^ n.toNat else P
      let Q' := if n ≥ 0 then Q else Q * 10 ^ (-n).toNat
      let k := P' / Q'
      let r := P' % Q'
      let k' := if 2 * r > Q' || (2 * r == Q' && k % 2 == 1) then k + 1 else k
      -- result k' / 10^n
      if n ≥ 0 then ofRat d.neg k' (10 ^ n.toNat) else ofRat d.neg (k' * 10 ^ (-n).toNat) 1

def isOddInteger (y : Float) : Bool :=
  match decode y with
  | none => false
  | some d =>
    if d.e > 0 then false
    else if d.e == 0 then d.m % 2 == 1
    else
      let p := 2 ^ (-d.e).toNat
      d.m % p == 0 && (d.m / p) % 2 == 1

def isInteger (y : Float) : Bool :=
  match decode y with
  | none => false
  | some d => if d.e ≥ 0 then true else d.m % (2 ^ (-d.e).toNat) == 0

/-- CPython `float_pow`. -/
def pow (v w : Float) : PowOut Float :=
  if w == 0.0 then .val 1.0
  else if v.isNaN then .val v
  else if w.isNaN then .val (if v == 1.0 then 1.0 else w)
  else if w.isInf then
    let a := v.abs
    if a == 1.0 then .val 1.0
    else if (w > 0.0) == (a > 1.0) then .val w.abs
    else .val 0.0
  else if v.isInf then
    let odd := isOddInteger w
    if w > 0.0 then .val (if odd then v else v.abs)
    else .val (if odd then (if signBit v then -0.0 else 0.0) else 0.0)
  else if v == 0.0 then
    if w < 0.0 then .zeroDiv
    else .val (if isOddInteger w then v else 0.0)
  else
    let go (base : Float) (negate : Bool) : PowOut Float :=
      if base == 1.0 then .val (if negate then -1.0 else 1.0)
      else
        let r := Float.pow base w
        if r.isInf then .overflow           -- finite operands: libm sets ERANGE
        else .val (if negate then -r else r)
    if v < 0.0 then
      if !(isInteger w) then
        -- complex power `_Py_c_pow`: modulus `pow(|v|, w)`; an infinite modulus is "OverflowError: complex exponentiation"
        if (Float.pow (-v) w).isInf then .overflow else .complex
      else go (-v) (isOddInteger w)
    else go v false

instance : PyFloat Float where
  zero := 0.0
  add := (· + ·)
  sub := (· - ·)
  mul := (· * ·)
  div := (· / ·)
  neg := Float.neg
  abs := Float.abs
  lt := fun a b => a < b
  le := fun a b => a ≤ b
  beq := fun a b => a == b
  isFinite := Float.isFinite
  ofInt := ofInt
  cmpInt := cmpInt
  trunc := trunc
  floor := floor
  ceil := ceil
  pyMod := pyMod
  intDiv := intDiv
  round := round
  pow := pow

end F64

end QtVerif.Num
