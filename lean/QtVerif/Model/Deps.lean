import QtVerif.Model.Syntax
/-
Model of the expression dependency check of qtoggleserver for property C04.

Mirrors:
  core/expressions/__init__.py  check_loops / check_loops_rec (39-73)      -> visit / walkE / walkL / walk / checkLoops
  core/ports.py                 BasePort.attr_set_expression (588-620)     -> assign / clear
  core/ports.py                 load (registers, then loads one by one), BasePort.remove, enable / disable
                                                                           -> addPort / removePort / setEnabled / reload
  core/api/funcs/ports.py       put_ports (restore a backup)                -> restoreEntry / restoreLoop / restore /
                                                                              remaining / restoreOver (driver ports remain)
  core/api/funcs/ports.py       patch_port / post_ports / delete_port      -> step (order of the checks: port lookup, parse,
                                                                              loop check, install)

The hub is the ordered registry `core.ports._ports_by_id` (a dict: lookup by id, iteration in insertion order).
Expressions arrive already parsed (the text -> tree step is property C03); a text the real parser refuses is the
argument `none` of `assign`.  `SelfPortValue` (`$`) is a `PortValue` whose port id is the id of the port the expression
was parsed for, hence the `owner` argument of the walk.

The recursion of `check_loops_rec` has no bound in Python; here the descent into another port's expression consumes
one unit of `fuel`, running out of fuel is an explicit result (`none` / `Verdict.fuel`), and `Proofs/Deps.lean`
shows that it never happens with the fuel `checkLoops` hands out (and that any larger fuel gives the same result).
Core Lean only.
-/
namespace QtVerif.Deps
open QtVerif.Syntax

structure PortEntry where
  id      : String
  enabled : Bool
  expr    : Option Expr          -- BasePort._expression
  deriving Inhabited

structure Hub where
  ports : List PortEntry         -- core.ports._ports_by_id, insertion order

def Hub.empty : Hub := ⟨[]⟩

/-- `core.ports.get(port_id)` -/
def Hub.get (h : Hub) (id : String) : Option PortEntry := h.ports.find? (fun p => p.id == id)

/-- Apply `f` (which keeps the id) to the port registered under `id`. -/
def Hub.modify (h : Hub) (id : String) (f : PortEntry → PortEntry) : Hub :=
  ⟨h.ports.map fun p => if p.id == id then f p else p⟩

def Hub.setExpr (h : Hub) (id : String) (e : Option Expr) : Hub := h.modify id fun p => { p with expr := e }

/-- Result of the walk: `none` = out of fuel (never happens, see `walk_total`);
`some (lv, seen')` = value returned by `check_loops_rec` and the `seen_ports` set afterwards. -/
abbrev Res := Option (Nat × List String)

/-- The `isinstance(e, PortValue)` branch of `check_loops_rec` for the port id `id`;
`enter seen level owner e` is the recursive call on that port's own expression. -/
def visit (h : Hub) (target : String) (enter : List String → Nat → String → Expr → Res)
    (seen : List String) (level : Nat) (id : String) : Res :=
  match h.get id with
  | none => some (0, seen)                                   -- p = e.get_port(); if not p: return 0
  | some p =>
    if id = target ∧ 1 < level then some (level, seen)       -- if port is p and level > 1: return level
    else if id ∈ seen then some (0, seen)                    -- if p in seen_ports: return 0
    else                                                     -- seen_ports.add(p)
      match p.expr with                                      -- expr = p.get_expression()
      | none => some (0, id :: seen)                         -- (no expression) return 0
      | some e => enter (id :: seen) (level + 1) id e        -- lv = rec(level + 1, expr); if lv: return lv; return 0

mutual
/-- `check_loops_rec(level, e)` with the recursion into other ports' expressions abstracted as `enter`. -/
def walkE (h : Hub) (target : String) (enter : List String → Nat → String → Expr → Res) :
    List String → Nat → String → Expr → Res
  | seen, level, _, .portVal id => visit h target enter seen level id
  | seen, level, owner, .selfVal => visit h target enter seen level owner       -- SelfPortValue is a PortValue
  | seen, level, owner, .call _ args => walkL h target enter seen level owner args
  | seen, _, _, .lit _ => some (0, seen)                                          -- return 0
  | seen, _, _, .portRef _ => some (0, seen)                                      -- PortRef is not a PortValue
  | seen, _, _, .selfRef => some (0, seen)
/-- `for arg in e.args: lv = rec(level, arg); if lv: return lv` … `return 0` -/
def walkL (h : Hub) (target : String) (enter : List String → Nat → String → Expr → Res) :
    List String → Nat → String → List Expr → Res
  | seen, _, _, [] => some (0, seen)
  | seen, level, owner, a :: rest =>
    match walkE h target enter seen level owner a with
    | none => none
    | some (lv, seen') => if lv ≠ 0 then some (lv, seen') else walkL h target enter seen' level owner rest
end

/-- `check_loops_rec` with at most `fuel - 1` nested descents into port expressions. -/
def walk (h : Hub) (target : String) : Nat → List String → Nat → String → Expr → Res
  | 0 => fun _ _ _ _ => none
  | f + 1 => walkE h target (walk h target f)

inductive Verdict
  | ok | loop | fuel
  deriving DecidableEq, Repr

/-- `check_loops(port, expression)`: `seen_ports = {port}`; `if rec(1, expression) > 1: raise CircularDependency`. -/
def checkLoops (h : Hub) (port : String) (e : Expr) : Verdict :=
  match walk h port (h.ports.length + 1) [port] 1 port e with
  | none => .fuel
  | some (lv, _) => if 1 < lv then .loop else .ok

inductive Outcome
  | ok             -- 204
  | noSuchPort     -- 404 no-such-port
  | duplicatePort  -- 400 duplicate-port
  | parseError     -- 400 invalid-field, reason ≠ circular-dependency
  | circular       -- 400 invalid-field, reason circular-dependency
  | fuel           -- model artefact, unreachable
  | notRemovable   -- 400 port-not-removable (DELETE of a port that is not a virtual port)
  deriving DecidableEq, Repr

/-- `PATCH /ports/{id} {"expression": <non-empty text>}`: port lookup (404), `parse` (raises ⇒ refused), `check_loops`
(raises ⇒ refused), and only then `self._expression = expression`. Every refusal leaves the hub as it was. -/
def assign (h : Hub) (id : String) (parsed : Option Expr) : Hub × Outcome :=
  match h.get id with
  | none => (h, .noSuchPort)
  | some _ =>
    match parsed with
    | none => (h, .parseError)
    | some e =>
      match checkLoops h id e with
      | .loop => (h, .circular)
      | .fuel => (h, .fuel)
      | .ok => (h.setExpr id (some e), .ok)

/-- `PATCH /ports/{id} {"expression": ""}`: `self._expression = None`, no parse, no check. -/
def clear (h : Hub) (id : String) : Hub × Outcome :=
  match h.get id with
  | none => (h, .noSuchPort)
  | some _ => (h.setExpr id none, .ok)

/-- `core.ports.load`, first phase: the port object is created and registered at the end of `_ports_by_id`, without
expression. -/
def register (h : Hub) (id : String) (enabled : Bool) : Hub := ⟨h.ports ++ [⟨id, enabled, none⟩]⟩

/-- `POST /ports`: a fresh virtual port, registered at the end of `_ports_by_id`, nothing persisted under its id
(removal deleted it), enabled by `add_virtual_port`. -/
def addPort (h : Hub) (id : String) : Hub × Outcome :=
  match h.get id with
  | some _ => (h, .duplicatePort)
  | none => (register h id true, .ok)

/-- `DELETE /ports/{id}`: `_ports_by_id.pop(id)`; the expressions of the other ports are left alone. -/
def removePort (h : Hub) (id : String) : Hub × Outcome :=
  match h.get id with
  | none => (h, .noSuchPort)
  | some _ => (⟨h.ports.filter fun p => !(p.id == id)⟩, .ok)

/-- `PATCH /ports/{id} {"enabled": v}`. `enable()` re-parses `str(self._expression)` for the same port id and installs
the result without a loop check; the printed text of a parsed expression parses back to the same tree, so the
expression is unchanged (the harness compares the expression after every enable). -/
def setEnabled (h : Hub) (id : String) (v : Bool) : Hub × Outcome :=
  match h.get id with
  | none => (h, .noSuchPort)
  | some _ => (h.modify id fun p => { p with enabled := v }, .ok)

/-- One persisted port being loaded: `load_from_data` → `set_attr('expression', text)`; a failure is logged and swallowed. -/
def loadOne (acc : Hub) (p : PortEntry) : Hub :=
  match p.expr with
  | none => acc
  | some e => (assign acc p.id (some e)).1

/-- Restart: `core.ports.load(all_port_args())` creates and registers all ports (no expression yet), then loads them one
by one in registration order, each persisted expression going through `attr_set_expression` again. -/
def reload (h : Hub) : Hub :=
  h.ports.foldl loadOne ⟨h.ports.map fun p => { p with expr := none }⟩

/-- The `expression` attribute of one entry of a `PUT /ports` body. -/
inductive ExprAttr
  | absent                          -- no "expression" key
  | empty                           -- ""
  | text (parsed : Option Expr)     -- non-empty text; `none` = the parser refuses it

/-- One entry of a `PUT /ports` (restore backup) body describing a local virtual port. -/
structure Entry where
  id      : String
  enabled : Option Bool             -- the "enabled" key, when present
  expr    : ExprAttr

/-- Body of the loop of `put_ports` for one entry: the port is looked up; when it does not exist it is added as a
virtual port (enabled); then the supplied attributes are set (`set_port_attrs`: all of them are applied, the first
error is reported). -/
def restoreEntry (h : Hub) (en : Entry) : Hub × Outcome :=
  let h1 := (addPort h en.id).1
  let h2 := match en.enabled with
    | some v => (setEnabled h1 en.id v).1
    | none => h1
  match en.expr with
  | .absent => (h2, .ok)
  | .empty => clear h2 en.id
  | .text parsed => assign h2 en.id parsed

/-- `for attrs in params:` of `put_ports`; an error aborts the restore where it is. -/
def restoreLoop (h : Hub) : List Entry → Hub × Outcome
  | [] => (h, .ok)
  | en :: rest =>
    match restoreEntry h en with
    | (h', .ok) => restoreLoop h' rest
    | (h', o) => (h', o)

/-- `PUT /ports` on a hub whose ports are all local virtual ports: every one of them is removed (with its persisted
data), then the entries are restored in order. (The general case, with driver ports that remain, is `restoreOver`.) -/
def restore (_h : Hub) (entries : List Entry) : Hub × Outcome := restoreLoop Hub.empty entries

/-- What is left of the hub when `put_ports` starts applying the entries: the virtual ports are removed; every port
that remains (`keep`: the ids of the non-virtual, driver-supplied ports) goes through `port.reset()` (enabled flag
untouched) and `set_attr('expression', '')` — its expression belongs to the configuration being replaced and is
cleared, whether or not the backup supplies a new one. -/
def remaining (keep : List String) (h : Hub) : Hub :=
  ⟨(h.ports.filter fun p => keep.contains p.id).map fun p => { p with expr := none }⟩

/-- `PUT /ports` in general: the ports that remain are blanked first, then the entries are applied in document order,
each expression through the checked assignment; an entry naming a port that remains re-uses it (`addPort` answers
duplicate-port and leaves the hub alone). -/
def restoreOver (keep : List String) (h : Hub) (entries : List Entry) : Hub × Outcome :=
  restoreLoop (remaining keep h) entries

inductive Op
  | assign (id : String) (parsed : Option Expr)
  | clear (id : String)
  | addPort (id : String)
  | removePort (id : String)
  | setEnabled (id : String) (v : Bool)
  | reload
  | restore (entries : List Entry)

def step (h : Hub) : Op → Hub × Outcome
  | .assign id parsed => assign h id parsed
  | .clear id => clear h id
  | .addPort id => addPort h id
  | .removePort id => removePort h id
  | .setEnabled id v => setEnabled h id v
  | .reload => (reload h, .ok)
  | .restore entries => restore h entries

/-- The hub after a history of operations (whatever their outcomes). -/
def run (h : Hub) (ops : List Op) : Hub := ops.foldl (fun acc op => (step acc op).1) h

/-! ### Ports that are absent while their persisted record is kept

`BasePort.remove(persisted_data=False)` (hub stop, a peripheral going away) unregisters a port but keeps its persisted
record; `core.ports.load` for that id later registers it again and feeds the record through `load_from_data` →
`set_attr('expression', …)` → `attr_set_expression` → `check_loops`. Meanwhile the other ports may have been given
expressions referring to the absent id (an unregistered id is a dead end for the walk), so the record can hold the
other half of a cycle: it must be — and is — checked again when it is loaded. -/

structure Sys where
  hub : Hub := Hub.empty
  stash : List PortEntry := []       -- persisted records of the ports that are not registered, newest first
  statics : List String := []        -- ids of the non-virtual (driver) ports: DELETE refuses them, PUT /ports keeps them

def Sys.record (s : Sys) (id : String) : Option PortEntry := s.stash.find? fun p => p.id == id
def Sys.dropRecord (s : Sys) (id : String) : List PortEntry := s.stash.filter fun p => !(p.id == id)

/-- `core.ports.load([args of r.id])`: register, then `port.load()` = the persisted expression through the checked
assignment (a refusal is logged and swallowed: the port comes back without expression). -/
def loadRecord (h : Hub) (r : PortEntry) (enabled : Bool) : Hub := loadOne (register h r.id enabled) r

inductive SOp
  | hub (op : Op)
  | unload (id : String)      -- save, then remove(persisted_data=False)
  | load (id : String)        -- core.ports.load for an absent port that has a persisted record
  | addStatic (id : String)   -- core.ports.load of a driver (non-virtual) port, as the hub does at start-up

/-- `POST /ports`: when a persisted record exists under that id it is loaded (and the port is then enabled). -/
def sAdd (s : Sys) (id : String) : Sys × Outcome :=
  match s.hub.get id with
  | some _ => (s, .duplicatePort)
  | none =>
    match s.record id with
    | none => ({ s with hub := (addPort s.hub id).1 }, .ok)
    | some r => ({ s with hub := loadRecord s.hub r true, stash := s.dropRecord id }, .ok)

def sUnload (s : Sys) (id : String) : Sys × Outcome :=
  match s.hub.get id with
  | none => (s, .noSuchPort)
  | some p => ({ s with hub := (removePort s.hub id).1, stash := p :: s.dropRecord id }, .ok)

def sLoad (s : Sys) (id : String) : Sys × Outcome :=
  match s.hub.get id with
  | some _ => (s, .duplicatePort)
  | none =>
    match s.record id with
    | none => (s, .noSuchPort)
    | some r => ({ s with hub := loadRecord s.hub r r.enabled, stash := s.dropRecord id }, .ok)

/-- `core.ports.load([{driver: <a Port subclass>, …}])`: a driver port is registered (disabled, without expression — or
with what its persisted record says, when one is kept) and remembered as non-virtual. -/
def sAddStatic (s : Sys) (id : String) : Sys × Outcome :=
  match s.hub.get id with
  | some _ => (s, .duplicatePort)
  | none =>
    let statics := if s.statics.contains id then s.statics else s.statics ++ [id]
    match s.record id with
    | none => ({ s with hub := register s.hub id false, statics := statics }, .ok)
    | some r => ({ hub := loadRecord s.hub r r.enabled, stash := s.dropRecord id, statics := statics }, .ok)

/-- `DELETE /ports/{id}`: 404 for an unknown id, 400 port-not-removable for a port that is not virtual. -/
def sRemove (s : Sys) (id : String) : Sys × Outcome :=
  match s.hub.get id with
  | none => (s, .noSuchPort)
  | some _ => if s.statics.contains id then (s, .notRemovable) else ({ s with hub := (removePort s.hub id).1 }, .ok)

def sstep (s : Sys) : SOp → Sys × Outcome
  | .hub (.addPort id) => sAdd s id
  | .hub .reload =>                           -- restart: registered ports first (registration order), then the absent ones
    ({ s with hub := reload ⟨s.hub.ports ++ s.stash⟩, stash := [] }, .ok)
  | .hub (.restore entries) =>                -- PUT /ports clears every persisted port record (core.ports.reset)
    ({ s with hub := (restoreOver s.statics s.hub entries).1, stash := [] }, (restoreOver s.statics s.hub entries).2)
  | .hub (.assign id parsed) => ({ s with hub := (assign s.hub id parsed).1 }, (assign s.hub id parsed).2)
  | .hub (.clear id) => ({ s with hub := (clear s.hub id).1 }, (clear s.hub id).2)
  | .hub (.removePort id) => sRemove s id
  | .hub (.setEnabled id v) => ({ s with hub := (setEnabled s.hub id v).1 }, (setEnabled s.hub id v).2)
  | .unload id => sUnload s id
  | .load id => sLoad s id
  | .addStatic id => sAddStatic s id

def srun (s : Sys) (ops : List SOp) : Sys := ops.foldl (fun acc op => (sstep acc op).1) s

end QtVerif.Deps
