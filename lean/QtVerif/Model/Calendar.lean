/-
Model of qtoggleserver/core/expressions/date.py for property C17 (calendar functions are consistent with the
local calendar). Core Lean only.

Layers
  1. proleptic Gregorian calendar on integers (`isLeap`, `monthLen`, days <-> civil date, weekday) — what
     CPython's `datetime` / `calendar` compute (`ymd_to_ord`, `ord_to_ymd`, `calendar.monthrange`);
  2. an abstract local time zone `Zone` (UTC offset in seconds as a function of the UTC instant — what libc's
     `localtime_r` reports as `tm_gmtoff`), `datetime.fromtimestamp`, and CPython's resolution of naive local
     datetimes (`local_to_seconds`, `datetime.timestamp()`, `datetime.astimezone()` of `_datetimemodule.c`);
  3. the functions of date.py, line by line: DateUnitFunction subclasses, MILLISECOND, DATE, BOY, BOM (month
     loop), BOW (midday trick, first-weekday shift, week loop over month lengths), BOD, HMSINTERVAL, MDINTERVAL.

The zone is a parameter: the harness extracts the transition table of the zone under test at run time and hands it
to the driver; every theorem is proved for an arbitrary `Zone` (under stated regularity hypotheses where local
time has to be resolved).

Not modelled: the `has_real_date_time()` guard (`EvalSkipped` on a system whose clock is before 2019 — the check runs
with a real clock), microseconds (date.py only handles whole seconds), failures of `localtime_r` itself, and
non-integral arguments (the code truncates them with `int()`; the harness passes integers).

`fixed` (BOW): `true` = repaired first-weekday shift `(weekday - s) % 7` (fixes/C17-bow-first-weekday.diff),
`false` = the shift `weekday + 7 - s` of the pinned commit (kept only for the counter-example theorem).
-/
namespace QtVerif.Calendar

/-! ## 1. Proleptic Gregorian calendar -/

/-- `calendar.isleap` -/
def isLeap (y : Int) : Bool := y % 4 == 0 && (y % 100 != 0 || y % 400 == 0)

/-- 1 in leap years, 0 otherwise (`month == February and isleap(year)` of `calendar.monthrange`). -/
def leapDay (y : Int) : Int := if isLeap y then 1 else 0

/-- `calendar.monthrange(y, m)[1]` for `1 ≤ m ≤ 12` (the callers keep `m` in range). -/
def monthLen (y m : Int) : Int :=
  if m = 2 then 28 + leapDay y
  else if m = 4 ∨ m = 6 ∨ m = 9 ∨ m = 11 then 30 else 31

def yearLen (y : Int) : Int := 365 + leapDay y

/-- Days before January 1st of year `y`, counted from 0001-01-01 (`days_before_year`). -/
def dby (y : Int) : Int := 365 * (y - 1) + (y - 1) / 4 - (y - 1) / 100 + (y - 1) / 400

/-- Days before the first of month `m` in a year with `f` leap days (`days_before_month`). -/
def dbmF (f m : Int) : Int :=
  if m ≤ 1 then 0 else if m = 2 then 31 else if m = 3 then 59 + f else if m = 4 then 90 + f
  else if m = 5 then 120 + f else if m = 6 then 151 + f else if m = 7 then 181 + f
  else if m = 8 then 212 + f else if m = 9 then 243 + f else if m = 10 then 273 + f
  else if m = 11 then 304 + f else 334 + f

/-- Days of year `y` before the first of month `m`. -/
def dbm (y m : Int) : Int := dbmF (leapDay y) m

structure Date where
  y : Int
  m : Int
  d : Int
  deriving DecidableEq, Repr

def Date.Valid (c : Date) : Prop := 1 ≤ c.m ∧ c.m ≤ 12 ∧ 1 ≤ c.d ∧ c.d ≤ monthLen c.y c.m

instance (c : Date) : Decidable c.Valid := by unfold Date.Valid; exact inferInstance

/-- Day number of 0001-01-01 minus day number of 1970-01-01 is −719162. -/
def epochOrd : Int := 719162

/-- Days since 1970-01-01 of a civil date (`ymd_to_ord` shifted to the Unix epoch). -/
def daysFromCivil (c : Date) : Int := dby c.y + dbm c.y c.m + (c.d - 1) - epochOrd

/-- The year containing 0-based ordinal `o` (days since 0001-01-01): estimate by the mean year length, then one
correction step (proved exact in `Proofs/Calendar.lean`). -/
def yearOf (o : Int) : Int :=
  let y0 := (400 * o) / 146097 + 1
  if dby (y0 + 1) ≤ o then y0 + 1 else if o < dby y0 then y0 - 1 else y0

/-- Month and day from the 0-based day of a year with `f` leap days. -/
def monthDay (f doy : Int) : Int × Int :=
  if doy < 31 then (1, doy + 1) else if doy < 59 + f then (2, doy - 30)
  else if doy < 90 + f then (3, doy - (58 + f)) else if doy < 120 + f then (4, doy - (89 + f))
  else if doy < 151 + f then (5, doy - (119 + f)) else if doy < 181 + f then (6, doy - (150 + f))
  else if doy < 212 + f then (7, doy - (180 + f)) else if doy < 243 + f then (8, doy - (211 + f))
  else if doy < 273 + f then (9, doy - (242 + f)) else if doy < 304 + f then (10, doy - (272 + f))
  else if doy < 334 + f then (11, doy - (303 + f)) else (12, doy - (333 + f))

/-- Civil date of a day number (days since 1970-01-01): `ord_to_ymd`. -/
def civilFromDays (z : Int) : Date :=
  let o := z + epochOrd
  let y := yearOf o
  let md := monthDay (leapDay y) (o - dby y)
  ⟨y, md.1, md.2⟩

/-- `date.weekday()`: Monday = 0; 1970-01-01 was a Thursday. -/
def weekday (z : Int) : Int := (z + 3) % 7

/-- A naive datetime (no microseconds: every instant handled by date.py is a whole second). -/
structure Civil where
  y : Int
  m : Int
  d : Int
  hh : Int
  mm : Int
  ss : Int
  deriving DecidableEq, Repr

def Civil.date (c : Civil) : Date := ⟨c.y, c.m, c.d⟩

def Civil.Valid (c : Civil) : Prop :=
  c.date.Valid ∧ 0 ≤ c.hh ∧ c.hh ≤ 23 ∧ 0 ≤ c.mm ∧ c.mm ≤ 59 ∧ 0 ≤ c.ss ∧ c.ss ≤ 59

instance (c : Civil) : Decidable c.Valid := by unfold Civil.Valid; exact inferInstance

/-- Midnight starting day `dt`. -/
def Date.midnight (dt : Date) : Civil := ⟨dt.y, dt.m, dt.d, 0, 0, 0⟩

/-- `utc_to_seconds` (shifted to the Unix epoch): seconds of a naive datetime read as UTC. -/
def secondsOfCivil (c : Civil) : Int := daysFromCivil c.date * 86400 + c.hh * 3600 + c.mm * 60 + c.ss

/-- Broken-down time of a second count (`gmtime`). -/
def civilOfSeconds (t : Int) : Civil :=
  let dt := civilFromDays (t / 86400)
  let sod := t % 86400
  ⟨dt.y, dt.m, dt.d, sod / 3600, sod % 3600 / 60, sod % 60⟩

/-! ## 2. Local time -/

/-- The local time zone: UTC offset (seconds east of Greenwich) in force at UTC instant `u`. -/
structure Zone where
  off : Int → Int

/-- Local wall-clock reading at instant `u`, as a second count. -/
def Zone.loc (Z : Zone) (u : Int) : Int := u + Z.off u

/-- Errors of date.py that the property can meet. `field k`: the `datetime(...)` constructor rejected its k-th
field (1 = year … 6 = second; also `OverflowError: date value out of range` of `timedelta` arithmetic, k = 1);
`arg k`: `InvalidArgumentValue(k, …)`; `index`: the `IndexError` DATE raises for a bad second (its `UNIT_INDEX`
is 1-based but indexes the 0-based `eval_args`). -/
inductive Err
  | field (k : Nat)
  | arg (k : Nat)
  | index
  deriving DecidableEq, Repr

/-- `datetime.datetime(y, m, d, hh, mm, ss)`: range checks in CPython's order. -/
def mkDatetime (y m d hh mm ss : Int) : Except Err Civil :=
  if ¬ (1 ≤ y ∧ y ≤ 9999) then .error (.field 1)
  else if ¬ (1 ≤ m ∧ m ≤ 12) then .error (.field 2)
  else if ¬ (1 ≤ d ∧ d ≤ monthLen y m) then .error (.field 3)
  else if ¬ (0 ≤ hh ∧ hh ≤ 23) then .error (.field 4)
  else if ¬ (0 ≤ mm ∧ mm ≤ 59) then .error (.field 5)
  else if ¬ (0 ≤ ss ∧ ss ≤ 59) then .error (.field 6)
  else .ok ⟨y, m, d, hh, mm, ss⟩

/-- `datetime.datetime.fromtimestamp(u)` (naive local time; `ValueError: year … is out of range`). -/
def fromtimestamp (Z : Zone) (u : Int) : Except Err Civil :=
  let c := civilOfSeconds (Z.loc u)
  if 1 ≤ c.y ∧ c.y ≤ 9999 then .ok c else .error (.field 1)

/-- `dt + timedelta(days=k)` on a naive datetime (`OverflowError` outside years 1..9999). -/
def addDays (c : Civil) (k : Int) : Except Err Civil :=
  let dt := civilFromDays (daysFromCivil c.date + k)
  if 1 ≤ dt.y ∧ dt.y ≤ 9999 then .ok ⟨dt.y, dt.m, dt.d, c.hh, c.mm, c.ss⟩ else .error (.field 1)

/-- `local(u)` of `_datetimemodule.c`: `utc_to_seconds` of the `localtime_r` fields of `u`. -/
def localOf (Z : Zone) (u : Int) : Int := secondsOfCivil (civilOfSeconds (Z.loc u))

/-- Tail of `local_to_seconds` once both candidate offsets are known. -/
def ltsTail (Z : Zone) (t : Int) (fold : Bool) (u1 t1 b : Int) : Int :=
  let u2 := t - b
  let t2 := localOf Z u2
  if t2 = t then u2
  else if t1 = t then u1
  else if fold then min u1 u2 else max u1 u2

/-- `local_to_seconds(…, fold)` of `_datetimemodule.c` (`max_fold_seconds` = 24 h): solve `t = local(u)`. -/
def localToSeconds (Z : Zone) (t : Int) (fold : Bool) : Int :=
  let a := localOf Z t - t
  let u1 := t - a
  let t1 := localOf Z u1
  if t1 = t then
    let u2 := if fold then u1 + 86400 else u1 - 86400
    let b := localOf Z u2 - u2
    if a = b then u1 else ltsTail Z t fold u1 t1 b
  else ltsTail Z t fold u1 t1 (t1 - u1)

/-- `naive_dt.timestamp()` (fold = 0). -/
def naiveTimestamp (Z : Zone) (c : Civil) : Int := localToSeconds Z (secondsOfCivil c) false

/-- `naive_dt.astimezone(timezone.utc).timestamp()` (fold = 0): `local_timezone_from_local` picks the UTC offset,
the aware datetime is the naive reading minus that offset. -/
def astimezoneTs (Z : Zone) (c : Civil) : Int :=
  let t := secondsOfCivil c
  let s := localToSeconds Z t false
  let s2 := localToSeconds Z t true
  let s' := if s2 ≠ s ∧ (decide (s2 > s) = false) then s2 else s      -- "detect gap"
  t - Z.off s'

/-! ## 3. date.py -/

/-- `EvalContext.timestamp`: `int(now_ms / 1000)` (truncation; exact for |now_ms| < 2^53). -/
def tsOfMs (ms : Int) : Int := Int.tdiv ms 1000

/-- MILLISECOND: `int(now_ms % 1000)` (Python floor-mod). -/
def millisecond (ms : Int) : Int := ms % 1000

inductive Unit' | year | month | day | dow | ldom | hour | minute | second | minuteday | secondday
  deriving DecidableEq, Repr

/-- `extract_unit` of the DateUnitFunction subclasses. -/
def extractUnit : Unit' → Civil → Int
  | .year, c => c.y
  | .month, c => c.m
  | .day, c => c.d
  | .dow, c => weekday (daysFromCivil c.date)
  | .ldom, c => monthLen c.y c.m
  | .hour, c => c.hh
  | .minute, c => c.mm
  | .second, c => c.ss
  | .minuteday, c => c.hh * 60 + c.mm
  | .secondday, c => c.hh * 3600 + c.mm * 60 + c.ss

/-- DateUnitFunction._eval at timestamp `ts` (the context's, or the optional argument's). -/
def dateUnit (Z : Zone) (f : Unit') (ts : Int) : Except Err Int := do
  let c ← fromtimestamp Z ts
  pure (extractUnit f c)

/-- DATE: `int(datetime.datetime(*eval_args).timestamp())`, `ValueError` mapped through `UNIT_INDEX`. -/
def dateFn (Z : Zone) (y m d hh mm ss : Int) : Except Err Int :=
  match mkDatetime y m d hh mm ss with
  | .ok c => .ok (naiveTimestamp Z c)
  | .error (.field k) => if k = 6 then .error .index else .error (.arg k)
  | .error e => .error e

/-- BOY -/
def boy (Z : Zone) (u n : Int) : Except Err Int := do
  let now ← fromtimestamp Z u
  let dt ← mkDatetime (now.y + n) 1 1 0 0 0
  pure (astimezoneTs Z dt)

def iter {α : Type} (f : α → α) : Nat → α → α
  | 0, x => x
  | k + 1, x => iter f k (f x)

/-- one pass of BOM's forward loop -/
def monthFwd (ym : Int × Int) : Int × Int := if ym.2 < 12 then (ym.1, ym.2 + 1) else (ym.1 + 1, 1)
/-- one pass of BOM's backward loop -/
def monthBwd (ym : Int × Int) : Int × Int := if ym.2 > 1 then (ym.1, ym.2 - 1) else (ym.1 - 1, 12)

def monthLoop (n : Int) (ym : Int × Int) : Int × Int :=
  if n ≥ 0 then iter monthFwd n.toNat ym else iter monthBwd (-n).toNat ym

/-- BOM -/
def bom (Z : Zone) (u n : Int) : Except Err Int := do
  let now ← fromtimestamp Z u
  let ym := monthLoop n (now.y, now.m)
  let dt ← mkDatetime ym.1 ym.2 1 0 0 0
  pure (astimezoneTs Z dt)

/-- one pass of BOW's forward loop -/
def weekFwd (c : Date) : Date :=
  let last := monthLen c.y c.m
  if c.d + 7 ≤ last then ⟨c.y, c.m, c.d + 7⟩
  else
    let d := 7 - last + c.d
    if c.m < 12 then ⟨c.y, c.m + 1, d⟩ else ⟨c.y + 1, 1, d⟩

/-- one pass of BOW's backward loop -/
def weekBwd (c : Date) : Date :=
  if c.d > 7 then ⟨c.y, c.m, c.d - 7⟩
  else
    let ym : Int × Int := if c.m > 1 then (c.y, c.m - 1) else (c.y - 1, 12)
    let last := monthLen ym.1 ym.2
    ⟨ym.1, ym.2, last - 7 + c.d⟩

def weekLoop (n : Int) (c : Date) : Date :=
  if n ≥ 0 then iter weekFwd n.toNat c else iter weekBwd (-n).toNat c

/-- The first-weekday shift of BOW: number of days to go back from a day whose weekday is `wd`. -/
def bowShift (fixed : Bool) (wd s : Int) : Int :=
  if s > 0 then (if fixed then (wd - s) % 7 else wd + 7 - s) else wd

/-- BOW -/
def bow (Z : Zone) (fixed : Bool) (u n s : Int) : Except Err Int := do
  let now ← fromtimestamp Z u
  let dt : Civil := { now with hh := 12 }                        -- now.replace(hour=12)
  let dt ← addDays dt (- bowShift fixed (weekday (daysFromCivil dt.date)) s)
  let c := weekLoop n dt.date
  let dt ← mkDatetime c.y c.m c.d 0 0 0
  pure (astimezoneTs Z dt)

/-- BOD -/
def bod (Z : Zone) (u n : Int) : Except Err Int := do
  let now ← fromtimestamp Z u
  let dt ← addDays now n
  let dt : Civil := { dt with hh := 0, mm := 0, ss := 0 }
  pure (astimezoneTs Z dt)

/-- Comparison of naive datetimes (lexicographic on the fields). -/
def Civil.le (p q : Civil) : Bool :=
  if p.y ≠ q.y then p.y < q.y else if p.m ≠ q.m then p.m < q.m else if p.d ≠ q.d then p.d < q.d
  else if p.hh ≠ q.hh then p.hh < q.hh else if p.mm ≠ q.mm then p.mm < q.mm else p.ss ≤ q.ss

/-- HMSINTERVAL (integral arguments): `now`, then the six range checks in order, then the closed-interval test. -/
def hmsInterval (Z : Zone) (u sh sm ss eh em es : Int) : Except Err Int :=
  match fromtimestamp Z u with
  | .error e => .error e
  | .ok now =>
    if ¬ (0 ≤ sh ∧ sh ≤ 23) then .error (.arg 1)
    else if ¬ (0 ≤ sm ∧ sm ≤ 59) then .error (.arg 2)
    else if ¬ (0 ≤ ss ∧ ss ≤ 59) then .error (.arg 3)
    else if ¬ (0 ≤ eh ∧ eh ≤ 23) then .error (.arg 4)
    else if ¬ (0 ≤ em ∧ em ≤ 59) then .error (.arg 5)
    else if ¬ (0 ≤ es ∧ es ≤ 59) then .error (.arg 6)
    else
      let start : Civil := { now with hh := sh, mm := sm, ss := ss }   -- datetime.combine(now.date(), start_time)
      let stop : Civil := { now with hh := eh, mm := em, ss := es }
      .ok (if start.le now && now.le stop then 1 else 0)

/-- MDINTERVAL (integral arguments): `now.replace(month=…, day=…)` keeps the year and the time of day; checks in
the order of the code (start month, start day, stop month, stop day). -/
def mdInterval (Z : Zone) (u sm sd em ed : Int) : Except Err Int :=
  match fromtimestamp Z u with
  | .error e => .error e
  | .ok now =>
    if ¬ (1 ≤ sm ∧ sm ≤ 12) then .error (.arg 1)
    else match mkDatetime now.y sm sd now.hh now.mm now.ss with
      | .error _ => .error (.arg 2)
      | .ok start =>
        if ¬ (1 ≤ em ∧ em ≤ 12) then .error (.arg 3)
        else match mkDatetime now.y em ed now.hh now.mm now.ss with
          | .error _ => .error (.arg 4)
          | .ok stop => .ok (if start.le now && now.le stop then 1 else 0)

/-! ## Zones used by the driver and the examples -/

/-- A fixed-offset zone. -/
def Zone.fixed (o : Int) : Zone := ⟨fun _ => o⟩

/-- A zone given by a transition table: `base` before the first transition, then the offset of the last
transition `(T, off)` with `T ≤ u` (table sorted by `T`). -/
def tableOff (base : Int) : List (Int × Int) → Int → Int
  | [], _ => base
  | (T, o) :: rest, u => if u < T then base else tableOff o rest u

def Zone.table (base : Int) (tr : List (Int × Int)) : Zone := ⟨tableOff base tr⟩

/-- Transition instants strictly increasing (checked by the driver on every table it is given). -/
def increasing : List (Int × Int) → Bool
  | (a, _) :: (b, o) :: rest => a < b && increasing ((b, o) :: rest)
  | _ => true

/-- Half-width (seconds) of the window in which the regularity hypotheses of the theorems constrain a zone: 4 days. -/
def W : Int := 345600

/-- Decision procedure for the theorems' hypothesis `Zone.RegularAt (Zone.table base tr) P` (sound for increasing
tables: `Proofs/CalendarTable.lean`): at most one transition in `(P − W, P + W]`, offsets and jump below 24 h, `P`
not strictly inside the skipped / repeated local interval. -/
def regularAtTable (base : Int) (tr : List (Int × Int)) (P : Int) : Bool :=
  let a := tableOff base tr (P - W)
  match tr.filter (fun p => decide (P - W < p.1 ∧ p.1 ≤ P + W)) with
  | [] => decide (-86400 < a ∧ a < 86400)
  | [(T, b)] => decide ((-86400 < a ∧ a < 86400) ∧ (-86400 < b ∧ b < 86400) ∧ (-86400 < b - a ∧ b - a < 86400) ∧
      ¬ (T + b < P ∧ P < T + a) ∧ ¬ (T + a < P ∧ P < T + b))
  | _ => false

/-- The same decision on a table split as `pre ++ suf` (any split point — the driver finds one by binary search):
sound when it answers `true` (`Proofs/CalendarTable.lean`), and it only looks at the last entry of `pre` and at the
entries of `suf` up to the end of the window. -/
def regularAtSplit (base : Int) (pre suf : List (Int × Int)) (P : Int) : Bool :=
  let ok := match pre.getLast? with
    | none => true
    | some p => decide (p.1 ≤ P - W)
  let a := match pre.getLast? with
    | none => base
    | some p => p.2
  ok && regularAtTable a (suf.takeWhile (fun p => decide (p.1 ≤ P + W))) P

/-- Decision procedure for `Zone.Bounded (Zone.table base tr)`. -/
def boundedTable (base : Int) (tr : List (Int × Int)) : Bool :=
  decide (-86400 < base ∧ base < 86400) && tr.all (fun p => decide (-86400 < p.2 ∧ p.2 < 86400))

end QtVerif.Calendar
