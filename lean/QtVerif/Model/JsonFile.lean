/-
Model of the JSON file persistence driver's crash behaviour (property C08):
qtoggleserver/drivers/persist/json.py  `_save`, `_load`, `_get_backup_file_path`, `_get_temp_file_path`.

  file system          -> `Fs` = name → Option Bytes (three names matter: data file, backup file, temp file)
  JSONDriver._save     -> `saveSteps` : the list of primitive effectful file-system steps performed, in order
  a process crash      -> `crash steps k j` : the first `k` steps are done, the `k`-th one (if a write) got `j` bytes out
  JSONDriver._load     -> `load`
  a driver process     -> `Sys` (disk + in-memory data), `Sys.step` over `Ev` (completed op / crashed op + restart / restart)

`Cfg.repaired = true` is the code with fixes/C08-atomic-save.diff (write temp file, replace; load falls back to the
backup when the data file is missing or empty).  `Cfg.repaired = false` is the code as found at the pinned commit
(rename to backup, then write the data file in place; missing/empty data file = empty store); it is kept only for the
`unrepaired_…` counter-example theorems.

Serialisation is abstract: a `Codec` (`ser`, `parse`, the empty store `empty`) with the laws `Codec.Lawful`
(round trip; no proper prefix of a serialised document parses).  `docCodec` is the concrete instance used by the
line-protocol driver and by the non-vacuity examples.  Core Lean only.
-/
namespace QtVerif.JsonFile

/-- The three file names the driver touches: `file_path`, `<path>_backup<ext>`, `<path>_temp<ext>`. -/
inductive Name
  | data | backup | temp
  deriving DecidableEq, Repr

/-- A byte is just a symbol here; nothing depends on its range. -/
abbrev Byte := Nat
abbrev Bytes := List Byte

/-- A directory: which names exist, and with which content. -/
abbrev Fs := Name → Option Bytes

/-- No file at all (first start). -/
def Fs.blank : Fs := fun _ => none

def Fs.set (fs : Fs) (a : Name) (v : Option Bytes) : Fs := fun x => if x = a then v else fs x

/-- Primitive effectful steps (DESIGN A.5). `rename` stands for `os.rename` and `os.replace` alike (POSIX: the
destination is replaced atomically). `create` is `open(name, 'wb')`: create or truncate. `write` appends to the file
(all writes of the driver are sequential from offset 0 after a create). `close` has no effect on content. -/
inductive Step
  | rename (a b : Name)
  | create (a : Name)
  | write (a : Name) (bs : Bytes)
  | close (a : Name)
  | unlink (a : Name)
  deriving DecidableEq, Repr

/-- The OS refuses a step (FileNotFoundError). Explicit, so that no theorem holds because an impossible step was
silently skipped. -/
inductive FsErr
  | noent
  deriving DecidableEq, Repr

def Step.apply (fs : Fs) : Step → Except FsErr Fs
  | .rename a b =>
    match fs a with
    | none => .error .noent
    | some c => .ok ((fs.set a none).set b (some c))
  | .create a => .ok (fs.set a (some []))
  | .write a bs =>
    match fs a with
    | none => .error .noent
    | some c => .ok (fs.set a (some (c ++ bs)))
  | .close _ => .ok fs
  | .unlink a =>
    match fs a with
    | none => .error .noent
    | some _ => .ok (fs.set a none)

def runSteps (fs : Fs) : List Step → Except FsErr Fs
  | [] => .ok fs
  | s :: rest =>
    match s.apply fs with
    | .ok fs' => runSteps fs' rest
    | .error e => .error e

/-- A process crash while performing `steps`: steps `0 … k-1` are complete; if step `k` is a write, its first `j`
bytes reached the file (`j = 0`: nothing of it; `j ≥ length`: all of it); any other step `k` has not happened.
`k ≥ steps.length` is a crash after the last step (before the operation is acknowledged). -/
def crash (steps : List Step) (k j : Nat) (fs : Fs) : Except FsErr Fs :=
  match runSteps fs (steps.take k) with
  | .error e => .error e
  | .ok fs1 =>
    match steps[k]? with
    | some (.write a bs) => (Step.write a (bs.take j)).apply fs1
    | _ => .ok fs1

/-- Serialisation of the store content `D` (`json_utils.dumps(...).encode()` / `json_utils.loads`) and the value an
absent store loads as (`{}`). -/
structure Codec (D : Type) where
  ser : D → Bytes
  parse : Bytes → Option D
  empty : D

/-- What the theorems assume of the serialisation; the harness validates each clause on every serialised document
of every run (`loads(dumps(x)) == x`, no proper prefix accepted by `loads`, `loads(b'')` raises). -/
structure Codec.Lawful {D : Type} (c : Codec D) : Prop where
  roundtrip : ∀ d, c.parse (c.ser d) = some d
  prefixFree : ∀ d n, n < (c.ser d).length → c.parse ((c.ser d).take n) = none
  parseNil : c.parse [] = none

/-- `repaired`: which version of `_save`/`_load` (see the header). `useBackup`: the constructor flag `use_backup`. -/
structure Cfg where
  repaired : Bool := true
  useBackup : Bool := true
  deriving DecidableEq, Repr

/-- `JSONDriver._save(data)` as the list of effectful steps, given the directory it starts from (the only thing it
reads is `os.path.exists(file_path)`; in the repaired code that probe comes after the temp file is written, which
does not touch the data file — `exists_probe_commutes` in Proofs/JsonFile.lean). -/
def saveSteps {D : Type} (c : Codec D) (cfg : Cfg) (fs : Fs) (d : D) : List Step :=
  let backupStep : List Step :=
    if cfg.useBackup && (fs .data).isSome then [.rename .data .backup] else []     -- use_backup and os.path.exists(file)
  if cfg.repaired then
    -- with open(temp, 'wb') as f: f.write(..); flush; fsync  /  os.replace(file, backup)  /  os.replace(temp, file)
    [.create .temp, .write .temp (c.ser d), .close .temp] ++ backupStep ++ [.rename .temp .data]
  else
    -- os.rename(file, backup)  /  with open(file, 'wb') as f: f.write(..)
    backupStep ++ [.create .data, .write .data (c.ser d), .close .data]

/-- Start-up failures: the exception escaping `JSONDriver.__init__`. -/
inductive LoadErr
  | corrupt          -- data file does not parse and use_backup is off
  | backupMissing    -- fell back to the backup, which does not exist
  | backupCorrupt    -- fell back to the backup, which does not parse
  deriving DecidableEq, Repr

/-- `with open(backup, 'rb') as f: return loads(f.read())` -/
def readBackup {D : Type} (c : Codec D) (fs : Fs) : Except LoadErr D :=
  match fs .backup with
  | none => .error .backupMissing
  | some bs =>
    match c.parse bs with
    | some d => .ok d
    | none => .error .backupCorrupt

/-- `JSONDriver._load()` -/
def load {D : Type} (c : Codec D) (cfg : Cfg) (fs : Fs) : Except LoadErr D :=
  let emptyOrMissing :=                        -- os.stat(file).st_size == 0  /  FileNotFoundError
    match fs .data with
    | none => true
    | some bs => bs.isEmpty
  if emptyOrMissing then
    if cfg.repaired && cfg.useBackup && (fs .backup).isSome then readBackup c fs    -- os.path.exists(backup)
    else .ok c.empty
  else
    match c.parse ((fs .data).getD []) with
    | some d => .ok d
    | none => if cfg.useBackup then readBackup c fs else .error .corrupt

/-! ### Driver processes over time -/

/-- A running driver: the directory and `self._data`. -/
structure Sys (D : Type) where
  fs : Fs
  mem : D

inductive Fault
  | fs (e : FsErr)          -- a step of `_save` was refused by the OS
  | load (e : LoadErr)      -- start-up failure
  deriving DecidableEq, Repr

/-- One event in the life of the store. A modifying operation is any function of the current content (insert,
update, replace, remove all end in `_save(unindex(self._data))` of the whole new content). -/
inductive Ev (D : Type)
  | op (f : D → D)                       -- the operation runs to completion and is acknowledged
  | crashOp (f : D → D) (k j : Nat)      -- the process dies inside `_save` at crash point (k, j); then a new process starts
  | restart                              -- clean stop and start

/-- `JSONDriver(file_path, …)` on an existing directory. -/
def boot {D : Type} (c : Codec D) (cfg : Cfg) (fs : Fs) : Except Fault (Sys D) :=
  match load c cfg fs with
  | .ok d => .ok ⟨fs, d⟩
  | .error e => .error (.load e)

def Sys.step {D : Type} (c : Codec D) (cfg : Cfg) (s : Sys D) : Ev D → Except Fault (Sys D)
  | .op f =>
    let d := f s.mem
    match runSteps s.fs (saveSteps c cfg s.fs d) with
    | .ok fs' => .ok ⟨fs', d⟩
    | .error e => .error (.fs e)
  | .crashOp f k j =>
    let d := f s.mem
    match crash (saveSteps c cfg s.fs d) k j s.fs with
    | .ok fs' => boot c cfg fs'
    | .error e => .error (.fs e)
  | .restart => boot c cfg s.fs

def Sys.run {D : Type} (c : Codec D) (cfg : Cfg) (s : Sys D) : List (Ev D) → Except Fault (Sys D)
  | [] => .ok s
  | e :: es =>
    match s.step c cfg e with
    | .ok s' => s'.run c cfg es
    | .error x => .error x

/-- A whole life: first start on an empty directory, then the events. -/
def life {D : Type} (c : Codec D) (cfg : Cfg) (h : List (Ev D)) : Except Fault (Sys D) :=
  match boot c cfg Fs.blank with
  | .ok s => s.run c cfg h
  | .error x => .error x

/-! ### The reference: an atomic store -/

/-- What the property allows each event to do to the content a (re)started driver sees. -/
inductive SpecStep {D : Type} : D → Ev D → D → Prop
  | op (m : D) (f : D → D) : SpecStep m (.op f) (f m)
  | crashPre (m : D) (f : D → D) (k j : Nat) : SpecStep m (.crashOp f k j) m
  | crashPost (m : D) (f : D → D) (k j : Nat) : SpecStep m (.crashOp f k j) (f m)
  | restart (m : D) : SpecStep m .restart m

inductive SpecRun {D : Type} : D → List (Ev D) → D → Prop
  | nil (m : D) : SpecRun m [] m
  | cons {m m' m'' : D} {e : Ev D} {es : List (Ev D)} : SpecStep m e m' → SpecRun m' es m'' → SpecRun m (e :: es) m''

/-! ### A concrete lawful codec (driver + non-vacuity examples)

A document is identified by `id` and has `extra + 2` bytes (every JSON document the driver writes is at least `{}`):
`ser ⟨id, extra⟩ = [id+1, 1, 1, …, 1, 0]`. Document 0 of length 2 stands for `{}`. -/

structure Doc where
  id : Nat
  extra : Nat
  deriving DecidableEq, Repr

/-- number of `1`s before the final `[0]` -/
def docBody : Bytes → Option Nat
  | [] => none
  | [b] => if b = 0 then some 0 else none
  | b :: rest => if b = 1 then (docBody rest).map (· + 1) else none

def docCodec : Codec Doc where
  ser d := (d.id + 1) :: (List.replicate d.extra 1 ++ [0])
  parse
    | [] => none
    | b :: rest => if b = 0 then none else (docBody rest).map (fun n => ⟨b - 1, n⟩)
  empty := ⟨0, 0⟩

end QtVerif.JsonFile
