/-
Model of port value sequences (property C19): qtoggleserver/core/sequences.py (Sequence.start / cancel / _loop),
core/ports.py (set_sequence, _on_sequence_finish, _transform_and_write_value_fire_and_forget, the cancelling
prefixes of attr_set_expression and disable) and core/api/funcs/ports.py (patch_port_sequence), running on an
explicit model of the asyncio event loop (FIFO ready queue, timer list, one `_run_once` iteration = `iter`).

Why the event loop is explicit: the property quantifies over *every instant* at which a sequence is replaced or
cancelled, and two of the interesting instants are sub-millisecond: the loop iteration between re-arming the
playback task for the next pass and its first step, and the iteration between the last callback and the
fire-and-forget task that actually submits the value. They can only be told apart with the queue discipline.

Mirrors:
  Sequence._loop                   -> loopStep / body / sleepOn      (one call = one step of the coroutine)
  Sequence.cancel                  -> requestCancel (+ the `resume` handle: the caller continues after the await)
  BasePort.set_sequence            -> startOp (.patchSeq) / finishOp
  BasePort._on_sequence_finish     -> finishSeq
  BasePort.enable / disable        -> startOp (.setEnabled) / finishOp / setEnabledThenHook / hookDone (the driver's
                                      handle_enable / handle_disable is a suspension behind the stop; it may raise)
  fire_and_forget(transform_and_write_value(v)) -> Handle.ff (its first step logs the submission)
  patch_port_sequence              -> validate (order of checks = order in the code)
  BaseEventLoop._run_once          -> iter (jump only when nothing is ready; due timers are appended behind what is
                                      ready; exactly the handles present at that point are run)

Time is in integer milliseconds since the start of the case. Timers carry a `rank`: the sequence's own sleeps
have rank 0, the harness places its calls a quarter of the clock resolution before (-1) or after (+1) an
instant, so the order of timers that fire in the same iteration is defined.

`Fix` selects the repaired behaviour (both `true` = the model proper) or the code as found at the pinned commit.
Core Lean only.
-/
namespace QtVerif.Sequence

/-- A port value; numbers are carried as twice their value so that halves are exact. -/
inductive Val
  | num (twice : Int)
  | bool (b : Bool)
  deriving DecidableEq, Repr

structure Fix where
  /-- `Sequence.cancel` swallows the CancelledError of a loop task cancelled before its first step. -/
  cancelArmed : Bool
  /-- `_loop` yields once (`sleep(0)`) between the last callback and the finish callback. -/
  flushLast : Bool
  deriving DecidableEq, Repr

def Fix.repaired : Fix := ⟨true, true⟩
def Fix.asFound : Fix := ⟨false, false⟩

/-- Where the `_loop` coroutine is suspended. -/
inductive Pos
  | start              -- created (first pass or re-armed), not yet run
  | slept (i : Nat)    -- in `asyncio.sleep(delays[i] / 1000.0)` after the callback for value i
  | flush              -- in the `asyncio.sleep(0)` before the finish callback (repair `flushLast`)
  deriving DecidableEq, Repr

/-- `Sequence._loop_task`. -/
inductive Task
  | none                                   -- None (never started, or reset after a caught cancellation)
  | pending (pos : Pos) (cancelReq : Bool) -- a task that has not finished; cancelReq = Task.cancel() was called
  | cancelled                              -- a task that ended *cancelled* (cancelled before its first step)
  | crashed                                -- a task that died of IndexError (delays shorter than values; not via the API)
  deriving DecidableEq, Repr

structure Seq where
  id      : Nat
  values  : List Val
  delays  : List Int
  rep     : Int
  counter : Nat
  task    : Task
  deriving DecidableEq, Repr

/-- The API operations of the property. -/
inductive Op
  | patchSeq (values : List Val) (delays : List Int) (rep : Int)   -- PATCH /ports/{id}/sequence
  | setExpr (nonEmpty : Bool)                                      -- attr_set_expression
  | setEnabled (on : Bool)                                         -- enable() / disable()
  | malformed                                                      -- a request body the request schema rejects
  deriving DecidableEq, Repr

inductive Handle
  | loopStep (sid : Nat)                      -- a step of the loop task of sequence `sid`
  | ff (sid : Nat) (v : Val)                  -- first step of fire_and_forget(transform_and_write_value(v))
  | hop (k : Nat) (opId : Nat) (op : Op)      -- k more trips through the ready queue, then the operation starts
  | resume (opId : Nat) (op : Op) (exc : Bool) -- the operation continues after `await self._loop_task`
  | hookEnd (opId : Nat) (on : Bool)          -- the driver's handle_enable (on) / handle_disable returns or raises
  | stop                                      -- end of the observation window
  deriving DecidableEq, Repr

structure Timer where
  time : Nat
  rank : Int
  h    : Handle
  deriving DecidableEq, Repr

inductive Err
  | invalidRequest | invalidDelays | invalidValues | portDisabled | readOnly | withExpression
  | portError | unexpected
  deriving DecidableEq, Repr

inductive Res
  | ok
  | refused (e : Err)
  | cancelledError            -- the call itself ended with asyncio.CancelledError
  deriving DecidableEq, Repr

inductive Event
  | sub (t : Nat) (sid : Nat) (v : Val)       -- value submitted to the port's write path
  | ret (t : Nat) (opId : Nat) (r : Res)      -- operation returned
  deriving DecidableEq, Repr

structure Port where
  enabled  : Bool
  writable : Bool
  hasExpr  : Bool
  boolean  : Bool
  integer  : Bool
  min      : Option Int        -- twice the attribute
  max      : Option Int
  seq      : Option Seq        -- BasePort._sequence
  deriving DecidableEq, Repr

structure St where
  now     : Nat
  ready   : List Handle
  timers  : List Timer         -- sorted by (time, rank)
  port    : Port
  waiting : Option (Nat × Op)  -- the operation suspended in `await self._loop_task`
  nextId  : Nat
  log     : List Event
  subs    : Nat                -- number of submissions logged
  cap     : Nat                -- the observation ends at this many submissions
  maxItems : Nat               -- schema maxItems
  stopped : Bool
  overlap : Bool               -- an operation started while another was suspended (outside the model)
  disLat  : Nat                -- the driver's handle_disable(): how long it awaits (ms; 0 = no suspension) …
  disRaise : Bool              -- … and whether it then raises
  enLat   : Nat                -- same for handle_enable()
  enRaise : Bool
  marks   : List Nat           -- coverage marks: where a cancellation met the loop task (0 not started, 1 asleep
                               -- on a timer, 2 already scheduled, 3 in the flush before finishing)
  deriving DecidableEq, Repr

/-! ### timers -/

def Timer.le (a b : Timer) : Bool := a.time < b.time || (a.time == b.time && a.rank ≤ b.rank)

/-- Insert keeping the list sorted; behind equal keys. -/
def insertTimer (t : Timer) : List Timer → List Timer
  | [] => [t]
  | x :: xs => if x.le t then x :: insertTimer t xs else t :: x :: xs

def St.push (s : St) (h : Handle) : St := { s with ready := s.ready ++ [h] }
def St.addTimer (s : St) (time : Nat) (rank : Int) (h : Handle) : St :=
  { s with timers := insertTimer ⟨time, rank, h⟩ s.timers }
def St.emit (s : St) (e : Event) : St := { s with log := s.log ++ [e] }
def St.setSeq (s : St) (q : Option Seq) : St := { s with port := { s.port with seq := q } }

/-! ### Sequence._loop -/

/-- `BasePort._on_sequence_finish`. -/
def finishSeq (s : St) : St := s.setSeq none

/-- `await asyncio.sleep(delays[i] / 1000.0)` after value i (non-positive delays just yield). -/
def sleepOn (s : St) (q : Seq) (i : Nat) : St :=
  match q.delays[i]? with
  | none => s.setSeq (some { q with task := .crashed })
  | some d =>
    let s := s.setSeq (some { q with task := .pending (.slept i) false })
    if d ≤ 0 then s.push (.loopStep q.id) else s.addTimer (s.now + d.toNat) 0 (.loopStep q.id)

/-- `self._repeat > 0 and self._counter >= self._repeat - 1` -/
def Seq.lastPass (q : Seq) : Bool := decide (q.rep > 0) && decide ((q.counter : Int) ≥ q.rep - 1)

/-- The body of the `for` loop for index i: callback, then sleep / finish / count-and-sleep. -/
def body (fix : Fix) (s : St) (q : Seq) (i : Nat) : St :=
  match q.values[i]? with
  | none => s.setSeq (some { q with task := .none })           -- loop exhausted: `self._loop_task = None`
  | some v =>
    let s := s.push (.ff q.id v)                                -- self._callback(value)
    if i + 1 < q.values.length then sleepOn s q i
    else if q.lastPass then
      if fix.flushLast then
        (s.setSeq (some { q with task := .pending .flush false })).push (.loopStep q.id)
      else finishSeq s
    else sleepOn s { q with counter := q.counter + 1 } i

/-- Wake whoever awaits the loop task that has just ended; `exc` = it ended cancelled. -/
def wake (s : St) (exc : Bool) : St :=
  match s.waiting with
  | some (opId, op) => { s with waiting := none }.push (.resume opId op exc)
  | none => s

def loopStep (fix : Fix) (s : St) (sid : Nat) : St :=
  match s.port.seq with
  | none => s
  | some q =>
    if q.id ≠ sid then s else
    match q.task with
    | .pending pos true =>
      -- CancelledError is thrown into the coroutine: caught (`break`, `_loop_task = None`) unless it never ran
      if pos = .start then wake (s.setSeq (some { q with task := .cancelled })) true
      else wake (s.setSeq (some { q with task := .none })) false
    | .pending .start false => body fix s q 0
    | .pending (.slept i) false =>
      if i + 1 < q.values.length then body fix s q (i + 1)
      else (s.setSeq (some { q with task := .pending .start false })).push (.loopStep q.id)   -- re-arm
    | .pending .flush false => finishSeq s
    | _ => s

/-! ### the operations -/

def inDomain (p : Port) : Val → Bool
  | .bool _ => p.boolean
  | .num t =>
    !p.boolean && (!p.integer || t % 2 == 0) &&
    (match p.min with | some m => m ≤ t | none => true) &&
    (match p.max with | some m => t ≤ m | none => true)

/-- `patch_port_sequence` up to the call of `set_sequence`, in the order of the code. -/
def validate (maxItems : Nat) (p : Port) (values : List Val) (delays : List Int) : Option Err :=
  if values.length > maxItems then some .invalidValues            -- request schema, `values` first
  else if delays.length > maxItems then some .invalidDelays
  else if values.length ≠ delays.length then some .invalidDelays
  else if values.any (fun v => !inDomain p v) then some .invalidValues
  else if !p.enabled then some .portDisabled
  else if !p.writable then some .readOnly
  else if p.hasExpr then some .withExpression
  else none

def isTimerOf (sid : Nat) (t : Timer) : Bool := t.h == .loopStep sid

/-- `await self._sequence.cancel()`: the new state and how the caller goes on
(`none` = it is suspended; `some exc` = it continues at once, exc = with CancelledError). -/
def requestCancel (fix : Fix) (s : St) (q : Seq) : St × Option Res :=
  match q.task with
  | .pending pos _ =>
    let s := s.setSeq (some { q with task := .pending pos true })
    let timed := s.timers.any (isTimerOf q.id)
    let s := { s with marks := s.marks ++ [match pos with | .start => 0 | .slept _ => if timed then 1 else 2 | .flush => 3] }
    -- a task sleeping on a timer: the timer is cancelled and the task is scheduled
    let s := if timed
             then { s with timers := s.timers.filter (fun t => !isTimerOf q.id t) }.push (.loopStep q.id)
             else s
    (s, none)
  | .none => (s, some .ok)
  | .cancelled => (s, some (if fix.cancelArmed then .ok else .cancelledError))
  | .crashed => (s, some (.refused .unexpected))

def install (s : St) (values : List Val) (delays : List Int) (rep : Int) : St :=
  if values.isEmpty then s else
  let q : Seq := ⟨s.nextId, values, delays, rep, 0, .pending .start false⟩
  { s.setSeq (some q) with nextId := s.nextId + 1 }.push (.loopStep q.id)

/-- What the caller sees when `cancel()` raised CancelledError: `patch_port_sequence` lets it through,
`patch_port` runs the setter in a task of its own, which dies silently. -/
def abortRes : Op → Res
  | .patchSeq .. => .cancelledError
  | _ => .ok

/-- `handle_enable()` / `handle_disable()` of the driver has returned or raised: on an exception `enable()` /
`disable()` put `_enabled` back and the API call fails. -/
def hookDone (s : St) (opId : Nat) (on : Bool) : St :=
  if (if on then s.enRaise else s.disRaise) then
    { s with port := { s.port with enabled := !on } }.emit (.ret s.now opId (.refused .portError))
  else s.emit (.ret s.now opId .ok)

/-- `self._enabled = on` followed by `await self.handle_enable()` / `handle_disable()`: the driver hook is a suspension
point *behind* the point where the sequence was stopped and the flag was set. -/
def setEnabledThenHook (s : St) (opId : Nat) (on : Bool) : St :=
  let s := { s with port := { s.port with enabled := on } }
  let lat := if on then s.enLat else s.disLat
  if lat = 0 then hookDone s opId on else s.addTimer (s.now + lat) 0 (.hookEnd opId on)

/-- The part of the operation behind the cancellation of the running sequence. -/
def finishOp (s : St) (opId : Nat) (op : Op) : St :=
  let s := s.setSeq none
  match op with
  | .patchSeq vs ds r => (install s vs ds r).emit (.ret s.now opId .ok)
  | .setExpr b => { s with port := { s.port with hasExpr := b } }.emit (.ret s.now opId .ok)
  | .setEnabled on => setEnabledThenHook s opId on
  | .malformed => s.emit (.ret s.now opId (.refused .invalidRequest))

/-- Cancel the running sequence (if any), then `finishOp`. -/
def cancelThen (fix : Fix) (s : St) (opId : Nat) (op : Op) : St :=
  match s.port.seq with
  | none => finishOp s opId op
  | some q =>
    match requestCancel fix s q with
    | (s, none) => { s with waiting := some (opId, op) }
    | (s, some .ok) => finishOp s opId op
    | (s, some .cancelledError) => s.emit (.ret s.now opId (abortRes op))
    | (s, some r) => s.emit (.ret s.now opId r)

def isResume : Handle → Bool
  | .resume .. => true
  | _ => false

/-- An operation is in the middle of its cancellation: it awaits the loop task, or the loop task has ended and the
operation's continuation is queued. -/
def St.cancelling (s : St) : Bool := s.waiting.isSome || s.ready.any isResume

def startOp (fix : Fix) (s : St) (opId : Nat) (op : Op) : St :=
  if s.cancelling then { s with overlap := true } else
  match op with
  | .malformed => s.emit (.ret s.now opId (.refused .invalidRequest))
  | .patchSeq vs ds _ =>
    match validate s.maxItems s.port vs ds with
    | some e => s.emit (.ret s.now opId (.refused e))
    | none => cancelThen fix s opId op
  | .setExpr _ =>
    if !s.port.writable then s.emit (.ret s.now opId (.refused .portError))
    else cancelThen fix s opId op
  | .setEnabled false =>
    if !s.port.enabled then s.emit (.ret s.now opId .ok) else cancelThen fix s opId op
  | .setEnabled true =>
    -- enable() does not touch the sequence
    if s.port.enabled then s.emit (.ret s.now opId .ok) else setEnabledThenHook s opId true

def resumeOp (fix : Fix) (s : St) (opId : Nat) (op : Op) (exc : Bool) : St :=
  if exc && !fix.cancelArmed then s.emit (.ret s.now opId (abortRes op))
  else finishOp s opId op

/-! ### the event loop -/

def exec (fix : Fix) (s : St) : Handle → St
  | .loopStep sid => loopStep fix s sid
  | .ff sid v =>
    let s := { s.emit (.sub s.now sid v) with subs := s.subs + 1 }
    if s.subs = s.cap then { s with stopped := true } else s
  | .hop 0 opId op => startOp fix s opId op
  | .hop (k + 1) opId op => s.push (.hop k opId op)
  | .resume opId op exc => resumeOp fix s opId op exc
  | .hookEnd opId on => hookDone s opId on
  | .stop => { s with stopped := true }

/-- Run the first `n` handles of the ready queue (what they append is run in the next iteration). Once the
observation window is over nothing is recorded any more: the state is frozen. -/
def runHandles (fix : Fix) : Nat → St → St
  | 0, s => s
  | n + 1, s =>
    if s.stopped then s else
    match s.ready with
    | [] => s
    | h :: rest => runHandles fix n (exec fix { s with ready := rest } h)

/-- The clock jumps to the first timer when nothing is ready. -/
def jump (s : St) : St :=
  match s.ready, s.timers with
  | [], t :: _ => if s.now < t.time then { s with now := t.time } else s
  | _, _ => s

/-- Timers that are due go behind what is ready. -/
def moveDue (s : St) : St :=
  let due := s.timers.takeWhile (fun t => t.time ≤ s.now)
  { s with ready := s.ready ++ due.map (·.h), timers := s.timers.dropWhile (fun t => t.time ≤ s.now) }

/-- One `_run_once`. -/
def iter (fix : Fix) (s : St) : St :=
  if s.stopped then s else
  let s := moveDue (jump s)
  runHandles fix s.ready.length s

def iterN (fix : Fix) : Nat → St → St
  | 0, s => s
  | n + 1, s => iterN fix n (iter fix s)

def St.quiescent (s : St) : Bool := s.ready.isEmpty && s.timers.isEmpty

/-- Iterate until stopped or quiescent (or out of fuel: reported by the driver). -/
def runCase (fix : Fix) : Nat → St → St × Bool
  | 0, s => (s, false)
  | n + 1, s => if s.stopped || s.quiescent then (s, true) else runCase fix n (iter fix s)

def Port.default : Port := ⟨true, true, false, false, false, none, none, none⟩

def St.init (p : Port) (cap maxItems : Nat) : St :=
  { now := 0, ready := [], timers := [], port := p, waiting := none, nextId := 0, log := [], subs := 0,
    cap := cap, maxItems := maxItems, stopped := false, overlap := false,
    disLat := 0, disRaise := false, enLat := 0, enRaise := false, marks := [] }

/-- The hub right after `set_sequence(values, delays, rep)` on an idle port at time t0
(cap 0 = no observation limit: `subs` starts at 0 and is compared after incrementing). -/
def St.installed (t0 : Nat) (values : List Val) (delays : List Int) (rep : Int) : St :=
  install { St.init Port.default 0 256 with now := t0 } values delays rep

/-! ### the specification: the schedule -/

/-- Effective delay in ms (`asyncio.sleep` of a non-positive time just yields). -/
def eff (d : Int) : Nat := d.toNat

def total (delays : List Int) : Nat := (delays.map eff).sum

/-- Time from the start of a pass to its i-th value: d₀ + … + dᵢ₋₁. -/
def pre (delays : List Int) (i : Nat) : Nat := ((delays.take i).map eff).sum

/-- The submissions of pass number c (c = 0, 1, …) of a sequence started at t0: (time, value) in order;
value i goes out `pre i` after the start of the pass, passes follow each other `total` apart. -/
def passAt (t0 : Nat) (values : List Val) (delays : List Int) (c : Nat) : List (Nat × Val) :=
  values.zipIdx.map fun (v, i) => (t0 + c * total delays + pre delays i, v)

/-- The submissions of the first `passes` passes. -/
def schedule (t0 : Nat) (values : List Val) (delays : List Int) (passes : Nat) : List (Nat × Val) :=
  (List.range passes).flatMap (passAt t0 values delays)

/-- The submissions recorded in a log. -/
def subsOf (log : List Event) : List (Nat × Val) :=
  log.filterMap fun | .sub t _ v => some (t, v) | _ => none

def subsOfSid (sid : Nat) (log : List Event) : List (Nat × Val) :=
  log.filterMap fun | .sub t i v => if i = sid then some (t, v) else none | _ => none

/-- Values of sequence `sid` whose callback has run but whose submission is still in the ready queue. -/
def inFlight (sid : Nat) (ready : List Handle) : List Val :=
  ready.filterMap fun | .ff i v => if i = sid then some v else none | _ => none

end QtVerif.Sequence
