/-!
Model of the peripherals registry and of GET / POST / DELETE / PUT /peripherals (C20, fourth backup document).

Mirrors `qtoggleserver/peripherals/__init__.py` (`_registered_peripherals`: an insertion-ordered dict keyed by the
effective id; `add`, `remove`), `peripherals/peripheral.py` (`Peripheral.__init__`: `_id = name or id or auto_id`,
`to_json = dict(_params, id=…, static=…, name=…)`) and `peripherals/api/funcs.py` (`get_peripherals`, `post_peripherals`,
`delete_peripheral`, `put_peripherals`) AS THE CODE IS:

* `put_peripherals` validates the whole document against the schema, removes every non-static peripheral (with its
  ports), then walks the document: an entry whose `static` field is true is skipped, every other entry goes to `add`
  with the `static` key popped and everything else — `id` and `name` included — kept; only after the loop `init_ports`
  runs for the added peripherals. Nothing is caught: the first entry that `add` refuses (driver not loadable, constructor
  raises, effective id already registered) ends the call with that exception, the entries before it stay registered
  WITHOUT ports, the earlier non-static peripherals are gone. (`PutResult.raised i k`: `i` is which entry it was — a fact
  of the run, the exception itself does not carry it.)
* `add`: load the driver, construct, THEN the duplicate check (in this order).
* the auto id hashes the class path, the name and ALL parameters handed to `add` (the `id`/`name` keys too, also when they
  are null), so it is a function of the whole entry: `Cfg.auto`. A field is absent, null or a string (`Field`): GET adds
  `name: null` to an entry posted without a name, which changes the hash — irrelevant for a restore only because GET also
  fills in `id`, and `id` wins over the auto id.

Core Lean only.
-/
namespace QtVerif.Peripherals

/-- a JSON field of an entry that may be missing, null or a string -/
inductive Field where
  | absent
  | null
  | val (s : String)
deriving DecidableEq, Repr

/-- the keyword argument the constructor sees (`name: Optional[str] = None`) -/
def Field.arg : Field → Option String
  | .val s => some s
  | _ => none

/-- Python truthiness of an optional string: `None` and `''` are falsy -/
def truthy : Option String → Option String
  | some s => if s = "" then none else some s
  | none => none

/-- one entry of a peripherals document or a POST body; `params` stands for all remaining parameters -/
structure Entry where
  name : Field
  id : Field
  driver : String
  params : Nat
  static : Bool          -- the `static` field (absent = false)
deriving DecidableEq, Repr

/-- a registered peripheral (the `id` key of `_params` is not kept: `to_json` overrides it with `_id`) -/
structure Periph where
  effId : String             -- `_id`
  name : Option String       -- `_name`
  driver : String            -- `_params['driver']`
  params : Nat               -- the rest of `_params`
  static : Bool
  ports : Bool               -- `init_ports` has run (its ports exist)
deriving DecidableEq, Repr

/-- what the model is parameterised by: facts about drivers that the registry code does not decide itself -/
structure Cfg where
  auto : Entry → String          -- `peripheral_<sha256(class:name:sorted params)[:8]>`
  loadable : String → Bool       -- `dynload_utils.load_attr(class_path)` succeeds
  ctorOk : Entry → Bool          -- the driver's constructor accepts the parameters
  schemaOk : Entry → Bool        -- name / id match the pattern of the PUT schema

inductive AddErr where
  | noSuchDriver
  | ctor
  | duplicate
deriving DecidableEq, Repr

inductive PutResult where
  | ok
  | invalid (index : Nat)                     -- schema validation (before anything is touched)
  | raised (index : Nat) (kind : AddErr)      -- `add` refused the entry; the call ends there
deriving DecidableEq, Repr

/-- `name or id or auto_id` -/
def effIdOf (cfg : Cfg) (e : Entry) : String :=
  match truthy e.name.arg with
  | some n => n
  | none =>
    match truthy e.id.arg with
    | some i => i
    | none => cfg.auto e

/-- the object `peripheral_class(params=peripheral_params, static=static, **params)` builds -/
def construct (cfg : Cfg) (e : Entry) (static : Bool) : Periph :=
  { effId := effIdOf cfg e, name := e.name.arg, driver := e.driver, params := e.params,
    static := static, ports := false }

def ids (reg : List Periph) : List String := reg.map (·.effId)

/-- `peripherals.add(peripheral_params, static)`; the caller has popped `static` from the parameters -/
def add (cfg : Cfg) (reg : List Periph) (e : Entry) (static : Bool) : Except AddErr (Periph × List Periph) :=
  if !cfg.loadable e.driver then .error .noSuchDriver
  else if !cfg.ctorOk e then .error .ctor
  else
    let p := construct cfg e static
    if p.effId ∈ ids reg then .error .duplicate else .ok (p, reg ++ [p])

/-- `peripherals.remove(id)` (the API functions call `cleanup_ports` first) -/
def remove (reg : List Periph) (id : String) : List Periph := reg.filter (fun p => p.effId ≠ id)

/-- `Peripheral.to_json`: `dict(_params, id=_id, static=_static, name=_name)` -/
def toJson (p : Periph) : Entry :=
  { name := match p.name with | some n => .val n | none => .null,
    id := .val p.effId, driver := p.driver, params := p.params, static := p.static }

/-- GET /peripherals: every registered peripheral, static ones included (flagged) -/
def getPeripherals (reg : List Periph) : List Entry := reg.map toJson

inductive PostResult where
  | ok (e : Entry)
  | duplicate
  | noSuchDriver
  | invalid
deriving DecidableEq, Repr

/-- POST /peripherals (`init_ports` of the test drivers does not fail) -/
def postPeripheral (cfg : Cfg) (reg : List Periph) (e : Entry) : List Periph × PostResult :=
  if !cfg.schemaOk e then (reg, .invalid) else
  match truthy e.name.arg with
  | some n => if n ∈ ids reg then (reg, .duplicate) else go
  | none => go
where go : List Periph × PostResult :=
  match add cfg reg { e with static := false } false with
  | .error .noSuchDriver => (reg, .noSuchDriver)
  | .error .duplicate => (reg, .duplicate)
  | .error .ctor => (reg, .invalid)
  | .ok (p, reg') => (reg'.map (fun q => if q.effId = p.effId then { q with ports := true } else q),
                      .ok (toJson { p with ports := true }))

inductive DeleteResult where
  | ok
  | noSuch
  | notRemovable
deriving DecidableEq, Repr

/-- DELETE /peripherals/<id> -/
def deletePeripheral (reg : List Periph) (id : String) : List Periph × DeleteResult :=
  match reg.find? (fun p => p.effId = id) with
  | none => (reg, .noSuch)
  | some p => if p.static then (reg, .notRemovable) else (remove reg id, .ok)

/-- the loop of `put_peripherals` over the document: `st` = the peripherals that were left registered (the static
ones), `added` = `peripheral_list`. Stops at the first entry that `add` refuses. -/
def addAll (cfg : Cfg) (st : List Periph) : Nat → List Periph → List Entry → List Periph × PutResult
  | _, added, [] => (added, .ok)
  | i, added, e :: es =>
    if e.static then addAll cfg st (i + 1) added es          -- `if par.pop('static', None): continue`
    else
      match add cfg (st ++ added) { e with static := false } false with
      | .error k => (added, .raised i k)
      | .ok (p, _) => addAll cfg st (i + 1) (added ++ [p]) es

/-- index of the first entry that fails the schema -/
def firstInvalid (cfg : Cfg) : Nat → List Entry → Option Nat
  | _, [] => none
  | i, e :: es => if cfg.schemaOk e then firstInvalid cfg (i + 1) es else some i

/-- PUT /peripherals -/
def putPeripherals (cfg : Cfg) (reg : List Periph) (doc : List Entry) : List Periph × PutResult :=
  match firstInvalid cfg 0 doc with
  | some i => (reg, .invalid i)
  | none =>
    let st := reg.filter (·.static)                          -- every non-static peripheral removed, ports and all
    match addAll cfg st 0 [] doc with
    | (added, .ok) => (st ++ added.map (fun p => { p with ports := true }), .ok)     -- `init_ports` of each added one
    | (added, r) => (st ++ added, r)                         -- the exception leaves the loop: no `init_ports`

/-- ids of the peripherals whose ports exist -/
def withPorts (reg : List Periph) : List String := (reg.filter (·.ports)).map (·.effId)

end QtVerif.Peripherals
