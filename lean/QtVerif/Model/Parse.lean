import QtVerif.Model.Syntax
/-
Model of the expression parser of qtoggleserver/core/expressions for property C03. Core Lean only.

Mirrors:
  expressions/__init__.py : parse                 -> parseFuel (strip, dispatch on first character / parentheses)
  functions.py : Function.parse                   -> parseCall = scan (the `for i, c in enumerate(...)` loop: `step`,
                                                     one `if/elif` branch per branch of the code, same order;
                                                     `finish` = the checks after the loop) + name regex + registry
                                                     lookup + ENABLED + MIN_ARGS/MAX_ARGS + recursive argument parse
                                                     (first failing argument wins) + validate_arg_kinds
  port.py : PortExpression.parse                  -> parsePort
  literalvalues.py : LiteralValue.parse           -> parseLiteral ('true'/'false'/'unavailable', int(), float())
  exceptions.py                                   -> ErrKind (+ pos / token / num, carried informationally)

Texts are `List Char` (Unicode scalar values; Python strings containing lone surrogates are outside the model).
Slices of the code (`sexpression[a:b]`) are kept as accumulators: `name` = `sexpression[:p_start]`,
`cur` = `sexpression[(p_last_comma or p_start) + 1 : i]`, `argStart` = `(p_last_comma or p_start) + 1`.

Parameters (extracted from the live modules by the harness, theorems hold for every value):
  `Env.reg`    = FUNCTIONS: key, cls.NAME, effective ENABLED, MIN_ARGS, MAX_ARGS, ARG_KINDS, DEPS
  `Env.digits` = the non-ASCII code points with a decimal digit value (`str.isdecimal`), as inclusive ranges.
Fixed table: `isSpace` = Python's `str.isspace` for one code point (validated exhaustively by the harness).

Recursion on argument texts is by fuel (`parse` supplies `length + 1`); running out of fuel is an explicit error
`ErrKind.fuel`, proved unreachable (`Props/C03.lean: parse_never_fuel`).
-/
namespace QtVerif.Parse
open QtVerif.Syntax

/-! ## Character classes -/

/-- `str.isspace()` of a one-character string (`_PyUnicode_IsWhitespace`). -/
def isSpace (c : Char) : Bool :=
  let n := c.toNat
  (0x09 ≤ n && n ≤ 0x0D) || (0x1C ≤ n && n ≤ 0x20) || n == 0x85 || n == 0xA0 || n == 0x1680 ||
  (0x2000 ≤ n && n ≤ 0x200A) || n == 0x2028 || n == 0x2029 || n == 0x202F || n == 0x205F || n == 0x3000

/-- `[a-zA-Z0-9_]` -/
def isNameChar (c : Char) : Bool :=
  let n := c.toNat
  (97 ≤ n && n ≤ 122) || (65 ≤ n && n ≤ 90) || (48 ≤ n && n ≤ 57) || n == 95

/-- `[a-zA-Z0-9_.-]` -/
def isIdChar (c : Char) : Bool :=
  isNameChar c || c == '.' || c == '-'

/-- `s.lstrip()` / the `while sexpression and sexpression[0].isspace()` loop -/
def trimL (s : List Char) : List Char := s.dropWhile isSpace
/-- `s.rstrip()` / the `while sexpression and sexpression[-1].isspace()` loop -/
def trimR (s : List Char) : List Char := (s.reverse.dropWhile isSpace).reverse
/-- `s.strip()` -/
def trim (s : List Char) : List Char := trimR (trimL s)
/-- number of leading whitespace characters (what the first loop adds to `pos`) -/
def lead (s : List Char) : Nat := (s.takeWhile isSpace).length

/-! ## Errors -/

inductive ErrKind
  | empty            -- EmptyExpression
  | unbalanced       -- UnbalancedParentheses
  | unexpectedEnd    -- UnexpectedEnd
  | unexpectedChar   -- UnexpectedCharacter
  | unknownFunction  -- UnknownFunction
  | invalidArgNum    -- InvalidNumberOfArguments
  | invalidArgKind   -- InvalidArgumentKind
  | crash            -- a Python exception that is not an ExpressionParseError (IndexError in LiteralValue.parse)
  | fuel             -- model artefact, unreachable
  deriving DecidableEq, Repr

structure Err where
  kind : ErrKind
  pos : Nat := 0
  tok : List Char := []
  num : Nat := 0
  deriving DecidableEq, Repr

/-! ## Registry -/

/-- Which classes an `ARG_KINDS` entry admits (`isinstance(arg, kind)`), one flag per class of the tree. -/
structure KindSet where
  lit : Bool
  portVal : Bool
  selfVal : Bool
  portRef : Bool
  selfRef : Bool
  call : Bool
  deriving DecidableEq, Repr

/-- `(LiteralValue, PortValue, Function)` — the kind used beyond the end of `ARG_KINDS`. -/
def KindSet.default : KindSet := ⟨true, true, true, false, false, true⟩

def KindSet.admits (k : KindSet) : Expr → Bool
  | .lit _ => k.lit
  | .portVal _ => k.portVal
  | .selfVal => k.selfVal
  | .portRef _ => k.portRef
  | .selfRef => k.selfRef
  | .call _ _ => k.call

structure FnSpec where
  name : List Char            -- key in FUNCTIONS
  canon : List Char           -- cls.NAME (what `__str__` prints)
  enabled : Bool              -- `ENABLED` / `ENABLED()`
  minArgs : Option Nat
  maxArgs : Option Nat
  kinds : List KindSet
  deps : List String
  deriving Repr

abbrev Registry := List FnSpec

structure Env where
  reg : Registry
  digits : List (Nat × Nat) := []

/-- `FUNCTIONS.get(func_name)` -/
def lookup (reg : Registry) (name : List Char) : Option FnSpec :=
  reg.find? (fun f => f.name == name)

/-- A character that `int()` / `float()` / `\d` treat as a decimal digit. -/
def Env.isDecimal (env : Env) (c : Char) : Bool :=
  let n := c.toNat
  (48 ≤ n && n ≤ 57) || (n > 127 && !isSpace c && env.digits.any (fun r => r.1 ≤ n && n ≤ r.2))

/-! ## Literals: the lexical grammar of `int(s)` and `float(s)` on an already stripped string, as one DFA -/

inductive LS
  | start | sign
  | int | intU                 -- D (_? D)*
  | dot0                       -- "." with no integer digits yet
  | fracE | frac | fracU       -- "1." / "1.5" / "1.5_"
  | exp0 | expS | exp | expU   -- "1e" / "1e+" / "1e+5" / "1e+5_"
  | i1 | i2 | inf | i4 | i5 | i6 | i7 | infinity
  | n1 | n2 | nan
  | dead
  deriving DecidableEq, Repr

def isCh (c : Char) (lo up : Char) : Bool := c == lo || c == up

def litStep (dec : Char → Bool) : LS → Char → LS
  | .start, c =>
    if c == '+' || c == '-' then .sign else if dec c then .int else if c == '.' then .dot0
    else if isCh c 'i' 'I' then .i1 else if isCh c 'n' 'N' then .n1 else .dead
  | .sign, c =>
    if dec c then .int else if c == '.' then .dot0
    else if isCh c 'i' 'I' then .i1 else if isCh c 'n' 'N' then .n1 else .dead
  | .int, c =>
    if dec c then .int else if c == '_' then .intU else if c == '.' then .fracE
    else if isCh c 'e' 'E' then .exp0 else .dead
  | .intU, c => if dec c then .int else .dead
  | .dot0, c => if dec c then .frac else .dead
  | .fracE, c => if dec c then .frac else if isCh c 'e' 'E' then .exp0 else .dead
  | .frac, c => if dec c then .frac else if c == '_' then .fracU else if isCh c 'e' 'E' then .exp0 else .dead
  | .fracU, c => if dec c then .frac else .dead
  | .exp0, c => if c == '+' || c == '-' then .expS else if dec c then .exp else .dead
  | .expS, c => if dec c then .exp else .dead
  | .exp, c => if dec c then .exp else if c == '_' then .expU else .dead
  | .expU, c => if dec c then .exp else .dead
  | .i1, c => if isCh c 'n' 'N' then .i2 else .dead
  | .i2, c => if isCh c 'f' 'F' then .inf else .dead
  | .inf, c => if isCh c 'i' 'I' then .i4 else .dead
  | .i4, c => if isCh c 'n' 'N' then .i5 else .dead
  | .i5, c => if isCh c 'i' 'I' then .i6 else .dead
  | .i6, c => if isCh c 't' 'T' then .i7 else .dead
  | .i7, c => if isCh c 'y' 'Y' then .infinity else .dead
  | .infinity, _ => .dead
  | .n1, c => if isCh c 'a' 'A' then .n2 else .dead
  | .n2, c => if isCh c 'n' 'N' then .nan else .dead
  | .nan, _ => .dead
  | .dead, _ => .dead

def litRun (dec : Char → Bool) (st : LS) (s : List Char) : LS := s.foldl (litStep dec) st

/-- `int(s)` does not raise ValueError (base 10, stripped `s`). -/
def pyInt (env : Env) (s : List Char) : Bool := litRun env.isDecimal .start s == .int

/-- `float(s)` does not raise ValueError (stripped `s`). -/
def pyFloat (env : Env) (s : List Char) : Bool :=
  match litRun env.isDecimal .start s with
  | .int | .fracE | .frac | .exp | .inf | .infinity | .nan => true
  | _ => false

def isKeyword (s : List Char) : Bool :=
  s == "true".toList || s == "false".toList || s == "unavailable".toList

/-- The text is accepted by `LiteralValue.parse` (after stripping, non-empty). -/
def isLiteral (env : Env) (s : List Char) : Bool := isKeyword s || pyInt env s || pyFloat env s

/-- `\d+(\.?\d+)?` matched at the start of `r`: end of the match, counted from `neg`. -/
def litErrOffFrom (env : Env) (neg : Nat) (r : List Char) : Option Nat :=
  let d1 := r.takeWhile env.isDecimal
  if d1.isEmpty then none
  else
    match r.drop d1.length with
    | '.' :: r3 =>
      let d2 := r3.takeWhile env.isDecimal
      if d2.isEmpty then some (neg + d1.length) else some (neg + d1.length + 1 + d2.length)
    | _ => some (neg + d1.length)

/-- `re.match(r'-?\d+(\.?\d+)?', s)`: `m.end()` if it matches. -/
def litErrOff (env : Env) (s : List Char) : Option Nat :=
  match s with
  | '-' :: r => litErrOffFrom env 1 r
  | _ => litErrOffFrom env 0 s

/-- LiteralValue.parse -/
def parseLiteral (env : Env) (pos0 : Nat) (s0 : List Char) : Except Err Expr :=
  let pos := pos0 + lead s0
  let s := trim s0
  if s.isEmpty then .error { kind := .empty }
  else if isLiteral env s then .ok (.lit (String.ofList s))
  else
    match litErrOff env s with
    | some off =>
      match s.drop off with
      | c :: _ => .error { kind := .unexpectedChar, pos := pos + off, tok := [c] }
      | [] => .error { kind := .crash }
    | none => .error { kind := .unexpectedChar, pos := pos, tok := s.take 1 }

/-! ## Port references -/

/-- `re.search(pattern, s)` for a negated one-character class: first offending character and its index. -/
def firstNot (p : Char → Bool) : List Char → Nat → Option (Nat × Char)
  | [], _ => none
  | c :: cs, i => if p c then firstNot p cs (i + 1) else some (i, c)

/-- PortExpression.parse (only reached with a first character `$` or `@`). -/
def parsePort (pos0 : Nat) (s0 : List Char) : Except Err Expr :=
  let pos := pos0 + lead s0
  let s := trim s0
  match s with
  | [] => .error { kind := .crash }       -- `sexpression[0]` of an empty string; not reachable through `parse`
  | prefix_ :: portId =>
    if !portId.isEmpty then
      match firstNot isIdChar portId 0 with
      | some (p, c) => .error { kind := .unexpectedChar, pos := p + pos + 2, tok := [c] }
      | none =>
        if prefix_ == '$' then .ok (.portVal (String.ofList portId)) else .ok (.portRef (String.ofList portId))
    else
      if prefix_ == '$' then .ok .selfVal else .ok .selfRef

/-! ## Function calls: the scanning loop of Function.parse -/

structure ScanSt where
  i : Nat := 0                              -- index of the current character
  pStart : Option Nat := none               -- p_start
  pEnd : Option Nat := none                 -- p_end
  level : Nat := 0
  name : List Char := []                    -- sexpression[:p_start] (what has been read while p_start is None)
  argStart : Nat := 0                       -- (p_last_comma or p_start) + 1
  cur : List Char := []                     -- sexpression[argStart : i] (frozen once p_end is set)
  sargs : List (List Char × Nat) := []      -- sargs
  deriving Repr

/-- One iteration of `for i, c in enumerate(sexpression)`. -/
def step (pos : Nat) (st : ScanSt) (c : Char) : Except Err ScanSt :=
  if c == '(' then
    if st.pStart.isNone then
      .ok { st with i := st.i + 1, pStart := some st.i, argStart := st.i + 1, level := st.level + 1 }
    else if st.level == 0 then
      .error { kind := .unexpectedChar, pos := pos + st.i, tok := [c] }
    else
      .ok { st with i := st.i + 1, level := st.level + 1, cur := st.cur ++ [c] }
  else if c == ')' then
    if st.level == 0 then
      .error { kind := .unbalanced, pos := pos + st.i }
    else if st.level == 1 then
      if st.pEnd.isNone then
        .ok { st with i := st.i + 1, pEnd := some st.i, level := 0 }
      else
        .error { kind := .unbalanced, pos := pos + st.i }
    else
      .ok { st with i := st.i + 1, level := st.level - 1, cur := st.cur ++ [c] }
  else if c == ',' && st.level == 1 then
    if (trim st.cur).isEmpty then
      .error { kind := .unexpectedChar, pos := pos + st.argStart + st.cur.length, tok := [c] }
    else
      .ok { st with i := st.i + 1, sargs := st.sargs ++ [(st.cur, st.argStart)], cur := [], argStart := st.i + 1 }
  else if st.pStart.isSome && st.level == 0 && !isSpace c then
    .error { kind := .unexpectedChar, pos := pos + st.i, tok := [c] }
  else if st.pStart.isNone then
    .ok { st with i := st.i + 1, name := st.name ++ [c] }
  else if st.pEnd.isNone then
    .ok { st with i := st.i + 1, cur := st.cur ++ [c] }
  else
    .ok { st with i := st.i + 1 }

def scanLoop (pos : Nat) : ScanSt → List Char → Except Err ScanSt
  | st, [] => .ok st
  | st, c :: cs =>
    match step pos st c with
    | .error e => .error e
    | .ok st' => scanLoop pos st' cs

/-- The checks after the loop: unterminated call, last argument. Result: (`sexpression[:p_start]`, `sargs`). -/
def finish (pos : Nat) (st : ScanSt) : Except Err (List Char × List (List Char × Nat)) :=
  match st.pStart, st.pEnd with
  | some ps, some pe =>
    if ps > pe || st.level != 0 then .error { kind := .unexpectedEnd }
    else if pe - ps > 1 then
      if (trim st.cur).isEmpty then
        .error { kind := .unexpectedChar, pos := pos + st.argStart + st.cur.length, tok := [')'] }
      else .ok (st.name, st.sargs ++ [(st.cur, st.argStart)])
    else .ok (st.name, st.sargs)
  | _, _ => .error { kind := .unexpectedEnd }

def scan (pos : Nat) (s : List Char) : Except Err (List Char × List (List Char × Nat)) :=
  match scanLoop pos {} s with
  | .error e => .error e
  | .ok st => finish pos st

/-- `[parse(self_port_id, sarg, role, pos + spos) for (sarg, spos) in sargs]`: in order, first failure wins. -/
def mapArgs (f : Nat → List Char → Except Err Expr) : List (List Char × Nat) → Except Err (List Expr)
  | [] => .ok []
  | (a, sp) :: rest =>
    match f sp a with
    | .error e => .error e
    | .ok x =>
      match mapArgs f rest with
      | .error e => .error e
      | .ok xs => .ok (x :: xs)

/-- validate_arg_kinds: index of the first argument whose class is not admitted. -/
def firstBadKind (kinds : List KindSet) : Nat → List Expr → Option Nat
  | _, [] => none
  | i, a :: rest =>
    if ((kinds[i]?).getD KindSet.default).admits a then firstBadKind kinds (i + 1) rest else some i

def tooFew (f : FnSpec) (n : Nat) : Bool :=
  match f.minArgs with
  | some m => n < m
  | none => false

def tooMany (f : FnSpec) (n : Nat) : Bool :=
  match f.maxArgs with
  | some m => n > m
  | none => false

/-- Function.parse; `rec pos' text` is the recursive `parse` for an argument. -/
def parseCall (env : Env) (rec : Nat → List Char → Except Err Expr) (pos0 : Nat) (s0 : List Char) :
    Except Err Expr :=
  let pos := pos0 + lead s0
  let s := trim s0
  match scan pos s with
  | .error e => .error e
  | .ok (rawName, sargs) =>
    let fname := trim rawName
    match firstNot isNameChar fname 0 with
    | some (p, c) => .error { kind := .unexpectedChar, pos := p + pos, tok := [c] }
    | none =>
      match lookup env.reg fname with
      | none => .error { kind := .unknownFunction, pos := pos, tok := fname }
      | some f =>
        if !f.enabled then .error { kind := .unknownFunction, pos := pos, tok := fname }
        else if tooFew f sargs.length then .error { kind := .invalidArgNum, pos := pos, tok := fname }
        else if tooMany f sargs.length then .error { kind := .invalidArgNum, pos := pos, tok := fname }
        else
          match mapArgs (fun sp a => rec (pos + sp) a) sargs with
          | .error e => .error e
          | .ok args =>
            match firstBadKind f.kinds 0 args with
            | some i =>
              .error { kind := .invalidArgKind, pos := pos + ((sargs[i]?).map (·.2)).getD 0 + 1, tok := f.canon,
                       num := i + 1 }
            | none => .ok (.call (String.ofList f.canon) args)

/-! ## expressions.parse -/

def hasParen (s : List Char) : Bool := s.contains '(' || s.contains ')'

def parseFuel (env : Env) : Nat → Nat → List Char → Except Err Expr
  | 0, _, _ => .error { kind := .fuel }
  | n + 1, pos0, s0 =>
    let pos := pos0 + lead s0
    let s := trim s0
    if (match s with | c :: _ => c == '$' || c == '@' | [] => false) then parsePort pos s
    else if hasParen s then parseCall env (fun p a => parseFuel env n p a) pos s
    else parseLiteral env pos s

/-- `parse(self_port_id, sexpression, role, pos)`; `self_port_id` and `role` do not influence parsing (they are
stored in the nodes: see `Expr.deps` for the self id). -/
def parseAt (env : Env) (pos : Nat) (s : List Char) : Except Err Expr := parseFuel env (s.length + 1) pos s

def parse (env : Env) (s : List Char) : Except Err Expr := parseAt env 1 s

/-! ## get_deps -/

def fnDeps (env : Env) (n : String) : List String :=
  match env.reg.find? (fun f => f.canon == n.toList) with
  | some f => f.deps
  | none => []

mutual
/-- `expr.get_deps()` (as a list; the code builds a set). -/
def deps (env : Env) (selfId : String) : Expr → List String
  | .portVal id => ["$" ++ id]
  | .selfVal => ["$" ++ selfId]
  | .call n args => fnDeps env n ++ depsArgs env selfId args
  | _ => []
def depsArgs (env : Env) (selfId : String) : List Expr → List String
  | [] => []
  | a :: rest => deps env selfId a ++ depsArgs env selfId rest
end

end QtVerif.Parse
