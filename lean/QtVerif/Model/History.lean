/-
Model of the value-history subsystem of qtoggleserver for property C18.

Mirrors, function by function:
  persist/base.py      BaseDriver.get_samples_slice       -> pSlice      (filter oid ∧ from ≤ ts < to, sort by ts, limit)
                       BaseDriver.get_samples_by_timestamp-> pByTs       (per timestamp: filter ts ≤ t, sort desc, limit 1)
                       BaseDriver.save_sample             -> pSave
                       BaseDriver.remove_samples          -> pRemove     (`if obj_ids:` — an empty list means "all objects")
  core/ports.py        adapt_value_type_sync              -> adapt
  core/history.py      get_samples_slice                  -> hSlice
                       get_samples_by_timestamp           -> hByTs       (cache look-up, fetch of the missed ones, min-age rule)
                       save_sample                        -> hSave       (null value skipped, `float(value)`)
                       remove_samples (foreground)        -> hRemove     (cache of the given ports dropped first)
                       HistoryEventHandler.handle_event   -> onChange    (real date/time, interval = -1, last timestamp)
                       sampling_task (one iteration)      -> samplerTick / samplePort
                       janitor_task (one iteration)       -> janitorTick / janitorPort  (no background removal pending)
  core/main.py update  (value-change detection only)      -> poll
  get_samples_by_timestamp / remove_samples split at their awaited persistence call -> sStep (Flight, SOp)
  core/api/funcs/ports.py get_port_history                -> getPortHistory   (argument parsing, defaults, validation order)
                       delete_port_history                -> deletePortHistory
  core/api/__init__.py api_call                           -> access check (401 / 403)
  Python `int(str)`                                       -> parseInt    (ASCII strings)

Constants of the code are parameters (`Cfg`): `_CACHE_TIMESTAMP_MIN_AGE`, `OLD_TIME_LIMIT`, the default and maximum
`limit` of the API, the two access levels.  `Cfg.repaired` selects the result construction of
`get_samples_by_timestamp`: `true` = one entry per requested timestamp in request order (fixes/C18-by-timestamp-order.diff),
`false` = the dict keyed by timestamp of the pinned commit (kept only for the `unrepaired_…` witness).

Sample values are exact: a stored value is an integer number of quarters (`q/4`), which is what `float(value)` gives for
the values the harness uses; typed values are `b`/`i`/`f` like the port.
Core Lean only.
-/
namespace QtVerif.History

/-! ### Values -/

/-- Port type + `integer` attribute. -/
inductive PType
  | boolean
  | integer     -- type number, integer = true
  | number      -- type number, integer = false
  deriving DecidableEq, Repr

/-- A typed port value as the API returns it (`f q` = the float `q/4`). -/
inductive Val
  | b (v : Bool)
  | i (n : Int)
  | f (q : Int)
  deriving DecidableEq, Repr

/-- `float(value)` in `history.save_sample`, in quarters. -/
def Val.toStored : Val → Int
  | .b v => if v then 4 else 0
  | .i n => 4 * n
  | .f q => q

/-- `BasePort.adapt_value_type_sync(type, integer, value)` for a non-null stored float `q/4`:
`bool(value)`, `int(value)` (truncation towards zero) or `float(value)`. -/
def adapt : PType → Int → Val
  | .boolean, q => .b (q != 0)
  | .integer, q => .i (Int.tdiv q 4)
  | .number,  q => .f q

/-! ### Persistence layer (persist/base.py on top of the generic `query` / `insert` / `remove`) -/

structure Sample where
  oid : Nat
  ts  : Int
  val : Int
  deriving DecidableEq, Repr

/-- filter `{'oid': obj_id, 'ts': {'ge': from, 'lt': to}}` (each bound only when not `None`). -/
def inRange (oid : Nat) (frm to : Option Int) (s : Sample) : Bool :=
  s.oid == oid &&
  (match frm with | none => true | some f => decide (f ≤ s.ts)) &&
  (match to with | none => true | some t => decide (s.ts < t))

/-- Stable insertion into an ascending list (`list.sort(key=ts)` keeps the original order of equal keys). -/
def insAsc (x : Sample) : List Sample → List Sample
  | [] => [x]
  | y :: ys => if x.ts ≤ y.ts then x :: y :: ys else y :: insAsc x ys

def sortAsc : List Sample → List Sample
  | [] => []
  | x :: xs => insAsc x (sortAsc xs)

/-- Stable insertion into a descending list (`list.sort(key=ts, reverse=True)` also keeps the original order of
equal keys). -/
def insDesc (x : Sample) : List Sample → List Sample
  | [] => [x]
  | y :: ys => if y.ts ≤ x.ts then x :: y :: ys else y :: insDesc x ys

def sortDesc : List Sample → List Sample
  | [] => []
  | x :: xs => insDesc x (sortDesc xs)

def limitTo (limit : Option Nat) (l : List Sample) : List Sample :=
  match limit with
  | none => l
  | some n => l.take n

/-- `BaseDriver.get_samples_slice` (records, before the projection to `(ts, val)`). -/
def pSlice (store : List Sample) (oid : Nat) (frm to : Option Int) (limit : Option Nat) (desc : Bool) : List Sample :=
  let recs := store.filter (inRange oid frm to)
  let recs := if desc then sortDesc recs else sortAsc recs
  limitTo limit recs

/-- One query of `BaseDriver.get_samples_by_timestamp`: filter `ts ≤ t`, sort descending, limit 1. -/
def newestLE (store : List Sample) (oid : Nat) (t : Int) : Option Int :=
  match (sortDesc (store.filter (fun s => s.oid == oid && decide (s.ts ≤ t)))).take 1 with
  | s :: _ => some s.val
  | [] => none

def pByTs (store : List Sample) (oid : Nat) (tss : List Int) : List (Option Int) :=
  tss.map (newestLE store oid)

/-- `BaseDriver.save_sample` -/
def pSave (store : List Sample) (oid : Nat) (ts val : Int) : List Sample :=
  store ++ [⟨oid, ts, val⟩]

/-- The filter of `BaseDriver.remove_samples`: `if obj_ids:` — no (or an empty) list selects every object. -/
def removed (oids : List Nat) (frm to : Option Int) (s : Sample) : Bool :=
  (oids.isEmpty || oids.contains s.oid) &&
  (match frm with | none => true | some f => decide (f ≤ s.ts)) &&
  (match to with | none => true | some t => decide (s.ts < t))

def pRemove (store : List Sample) (oids : List Nat) (frm to : Option Int) : List Sample :=
  store.filter (fun s => !removed oids frm to s)

/-! ### core/history.py -/

structure Port where
  id        : Nat
  ptype     : PType
  interval  : Int            -- history_interval attribute (-1 = on value change, 0 = off, n > 0 = every n seconds)
  last      : Option Val     -- last read value
  retention : Int := 0       -- history_retention attribute (seconds; 0 = keep for ever)
  lastTs    : Int := 0       -- history_last_timestamp
  deriving Repr

structure Cfg where
  repaired  : Bool := true
  useCache  : Bool := true   -- `false` = reference semantics without the sample cache (only for `cache_transparent`)
  minAge    : Int := 3600000 -- _CACHE_TIMESTAMP_MIN_AGE
  oldLimit  : Int := 1546304400000   -- system.date.OLD_TIME_LIMIT, in ms
  defLimit  : Nat := 1000
  maxLimit  : Nat := 10000
  viewLevel : Nat := 10
  adminLevel : Nat := 30
  lateDict  : Bool := false  -- `true` = the per-port cache dict is looked up again when an answer is stored (instead of
                             -- the reference bound before the awaited persistence call); only for the witness theorem
  popAfter  : Bool := true   -- `remove_samples` drops the ports' cache dicts again after the awaited persistence call
                             -- (repo commit d4ebdd9); `false` = before the repair (invalidation only before the
                             -- await), kept only for the counter-example `overlapped_remove_race`
  deriving Repr

/-- `_samples_cache`: port id ↦ timestamp ↦ adapted value (or null), flattened; Python dict = at most one entry per key. -/
abbrev Cache := List ((Nat × Int) × Option Val)

structure State where
  store : List Sample := []
  cache : Cache := []
  ports : List Port := []
  deriving Repr

/-- Python dict as an association list in insertion order: `d.get(k)`. -/
def alGet {κ ν : Type} [DecidableEq κ] (d : List (κ × ν)) (k : κ) : Option ν :=
  match d.find? (fun e => e.1 == k) with
  | some e => some e.2
  | none => none

/-- `d[k] = v`: an existing key keeps its position, a new key goes to the end. -/
def alSet {κ ν : Type} [DecidableEq κ] (d : List (κ × ν)) (k : κ) (v : ν) : List (κ × ν) :=
  if d.any (fun e => e.1 == k) then d.map (fun e => if e.1 == k then (k, v) else e) else d ++ [(k, v)]

def cacheGet (c : Cache) (pid : Nat) (t : Int) : Option (Option Val) := alGet c (pid, t)

/-- `samples_cache[timestamp] = v` -/
def cacheSet (c : Cache) (pid : Nat) (t : Int) (v : Option Val) : Cache := alSet c (pid, t) v

/-- `_samples_cache.pop(port_id, None)` for each given port -/
def cacheDrop (c : Cache) (pids : List Nat) : Cache :=
  c.filter (fun e => !pids.contains e.1.1)

/-- `history.get_samples_slice`: persist slice + type adaptation. -/
def hSlice (st : State) (pid : Nat) (pt : PType) (frm to : Option Int) (limit : Option Nat) (desc : Bool) :
    List (Int × Val) :=
  (pSlice st.store pid frm to limit desc).map (fun s => (s.ts, adapt pt s.val))

/-- `results[t] = v` / `results[t]` on the insertion-ordered `results` dict. -/
def dictSet (d : List (Int × Option Val)) (t : Int) (v : Option Val) : List (Int × Option Val) := alSet d t v

def dictGet (d : List (Int × Option Val)) (t : Int) : Option Val := (alGet d t).getD none

/-- One output entry: `{'value': v, 'timestamp': t} if v is not None else None`. -/
def entry (t : Int) (v : Option Val) : Option (Int × Val) := v.map (fun x => (t, x))

/-- The loop that stores fetched samples into `results` and, when old enough, into the cache. -/
def storeFetched (cfg : Cfg) (pid : Nat) (now : Int) :
    List (Int × Option Val) → List (Int × Option Val) × Cache → List (Int × Option Val) × Cache
  | [], acc => acc
  | (t, v) :: rest, (results, cache) =>
    let results := dictSet results t v
    let cache := if cfg.useCache && decide (now - t > cfg.minAge) then cacheSet cache pid t v else cache
    storeFetched cfg pid now rest (results, cache)

/-- `history.get_samples_by_timestamp`. Returns the new state, the result list and the number of cache hits (a tag). -/
def hByTs (cfg : Cfg) (st : State) (pid : Nat) (pt : PType) (now : Int) (tss : List Int) :
    State × List (Option (Int × Val)) × Nat :=
  -- look every timestamp up in the cache
  let hits := tss.filter (fun t => (cacheGet st.cache pid t).isSome)
  let missed := tss.filter (fun t => (cacheGet st.cache pid t).isNone)
  let results0 : List (Int × Option Val) :=
    hits.foldl (fun d t => dictSet d t ((cacheGet st.cache pid t).getD none)) []
  -- fetch the missed ones and adapt them to the port type
  let fetched := (pByTs st.store pid missed).map (fun o => o.map (adapt pt))
  let (results, cache) := storeFetched cfg pid now (missed.zip fetched) (results0, st.cache)
  let out :=
    if cfg.repaired then tss.map (fun t => entry t (dictGet results t))
    else results.map (fun e => entry e.1 e.2)
  ({ st with cache := cache }, out, hits.length)

/-- `history.save_sample(port, timestamp)`: the port's last read value, skipped when null. -/
def hSave (st : State) (pid : Nat) (last : Option Val) (ts : Int) : State :=
  match last with
  | none => st
  | some v => { st with store := pSave st.store pid ts v.toStored }

/-- `history.remove_samples(ports, from, to)` (foreground). -/
def hRemove (st : State) (pids : List Nat) (frm to : Option Int) : State :=
  { st with cache := cacheDrop st.cache pids, store := pRemove st.store pids frm to }

def findPort (st : State) (pid : Nat) : Option Port := st.ports.find? (fun p => p.id == pid)

/-- Replace the registered port with `p.id` (in place: the registry keeps its order), or register it. -/
def setPort (st : State) (p : Port) : State :=
  if st.ports.any (fun q => q.id == p.id) then { st with ports := st.ports.map (fun q => if q.id == p.id then p else q) }
  else { st with ports := st.ports ++ [p] }

/-- `HistoryEventHandler.handle_event` for a value-change event of port `p` at `now` (ms):
`save_sample(port, now_ms); port.set_history_last_timestamp(now_ms)`. -/
def onChange (cfg : Cfg) (st : State) (p : Port) (now : Int) : State :=
  if ¬ (now > cfg.oldLimit) then st            -- not system.date.has_real_date_time()
  else if p.interval ≠ -1 then st               -- only ports with history interval -1
  else setPort (hSave st p.id p.last now) { p with lastTs := now }

/-- One polling pass as far as port `pid` is concerned: a value different from the last read one becomes the last
read value and triggers a value-change event. -/
def poll (cfg : Cfg) (st : State) (pid : Nat) (now : Int) (v : Option Val) : State :=
  match findPort st pid with
  | none => st
  | some p =>
    if v = p.last then st
    else
      let p' := { p with last := v }
      onChange cfg (setPort st p') p' now

/-- One port in one iteration of `sampling_task`: ports with a positive interval whose last sample is at least
`interval` seconds old get a sample of their last read value (none when it is null) and a new last timestamp. -/
def samplePort (st : State) (p : Port) (now : Int) : State :=
  if p.interval ≤ 0 then st                                   -- disabled or on value change
  else if now - p.lastTs < p.interval * 1000 then st
  else setPort (hSave st p.id p.last now) { p with lastTs := now }

/-- One iteration of `sampling_task` at `now` (ms): every registered (enabled) port in registry order. -/
def samplerTick (cfg : Cfg) (st : State) (now : Int) : State :=
  if ¬ (now > cfg.oldLimit) then st
  else (st.ports.map (·.id)).foldl (fun s pid => match findPort s pid with | some p => samplePort s p now | none => s) st

/-- One port in one iteration of `janitor_task`: `remove_samples([port], 0, (now_s - retention) * 1000)`. -/
def janitorPort (st : State) (p : Port) (nowS : Int) : State :=
  if p.retention ≤ 0 then st else hRemove st [p.id] (some 0) (some ((nowS - p.retention) * 1000))

/-- One iteration of `janitor_task` at `now` (ms; the code uses `int(time.time())` seconds); no port removal pending. -/
def janitorTick (cfg : Cfg) (st : State) (now : Int) : State :=
  if ¬ (now > cfg.oldLimit) then st
  else (st.ports.map (·.id)).foldl
    (fun s pid => match findPort s pid with | some p => janitorPort s p (now / 1000) | none => s) st

/-! ### Python `int(str)` on ASCII text
(the ASCII path of `int()` strips exactly `\t \n \v \f \r` and space — not `\x1c`–`\x1f`, unlike `str.strip`) -/

def isPySpace (c : Char) : Bool :=
  c == ' ' || c == '\t' || c == '\n' || c == '\r' || c.toNat == 11 || c.toNat == 12

def stripL : List Char → List Char
  | [] => []
  | c :: cs => if isPySpace c then stripL cs else c :: cs

def strip (l : List Char) : List Char := (stripL (stripL l).reverse).reverse

def digitVal (c : Char) : Option Nat :=
  if '0' ≤ c ∧ c ≤ '9' then some (c.toNat - 48) else none

/-- digits with single underscores between digits; `prevDigit` = the previous character was a digit. -/
def digitsGo : List Char → (acc : Nat) → (prevDigit : Bool) → Option Nat
  | [], acc, prev => if prev then some acc else none
  | c :: cs, acc, prev =>
    if c == '_' then (if prev then (match cs with | [] => none | _ => digitsGo cs acc false) else none)
    else match digitVal c with
      | some d => digitsGo cs (acc * 10 + d) true
      | none => none

def parseDigits (l : List Char) : Option Nat :=
  match l with
  | [] => none
  | c :: _ => if c == '_' then none else digitsGo l 0 false

/-- `int(s)` for an ASCII string: `none` = ValueError. -/
def parseInt (s : List Char) : Option Int :=
  match strip s with
  | '+' :: rest => (parseDigits rest).map Int.ofNat
  | '-' :: rest => (parseDigits rest).map (fun n => - Int.ofNat n)
  | rest => (parseDigits rest).map Int.ofNat

/-- `str.split(',')` -/
def splitComma : List Char → List (List Char)
  | [] => [[]]
  | c :: cs =>
    match splitComma cs with
    | [] => [[]]       -- unreachable
    | w :: ws => if c == ',' then [] :: w :: ws else (c :: w) :: ws

/-! ### API functions -/

inductive Field | frm | to | limit | timestamps
  deriving DecidableEq, Repr

inductive ApiErr
  | unauthorized            -- 401 authentication-required
  | forbidden               -- 403 forbidden
  | noSuchPort              -- 404 no-such-port
  | missing (f : Field)     -- 400 missing-field
  | invalid (f : Field)     -- 400 invalid-field
  deriving DecidableEq, Repr

structure Query where
  frm : Option (List Char) := none
  to : Option (List Char) := none
  limit : Option (List Char) := none
  timestamps : Option (List Char) := none
  deriving Repr

inductive Resp
  | slice (l : List (Int × Val))                 -- [{'timestamp', 'value'}, …]
  | byTs (l : List (Option (Int × Val)))         -- [{'value', 'timestamp'} | null, …]
  deriving DecidableEq, Repr

/-- `api_call(level)` wrapper. -/
def accessCheck (level required : Nat) : Option ApiErr :=
  if level < required then (if level = 0 then some .unauthorized else some .forbidden) else none

/-- Parsed and validated arguments of `get_port_history`, in the code's order of checks. -/
structure HistArgs where
  frm : Option Int
  to : Int
  limit : Nat
  timestamps : Option (List Int)
  deriving DecidableEq, Repr

/-- `try: v = int(s) except ValueError: invalid-field; if v < 0: invalid-field` -/
def nonNegInt (fld : Field) (s : List Char) : Except ApiErr Int :=
  match parseInt s with
  | none => .error (.invalid fld)
  | some v => if v < 0 then .error (.invalid fld) else .ok v

/-- `if from_str:` — an empty string counts as absent -/
def parseFrom : Option (List Char) → Except ApiErr (Option Int)
  | none => .ok none
  | some [] => .ok none
  | some s => (nonNegInt .frm s).map some

/-- `to_timestamp = int(time.time() * 1000)` unless given -/
def parseTo (now : Int) : Option (List Char) → Except ApiErr Int
  | none => .ok now
  | some s => nonNegInt .to s

def parseLimit (cfg : Cfg) : Option (List Char) → Except ApiErr Nat
  | none => .ok cfg.defLimit
  | some s =>
    match parseInt s with
    | none => .error (.invalid .limit)
    | some v => if v < 1 ∨ v > cfg.maxLimit then .error (.invalid .limit) else .ok v.toNat

def parseTimestamps : Option (List Char) → Except ApiErr (Option (List Int))
  | none => .ok none
  | some s =>
    match (splitComma s).mapM parseInt with
    | none => .error (.invalid .timestamps)
    | some l => if l.any (fun t => decide (t < 0)) then .error (.invalid .timestamps) else .ok (some l)

def parseHistArgs (cfg : Cfg) (now : Int) (q : Query) : Except ApiErr HistArgs :=
  if q.frm.isNone && q.timestamps.isNone then .error (.missing .frm) else
  match parseFrom q.frm with
  | .error e => .error e
  | .ok frm =>
  match parseTo now q.to with
  | .error e => .error e
  | .ok to =>
  match parseLimit cfg q.limit with
  | .error e => .error e
  | .ok limit =>
  match parseTimestamps q.timestamps with
  | .error e => .error e
  | .ok timestamps => .ok ⟨frm, to, limit, timestamps⟩

/-- `get_port_history(request, port_id)`; `now` = `int(time.time() * 1000)`. Third component = cache hits (tag). -/
def getPortHistory (cfg : Cfg) (st : State) (level : Nat) (pid : Nat) (now : Int) (q : Query) :
    State × Except ApiErr Resp × Nat :=
  match accessCheck level cfg.viewLevel with
  | some e => (st, .error e, 0)
  | none =>
  match findPort st pid with
  | none => (st, .error .noSuchPort, 0)
  | some p =>
  match parseHistArgs cfg now q with
  | .error e => (st, .error e, 0)
  | .ok a =>
    match a.timestamps with
    | some tss =>
      let (st', out, hits) := hByTs cfg st pid p.ptype now tss
      (st', .ok (.byTs out), hits)
    | none => (st, .ok (.slice (hSlice st pid p.ptype a.frm (some a.to) (some a.limit) false)), 0)

/-- Parsed arguments of `delete_port_history`. -/
def parseDelArgs (q : Query) : Except ApiErr (Int × Int) :=
  match q.frm with
  | none => .error (.missing .frm)
  | some s =>
    match nonNegInt .frm s with
    | .error e => .error e
    | .ok f =>
      match q.to with
      | none => .error (.missing .to)
      | some s =>
        match nonNegInt .to s with
        | .error e => .error e
        | .ok t => .ok (f, t)

/-- `delete_port_history(request, port_id)` -/
def deletePortHistory (cfg : Cfg) (st : State) (level : Nat) (pid : Nat) (q : Query) : State × Except ApiErr Unit :=
  match accessCheck level cfg.adminLevel with
  | some e => (st, .error e)
  | none =>
  match findPort st pid with
  | none => (st, .error .noSuchPort)
  | some _ =>
  match parseDelArgs q with
  | .error e => (st, .error e)
  | .ok (f, t) => (hRemove st [pid] (some f) (some t), .ok ())

/-! ### Request sequences (used by the theorems about every history of requests) -/

inductive Op
  | range (pid : Nat) (frm to : Option Int) (limit : Option Nat) (desc : Bool)   -- history.get_samples_slice
  | byTs (pid : Nat) (now : Int) (tss : List Int)                               -- history.get_samples_by_timestamp
  | remove (pids : List Nat) (frm to : Option Int)                              -- history.remove_samples
  | record (pid : Nat) (now : Int) (v : Option Val)                             -- history.save_sample(port, now)
  | poll (pid : Nat) (now : Int) (v : Option Val)                               -- polling pass + HistoryEventHandler
  | tick (now : Int)                                                            -- one janitor + one sampler iteration
  deriving Repr

inductive Ans
  | range (l : List (Int × Val))
  | byTs (l : List (Option (Int × Val)))
  | none
  deriving DecidableEq, Repr

def ptypeOf (st : State) (pid : Nat) : PType :=
  match findPort st pid with
  | some p => p.ptype
  | none => .number

def step (cfg : Cfg) (st : State) : Op → State × Ans
  | .range pid frm to limit desc => (st, .range (hSlice st pid (ptypeOf st pid) frm to limit desc))
  | .byTs pid now tss =>
    let (st', out, _) := hByTs cfg st pid (ptypeOf st pid) now tss
    (st', .byTs out)
  | .remove pids frm to => (hRemove st pids frm to, .none)
  | .record pid now v => (hSave st pid v now, .none)
  | .poll pid now v => (poll cfg st pid now v, .none)
  | .tick now => (samplerTick cfg (janitorTick cfg st now) now, .none)

def run (cfg : Cfg) : State → List Op → State × List Ans
  | st, [] => (st, [])
  | st, op :: ops =>
    let (st1, a) := step cfg st op
    let (st2, as) := run cfg st1 ops
    (st2, a :: as)

/-! ### Overlapping operations (one await point per operation)

`get_samples_by_timestamp` binds the port's cache dict, reads the hits, then awaits the persistence layer and only
afterwards stores the fetched answers; `remove_samples` pops the ports' dicts and then awaits the persistence layer.
Between the two halves any other operation can run.  A dict popped while a query is in flight is merely orphaned: the
query still holds the reference bound before the await and writes into the orphan (`Flight.orphan`). -/

/-- A by-timestamp query suspended in its persistence call. -/
structure Flight where
  k        : Nat                            -- request id
  pid      : Nat
  pt       : PType
  now      : Int                            -- `now_ms`, taken before the await
  tss      : List Int
  results0 : List (Int × Option Val)        -- answers found in the cache before the await
  missed   : List Int
  fetched  : Option (List (Option Int))     -- reply of the persistence layer once the query has executed
  orphan   : Bool                           -- the dict bound before the await has been popped meanwhile
  deriving Repr

structure SState where
  st      : State := {}
  flights : List Flight := []
  deriving Repr

inductive SOp
  | atomic (op : Op)                                   -- an operation that runs to completion
  | getBegin (k pid : Nat) (now : Int) (tss : List Int)-- by-timestamp query up to its await
  | getFetch (k : Nat)                                 -- its persistence query executes
  | getEnd (k : Nat)                                   -- it resumes: stores and returns the answers
  | delBegin (pids : List Nat)                         -- `remove_samples` up to its await (dicts popped)
  | delExec (pids : List Nat) (frm to : Option Int)    -- its persistence call executes (and it resumes)
  deriving Repr

/-- The ports whose cache dict an atomic operation pops. -/
def popped (cfg : Cfg) (st : State) : Op → List Nat
  | .remove pids _ _ => pids
  | .tick now =>
    if ¬ (now > cfg.oldLimit) then []
    else (st.ports.map (·.id)).filter (fun pid =>
      match findPort st pid with | some p => decide (0 < p.retention) | none => false)
  | _ => []

def orphanFlights (pids : List Nat) (fls : List Flight) : List Flight :=
  fls.map (fun fl => if pids.contains fl.pid then { fl with orphan := true } else fl)

/-- The first half of `get_samples_by_timestamp`: bind the dict, look every timestamp up. -/
def flightBegin (st : State) (k pid : Nat) (pt : PType) (now : Int) (tss : List Int) : Flight :=
  let hits := tss.filter (fun t => (cacheGet st.cache pid t).isSome)
  let missed := tss.filter (fun t => (cacheGet st.cache pid t).isNone)
  let results0 : List (Int × Option Val) :=
    hits.foldl (fun d t => dictSet d t ((cacheGet st.cache pid t).getD none)) []
  { k := k, pid := pid, pt := pt, now := now, tss := tss, results0 := results0, missed := missed, fetched := none,
    orphan := false }

/-- The second half: adapt the fetched samples, store them in `results` and (when old enough) in the dict bound before
the await — the live one unless it was popped meanwhile (`lateDict`: always the live one). -/
def flightEnd (cfg : Cfg) (st : State) (fl : Flight) : State × List (Option (Int × Val)) :=
  let fetched := (fl.fetched.getD []).map (fun o => o.map (adapt fl.pt))
  let live := cfg.lateDict || !fl.orphan
  let (results, cache) := storeFetched cfg fl.pid fl.now (fl.missed.zip fetched) (fl.results0, if live then st.cache else [])
  let out :=
    if cfg.repaired then fl.tss.map (fun t => entry t (dictGet results t))
    else results.map (fun e => entry e.1 e.2)
  ({ st with cache := if live then cache else st.cache }, out)

def findFlight (s : SState) (k : Nat) : Option Flight := s.flights.find? (fun fl => fl.k == k)

def sStep (cfg : Cfg) (s : SState) : SOp → SState × Option Ans
  | .atomic op =>
    let (st', a) := step cfg s.st op
    ({ st := st', flights := orphanFlights (popped cfg s.st op) s.flights }, some a)
  | .getBegin k pid now tss =>
    let fl := flightBegin s.st k pid (ptypeOf s.st pid) now tss
    if fl.missed.isEmpty then
      -- nothing to fetch: no await, the query completes at once
      let (st', out, _) := hByTs cfg s.st pid (ptypeOf s.st pid) now tss
      ({ s with st := st' }, some (.byTs out))
    else ({ s with flights := fl :: s.flights.filter (fun f => f.k != k) }, none)
  | .getFetch k =>
    ({ s with flights := s.flights.map (fun fl =>
        if fl.k == k && fl.fetched.isNone then { fl with fetched := some (pByTs s.st.store fl.pid fl.missed) } else fl) },
     none)
  | .getEnd k =>
    match findFlight s k with
    | none => (s, none)
    | some fl =>
      if fl.fetched.isNone then (s, none) else
      let (st', out) := flightEnd cfg s.st fl
      ({ st := st', flights := s.flights.filter (fun f => f.k != k) }, some (.byTs out))
  | .delBegin pids =>
    ({ st := { s.st with cache := cacheDrop s.st.cache pids }, flights := orphanFlights pids s.flights }, none)
  | .delExec pids frm to =>
    if cfg.popAfter then
      ({ st := hRemove s.st pids frm to, flights := orphanFlights pids s.flights }, none)
    else ({ s with st := { s.st with store := pRemove s.st.store pids frm to } }, none)

def sRun (cfg : Cfg) : SState → List SOp → SState × List (Option Ans)
  | s, [] => (s, [])
  | s, op :: ops =>
    let (s1, a) := sStep cfg s op
    let (s2, as) := sRun cfg s1 ops
    (s2, a :: as)

/-! ### Port removal and re-creation (a port id gets a NEW port, possibly of another type)

`BasePort.remove()` (API `DELETE /ports/{id}`) pops the port from the registry and calls
`history.remove_samples([port], background=True)`: the port's cache dict is popped at once, the removal of its samples is
only scheduled (`_pending_remove_samples`, here the list of port ids `pending`) and executed by the next janitor
iteration that has a real date/time — for every sample stored under that id by then, those of a port created under the
same id meanwhile included (the store is keyed by id).  A port created afterwards (API `POST /ports`) is a new object at
the END of the registry: last read value null, last timestamp 0, and its own type — every later answer is adapted with
the type of the port that exists now. -/

/-- `BasePort.remove()` as far as the history is concerned (the scheduling itself: `schedule`). -/
def removePort (st : State) (pid : Nat) : State :=
  { st with ports := st.ports.filter (fun p => p.id != pid), cache := cacheDrop st.cache [pid] }

/-- `_pending_remove_samples.append((port, None, None))` -/
def schedule (pending : List Nat) (pid : Nat) : List Nat := pending ++ [pid]

/-- `core.ports.load` of a port whose id is free (a taken id is refused: `duplicate-port`). -/
def addPort (st : State) (p : Port) : State :=
  if st.ports.any (fun q => q.id == p.id) then st else { st with ports := st.ports ++ [p] }

/-- remove the port registered under `p.id` (if any) and register the new port `p` under the same id -/
def recreatePort (st : State) (p : Port) : State := addPort (removePort st p.id) p

/-- The second part of one `janitor_task` iteration (after the retention loop of `janitorTick`): the scheduled
removals without bounds are grouped into ONE `remove_samples(ports)`; nothing happens without a real date/time. -/
def janitorPending (cfg : Cfg) (st : State) (pending : List Nat) (now : Int) : State × List Nat :=
  if ¬ (now > cfg.oldLimit) then (st, pending)
  else if pending.isEmpty then (st, [])
  else (hRemove st pending none none, [])

end QtVerif.History
