/-
C05 — executable model of the API value-write validation.

Mirrors (same order of checks, same early returns):
  core/api/funcs/ports.py   patch_port_value, patch_port_sequence (+ the helpers _exact, _is_on_step_grid,
                            _adapt_integral_value introduced by fixes/C05-*.diff)
  core/ports.py             get_value_schema, transform_and_write_value, adapt_value_type_sync, set_sequence, disable
  core/sequences.py         Sequence._loop (emission instants of an installed sequence)
  jsonschema Draft4         keywords type / minimum / maximum / enum (the only ones a value schema contains)

Core Lean only (`Rat` is part of core Lean 4.33).  Numbers are exact rationals: a Python `int` is itself, a Python `float`
is the decimal its `repr` shows (the shortest decimal that round-trips the binary64), which is what the repaired code
computes with (`Fraction(repr(x))`).  The unrepaired behaviour (binary64 `%`, Draft4 `integer`, grid test applied on top
of choices) is kept behind `Cfg` only for the `unrepaired_…` counter-example theorems.
-/
namespace QtVerif.ValueDomain

/-! ## Values -/

inductive PType | boolean | number
  deriving DecidableEq, Repr

/-- What Python's `json.loads` produces for the non-JSON tokens `NaN`, `Infinity`, `-Infinity` and for literals beyond
the binary64 range (`1e400`).  Not JSON values proper; modelled because the code lets them through. -/
inductive NonFin | nan | posInf | negInf
  deriving DecidableEq, Repr

/-- A parsed JSON value as the API function receives it (and, for `null`/`bool`/`num`/`nonfin`, as the port driver
receives it).  `num q isInt`: `isInt` = the token had neither fraction nor exponent (Python `int`), else Python `float`.
Strings, arrays and objects are opaque: no check of the code looks inside them (a choice is a boolean or a number and
jsonschema's `equal` is false between those and a str/list/dict whatever they contain). -/
inductive JVal
  | null
  | bool (b : Bool)
  | num (q : Rat) (isInt : Bool)
  | nonfin (k : NonFin)
  | str
  | arr
  | obj
  deriving DecidableEq, Repr

/-- One entry of the `choices` attribute (`{'value': …}`): a boolean or a number (core/api/schema.py POST_PORTS). -/
inductive Choice
  | cbool (b : Bool)
  | cnum (q : Rat)
  deriving DecidableEq, Repr

/-- Outcome of evaluating the port's `transform_write` expression on a value. The expression itself is abstract here
(expression evaluation is property C02); `unavailable` = `ValueUnavailable`, `error` = any other exception. -/
inductive TOut
  | val (r : JVal)
  | unavailable
  | error
  deriving DecidableEq, Repr

/-- Port definition, as far as value writes look at it.  `integer` is the truthiness of the `integer` attribute;
`tw = none` means no write transform. -/
structure PortDef where
  type : PType
  min : Option Rat := none
  max : Option Rat := none
  step : Option Rat := none
  integer : Bool := false
  choices : Option (List Choice) := none
  enabled : Bool := true
  writable : Bool := true
  tw : Option (JVal → TOut) := none
  /-- the `expression` attribute is non-empty (the port follows a value expression). The value endpoint does not look
  at it; the sequence endpoint refuses such a port (`port-with-expression`). -/
  hasExpression : Bool := false

/-- Switches between the repaired code (all `true`, the model proper) and the code before fixes/C05-*.diff. -/
structure Cfg where
  /-- grid test in exact arithmetic (`Fraction`), else binary64 `(value - min) % step` -/
  exactGrid : Bool := true
  /-- grid test skipped when `choices` is declared -/
  choicesOverrideGrid : Bool := true
  /-- an integer port takes an integral float token (5.0, 1e1) as the integer it denotes -/
  integralFloats : Bool := true
  /-- `maxItems` of PATCH_PORT_SEQUENCE.values / .delays (read from the live schema by the harness) -/
  maxItems : Nat := 256

def Cfg.repaired : Cfg := {}
def Cfg.unrepaired : Cfg := { exactGrid := false, choicesOverrideGrid := false, integralFloats := false }

inductive Code
  | noSuchPort        -- 404 no-such-port
  | invalidValue      -- 400 invalid-value
  | invalidRequest    -- 400 invalid-request / invalid-field / missing-field : the sequence body has the wrong shape
  | invalidField      -- 400 invalid-field (delays length, or a sequence value outside the domain)
  | portDisabled      -- 400 port-disabled
  | readOnlyPort      -- 400 read-only-port
  | portWithExpression -- 400 port-with-expression (sequence requests only)
  | unexpected        -- 500 unexpected-error
  deriving DecidableEq, Repr

inductive Resp
  | ok                -- 204 (or 202: "accepted but not applied right away"; not distinguished)
  | err (c : Code)
  deriving DecidableEq, Repr

/-! ## Exact and binary64 arithmetic -/

/-- Python's `a % b` on `Fraction`s: `a - b * floor(a / b)`. -/
def fmodQ (a b : Rat) : Rat := a - b * ((a / b).floor : Rat)

def pow2 (e : Int) : Rat :=
  if 0 ≤ e then ((2 ^ e.toNat : Nat) : Rat) else 1 / ((2 ^ (-e).toNat : Nat) : Rat)

def roundHalfEven (x : Rat) : Int :=
  let f := x.floor
  let r := x - (f : Rat)
  if r < 1 / 2 then f else if 1 / 2 < r then f + 1 else if f % 2 = 0 then f else f + 1

/-- Nearest binary64 (ties to even) of a rational, with unbounded exponent range (no overflow, no subnormals).
Only used by the unrepaired grid test. -/
def r64 (q : Rat) : Rat :=
  if q = 0 then 0 else
  let a := if q < 0 then -q else q
  let e0 : Int := (Nat.log2 a.num.natAbs : Int) - (Nat.log2 a.den : Int) - 52
  let e := if a / pow2 e0 < ((2 ^ 52 : Nat) : Rat) then e0 - 1 else e0
  let m := roundHalfEven (a / pow2 e)
  let r := (m : Rat) * pow2 e
  if q < 0 then -r else r

/-- The step test on numbers. Repaired: `(_exact(value) - _exact(min_)) % _exact(step) == 0`.
Unrepaired: `not ((value - min_) % step)` in binary64 (`fmod` is exact, so its result is zero iff the exact remainder of
the two binary64 operands is zero). -/
def onGrid (cfg : Cfg) (q m s : Rat) : Bool :=
  if cfg.exactGrid then fmodQ (q - m) s == 0
  else fmodQ (r64 (r64 q - r64 m)) (r64 s) == 0

/-! ## jsonschema Draft4 on a value schema -/

/-- jsonschema `_utils.equal(choice, instance)`: `True`/`False` only equal themselves, numbers compare by value
(`1 == 1.0`), anything else is different from a boolean or a number. -/
def jeq : Choice → JVal → Bool
  | .cbool b, .bool b' => b == b'
  | .cnum q, .num q' _ => q == q'
  | _, _ => false

/-- Draft4 `number`: int or float, not bool (NaN and the infinities are floats). -/
def isNumber : JVal → Bool
  | .num _ _ => true
  | .nonfin _ => true
  | _ => false

/-- Python `instance < minimum` on a number (`nan < m` is false). -/
def ltRat : JVal → Rat → Bool
  | .num q _, m => decide (q < m)
  | .nonfin .negInf, _ => true
  | _, _ => false

def gtRat : JVal → Rat → Bool
  | .num q _, m => decide (m < q)
  | .nonfin .posInf, _ => true
  | _, _ => false

/-- `type` keyword of the value schema: `integer` if the port is integer, else `boolean` / `number` by port type. -/
def typeOk (d : PortDef) (v : JVal) : Bool :=
  if d.integer then
    match v with
    | .num _ true => true
    | _ => false
  else
    match d.type, v with
    | .boolean, .bool _ => true
    | .boolean, _ => false
    | .number, v => isNumber v

/-- `Draft4Validator(get_value_schema()).validate(v)` succeeds. With choices the schema is `{'enum': …}` only. -/
def schemaOk (d : PortDef) (v : JVal) : Bool :=
  match d.choices with
  | some cs => cs.any (fun c => jeq c v)
  | none =>
    (match d.min with
      | some m => !(isNumber v && ltRat v m)
      | none => true) &&
    (match d.max with
      | some m => !(isNumber v && gtRat v m)
      | none => true) &&
    typeOk d v

/-- `_adapt_integral_value`. -/
def adapt (cfg : Cfg) (d : PortDef) : JVal → JVal
  | .num q false => if cfg.integralFloats && d.integer && q.isInt then .num q true else .num q false
  | v => v

inductive Grid | on | off | typeError
  deriving DecidableEq, Repr

/-- The step test on a Python value: booleans are the integers 0/1, NaN / infinities are never on the grid
(repaired: `Fraction('nan')` raises `ValueError` → False; unrepaired: `% ` gives nan, which is truthy), anything that is
not a number makes the arithmetic raise `TypeError`. -/
def gridCheck (cfg : Cfg) (v : JVal) (m s : Rat) : Grid :=
  match v with
  | .bool b => if onGrid cfg (if b then 1 else 0) m s then .on else .off
  | .num q _ => if onGrid cfg q m s then .on else .off
  | .nonfin _ => .off
  | _ => .typeError

/-- `if [choices is None and] None not in (step, min_) and step != 0 and not _is_on_step_grid(value, min_, step)`. -/
def stepCheck (cfg : Cfg) (d : PortDef) (v : JVal) : Grid :=
  if cfg.choicesOverrideGrid && d.choices.isSome then .on else
  match d.step, d.min with
  | some s, some m => if s = 0 then .on else gridCheck cfg v m s
  | _, _ => .on

/-- Validation of one value (value request, or one element of a sequence request): the adapted value or the error. -/
def validateValue (cfg : Cfg) (d : PortDef) (v : JVal) : Except Code JVal :=
  let v' := adapt cfg d v
  if !schemaOk d v' then .error .invalidValue else
  match stepCheck cfg d v' with
  | .off => .error .invalidValue
  | .typeError => .error .unexpected
  | .on => .ok v'

/-! ## Write path -/

/-- `adapt_value_type_sync(type, integer, value)`; `none` = the conversion raises (`int(nan)`, `float('x')`). -/
def coerce (d : PortDef) : JVal → Option JVal
  | .null => some .null
  | v =>
    match d.type with
    | .boolean =>
      match v with
      | .bool b => some (.bool b)
      | .num q _ => some (.bool (q != 0))
      | .nonfin _ => some (.bool true)
      | _ => none
    | .number =>
      if d.integer then
        match v with
        | .bool b => some (.num (if b then 1 else 0) true)
        | .num q _ => some (.num ((if 0 ≤ q then q.floor else -((-q).floor) : Int) : Rat) true)
        | _ => none
      else
        match v with
        | .bool b => some (.num (if b then 1 else 0) false)
        | .num q _ => some (.num q false)
        | .nonfin k => some (.nonfin k)
        | _ => none

/-- `transform_and_write_value` up to the driver call: the value handed to `write_value`, `none` if the transform or the
coercion raised (nothing is written then). Without a transform the value is written as it is. -/
def performWrite (d : PortDef) (v : JVal) : Option JVal :=
  match d.tw with
  | none => some v
  | some f =>
    match f v with
    | .val r => coerce d r
    | .unavailable => some .null
    | .error => none

/-! ## Port state, requests -/

structure PState where
  d : PortDef
  /-- virtual time, ms -/
  now : Nat := 0
  /-- values handed to the driver's `write_value`, oldest first -/
  calls : List JVal := []
  /-- the installed sequence: emission instants and (untransformed) values still to be written -/
  pend : List (Nat × JVal) := []

inductive Req
  /-- PATCH /ports/<id>/value ; `known = false`: the id names no port -/
  | value (known : Bool) (v : JVal)
  /-- PATCH /ports/<id>/sequence with body {"values": …, "delays": …, "repeat": …} -/
  | sequence (known : Bool) (values delays : List JVal) (rep : JVal)
  | enable
  | disable
  | advance (ms : Nat)
  /-- the port is removed and created again under the same id with another definition (DELETE + POST /ports, or a
  backup restore by PUT /ports); the tasks of the old port are gone with it.  Also stands for a port with driver-computed
  attributes (`attr_get_step`, `attr_is_writable`, …) whose newly declared attributes come into force — the pass of
  `core.main.update()` that drops `BasePort._attrs_cache` — while no sequence is installed (`pend = []`): then only `d`
  changes -/
  | redefine (d : PortDef)

def isReject : Resp → Bool
  | .ok => false
  | .err _ => true

/-- Emissions of the installed sequence that are due: handed to the write path in order. -/
def flush (st : PState) : PState :=
  let due := st.pend.filter (fun p => p.1 ≤ st.now)
  { st with
    calls := st.calls ++ due.filterMap (fun p => performWrite st.d p.2)
    pend := st.pend.filter (fun p => st.now < p.1) }

def handleValue (cfg : Cfg) (st : PState) (known : Bool) (v : JVal) : PState × Resp :=
  if !known then (st, .err .noSuchPort) else
  match validateValue cfg st.d v with
  | .error c => (st, .err c)
  | .ok v' =>
    if !st.d.enabled then (st, .err .portDisabled) else
    if !st.d.writable then (st, .err .readOnlyPort) else
    match performWrite st.d v' with
    | none => (st, .err .unexpected)
    | some x => ({ st with calls := st.calls ++ [x] }, .ok)

/-- PATCH_PORT_SEQUENCE: values are booleans/numbers, delays and repeat are Draft4 integers, at most `maxItems` each. -/
def isIntTok : JVal → Bool
  | .num _ true => true
  | _ => false

def isBoolOrNumber : JVal → Bool
  | .bool _ => true
  | v => isNumber v

def shapeOk (cfg : Cfg) (values delays : List JVal) (rep : JVal) : Bool :=
  values.length ≤ cfg.maxItems && values.all isBoolOrNumber &&
  delays.length ≤ cfg.maxItems && delays.all isIntTok && isIntTok rep

/-- First failing element decides (all schema/grid failures read invalid-field here). -/
def validateAll (cfg : Cfg) (d : PortDef) : List JVal → Except Code (List JVal)
  | [] => .ok []
  | v :: vs =>
    match validateValue cfg d v with
    | .error .invalidValue => .error .invalidField
    | .error c => .error c
    | .ok v' =>
      match validateAll cfg d vs with
      | .error c => .error c
      | .ok vs' => .ok (v' :: vs')

def delayMs : JVal → Nat
  | .num q _ => q.floor.toNat
  | _ => 0

def onePass (t : Nat) : List JVal → List Nat → List (Nat × JVal)
  | v :: vs, dl :: ds => (t, v) :: onePass (t + dl) vs ds
  | _, _ => []

/-- `Sequence._loop`: value i of pass r is emitted at start + r * (sum of delays) + (sum of the delays before i). -/
def passes (t total : Nat) (vals : List JVal) (delays : List Nat) : Nat → List (Nat × JVal)
  | 0 => []
  | r + 1 => onePass t vals delays ++ passes (t + total) total vals delays r

def handleSeq (cfg : Cfg) (st : PState) (known : Bool) (values delays : List JVal) (rep : JVal) : PState × Resp :=
  if !known then (st, .err .noSuchPort) else
  if !shapeOk cfg values delays rep then (st, .err .invalidRequest) else
  if values.length != delays.length then (st, .err .invalidField) else
  match validateAll cfg st.d values with
  | .error c => (st, .err c)
  | .ok vs =>
    if !st.d.enabled then (st, .err .portDisabled) else
    if !st.d.writable then (st, .err .readOnlyPort) else
    if st.d.hasExpression then (st, .err .portWithExpression) else      -- `if await port.get_attr('expression')`
    -- set_sequence: the running sequence is cancelled, the new one installed (none if `values` is empty).
    -- repeat ≤ 0 means "for ever" in the code; the model is only used with repeat ≥ 1 (the driver refuses others).
    let ds := delays.map delayMs
    ({ st with pend := passes st.now ds.sum vs ds (delayMs rep) }, .ok)

def handle (cfg : Cfg) (st : PState) : Req → PState × Resp
  | .value known v => handleValue cfg st known v
  | .sequence known values delays rep => handleSeq cfg st known values delays rep
  | .enable => ({ st with d := { st.d with enabled := true } }, .ok)
  | .disable =>
    -- BasePort.disable: no-op when already disabled, else cancels the sequence
    if st.d.enabled then ({ st with d := { st.d with enabled := false }, pend := [] }, .ok) else (st, .ok)
  | .advance ms => ({ st with now := st.now + ms }, .ok)
  | .redefine d => ({ st with d := d, pend := [] }, .ok)

/-- One request, then whatever the event loop has ready (due emissions) runs. -/
def step (cfg : Cfg) (st : PState) (r : Req) : PState × Resp :=
  let (st', resp) := handle cfg st r
  (flush st', resp)

def run (cfg : Cfg) (st : PState) : List Req → PState
  | [] => st
  | r :: rs => run cfg (step cfg st r).1 rs

end QtVerif.ValueDomain
