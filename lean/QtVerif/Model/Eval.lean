import QtVerif.Model.Syntax
import QtVerif.Model.Num
/-
Executable model of expression evaluation (C02): `qtoggleserver/core/expressions` —
`Expression.eval`, `LiteralValue._eval`, `PortValue._eval`, `SelfPortValue._eval`, `PortRef._eval`,
`Function.eval_args` and the `_eval` bodies of arithmetic / comparison / logic / bitwise / rounding / sign /
aggregation / various (AVAILABLE, DEFAULT, ONOFFAUTO, LUT, LUTLI) / time.py.  Core Lean only.

`eval` models the REPAIRED code (fixes/C02-first-failing-argument.diff, fixes/C02-pow-real-domain.diff):
  * `eval_args` evaluates every argument and reports the failure of the first failing argument in ARGUMENT order;
  * `POW` of a negative base to a non-integral power raises `ExpressionArithmeticError`.
`evalU` models the code as found at the pinned commit (`asyncio.gather`: the failure that completes first on the
event loop wins; `POW` returns a Python complex).  It exists only for the `unrepaired_…` theorems.

Out of scope here (other properties): the stateful / time-processing / date functions and HISTORY → `Res.outside`.
-/
namespace QtVerif.Eval
open QtVerif.Syntax QtVerif.Num

/-- `ExpressionEvalError` subclasses other than `ValueUnavailable`. -/
inductive EvalErr where
  | unknownPort     -- UnknownPortId
  | disabledPort    -- DisabledPort
  | arithmetic      -- ExpressionArithmeticError
  deriving DecidableEq, Repr, Inhabited

/-- Outcome of `await expr.eval(context)`. -/
inductive Res (α : Type) where
  | val (v : Val α)            -- a bool / int / float
  | portObj (id : String)      -- a port object (`@id` at top level)
  | unavailable                -- ValueUnavailable / PortValueUnavailable
  | error (k : EvalErr)        -- any other ExpressionEvalError
  | crash (k : Crash)          -- a Python exception that is not an ExpressionEvalError (not caught by AVAILABLE/DEFAULT)
  | complexVal                 -- a Python complex number (only the unrepaired POW produces it)
  | outside                    -- the tree is not in the modelled fragment (parse would reject it / other property)
  deriving Repr, Inhabited, DecidableEq

/-- What `LiteralValue.parse` made of a literal's text (computed by Python, passed to the model). -/
inductive LitDen (α : Type) where
  | unavailable                -- `unavailable` → value None
  | num (x : α)                -- `float(self.value)`
  | overflow                   -- `float(int_literal)` raises OverflowError
  | invalid                    -- not a literal (parse raises)

/-- A registered port as the evaluator sees it. -/
structure PortEntry (α : Type) where
  enabled : Bool
  lastRead : Option (Val α)      -- `port.get_last_read_value()`

/-- Everything evaluation depends on. -/
structure Ctx (α : Type) where
  reg : String → Option (PortEntry α)     -- `core_ports.get(id)`
  vals : String → Option (Val α)          -- `context.port_values.get(id)`
  nowMs : Int                             -- `context.now_ms`
  selfId : String                         -- the port the expression is attached to
  role : Nat                              -- the expression's role
  transformRoles : List Nat               -- (ROLE_TRANSFORM_READ, ROLE_TRANSFORM_WRITE) of the live module
  lit : String → LitDen α                 -- literal denotation

variable {α : Type}

/-- `PortValue._eval`: registry first, then enabled, then the context snapshot. -/
def portValue (c : Ctx α) (id : String) : Res α :=
  match c.reg id with
  | none => .error .unknownPort
  | some p =>
    if !p.enabled then .error .disabledPort
    else match c.vals id with
      | none => .unavailable
      | some v => .val v

/-- `SelfPortValue._eval`: transforms read the context, every other role reads the port's live last value. -/
def selfValue (c : Ctx α) : Res α :=
  if c.transformRoles.contains c.role then portValue c c.selfId
  else
    match c.reg c.selfId with
    | none => .error .unknownPort
    | some p =>
      if !p.enabled then .error .disabledPort
      else match p.lastRead with
        | none => .unavailable
        | some v => .val v

/-- `PortRef._eval` -/
def portRefValue (c : Ctx α) (id : String) : Res α :=
  match c.reg id with
  | none => .error .unknownPort
  | some _ => .portObj id

def litValue (c : Ctx α) (t : String) : Res α :=
  match c.lit t with
  | .unavailable => .unavailable
  | .num x => .val (.f x)
  | .overflow => .crash .overflow
  | .invalid => .outside

/-- How a function treats its arguments. -/
inductive FnKind where
  | ifK | andK | orK | availableK | defaultK     -- evaluate arguments themselves (lazily)
  | strict                                       -- `await self.eval_args(context)` first
  | unknown
  deriving DecidableEq, Repr

def strictNames : List String :=
  ["ADD", "SUB", "MUL", "DIV", "MOD", "POW", "EQ", "GT", "GTE", "LT", "LTE", "NOT", "XOR",
   "BITAND", "BITOR", "BITNOT", "BITXOR", "SHL", "SHR", "FLOOR", "CEIL", "ROUND", "ABS", "SGN",
   "MIN", "MAX", "AVG", "ONOFFAUTO", "LUT", "LUTLI", "TIME", "TIMEMS"]

def fnKind (n : String) : FnKind :=
  if n = "IF" then .ifK
  else if n = "AND" then .andK
  else if n = "OR" then .orK
  else if n = "AVAILABLE" then .availableK
  else if n = "DEFAULT" then .defaultK
  else if strictNames.contains n then .strict
  else .unknown

/-- `Function.validate_arg_kinds`: only HISTORY accepts a port reference as an argument. -/
def isRef : Expr → Bool
  | .portRef _ => true
  | .selfRef => true
  | _ => false

def Res.isVal : Res α → Bool
  | .val _ => true
  | _ => false

/-- First argument outcome that is not a value, in argument order. -/
def firstFail : List (Res α) → Option (Res α)
  | [] => none
  | .val _ :: rest => firstFail rest
  | r :: _ => some r

def valsOf : List (Res α) → List (Val α)
  | [] => []
  | .val v :: rest => v :: valsOf rest
  | _ :: rest => valsOf rest

section fns
variable [PyFloat α]

def ofExcept (r : Except Crash (Val α)) : Res α :=
  match r with
  | .ok v => .val v
  | .error e => .crash e

def boolInt (b : Bool) : Val α := .i (if b then 1 else 0)

/-! ### aggregation / various helpers -/

/-- `m = a0; for e in rest: if e < m: m = e` -/
def minFold (m : Val α) : List (Val α) → Val α
  | [] => m
  | e :: rest => minFold (if vlt e m then e else m) rest

def maxFold (m : Val α) : List (Val α) → Val α
  | [] => m
  | e :: rest => maxFold (if vgt e m then e else m) rest

/-- `points = [(args[2i+1], args[2i+2]) for i in range((len(args)-1)//2)]` -/
def pairUp : List (Val α) → List (Val α × Val α)
  | x :: y :: rest => (x, y) :: pairUp rest
  | _ => []

/-- insertion into a list sorted by `<` on the key, after every element that is not greater (stable). -/
def insertPt (p : Val α × Val α) : List (Val α × Val α) → List (Val α × Val α)
  | [] => [p]
  | q :: rest => if vlt p.1 q.1 then p :: q :: rest else q :: insertPt p rest

/-- `points.sort(key=lambda p: p[0])` (stable; uses `<` only) -/
def sortPts (l : List (Val α × Val α)) : List (Val α × Val α) :=
  l.foldl (fun acc p => insertPt p acc) []

/-- the `for i in range(length - 1)` loop of `LUTFunction._eval` over consecutive points -/
def lutGo (x : Val α) : List (Val α × Val α) → Res α
  | [] => .outside
  | [p] => .val p.2
  | p1 :: p2 :: rest =>
    if vgt x p2.1 then lutGo x (p2 :: rest)
    else
      match vsub x p1.1 with
      | .error e => .crash e
      | .ok d1 =>
        match vsub p2.1 x with
        | .error e => .crash e
        | .ok d2 => if vlt d1 d2 then .val p1.2 else .val p2.2

def lut (x : Val α) (pts : List (Val α × Val α)) : Res α :=
  match sortPts pts with
  | [] => .outside
  | p :: rest => if vlt x p.1 then .val p.2 else lutGo x (p :: rest)

/-- `p1[1] + (p2[1] - p1[1]) * (x - p1[0]) / (p2[0] - p1[0])` -/
def interp (x : Val α) (p1 p2 : Val α × Val α) : Res α :=
  match vsub p2.2 p1.2 with
  | .error e => .crash e
  | .ok dy =>
    match vsub x p1.1 with
    | .error e => .crash e
    | .ok dx =>
      match vmul dy dx with
      | .error e => .crash e
      | .ok num =>
        match vsub p2.1 p1.1 with
        | .error e => .crash e
        | .ok den =>
          -- Python's `/`: a zero divisor raises ZeroDivisionError (p1[0] == p2[0] was excluded just before)
          if !(truthy den) then .crash .zeroDiv
          else
            match vdiv num den with
            | .error e => .crash e
            | .ok q => ofExcept (vadd p1.2 q)

def lutliGo (x : Val α) : List (Val α × Val α) → Res α
  | [] => .outside
  | [p] => .val p.2
  | p1 :: p2 :: rest =>
    if vgt x p2.1 then lutliGo x (p2 :: rest)
    else if veq p1.1 p2.1 then .val p1.2
    else interp x p1 p2

def lutli (x : Val α) (pts : List (Val α × Val α)) : Res α :=
  match sortPts pts with
  | [] => .outside
  | p :: rest => if vlt x p.1 then .val p.2 else lutliGo x (p :: rest)

/-- two-argument integer functions: `int(a) ∘ int(b)` (conversion errors in argument order) -/
def intOp2 (op : Int → Int → Except Crash Int) (a b : Val α) : Res α :=
  match toInt a with
  | .error e => .crash e
  | .ok x =>
    match toInt b with
    | .error e => .crash e
    | .ok y =>
      match op x y with
      | .error e => .crash e
      | .ok r => .val (.i r)

/-- `context.timestamp = int(now_ms / 1000)` -/
def timestamp (now : Int) : Res α :=
  match PyFloat.intDiv (α := α) now 1000 with
  | none => .crash .overflow
  | some q =>
    match PyFloat.trunc q with
    | .error e => .crash e
    | .ok n => .val (.i n)

/-! ### The `_eval` bodies, applied to the values of the arguments (`await self.eval_args(context)` has succeeded).
An arity that `parse` rejects → `outside`. -/

-- arithmetic.py
def fnAdd (vs : List (Val α)) : Res α :=
  match vs with
  | _ :: _ :: _ => ofExcept (pySum vs)
  | _ => .outside
def fnSub (vs : List (Val α)) : Res α :=
  match vs with
  | [a, b] => ofExcept (vsub a b)
  | _ => .outside
/-- one `r *= e` step (an exception ends the loop) -/
def mulStep (r : Res α) (e : Val α) : Res α :=
  match r with
  | .val acc => ofExcept (vmul acc e)
  | r => r
/-- `r = 1; for e in args: r *= e` -/
def mulFold (vs : List (Val α)) : Res α := vs.foldl mulStep (.val (.i 1))
def fnMul (vs : List (Val α)) : Res α :=
  match vs with
  | _ :: _ :: _ => mulFold vs
  | _ => .outside
def fnDiv (vs : List (Val α)) : Res α :=
  match vs with
  | [a, b] => if truthy b then ofExcept (vdiv a b) else .error .arithmetic
  | _ => .outside
def fnMod (vs : List (Val α)) : Res α :=
  match vs with
  | [a, b] => if truthy b then ofExcept (vmod a b) else .error .arithmetic
  | _ => .outside
/-- `fix` = the POW repair is in place (`true` for the model proper) -/
def fnPow (fix : Bool) (vs : List (Val α)) : Res α :=
  match vs with
  | [a, b] =>
    (match vpow a b with
     | .ok v => .val v
     | .crash k => .crash k
     | .complex => if fix then .error .arithmetic else .complexVal)
  | _ => .outside
-- comparison.py
def fnCmp (op : Val α → Val α → Bool) (vs : List (Val α)) : Res α :=
  match vs with
  | [a, b] => .val (boolInt (op a b))
  | _ => .outside
-- logic.py
def fnNot (vs : List (Val α)) : Res α :=
  match vs with
  | [a] => .val (boolInt (!(truthy a)))
  | _ => .outside
def fnXor (vs : List (Val α)) : Res α :=
  match vs with
  | [a, b] => .val (boolInt ((truthy a && !(truthy b)) || (truthy b && !(truthy a))))
  | _ => .outside
-- bitwise.py
def fnInt2 (op : Int → Int → Except Crash Int) (vs : List (Val α)) : Res α :=
  match vs with
  | [a, b] => intOp2 op a b
  | _ => .outside
def fnBitNot (vs : List (Val α)) : Res α :=
  match vs with
  | [a] => (match toInt a with | .error e => .crash e | .ok x => .val (.i (inot x)))
  | _ => .outside
-- rounding.py
def fnFloor (vs : List (Val α)) : Res α :=
  match vs with
  | [a] => (match vfloor a with | .error e => .crash e | .ok n => .val (.i n))
  | _ => .outside
def fnCeil (vs : List (Val α)) : Res α :=
  match vs with
  | [a] => (match vceil a with | .error e => .crash e | .ok n => .val (.i n))
  | _ => .outside
def fnRound (vs : List (Val α)) : Res α :=
  match vs with
  | [v] => ofExcept (vround v 0)
  | [v, d] => (match toInt d with | .error e => .crash e | .ok n => ofExcept (vround v n))
  | _ => .outside
-- sign.py
def fnAbs (vs : List (Val α)) : Res α :=
  match vs with
  | [a] => .val (vabs a)
  | _ => .outside
def fnSgn (vs : List (Val α)) : Res α :=
  match vs with
  | [a] =>
    (match toInt a with
     | .error e => .crash e
     | .ok e => .val (.i (if e > 0 then 1 else if e < 0 then -1 else 0)))
  | _ => .outside
-- aggregation.py
def fnMin (vs : List (Val α)) : Res α :=
  match vs with
  | a :: b :: rest => .val (minFold a (b :: rest))
  | _ => .outside
def fnMax (vs : List (Val α)) : Res α :=
  match vs with
  | a :: b :: rest => .val (maxFold a (b :: rest))
  | _ => .outside
def fnAvg (vs : List (Val α)) : Res α :=
  match vs with
  | _ :: _ :: _ =>
    (match pySum vs with
     | .error e => .crash e
     | .ok s => ofExcept (vdiv s (.i vs.length)))
  | _ => .outside
-- various.py
def fnOnOffAuto (vs : List (Val α)) : Res α :=
  match vs with
  | [value, auto] =>
    if vgt value (.i 0) then .val (.b true)
    else if vlt value (.i 0) then .val (.b false)
    else .val auto
  | _ => .outside
def fnLut (vs : List (Val α)) : Res α :=
  match vs with
  | x :: a :: b :: c :: d :: rest => lut x (pairUp (a :: b :: c :: d :: rest))
  | _ => .outside
def fnLutli (vs : List (Val α)) : Res α :=
  match vs with
  | x :: a :: b :: c :: d :: rest => lutli x (pairUp (a :: b :: c :: d :: rest))
  | _ => .outside

/-- The registry of the strict functions that do not read the context: NAME ↦ body. -/
def fnTable : List (String × (Bool → List (Val α) → Res α)) :=
  [("ADD", fun _ => fnAdd), ("SUB", fun _ => fnSub), ("MUL", fun _ => fnMul), ("DIV", fun _ => fnDiv),
   ("MOD", fun _ => fnMod), ("POW", fnPow),
   ("EQ", fun _ => fnCmp veq), ("GT", fun _ => fnCmp vgt), ("GTE", fun _ => fnCmp vge),
   ("LT", fun _ => fnCmp vlt), ("LTE", fun _ => fnCmp vle),
   ("NOT", fun _ => fnNot), ("XOR", fun _ => fnXor),
   ("BITAND", fun _ => fnInt2 (fun x y => .ok (iand (iand (-1) x) y))),
   ("BITOR", fun _ => fnInt2 (fun x y => .ok (ior (ior 0 x) y))),
   ("BITNOT", fun _ => fnBitNot),
   ("BITXOR", fun _ => fnInt2 (fun x y => .ok (ixor x y))),
   ("SHL", fun _ => fnInt2 ishl), ("SHR", fun _ => fnInt2 ishr),
   ("FLOOR", fun _ => fnFloor), ("CEIL", fun _ => fnCeil), ("ROUND", fun _ => fnRound),
   ("ABS", fun _ => fnAbs), ("SGN", fun _ => fnSgn),
   ("MIN", fun _ => fnMin), ("MAX", fun _ => fnMax), ("AVG", fun _ => fnAvg),
   ("ONOFFAUTO", fun _ => fnOnOffAuto), ("LUT", fun _ => fnLut), ("LUTLI", fun _ => fnLutli)]

/-- The `_eval` body of a strict function other than TIME/TIMEMS, by NAME. -/
def applyPure (fix : Bool) (name : String) (vs : List (Val α)) : Res α :=
  match (fnTable (α := α)).lookup name with
  | some f => f fix vs
  | none => .outside

/-- … plus time.py, the only functions that read the context: `TIME()` = `context.timestamp`, `TIMEMS()` = `now_ms`. -/
def applyFn (fix : Bool) (now : Int) (name : String) (vs : List (Val α)) : Res α :=
  if name = "TIME" then (match vs with | [] => timestamp now | _ => .outside)
  else if name = "TIMEMS" then (match vs with | [] => .val (.i now) | _ => .outside)
  else applyPure fix name vs

/-- `eval_args` (repaired) followed by the function body: first failing argument in argument order, else apply. -/
def applyStrict (fix : Bool) (now : Int) (name : String) (rs : List (Res α)) : Res α :=
  match firstFail rs with
  | some r => r
  | none => applyFn fix now name (valsOf rs)

/-- `AVAILABLE`: `except ExpressionEvalError: return False` -/
def availableOf (r : Res α) : Res α :=
  match r with
  | .val _ => .val (.b true)
  | .portObj _ => .val (.b true)
  | .complexVal => .val (.b true)
  | .unavailable => .val (.b false)
  | .error _ => .val (.b false)
  | .crash k => .crash k
  | .outside => .outside

/-- Is the outcome an `ExpressionEvalError` (caught by AVAILABLE / DEFAULT)? -/
def Res.isEvalError : Res α → Bool
  | .unavailable => true
  | .error _ => true
  | _ => false

mutual
/-- `await expr.eval(context)` on the repaired code. Structural recursion: evaluation terminates on every tree. -/
def eval : Expr → Ctx α → Res α
  | .lit t, c => litValue c t
  | .portVal id, c => portValue c id
  | .selfVal, c => selfValue c
  | .portRef id, c => portRefValue c id
  | .selfRef, c => portRefValue c c.selfId
  | .call n args, c =>
    if args.any isRef then .outside else
    match fnKind n with
    | .ifK =>
      (match args with
       | [a, b, d] =>
         (match eval a c with
          | .val v => if truthy v then eval b c else eval d c
          | r => r)
       | _ => .outside)
    | .andK => if args.length < 2 then .outside else evalAnd args c
    | .orK => if args.length < 2 then .outside else evalOr args c
    | .availableK =>
      (match args with
       | [a] => availableOf (eval a c)
       | _ => .outside)
    | .defaultK =>
      (match args with
       | [a, b] =>
         (match eval a c with
          | .unavailable => eval b c
          | .error _ => eval b c
          | r => r)
       | _ => .outside)
    | .strict => applyStrict true c.nowMs n (evalArgs args c)
    | .unknown => .outside
/-- every argument is evaluated, in order -/
def evalArgs : List Expr → Ctx α → List (Res α)
  | [], _ => []
  | a :: rest, c => eval a c :: evalArgs rest c
/-- `for arg in self.args: if not await arg.eval(context): return 0` … `return 1` -/
def evalAnd : List Expr → Ctx α → Res α
  | [], _ => .val (.i 1)
  | a :: rest, c =>
    match eval a c with
    | .val v => if truthy v then evalAnd rest c else .val (.i 0)
    | r => r
/-- `for arg in self.args: if await arg.eval(context): return 1` … `return 0` -/
def evalOr : List Expr → Ctx α → Res α
  | [], _ => .val (.i 0)
  | a :: rest, c =>
    match eval a c with
    | .val v => if truthy v then .val (.i 1) else evalOr rest c
    | r => r
end

/-! ### The code as found: `asyncio.gather` in `eval_args`, complex POW

Every argument coroutine becomes a task; the awaiting function is resumed when the first task FAILS (or when all
have finished).  `evalU e c = (outcome, d)` where `d` counts the event-loop iterations the evaluation needs: a leaf
needs none, a strict call needs three more than the argument that decides it (task start, done-callback, wake-up),
lazily evaluated arguments add up.  Among failing arguments the one with the smallest `d` wins (the earliest in
argument order among equals). -/

/-- earliest failure: smallest duration, first among equals -/
def pickGather : List (Res α × Nat) → Option (Res α × Nat)
  | [] => none
  | (r, d) :: rest =>
    match r.isVal, pickGather rest with
    | true, o => o
    | false, none => some (r, d)
    | false, some (r', d') => if d' < d then some (r', d') else some (r, d)

def maxDur : List (Res α × Nat) → Nat
  | [] => 0
  | (_, d) :: rest => Nat.max d (maxDur rest)

def applyGather (now : Int) (name : String) (rs : List (Res α × Nat)) : Res α × Nat :=
  match rs with
  | [] => (applyFn false now name [], 0)
  | _ =>
    match pickGather rs with
    | some (r, d) => (r, d + 3)
    | none => (applyFn false now name (valsOf (rs.map (·.1))), maxDur rs + 3)

mutual
def evalU : Expr → Ctx α → Res α × Nat
  | .lit t, c => (litValue c t, 0)
  | .portVal id, c => (portValue c id, 0)
  | .selfVal, c => (selfValue c, 0)
  | .portRef id, c => (portRefValue c id, 0)
  | .selfRef, c => (portRefValue c c.selfId, 0)
  | .call n args, c =>
    if args.any isRef then (.outside, 0) else
    match fnKind n with
    | .ifK =>
      (match args with
       | [a, b, d] =>
         (match evalU a c with
          | (.val v, k) =>
            if truthy v then ((evalU b c).1, k + (evalU b c).2) else ((evalU d c).1, k + (evalU d c).2)
          | r => r)
       | _ => (.outside, 0))
    | .andK => if args.length < 2 then (.outside, 0) else evalAndU args c
    | .orK => if args.length < 2 then (.outside, 0) else evalOrU args c
    | .availableK =>
      (match args with
       | [a] => (availableOf (evalU a c).1, (evalU a c).2)
       | _ => (.outside, 0))
    | .defaultK =>
      (match args with
       | [a, b] =>
         (match evalU a c with
          | (.unavailable, k) => ((evalU b c).1, k + (evalU b c).2)
          | (.error _, k) => ((evalU b c).1, k + (evalU b c).2)
          | r => r)
       | _ => (.outside, 0))
    | .strict => applyGather c.nowMs n (evalArgsU args c)
    | .unknown => (.outside, 0)
def evalArgsU : List Expr → Ctx α → List (Res α × Nat)
  | [], _ => []
  | a :: rest, c => evalU a c :: evalArgsU rest c
def evalAndU : List Expr → Ctx α → Res α × Nat
  | [], _ => (.val (.i 1), 0)
  | a :: rest, c =>
    match evalU a c with
    | (.val v, k) => if truthy v then ((evalAndU rest c).1, k + (evalAndU rest c).2) else (.val (.i 0), k)
    | r => r
def evalOrU : List Expr → Ctx α → Res α × Nat
  | [], _ => (.val (.i 0), 0)
  | a :: rest, c =>
    match evalU a c with
    | (.val v, k) => if truthy v then (.val (.i 1), k) else ((evalOrU rest c).1, k + (evalOrU rest c).2)
    | r => r
end

end fns

/-! ### One parsed instance evaluated again and again

The hub parses an expression once and evaluates that instance at every change. The stateless fragment keeps nothing
between evaluations: the instance may remember whatever it likes (`seen`), the outcome never looks at it. -/

/-- A parsed expression instance together with everything it has been evaluated against so far. -/
structure Instance (α : Type) where
  expr : Expr
  seen : List (Ctx α × Res α)

section
variable [PyFloat α]

/-- `await instance.eval(context)`: the outcome, and the instance afterwards. -/
def Instance.step (i : Instance α) (c : Ctx α) : Instance α × Res α :=
  ({ i with seen := i.seen ++ [(c, eval i.expr c)] }, eval i.expr c)

/-- the outcomes of evaluating the same instance under a sequence of contexts -/
def Instance.run : Instance α → List (Ctx α) → List (Res α)
  | _, [] => []
  | i, c :: cs => (i.step c).2 :: Instance.run (i.step c).1 cs

/-- a freshly parsed instance -/
def Instance.fresh (e : Expr) : Instance α := ⟨e, []⟩

end

/-! ### Syntactic footprints used by the frame theorem and by well-formedness -/

mutual
/-- Does the expression read the clock (`TIME` / `TIMEMS`)? -/
def usesTime : Expr → Bool
  | .call n args => n = "TIME" || n = "TIMEMS" || argsUseTime args
  | _ => false
def argsUseTime : List Expr → Bool
  | [] => false
  | a :: rest => usesTime a || argsUseTime rest
end

/-- Port ids whose mere existence a top-level reference reads. -/
def refIds (selfId : String) : Expr → List String
  | .portRef id => [id]
  | .selfRef => [selfId]
  | _ => []

/-- `MIN_ARGS` / `MAX_ARGS` of the function registry (the arities `parse` accepts). -/
def arityOk (n : String) (k : Nat) : Bool :=
  if n = "IF" then k = 3
  else if n = "AND" ∨ n = "OR" ∨ n = "ADD" ∨ n = "MUL" ∨ n = "MIN" ∨ n = "MAX" ∨ n = "AVG" then 2 ≤ k
  else if n = "NOT" ∨ n = "BITNOT" ∨ n = "FLOOR" ∨ n = "CEIL" ∨ n = "ABS" ∨ n = "SGN" ∨ n = "AVAILABLE" then k = 1
  else if n = "ROUND" then k = 1 ∨ k = 2
  else if n = "LUT" ∨ n = "LUTLI" then 5 ≤ k
  else if n = "TIME" ∨ n = "TIMEMS" then k = 0
  else if n = "SUB" ∨ n = "DIV" ∨ n = "MOD" ∨ n = "POW" ∨ n = "EQ" ∨ n = "GT" ∨ n = "GTE" ∨ n = "LT" ∨ n = "LTE"
      ∨ n = "XOR" ∨ n = "BITAND" ∨ n = "BITOR" ∨ n = "BITXOR" ∨ n = "SHL" ∨ n = "SHR" ∨ n = "DEFAULT"
      ∨ n = "ONOFFAUTO" then k = 2
  else false

mutual
/-- Well-formed argument expression of the stateless fragment, relative to a literal table: what `parse` accepts
(known function, accepted arity, no port reference as an argument, every literal is a literal). -/
def wf (lit : String → LitDen α) : Expr → Bool
  | .lit t => (match lit t with | .invalid => false | _ => true)
  | .portVal _ => true
  | .selfVal => true
  | .portRef _ => false
  | .selfRef => false
  | .call n args => arityOk n args.length && wfArgs lit args
def wfArgs (lit : String → LitDen α) : List Expr → Bool
  | [] => true
  | a :: rest => wf lit a && wfArgs lit rest
end

/-- A whole expression: a port reference alone, or a well-formed argument expression. -/
def wfTop (lit : String → LitDen α) (e : Expr) : Bool := isRef e || wf lit e

end QtVerif.Eval
