/-
Model of request authentication in qtoggleserver (property C10). Core Lean only.

Mirrors, in the order of the code:
* `core/api/auth.py:_AUTH_TOKEN_RE` + `parse_auth_header` (49-97)   → `matchBearer`, `parseAuthHeader`
* PyJWT's compact-serialisation checks reached from `jwt.decode`      → `splitTok`, `segOk`
* `core/api/auth.py:make_auth_header` (32-46)                         → `makeTok`
* `core/api/auth.py:consumer_password_hash_func` (100-108)            → `consumerKey`
* `web/base.py:APIHandler.prepare` (107-147)                          → `prepare`
* `slaves/api/funcs/devices.py:post_slave_device_events` (338-356)    → `deviceAuth`
* `core/device/attrs.py:attr_set_password`, `core/device/__init__.py:load/save/reset`,
  `core/api/funcs/device.py:put_device/patch_device`                  → `Dev`, `Op`, `step`, `run`

What is abstract (supplied by the harness from an independent standard-library decode of the token):
the JSON content of the header and claims segments (`Tok`) and the key under which the HS256 signature over
`header.payload` verifies (`Tok.sigKey`). Header text, the bearer regular expression, the segment split and
the base64url validity of the three segments are concrete (lists of Unicode code points).

Times are integers in ticks (`Cfg.tps` ticks per second) so that float comparisons in the code are exact.
-/
namespace QtVerif.Auth

/-- HMAC key = the hexadecimal password hash (a Python `str`); `""` stands for `None`/empty (falsy). -/
abbrev Key := String

inductive User | admin | normal | viewonly
deriving DecidableEq, Repr, Inhabited

def User.name : User → String
  | .admin => "admin"
  | .normal => "normal"
  | .viewonly => "viewonly"

/-- `consumer_password_hash_func`'s dispatch on the user name / `ACCESS_LEVEL_MAPPING[usr]`. -/
def User.ofName (s : String) : Option User :=
  if s = "admin" then some .admin
  else if s = "normal" then some .normal
  else if s = "viewonly" then some .viewonly
  else none

/-- `core.api.ACCESS_LEVEL_*`. -/
def User.level : User → Nat
  | .admin => 30
  | .normal => 20
  | .viewonly => 10

/-- The three module attributes `admin_password_hash`, `normal_password_hash`, `viewonly_password_hash`. -/
structure Hashes where
  admin : Key
  normal : Key
  viewonly : Key
deriving DecidableEq, Repr, Inhabited

def Hashes.get (h : Hashes) : User → Key
  | .admin => h.admin
  | .normal => h.normal
  | .viewonly => h.viewonly

def Hashes.set (h : Hashes) (u : User) (k : Key) : Hashes :=
  match u with
  | .admin => { h with admin := k }
  | .normal => { h with normal := k }
  | .viewonly => { h with viewonly := k }

/-- Parameters read from the live modules by the harness. -/
structure Cfg where
  tps : Nat            -- ticks per second (harness resolution of the virtual clock)
  skew : Int           -- settings.core.max_client_time_skew, in ticks
  oldLimit : Int       -- system.date.OLD_TIME_LIMIT, in ticks
  iss : String         -- core.api.auth.JWT_ISS
  alg : String         -- core.api.auth.JWT_ALG
  emptyHash : Key      -- sha256(b'').hexdigest()
  /-- `false` = the code as it is (issue time checked only when `iat` is present and the hub clock is real);
      `true` = the repaired reading of the property (an issue time is required and always checked). -/
  strictIat : Bool
deriving Repr, Inhabited

/-! ### Header text: `^Bearer\s+([a-z0-9_.-]+)$` with `re.IGNORECASE`, on code points -/

def lower (c : Nat) : Nat := if 65 ≤ c ∧ c ≤ 90 then c + 32 else c

/-- Python `re` `\s` on `str` patterns. -/
def isSpace (c : Nat) : Bool :=
  (9 ≤ c && c ≤ 13) || (28 ≤ c && c ≤ 32) || c == 133 || c == 160 || c == 5760 || (8192 ≤ c && c ≤ 8202) ||
  c == 8232 || c == 8233 || c == 8239 || c == 8287 || c == 12288

/-- `[a-z0-9_.-]` under `re.IGNORECASE` on `str`: the ASCII letters, digits, `_ . -` and the four non-ASCII
letters whose simple case folding is ASCII (U+0130, U+0131, U+017F, U+212A). -/
def isTokChar (c : Nat) : Bool :=
  (48 ≤ c && c ≤ 57) || (65 ≤ c && c ≤ 90) || (97 ≤ c && c ≤ 122) || c == 95 || c == 46 || c == 45 ||
  c == 304 || c == 305 || c == 383 || c == 8490

/-- "bearer" -/
def bearerCps : List Nat := [98, 101, 97, 114, 101, 114]

/-- The regular expression: returns group 1. `\s+` and the token class are disjoint, so greedy matching is
`dropWhile`/`takeWhile`; `$` matches at the end or before one final line feed. -/
def matchBearer (h : List Nat) : Option (List Nat) :=
  if (h.take 6).map lower = bearerCps then
    match h.drop 6 with
    | [] => none
    | s :: rest =>
      if isSpace s then
        let t := rest.dropWhile isSpace
        let tok := t.takeWhile isTokChar
        let tail := t.dropWhile isTokChar
        if tok ≠ [] ∧ (tail = [] ∨ tail = [10]) then some tok else none
      else none
  else none

/-! ### Compact serialisation: `rsplit('.', 1)` then `split('.', 1)`; base64url segments -/

def dot : Nat := 46

/-- (header, payload, signature) segments; `none` = "Not enough segments". The payload keeps any further dots
(which then fail the alphabet test). -/
def splitTok (t : List Nat) : Option (List Nat × List Nat × List Nat) :=
  let r := t.reverse
  if r.all (· != dot) then none
  else
    let sig := (r.takeWhile (· != dot)).reverse
    let signing := (r.dropWhile (· != dot)).tail.reverse
    if signing.all (· != dot) then none
    else
      let hd := signing.takeWhile (· != dot)
      let pl := (signing.dropWhile (· != dot)).tail
      some (hd, pl, sig)

/-- Value of a base64url digit. -/
def b64val (c : Nat) : Option Nat :=
  if 65 ≤ c ∧ c ≤ 90 then some (c - 65)
  else if 97 ≤ c ∧ c ≤ 122 then some (c - 97 + 26)
  else if 48 ≤ c ∧ c ≤ 57 then some (c - 48 + 52)
  else if c = 45 then some 62
  else if c = 95 then some 63
  else none

/-- `PyJWS._decode_base64url_segment`: alphabet only, length ≢ 1 (mod 4), canonical (unused trailing bits zero). -/
def segOk (s : List Nat) : Bool :=
  s.all (fun c => (b64val c).isSome) &&
  (match s.length % 4 with
   | 1 => false
   | 2 => (match s.getLast? with | some c => (match b64val c with | some v => v % 16 == 0 | none => false) | none => false)
   | 3 => (match s.getLast? with | some c => (match b64val c with | some v => v % 4 == 0 | none => false) | none => false)
   | _ => true)

/-! ### Abstract token content -/

/-- A time-valued claim (`iat`, `nbf`, `exp`) as the two layers see it: `auth.py` does float arithmetic on it,
PyJWT applies `int()`. -/
inductive TClaim
  | absent
  | null
  | num (t : Int)        -- JSON bool / int / finite float, value = t / tps seconds
  | nan
  | inf                  -- ±Infinity (also 1e400)
  | strInt (n : Int)     -- a string that `int()` parses to n (seconds)
  | strBad               -- a string that `int()` rejects
  | other                -- list / object
deriving DecidableEq, Repr, Inhabited

/-- The `usr` claim as `not usr or not isinstance(usr, str)` sees it. -/
inductive UsrClaim
  | missing              -- absent, null or any falsy value
  | nonStr               -- truthy, not a string
  | str (s : String)
deriving DecidableEq, Repr, Inhabited

structure Tok where
  alg : Option String      -- header "alg" when it is a JSON string
  kidBad : Bool            -- "kid" present and not a string
  critBad : Bool           -- "crit" present and rejected by PyJWS._validate_crit
  b64False : Bool          -- header "b64" is JSON false
  iss : Option String      -- claim when it is a JSON string
  ori : Option String
  usr : UsrClaim
  iat : TClaim
  nbf : TClaim
  exp : TClaim
  audBad : Bool            -- "aud" present and truthy (no audience is passed to decode)
  subBad : Bool            -- "sub" present and not a string
  jtiBad : Bool            -- "jti" present and not a string
  /-- the key under which HMAC-SHA256 over `header.payload` equals the signature segment, if any -/
  sigKey : Option Key
deriving DecidableEq, Repr, Inhabited

/-- Reason of a refusal (for the distribution histogram only; the code logs a text). -/
inductive Deny
  | noMatch | segments | b64 | json | hdrField | iss | ori | iatCrash | skew | usr | unknownUsr
  | alg | sig | libCrash | libClaim
deriving DecidableEq, Repr, Inhabited

def Deny.toString : Deny → String
  | .noMatch => "no-match" | .segments => "segments" | .b64 => "b64" | .json => "json"
  | .hdrField => "hdr-field" | .iss => "iss" | .ori => "ori" | .iatCrash => "iat-crash" | .skew => "skew"
  | .usr => "usr" | .unknownUsr => "unknown-usr" | .alg => "alg" | .sig => "sig" | .libCrash => "lib-crash"
  | .libClaim => "lib-claim"

def realClock (cfg : Cfg) (now : Int) : Bool := decide (now > cfg.oldLimit)

/-- `iat` step of `parse_auth_header` (71-75): `none` = passes. -/
def iatStep (cfg : Cfg) (now : Int) (c : TClaim) : Option Deny :=
  if cfg.strictIat then
    match c with
    | .num t => if now - t > cfg.skew ∨ t - now > cfg.skew then some .skew else none
    | _ => some .skew
  else if realClock cfg now then
    match c with
    | .absent => none
    | .null => none
    | .num t => if now - t > cfg.skew ∨ t - now > cfg.skew then some .skew else none
    | .nan => none                     -- abs(nan) > skew is False
    | .inf => some .skew
    | .strInt _ => some .iatCrash      -- float - str: TypeError (a 500 response: no access)
    | .strBad => some .iatCrash
    | .other => some .iatCrash
  else none

/-- PyJWT's `int(payload[claim])`. -/
inductive LibInt
  | absent | crash | bad | val (sec : Int)
deriving DecidableEq, Repr

def libInt (cfg : Cfg) : TClaim → LibInt
  | .absent => .absent
  | .null => .crash                    -- int(None): TypeError
  | .num t => .val (t.tdiv cfg.tps)    -- int() truncates towards zero
  | .nan => .bad                       -- ValueError
  | .inf => .crash                     -- OverflowError
  | .strInt n => .val n
  | .strBad => .bad
  | .other => .crash

/-- `_validate_iat` / `_validate_nbf`: not in the future by more than the leeway. -/
def libNotAfter (cfg : Cfg) (now : Int) (c : TClaim) : Option Deny :=
  match libInt cfg c with
  | .absent => none
  | .crash => some .libCrash
  | .bad => some .libClaim
  | .val n => if n * cfg.tps > now + cfg.skew then some .libClaim else none

/-- `_validate_exp`. -/
def libExp (cfg : Cfg) (now : Int) (c : TClaim) : Option Deny :=
  match libInt cfg c with
  | .absent => none
  | .crash => some .libCrash
  | .bad => some .libClaim
  | .val n => if n * cfg.tps ≤ now - cfg.skew then some .libClaim else none

/-- `usr and isinstance(usr, str)`. -/
def usrPresent : UsrClaim → Bool
  | .str s => s != ""
  | _ => false

/-- `parse_auth_header(auth, origin, password_hash_func, require_usr)`. `dec` is what JSON decoding of the
header and claims segments gives (`none`: one of them is not a JSON object). Same order of checks as the code;
every refusal is "no access" (an `AuthError`, or an uncaught `TypeError`/`OverflowError` = HTTP 500). -/
def parseAuthHeader (cfg : Cfg) (now : Int) (origin : String) (requireUsr : Bool) (keyOf : UsrClaim → Key)
    (hdr : List Nat) (dec : Option Tok) : Except Deny UsrClaim :=
  match matchBearer hdr with
  | none => .error .noMatch
  | some tok =>
    -- first jwt.decode (verify_signature False)
    match splitTok tok with
    | none => .error .segments
    | some (h, p, s) =>
      if !(segOk h && segOk p && segOk s) then .error .b64 else
      match dec with
      | none => .error .json
      | some t =>
        if t.kidBad || t.critBad || t.b64False then .error .hdrField else
        -- claims
        if t.iss ≠ some cfg.iss then .error .iss else
        if t.ori ≠ some origin then .error .ori else
        match iatStep cfg now t.iat with
        | some d => .error d
        | none =>
          if requireUsr && !usrPresent t.usr then .error .usr else
          if keyOf t.usr = "" then .error .unknownUsr else
          -- second jwt.decode (verified)
          if t.alg ≠ some cfg.alg then .error .alg else
          if t.sigKey ≠ some (keyOf t.usr) then .error .sig else
          match libNotAfter cfg now t.iat with
          | some d => .error d
          | none =>
            match libNotAfter cfg now t.nbf with
            | some d => .error d
            | none =>
              match libExp cfg now t.exp with
              | some d => .error d
              | none =>
                if t.audBad || t.subBad || t.jtiBad then .error .libClaim else
                .ok t.usr

/-- `consumer_password_hash_func`. -/
def consumerKey (hs : Hashes) : UsrClaim → Key
  | .str s => match User.ofName s with
    | some u => hs.get u
    | none => ""
  | _ => ""

/-- `APIHandler.prepare`: the user whose level the request is granted (`none` = `ACCESS_LEVEL_NONE`).
`hdr = []` stands for a missing or empty `Authorization` header (`if auth:`). -/
def prepare (cfg : Cfg) (now : Int) (origin : String) (hs : Hashes) (hdr : List Nat) (dec : Option Tok) : Option User :=
  if hdr ≠ [] then
    match parseAuthHeader cfg now origin true (consumerKey hs) hdr dec with
    | .ok (.str s) => User.ofName s
    | _ => none
  else if hs.admin = cfg.emptyHash then some .admin
  else none

/-- `post_slave_device_events`' authentication: `true` = the request passes (anything but 401). -/
def deviceAuth (cfg : Cfg) (now : Int) (origin : String) (slaveHash : Key) (hdr : List Nat) (dec : Option Tok) : Bool :=
  if hdr ≠ [] then
    match parseAuthHeader cfg now origin false (fun _ => slaveHash) hdr dec with
    | .ok _ => true
    | .error _ => false
  else false

/-- `make_auth_header(origin, username, password_hash)`: content of the issued token. `iat = int(time.time())`
when the clock is real. -/
def makeTok (cfg : Cfg) (now : Int) (origin : String) (usr : Option String) (key : Key) : Tok :=
  { alg := some cfg.alg, kidBad := false, critBad := false, b64False := false,
    iss := some cfg.iss, ori := some origin,
    usr := (match usr with | some s => if s = "" then .missing else .str s | none => .missing),
    iat := if realClock cfg now then .num (now / cfg.tps * cfg.tps) else .absent,
    nbf := .absent, exp := .absent, audBad := false, subBad := false, jtiBad := false,
    sigKey := some key }

/-! ### Password state machine -/

/-- `mem`: the module attributes; `disk`: the three fields of the persisted `device` record (`none` = no record;
`""` = null / missing). -/
structure Dev where
  mem : Hashes
  disk : Option Hashes
deriving DecidableEq, Repr, Inhabited

inductive Op
  | set (u : User) (k : Key)     -- PATCH /device {"<u>_password": pw}, k = sha256(pw): attr_set_password; save()
  | restart                      -- new process: module attributes None; device.load()
  | put                          -- PUT /device: reset(preserve hashes); load(); set_attrs (passwords popped); save()
deriving DecidableEq, Repr

def noHashes : Hashes := ⟨"", "", ""⟩

def orEmpty (emp : Key) (k : Key) : Key := if k = "" then emp else k

/-- `core.device.load()`: persisted non-null values override; then empty ones become the empty-password hash. -/
def load (emp : Key) (d : Dev) : Dev :=
  let m := match d.disk with
    | none => d.mem
    | some r => ⟨if r.admin = "" then d.mem.admin else r.admin,
                 if r.normal = "" then d.mem.normal else r.normal,
                 if r.viewonly = "" then d.mem.viewonly else r.viewonly⟩
  { d with mem := ⟨orEmpty emp m.admin, orEmpty emp m.normal, orEmpty emp m.viewonly⟩ }

def step (emp : Key) (d : Dev) : Op → Dev
  | .set u k => let m := d.mem.set u k; ⟨m, some m⟩
  | .restart => load emp ⟨noHashes, d.disk⟩
  | .put => let d' := load emp ⟨d.mem, none⟩; ⟨d'.mem, some d'.mem⟩

/-- A freshly started hub on the persisted record `disk`. -/
def boot (emp : Key) (disk : Option Hashes) : Dev := load emp ⟨noHashes, disk⟩

def run (emp : Key) (d : Dev) (ops : List Op) : Dev := ops.foldl (step emp) d

/-- The key a user's tokens must be signed with after a history: the last one set, else the initial one. -/
def lastKey (k0 : Key) (u : User) (ops : List Op) : Key :=
  ops.foldl (fun k op => match op with
    | .set v k' => if v = u then k' else k
    | _ => k) k0

/-! ### The slave record of a master hub, and the slave events endpoint as a whole -/

/-- A master hub: its own password state and the admin hash it holds for its slave
(`slaves/devices.py: Slave._admin_password_hash`, used both to sign the requests it sends to the slave and to
verify the slave's device-origin tokens). -/
structure Hub where
  dev : Dev
  slave : Key
deriving DecidableEq, Repr, Inhabited

inductive HOp
  | dev (op : Op)
  /-- a `PATCH /device` carrying `admin_password` (any string, also the empty one) forwarded through
  `/devices/<name>/forward/device` and answered 2xx by the slave: `Slave.intercept_response` →
  `set_admin_password`; `k = sha256(password)` -/
  | slaveSet (k : Key)
deriving DecidableEq, Repr

def hstep (emp : Key) (h : Hub) : HOp → Hub
  | .dev op => { h with dev := step emp h.dev op }
  | .slaveSet k => { h with slave := k }

def hrun (emp : Key) (h : Hub) (ops : List HOp) : Hub := ops.foldl (hstep emp) h

/-- The hash the master must hold for the slave after a history: the last one set through it, else the initial one. -/
def lastSlaveKey (k0 : Key) (ops : List HOp) : Key :=
  ops.foldl (fun k op => match op with
    | .slaveSet k' => k'
    | _ => k) k0

/-- The own-password operations of a hub history. -/
def devOps : List HOp → List Op
  | [] => []
  | .dev op :: rest => op :: devOps rest
  | .slaveSet _ :: rest => devOps rest

/-- What `POST /devices/<name>/events` answers, in the order of `post_slave_device_events`:
authentication first (401), then the body schema, then the polling / listening preconditions (400), then the event
is handled (204). -/
inductive EvOutcome
  | unauthorized | invalidBody | pollingEnabled | listeningEnabled | accepted
deriving DecidableEq, Repr

def EvOutcome.toString : EvOutcome → String
  | .unauthorized => "unauthorized" | .invalidBody => "invalid-body" | .pollingEnabled => "polling-enabled"
  | .listeningEnabled => "listening-enabled" | .accepted => "accepted"

def eventsOutcome (cfg : Cfg) (now : Int) (origin : String) (slaveHash : Key) (polled listened bodyOk : Bool)
    (hdr : List Nat) (dec : Option Tok) : EvOutcome :=
  if !deviceAuth cfg now origin slaveHash hdr dec then .unauthorized
  else if !bodyOk then .invalidBody
  else if polled then .pollingEnabled
  else if listened then .listeningEnabled
  else .accepted

/-! ### Header TEXT → decision: the decoder as a function of the text

`prepare` takes the header text `hdr` and the decoded token content `dec` as two parameters. In the code the second is
a function of the first: `jwt.decode(token, …)` works on group 1 of the bearer expression. `Decoder` makes that tie
explicit; the real decoder (PyJWT + base64 + json + hmac, run by the harness with the standard library) is *one*
inhabitant, the theorems quantify over all of them. (`Tok.sigKey` too is a function of the text: the key in play under
which the signature segment verifies.) -/

/-- From the token text (group 1 of the bearer expression, code points) to the decoded token content;
`none` = the header or the claims segment is not a JSON object. -/
structure Decoder where
  decode : List Nat → Option Tok

/-- Group 1 of `_AUTH_TOKEN_RE` (what `parse_auth_header` hands to `jwt.decode`); `[]` when the text does not match
(then no decoding takes place). -/
def tokenPart (hdr : List Nat) : List Nat := (matchBearer hdr).getD []

/-- `APIHandler.prepare` as a function of the header text alone. -/
def prepareText (D : Decoder) (cfg : Cfg) (now : Int) (origin : String) (hs : Hashes) (hdr : List Nat) : Option User :=
  prepare cfg now origin hs hdr (D.decode (tokenPart hdr))

/-- `post_slave_device_events`' authentication as a function of the header text alone. -/
def deviceAuthText (D : Decoder) (cfg : Cfg) (now : Int) (origin : String) (slaveHash : Key) (hdr : List Nat) : Bool :=
  deviceAuth cfg now origin slaveHash hdr (D.decode (tokenPart hdr))

/-! ### What the hub returns about passwords

* `GET /device` → `core.device.attrs.to_json()`: the attributes `admin_password`, `normal_password`,
  `viewonly_password` through their getter `attr_get_password(which)` =
  `['set', ''][password_hash == EMPTY_PASSWORD_HASH]` (attrs.py 114-117); the `*_password_hash` module attributes are
  not attribute definitions and are not part of the document.
* `PATCH /device`, `PUT /device` → `None` (204, no body).

Only the password-related fields of the document are modelled (the other attributes do not depend on the hashes). -/

/-- `attr_get_password`. -/
def pwText (emp : Key) (k : Key) : String := if k = emp then "" else "set"

def User.pwField : User → String
  | .admin => "admin_password"
  | .normal => "normal_password"
  | .viewonly => "viewonly_password"

/-- The password-related fields of the `GET /device` document: field name ↦ text. -/
def deviceDoc (emp : Key) (d : Dev) : List (String × String) :=
  [(User.admin.pwField, pwText emp d.mem.admin),
   (User.normal.pwField, pwText emp d.mem.normal),
   (User.viewonly.pwField, pwText emp d.mem.viewonly)]

/-- The `/device` requests. `patch u pw`: `PATCH /device {"<u>_password": pw}` (clear text). -/
inductive DevReq
  | get
  | patch (u : User) (pw : String)
  | put
deriving DecidableEq, Repr

/-- Password-related content of the reply body to a `/device` request answered in state `d`
(`PATCH`/`PUT`: the state after the change; they have no body at all). -/
def deviceReply (emp : Key) (d : Dev) : DevReq → List (String × String)
  | .get => deviceDoc emp d
  | .patch _ _ => []
  | .put => []

/-- A hub life told with clear-text passwords (the model proper only ever sees their hashes). -/
inductive PwOp
  | set (u : User) (pw : String)      -- PATCH /device {"<u>_password": pw}
  | restart
  | put
  | slaveSet (pw : String)            -- forwarded PATCH /device {"admin_password": pw} of the slave
deriving DecidableEq, Repr

/-- The operation the model sees, given the hash function (`sha256(·).hexdigest()`, abstract). -/
def PwOp.toHOp (H : String → Key) : PwOp → HOp
  | .set u pw => .dev (.set u (H pw))
  | .restart => .dev .restart
  | .put => .dev .put
  | .slaveSet pw => .slaveSet (H pw)

/-- Every password ever submitted during the life. -/
def PwOp.passwords : List PwOp → List String
  | [] => []
  | .set _ pw :: rest => pw :: PwOp.passwords rest
  | .slaveSet pw :: rest => pw :: PwOp.passwords rest
  | _ :: rest => PwOp.passwords rest

def Hashes.toList (h : Hashes) : List Key := [h.admin, h.normal, h.viewonly]

/-- Every hash a hub state holds: in memory, in the persisted record, for its slave. -/
def Hub.hashes (h : Hub) : List Key :=
  h.dev.mem.toList ++ (match h.dev.disk with | none => [] | some r => r.toList) ++ [h.slave]

end QtVerif.Auth
