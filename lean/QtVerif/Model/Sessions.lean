/-
Model of qtoggleserver/core/sessions.py (+ the is_duplicate / REQUIRED_ACCESS discipline of the event
classes in core/events/{base,port,device}.py and slaves/events.py) for property C11.

Mirrors, line by line:
  Session.push            -> push            (dedup loop, bound loop, insert(0))
  Session.respond         -> respond
  Session.reset_and_wait  -> listen          (respond old request, rebind, filter by level [fix], respond if queued)
  SessionsEventHandler.handle_event -> trigger
  sessions.get            -> getOrCreate
  sessions.update         -> tick

Constants are parameters: `cap` = settings.core.event_queue_size, `fac` = SESSION_EXPIRY_FACTOR.
Core Lean only.
-/
namespace QtVerif.Sessions

/-- Event classes. `req` (REQUIRED_ACCESS) is carried by the event itself and handed in by the harness
from the live classes, so theorems hold for every assignment of levels to classes. -/
inductive Kind
  | valueChange | portUpdate | portAdd | portRemove | deviceUpdate | fullUpdate
  | slaveAdd | slaveRemove | slaveUpdate
  deriving DecidableEq, Repr

structure Ev where
  id   : Nat          -- trigger serial (unique per triggered event)
  kind : Kind
  req  : Nat          -- REQUIRED_ACCESS of the class
  obj  : Nat          -- identity of the port / slave the event is about (0 when none)
  deriving DecidableEq, Repr

/-- `new.is_duplicate(old)` of each event class. -/
def Ev.dup (new old : Ev) : Bool :=
  match new.kind with
  | .portUpdate   => old.kind == .portUpdate && old.obj == new.obj
  | .slaveUpdate  => old.kind == .slaveUpdate && old.obj == new.obj
  | .deviceUpdate => old.kind == .deviceUpdate
  | .fullUpdate   => old.kind == .fullUpdate
  | _             => false

structure Sess where
  sid      : Nat
  accessed : Nat                 -- time.time() at the last listen (integer ticks)
  timeout  : Nat
  level    : Nat
  active   : Option Nat          -- request id of the waiting listen call (the future)
  queue    : List Ev             -- newest first, as in the code
  deriving Repr

/-- A response: (request id, level of that request, events oldest first). -/
structure Resp where
  req    : Nat
  level  : Nat
  events : List Ev
  deriving DecidableEq, Repr

/-- Session.push -/
def push (cap : Nat) (s : Sess) (e : Ev) : Sess :=
  let q := s.queue.filter (fun o => !e.dup o)      -- `while True: duplicates = ...; remove`
  let q := q.take (cap - 1)                         -- `while len(queue) >= cap: queue.pop()` (cap ≥ 1)
  { s with queue := e :: q }                        -- `queue.insert(0, event)`

/-- Session.respond: empties the queue; answers the waiting request if there is one. -/
def respond (s : Sess) : Sess × List Resp :=
  match s.active with
  | none   => ({ s with queue := [] }, [])
  | some r => ({ s with queue := [], active := none }, [⟨r, s.level, s.queue.reverse⟩])

/-- Session.reset_and_wait. `filt` = whether the queue is filtered by the new level when the level is
rebound (the repaired code does; the code as found at the pinned commit did not). -/
def listenSess (filt : Bool) (s : Sess) (r lvl timeout now : Nat) : Sess × List Resp :=
  let (s1, out1) := if s.active.isSome then respond s else (s, [])
  let q := if filt then s1.queue.filter (fun e => e.req ≤ lvl) else s1.queue
  let s2 : Sess := { s1 with accessed := now, timeout := timeout, level := lvl, active := some r, queue := q }
  if s2.queue.isEmpty then (s2, out1)
  else
    let (s3, out2) := respond s2
    (s3, out1 ++ out2)

structure State where
  sessions : List Sess           -- dict insertion order
  deriving Repr

def State.init : State := ⟨[]⟩

inductive Op
  | trigger (e : Ev)
  | listen (sid r lvl timeout now : Nat)
  | tick (now : Nat)
  deriving Repr

/-- SessionsEventHandler.handle_event -/
def trigger (cap : Nat) (st : State) (e : Ev) : State :=
  ⟨st.sessions.map (fun s => if s.level < e.req then s else push cap s e)⟩

def newSess (sid : Nat) : Sess := ⟨sid, 0, 0, 0, none, []⟩

def listenList (filt : Bool) (sid r lvl timeout now : Nat) : List Sess → List Sess × List Resp
  | [] =>
    let (s', out) := listenSess filt (newSess sid) r lvl timeout now
    ([s'], out)
  | s :: rest =>
    if s.sid = sid then
      let (s', out) := listenSess filt s r lvl timeout now
      (s' :: rest, out)
    else
      let (rest', out) := listenList filt sid r lvl timeout now rest
      (s :: rest', out)

/-- sessions.update() on one session: `none` = session popped. -/
def tickSess (fac now : Nat) (s : Sess) : Option Sess × List Resp :=
  if !s.queue.isEmpty && s.active.isSome then
    let (s', out) := respond s
    (some s', out)
  else if now - s.accessed > s.timeout && s.active.isSome then
    let (s', out) := respond s
    (some s', out)
  else if now - s.accessed > s.timeout * fac && s.active.isNone then
    (none, [])
  else (some s, [])

def tickList (fac now : Nat) : List Sess → List Sess × List Resp
  | [] => ([], [])
  | s :: rest =>
    let (o, out) := tickSess fac now s
    let (rest', out') := tickList fac now rest
    (match o with | some s' => s' :: rest' | none => rest', out ++ out')

def step (filt : Bool) (cap fac : Nat) (st : State) : Op → State × List Resp
  | .trigger e => (trigger cap st e, [])
  | .listen sid r lvl timeout now =>
    let (l, out) := listenList filt sid r lvl timeout now st.sessions
    (⟨l⟩, out)
  | .tick now =>
    let (l, out) := tickList fac now st.sessions
    (⟨l⟩, out)

/-- Run a whole history, collecting all responses in order. -/
def run (filt : Bool) (cap fac : Nat) : State → List Op → State × List Resp
  | st, [] => (st, [])
  | st, op :: ops =>
    let (st1, out1) := step filt cap fac st op
    let (st2, out2) := run filt cap fac st1 ops
    (st2, out1 ++ out2)

end QtVerif.Sessions

namespace QtVerif.Sessions

/-! ### Declarative reference ("Spec") for what a session must deliver

Pending events of one session, **oldest first**. `squashPush` is the property's wording:
"an older update event is superseded by a newer one for the same object; the oldest events are dropped
when more than the configured queue size are pending". -/

def squashPush (cap : Nat) (l : List Ev) (e : Ev) : List Ev :=
  let l1 := l.filter (fun o => !e.dup o)
  l1.drop (l1.length - (cap - 1)) ++ [e]

def squash (cap : Nat) (init l : List Ev) : List Ev := l.foldl (squashPush cap) init

end QtVerif.Sessions
