/-
Model of the access-level enforcement path of qtoggleserver for property C09.

Mirrors, in the order the code performs them:

  tornado RequestHandler._execute           -> `serve`: method outside SUPPORTED_METHODS => 405
  web/server.py  _make_routing_table        -> `allRoutes` (code order), `enabled` (feature flags), `pattern`,
                                               first matching URLSpec wins (`resolve`), then the two catch-alls
                                               `^/api/.*$` (NoSuchFunctionHandler) and `^/.*$` (NotFoundHandler)
  web/base.py    APIHandler.prepare         -> `levelOf` (Authorization header => access level; the empty admin
                                               password rule; AUTH_ENABLED = False leaves the level at none);
                                               `sessionBad`: for an authenticated caller a Session-Id header that
                                               does not match SESSION_ID_RE raises APIError inside prepare, which
                                               tornado turns into 500 (before the method is even looked at)
  web/handlers.py                           -> `handlerFn` (HTTP method => API function; everything else is
                                               BaseHandler's NoSuchFunction = 404), `methodGuard`
                                               (`if not settings.core.virtual_ports: raise NoSuchFunction()`)
  web/base.py    APIHandler.call_api_func   -> POST/PATCH/PUT: Content-Type and JSON body checks (400) happen
                                               BEFORE the API function (and hence before the level check)
  core/api/__init__.py  api_call            -> `checkLevel`: level < required => 401 if level = none else 403;
                                               the function body runs only otherwise
  @core_api.api_call(LEVEL) on every function in */api/funcs*.py -> `required`

The table (`allRoutes`, `pattern`, `handlerFn`, `required`, `enabled`) is a transcription; the harness compares it
with the live routing table / handler classes / decorators on every run (harness/props/c09.py).
Core Lean only.
-/
namespace QtVerif.Access

/-! ## Levels, methods, features -/

inductive Level | none | viewonly | normal | admin
  deriving DecidableEq, Repr

/-- ACCESS_LEVEL_* constants of core/api/__init__.py. -/
def Level.toNat : Level → Nat
  | .none => 0 | .viewonly => 10 | .normal => 20 | .admin => 30

instance : LE Level := ⟨fun a b => a.toNat ≤ b.toNat⟩
instance : LT Level := ⟨fun a b => a.toNat < b.toNat⟩
instance (a b : Level) : Decidable (a ≤ b) := inferInstanceAs (Decidable (a.toNat ≤ b.toNat))
instance (a b : Level) : Decidable (a < b) := inferInstanceAs (Decidable (a.toNat < b.toNat))

def Level.all : List Level := [.none, .viewonly, .normal, .admin]

def Level.name : Level → String
  | .none => "none" | .viewonly => "viewonly" | .normal => "normal" | .admin => "admin"

/-- tornado's `SUPPORTED_METHODS` plus `other` for any other method token. -/
inductive Method | GET | HEAD | POST | DELETE | PATCH | PUT | OPTIONS | other
  deriving DecidableEq, Repr

def Method.all : List Method := [.GET, .HEAD, .POST, .DELETE, .PATCH, .PUT, .OPTIONS, .other]

/-- `if self.request.method in ('POST', 'PATCH', 'PUT')` of call_api_func. -/
def Method.hasBody : Method → Bool
  | .POST | .PATCH | .PUT => true
  | _ => false

/-- The settings / environment predicates that `_make_routing_table` and the handlers consult. -/
structure Features where
  frontend  : Bool   -- settings.frontend.enabled
  sequences : Bool   -- settings.core.sequences_support
  history   : Bool   -- history.is_enabled()
  backup    : Bool   -- settings.core.backup_support
  firmware  : Bool   -- settings.system.fwupdate.driver
  slaves    : Bool   -- settings.slaves.enabled
  discover  : Bool   -- slaves.discover.is_enabled()   (only consulted when slaves is on)
  webhooks  : Bool   -- settings.webhooks.enabled
  listen    : Bool   -- settings.core.listen_support
  reverse   : Bool   -- settings.reverse.enabled
  system    : Bool   -- system.conf.can_write_conf_file()
  debug     : Bool   -- settings.debug
  vports    : Bool   -- settings.core.virtual_ports (truthy), consulted by PortsHandler.post / PortHandler.delete
  deriving DecidableEq, Repr

def Features.allOn : Features := ⟨true, true, true, true, true, true, true, true, true, true, true, true, true⟩
def Features.allOff : Features := ⟨false, false, false, false, false, false, false, false, false, false, false, false, false⟩

/-! ## Routes, patterns, matching -/

/-- One constructor per API URLSpec of `_make_routing_table`. -/
inductive Route
  | frontendPanels | frontendPrefs | frontend
  | device | reset | access
  | ports | port | portValue
  | peripherals | peripheral
  | portSequence | portHistory | backupEndpoints | firmware
  | slaveDevices | slaveDevice | slaveEvents | slaveForward
  | discovered | discoveredDevice
  | webhooks | listen | reverse | system | introspect
  deriving DecidableEq, Repr

/-- The API URLSpecs in the order in which `_make_routing_table` appends them. -/
def allRoutes : List Route :=
  [.frontendPanels, .frontendPrefs, .frontend,
   .device, .reset, .access,
   .ports, .port, .portValue,
   .peripherals, .peripheral,
   .portSequence, .portHistory, .backupEndpoints, .firmware,
   .slaveDevices, .slaveDevice, .slaveEvents, .slaveForward,
   .discovered, .discoveredDevice,
   .webhooks, .listen, .reverse, .system, .introspect]

/-- The `if` guarding each URLSpec in `_make_routing_table`. -/
def enabled (f : Features) : Route → Bool
  | .frontendPanels | .frontendPrefs | .frontend => f.frontend
  | .device | .reset | .access | .ports | .port | .portValue | .peripherals | .peripheral => true
  | .portSequence => f.sequences
  | .portHistory => f.history
  | .backupEndpoints => f.backup
  | .firmware => f.firmware
  | .slaveDevices | .slaveDevice | .slaveEvents | .slaveForward => f.slaves
  | .discovered | .discoveredDevice => f.slaves && f.discover
  | .webhooks => f.webhooks
  | .listen => f.listen
  | .reverse => f.reverse
  | .system => f.system
  | .introspect => f.debug

def table (f : Features) : List Route := allRoutes.filter (enabled f)

/-- One path segment of a URLSpec regex: a literal, or a named group `(?P<name>[A-Za-z0-9_-]+)`
(`dot = true`: `[A-Za-z0-9_.-]+`). -/
inductive Seg
  | lit (s : String)
  | id (name : String) (dot : Bool)
  deriving DecidableEq, Repr

/-- A URLSpec regex `^/s1/s2/…/sn/?$` (`rest = false`) or `^/s1/…/sn/(?P<path>.+)$` (`rest = true`). -/
structure Pat where
  segs : List Seg
  rest : Bool
  deriving DecidableEq, Repr

def okChar (dot : Bool) (c : Char) : Bool :=
  c.isAlphanum || c == '_' || c == '-' || (dot && c == '.')

/-- `[A-Za-z0-9_-]+` / `[A-Za-z0-9_.-]+` (full match of one segment). -/
def isId (dot : Bool) (x : String) : Bool := !x.toList.isEmpty && x.toList.all (okChar dot)

def segMatch : Seg → String → Bool
  | .lit a, x => x == a
  | .id _ dot, x => isId dot x

/-- A path is handled as the list of its `/`-separated segments after the leading slash
(`/api/ports/p1/` = `["api", "ports", "p1", ""]`). `matchL segs rest xs`: the regex of `⟨segs, rest⟩` matches. -/
def matchL : List Seg → Bool → List String → Bool
  | [], false, xs => xs == [] || xs == [""]            -- `/?$`
  | [], true, xs => !(xs == [] || xs == [""])          -- `/(.+)$`: a slash and at least one more character
  | s :: ps, r, x :: xs => segMatch s x && matchL ps r xs
  | _ :: _, _, [] => false

def Pat.matches (p : Pat) (xs : List String) : Bool := matchL p.segs p.rest xs

private def portId : Seg := .id "port_id" true
private def devName : Seg := .id "name" false

/-- The regex of each URLSpec. -/
def pattern : Route → Pat
  | .frontendPanels => ⟨[.lit "api", .lit "frontend", .lit "dashboard", .lit "panels"], false⟩
  | .frontendPrefs => ⟨[.lit "api", .lit "frontend", .lit "prefs"], false⟩
  | .frontend => ⟨[.lit "api", .lit "frontend"], false⟩
  | .device => ⟨[.lit "api", .lit "device"], false⟩
  | .reset => ⟨[.lit "api", .lit "reset"], false⟩
  | .access => ⟨[.lit "api", .lit "access"], false⟩
  | .ports => ⟨[.lit "api", .lit "ports"], false⟩
  | .port => ⟨[.lit "api", .lit "ports", portId], false⟩
  | .portValue => ⟨[.lit "api", .lit "ports", portId, .lit "value"], false⟩
  | .peripherals => ⟨[.lit "api", .lit "peripherals"], false⟩
  | .peripheral => ⟨[.lit "api", .lit "peripherals", .id "peripheral_id" true], false⟩
  | .portSequence => ⟨[.lit "api", .lit "ports", portId, .lit "sequence"], false⟩
  | .portHistory => ⟨[.lit "api", .lit "ports", portId, .lit "history"], false⟩
  | .backupEndpoints => ⟨[.lit "api", .lit "backup", .lit "endpoints"], false⟩
  | .firmware => ⟨[.lit "api", .lit "firmware"], false⟩
  | .slaveDevices => ⟨[.lit "api", .lit "devices"], false⟩
  | .slaveDevice => ⟨[.lit "api", .lit "devices", devName], false⟩
  | .slaveEvents => ⟨[.lit "api", .lit "devices", devName, .lit "events"], false⟩
  | .slaveForward => ⟨[.lit "api", .lit "devices", devName, .lit "forward"], true⟩
  | .discovered => ⟨[.lit "api", .lit "discovered"], false⟩
  | .discoveredDevice => ⟨[.lit "api", .lit "discovered", devName], false⟩
  | .webhooks => ⟨[.lit "api", .lit "webhooks"], false⟩
  | .listen => ⟨[.lit "api", .lit "listen"], false⟩
  | .reverse => ⟨[.lit "api", .lit "reverse"], false⟩
  | .system => ⟨[.lit "api", .lit "system"], false⟩
  | .introspect => ⟨[.lit "api", .lit "introspect"], false⟩

/-- `^/api/.*$` (NoSuchFunctionHandler): `/api/` followed by anything. -/
def apiPrefix : List String → Bool
  | "api" :: _ :: _ => true
  | _ => false

inductive Resolved
  | api (r : Route)        -- an APIHandler subclass of web/handlers.py
  | noSuchFunction         -- `^/api/.*$`
  | notFound               -- `^/.*$` (frontend off), every method answers 404
  | foreign                -- not under /api/ while the frontend (QUI) routes are mounted: outside the API, not modelled
  deriving DecidableEq, Repr

/-- tornado's rule matching: the first URLSpec of the table whose regex matches; then the catch-alls. -/
def resolve (f : Features) (xs : List String) : Resolved :=
  match (table f).find? (fun r => (pattern r).matches xs) with
  | some r => .api r
  | none => if apiPrefix xs then .noSuchFunction else if f.frontend then .foreign else .notFound

/-! ## Handlers and API functions -/

/-- The API functions decorated with `@core_api.api_call(...)` that the handlers call. -/
inductive Func
  | getPanels | putPanels | getPrefs | putPrefs | getFrontend | putFrontend
  | getDevice | putDevice | patchDevice | postReset | getAccess
  | getPorts | putPorts | postPorts | deletePort | patchPort
  | getPortValue | patchPortValue | patchPortSequence | getPortHistory | deletePortHistory
  | getPeripherals | putPeripherals | postPeripherals | deletePeripheral
  | getBackupEndpoints | getFirmware | patchFirmware
  | getSlaveDevices | putSlaveDevices | postSlaveDevices | patchSlaveDevice | deleteSlaveDevice
  | postSlaveDeviceEvents | slaveDeviceForward
  | getDiscovered | deleteDiscovered | patchDiscoveredDevice
  | getWebhooks | putWebhooks | getListen | getReverse | putReverse
  | getSystem | putSystem | postIntrospect
  deriving DecidableEq, Repr

/-- The level given to `@core_api.api_call(...)` on each function. -/
def required : Func → Level
  | .getPanels | .getPrefs | .putPrefs => .viewonly
  | .getPorts | .getPortValue | .getPortHistory | .getListen => .viewonly
  | .patchPortValue | .patchPortSequence => .normal
  | .getAccess | .postSlaveDeviceEvents => .none
  | _ => .admin

/-- web/handlers.py: which API function each handler class calls for each HTTP method. `none`: the method is
BaseHandler's `raise NoSuchFunction()` (404). -/
def handlerFn : Route → Method → Option Func
  | .frontendPanels, .GET => some .getPanels
  | .frontendPanels, .PUT => some .putPanels
  | .frontendPrefs, .GET => some .getPrefs
  | .frontendPrefs, .PUT => some .putPrefs
  | .frontend, .GET => some .getFrontend
  | .frontend, .PUT => some .putFrontend
  | .device, .GET => some .getDevice
  | .device, .PUT => some .putDevice
  | .device, .PATCH => some .patchDevice
  | .reset, .POST => some .postReset
  | .access, .GET => some .getAccess
  | .ports, .GET => some .getPorts
  | .ports, .PUT => some .putPorts
  | .ports, .POST => some .postPorts
  | .port, .DELETE => some .deletePort
  | .port, .PATCH => some .patchPort
  | .portValue, .GET => some .getPortValue
  | .portValue, .PATCH => some .patchPortValue
  | .peripherals, .GET => some .getPeripherals
  | .peripherals, .PUT => some .putPeripherals
  | .peripherals, .POST => some .postPeripherals
  | .peripheral, .DELETE => some .deletePeripheral
  | .portSequence, .PATCH => some .patchPortSequence
  | .portHistory, .GET => some .getPortHistory
  | .portHistory, .DELETE => some .deletePortHistory
  | .backupEndpoints, .GET => some .getBackupEndpoints
  | .firmware, .GET => some .getFirmware
  | .firmware, .PATCH => some .patchFirmware
  | .slaveDevices, .GET => some .getSlaveDevices
  | .slaveDevices, .PUT => some .putSlaveDevices
  | .slaveDevices, .POST => some .postSlaveDevices
  | .slaveDevice, .PATCH => some .patchSlaveDevice
  | .slaveDevice, .DELETE => some .deleteSlaveDevice
  | .slaveEvents, .POST => some .postSlaveDeviceEvents
  | .slaveForward, .GET => some .slaveDeviceForward
  | .slaveForward, .POST => some .slaveDeviceForward
  | .slaveForward, .PATCH => some .slaveDeviceForward
  | .slaveForward, .PUT => some .slaveDeviceForward
  | .slaveForward, .DELETE => some .slaveDeviceForward
  | .discovered, .GET => some .getDiscovered
  | .discovered, .DELETE => some .deleteDiscovered
  | .discoveredDevice, .PATCH => some .patchDiscoveredDevice
  | .webhooks, .GET => some .getWebhooks
  | .webhooks, .PUT => some .putWebhooks
  | .listen, .GET => some .getListen
  | .reverse, .GET => some .getReverse
  | .reverse, .PUT => some .putReverse
  | .system, .GET => some .getSystem
  | .system, .PUT => some .putSystem
  | .introspect, .POST => some .postIntrospect
  | _, _ => none

/-- `if not settings.core.virtual_ports: raise NoSuchFunction()` at the top of PortsHandler.post and
PortHandler.delete (before `call_api_func`). -/
def methodGuard (f : Features) : Route → Method → Bool
  | .ports, .POST => f.vports
  | .port, .DELETE => f.vports
  | _, _ => true

/-- `AUTH_ENABLED` of the handler class (False only for SlaveDeviceEventsHandler: prepare returns before
looking at the Authorization header, so the level stays at none for every caller). -/
def authEnabled : Route → Bool
  | .slaveEvents => false
  | _ => true

/-! ## The caller -/

/-- Which of the three consumer passwords of the device are empty (hash = EMPTY_PASSWORD_HASH). -/
structure Passwords where
  adminEmpty    : Bool
  normalEmpty   : Bool
  viewonlyEmpty : Bool
  deriving DecidableEq, Repr

def Passwords.allSet : Passwords := ⟨false, false, false⟩

def Passwords.all : List Passwords :=
  [⟨false, false, false⟩, ⟨false, false, true⟩, ⟨false, true, false⟩, ⟨false, true, true⟩,
   ⟨true, false, false⟩, ⟨true, false, true⟩, ⟨true, true, false⟩, ⟨true, true, true⟩]

/-- The Authorization header as `prepare` sees it. `valid l`: a header that `parse_auth_header` accepts for the
user of level `l` (what makes a header valid is property C10). -/
inductive Cred
  | noHeader
  | invalid
  | valid (l : Level)
  deriving DecidableEq, Repr

/-- What `APIHandler.prepare` can see: the password configuration of the device and the caller's credentials. -/
structure Auth where
  pw   : Passwords
  cred : Cred
  deriving DecidableEq, Repr

/-- `APIHandler.prepare`: a request without Authorization header is admin iff the ADMIN password is empty —
whatever the normal and view-only passwords are; an invalid header is level none whatever the passwords. -/
def levelOf (a : Auth) : Level :=
  match a.cred with
  | .noHeader => if a.pw.adminEmpty then .admin   -- 'authenticating request as admin due to empty admin password'
                 else .none                        -- 'missing authorization header'
  | .invalid => .none                              -- AuthError: return before any level is granted
  | .valid l => l

/-- `prepare` got past the authentication step (it then validates the Session-Id header). -/
def Auth.authenticated (a : Auth) : Bool :=
  match a.cred with
  | .noHeader => a.pw.adminEmpty
  | .invalid => false
  | .valid _ => true

/-- Shorthands (all three passwords set unless said otherwise). -/
def Auth.noHeader (adminPasswordEmpty : Bool) : Auth := ⟨⟨adminPasswordEmpty, false, false⟩, .noHeader⟩
def Auth.invalid : Auth := ⟨Passwords.allSet, .invalid⟩
def Auth.valid (l : Level) : Auth := ⟨Passwords.allSet, .valid l⟩

/-- State of the request body as `call_api_func` sees it (only consulted for POST/PATCH/PUT). -/
inductive Body
  | json               -- Content-Type application/json and a body that parses
  | badContentType     -- 400 invalid-header
  | malformed          -- 400 malformed-body
  deriving DecidableEq, Repr

structure Req where
  method : Method
  path   : List String      -- segments after the leading slash
  auth   : Auth
  body   : Body
  sessionOk : Bool := true  -- no Session-Id header, or one that SESSION_ID_RE.match accepts
  deriving Repr

inductive Outcome
  | status (code : Nat)                 -- answered without reaching an API function
  | refused (code : Nat) (f : Func)     -- the decorator of `f` raised APIError(code); the body of `f` did not run
  | run (f : Func)                      -- the body of `f` runs (its own status is outside this model)
  | foreign                             -- handled by a non-API (frontend) route; not modelled
  deriving DecidableEq, Repr

/-- The `wrapper` of `api_call`. -/
def checkLevel (lvl : Level) (f : Func) : Outcome :=
  if lvl < required f then
    if lvl = .none then .refused 401 f else .refused 403 f
  else .run f

/-- The level the decorator sees: `request_handler.access_level`. -/
def effectiveLevel (r : Route) (a : Auth) : Level :=
  if authEnabled r then levelOf a else .none

/-- `prepare`: `raise APIError(400, 'invalid-header', header='Session-Id')` — raised outside `call_api_func`,
hence answered 500 by `BaseHandler._handle_request_exception`. Only reached when AUTH_ENABLED and the
authentication step succeeded. -/
def sessionBad (r : Route) (q : Req) : Bool := authEnabled r && q.auth.authenticated && !q.sessionOk

def serve (f : Features) (q : Req) : Outcome :=
  if q.method = .other then .status 405 else                          -- RequestHandler._execute
  match resolve f q.path with
  | .foreign => .foreign
  | .notFound | .noSuchFunction => .status 404
  | .api r =>
    if sessionBad r q then .status 500 else                           -- APIHandler.prepare
    match handlerFn r q.method with
    | none => .status 404                                             -- BaseHandler.get/post/… = NoSuchFunction
    | some fn =>
      if !methodGuard f r q.method then .status 404 else              -- virtual ports disabled
      if q.method.hasBody && q.body != .json then .status 400 else    -- call_api_func, before the function
      checkLevel (effectiveLevel r q.auth) fn

/-- Hub state and the effect of a request on it: the body of an API function is an arbitrary state
transformer `eff f`; nothing else in the serving path touches the state. -/
def handle {σ : Type} (eff : Func → σ → σ) (f : Features) (s : σ) (q : Req) : σ × Outcome :=
  match serve f q with
  | .run fn => (eff fn s, .run fn)
  | o => (s, o)

/-! ## Rendering for the driver -/

def Seg.regex : Seg → String
  | .lit s => s
  | .id n true => s!"(?P<{n}>[A-Za-z0-9_.-]+)"
  | .id n false => s!"(?P<{n}>[A-Za-z0-9_-]+)"

def Pat.regex (p : Pat) : String :=
  "^/" ++ "/".intercalate (p.segs.map Seg.regex) ++ (if p.rest then "/(?P<path>.+)$" else "/?$")

def Method.name : Method → String
  | .GET => "GET" | .HEAD => "HEAD" | .POST => "POST" | .DELETE => "DELETE" | .PATCH => "PATCH" | .PUT => "PUT"
  | .OPTIONS => "OPTIONS" | .other => "OTHER"

def Func.name (f : Func) : String := (reprStr f).replace "QtVerif.Access.Func." ""
def Route.name (r : Route) : String := (reprStr r).replace "QtVerif.Access.Route." ""

end QtVerif.Access
