/-
Line-protocol helpers shared by all drivers (core Lean only).
One request per line, one reply per line.
-/
namespace QtVerif.Proto

def words (line : String) : List String :=
  (line.splitOn " ").filter (fun w => w ≠ "")

partial def loop {σ : Type} (h : IO.FS.Stream) (out : IO.FS.Stream) (step : σ → List String → σ × String) (s : σ) : IO Unit := do
  let line ← h.getLine
  if line.isEmpty then return ()
  let ws := words (line.trimAscii.toString)
  let (s', reply) := step s ws
  out.putStrLn reply
  out.flush
  loop h out step s'

def run {σ : Type} (step : σ → List String → σ × String) (init : σ) : IO Unit := do
  loop (← IO.getStdin) (← IO.getStdout) step init

def natList (ws : List String) : Option (List Nat) := ws.mapM String.toNat?

def joinNat (l : List Nat) : String := " ".intercalate (l.map toString)

end QtVerif.Proto
