import QtVerif.Model.Config
/-
Backup / restore model (C20) on the configuration types of C07.

Mirrors core/api/funcs/ports.py `get_ports` / `put_ports` (drop virtual ports, "reset" the others, re-create, apply the
modifiable attributes ignoring the rest, write the value, try/finally around the updating and events switches),
core/api/funcs/device.py `put_device` (passwords kept) and slaves/api/funcs/devices.py `put_slave_devices`
(record level, disabled slaves).
-/
namespace QtVerif.Backup
open QtVerif.Config

/-- one entry of the GET /ports document -/
structure PortDoc where
  id : String
  virtual : Bool
  vdef : Option VDef
  /-- every attribute of the entry that is a modifiable attribute of the port (the others are ignored by PUT) -/
  attrs : Fields
  value : Option PVal

/-- GET /ports for one port: the modifiable attributes that have a value, the definition, the value (null when
disabled) -/
def docOf (id : String) (p : Port) : PortDoc :=
  { id := id, virtual := p.pdef.virtual, vdef := p.pdef.vdef,
    attrs := (names p.pdef.defaults).filterMap (fun n => (p.attrs n).map (fun v => (n, v))),
    value := if enabledOf p then p.value else none }

inductive EntryErr where
  | invalidField      -- schema validation of an attribute value, or an attribute refused by `set_attr`
  | invalidDef        -- the virtual port definition of the entry is not acceptable (POST /ports schema)
  deriving DecidableEq, Repr

/-- the target port as `put_ports` sees it when it reaches the entry: virtual ports have all been removed, the others
have been "reset" (`load_from_data({})` applies no attribute) -/
def afterReset (b : Option Port) : Option Port :=
  match b with
  | some p => if p.pdef.virtual then none else some p
  | none => none

/-- attributes of the entry that PUT applies to port `p`: with `ignore_extra_attrs` the schema lets unknown names
pass, `set_attr` then refuses the unsupported ones silently -/
def validEntry (p : Port) (attrs : Fields) : Bool :=
  attrs.all (fun a => match p.attrs a.1 with | some old => sameCtor old a.2 | none => true)

/-- body of the loop of `put_ports` for one entry, `target` being the port registered under the entry's id at that
moment. `none` = entry ignored (unknown id). -/
def restoreOn (cfg : Cfg) (target : Option Port) (d : PortDoc) : Except EntryErr (Option Port) :=
  let port : Except EntryErr (Option Port) :=
    match target with
    | some p => .ok (some p)                 -- exists already: not treated as virtual
    | none =>
      if d.virtual then
        match d.vdef with
        | some vd => .ok (some (setAttr cfg (fresh (vportDef cfg.hist vd)) "enabled" (.bool true)).1)
        | none => .error .invalidDef
      else .ok none
  match port with
  | .error e => .error e
  | .ok none => .ok none
  | .ok (some p) =>
    if ¬ validEntry p d.attrs then .error .invalidField
    else
      let r := applyFields cfg p d.attrs
      if ¬ r.2 then .error .invalidField
      else
        -- the value of the entry is written (in the background) when the port is enabled
        .ok (some (if enabledOf r.1 then { r.1 with value := d.value } else r.1))

/-- the same, seen from the hub before the PUT: its virtual ports are dropped first -/
def restoreEntry (cfg : Cfg) (b : Option Port) (d : PortDoc) : Except EntryErr (Option Port) :=
  restoreOn cfg (afterReset b) d

/-- the port that the creation step of the loop body leaves registered under the entry's id, whatever happens to the
attributes afterwards: a virtual port is added before its attributes are applied -/
def createdFor (cfg : Cfg) (target : Option Port) (d : PortDoc) : Option Port :=
  match target with
  | some p => some p
  | none =>
    if d.virtual then
      match d.vdef with
      | some vd => some (setAttr cfg (fresh (vportDef cfg.hist vd)) "enabled" (.bool true)).1
      | none => none
    else none

/-! ### the checked assignment of expressions (circular dependencies)

`attr_set_expression` runs `check_loops` (C04) against the expressions the OTHER ports carry at that moment. The check is
a parameter here: `lc m id c` = "assigning canonical text `c` to port `id` closes a loop, `m x` being the expression text
port `x` currently has (`""` = none / no such port)". -/

abbrev LoopCheck := (String → String) → String → String → Bool

def exprText (p : Option Port) : String :=
  match p with
  | some q => (match q.attrs "expression" with | some (.str t) => t | _ => "")
  | none => ""

def exprMap (ports : String → Option Port) : String → String := fun id => exprText (ports id)

/-- the non-empty expression an entry assigns, in canonical form -/
def entryExpr (cfg : Cfg) (d : PortDoc) : Option String :=
  match lookupF "expression" d.attrs with
  | some (.str t) => if t = "" then none else cfg.canon .expr t
  | _ => none

/-- the entry's expression is refused as a circular dependency (only ports that have an expression attribute run the
check) -/
def loopRefused (cfg : Cfg) (lc : LoopCheck) (m : String → String) (target : Option Port) (d : PortDoc) : Bool :=
  match createdFor cfg target d with
  | some p => (p.attrs "expression").isSome &&
      (match entryExpr cfg d with | some c => lc m d.id c | none => false)
  | none => false

/-- loop body of `put_ports` for one entry with the circular-dependency check of the expression assignment -/
def restoreChk (cfg : Cfg) (lc : LoopCheck) (m : String → String) (target : Option Port) (d : PortDoc) :
    Except EntryErr (Option Port) :=
  if loopRefused cfg lc m target d then .error .invalidField else restoreOn cfg target d

/-- repaired `put_ports`: the expression of every port that remains is cleared before the document is applied (the
unrepaired code leaves the target's expressions in place: `port.reset()` = `load_from_data({})` resets nothing) -/
def clearExpr (clearFirst : Bool) (p : Port) : Port :=
  if clearFirst then
    { p with attrs := fun n => if n = "expression" then (p.attrs n).map (fun _ => AVal.str "") else p.attrs n }
  else p

/-- the port registered under an id when the loop over the document starts -/
def startPort (clearFirst : Bool) (b : Option Port) : Option Port := (afterReset b).map (clearExpr clearFirst)

/-- references `$id` of an expression text -/
def refsOf (t : String) : List String :=
  let isId (c : Char) : Bool := c.isAlphanum || c == '_' || c == '.' || c == '-'
  let rec go (cs : List Char) (acc : List String) : List String :=
    match cs with
    | [] => acc.reverse
    | c :: r =>
      if c == '$' then
        let idc := r.takeWhile isId
        go r (if idc.isEmpty then acc else String.ofList idc :: acc)
      else go r acc
  go t.toList []

/-- `check_loops` by bounded search over the references `refs` of expression texts: the initial port is reached again
at a level deeper than 1 -/
def reach (refs : String → List String) (m : String → String) (target : String) : Nat → List String → Bool
  | 0, _ => false
  | f + 1, frontier =>
    frontier.any (fun x => (refs (m x)).contains target || reach refs m target f (refs (m x)))

def loopsWith (refs : String → List String) (fuel : Nat) : LoopCheck :=
  fun m id c => reach refs m id fuel ((refs c).filter (fun x => x != id))

def loopsFuel (fuel : Nat) : LoopCheck := loopsWith refsOf fuel

structure BState where
  ports : String → Option Port
  device : Device
  slaves : String → Option Slave
  /-- core/main.py `_updating_enabled` -/
  updating : Bool
  /-- core/events/handlers.py `_enabled` -/
  events : Bool

inductive PutResp where
  | ok
  | err (id : String) (e : EntryErr)

/-- the `try:` block of `put_ports` after the virtual ports have been dropped: entries in document order, each checked
against the expressions the ports carry at that moment; the first failing entry raises an error carrying its id -/
def putBody (cfg : Cfg) (lc : LoopCheck) (ports : String → Option Port) :
    List PortDoc → (String → Option Port) × PutResp
  | [] => (ports, .ok)
  | d :: r =>
    match restoreChk cfg lc (exprMap ports) (ports d.id) d with
    | .error e => (upd ports d.id (createdFor cfg (ports d.id) d), .err d.id e)
    | .ok none => putBody cfg lc ports r
    | .ok (some q) => putBody cfg lc (upd ports d.id (some q)) r

/-- PUT /ports: switches off, body, `finally:` switches on — whatever the outcome of the body -/
def putPorts (cfg : Cfg) (lc : LoopCheck) (clearFirst : Bool) (st : BState) (docs : List PortDoc) : BState × PutResp :=
  let st1 := { st with events := false, updating := false }
  let r := putBody cfg lc (fun id => startPort clearFirst (st1.ports id)) docs
  ({ st1 with ports := r.1, updating := true, events := true }, r.2)

/-- GET /device carries names only; PUT /device pops the password fields: hashes are kept -/
structure DeviceDoc where
  name : String
  displayName : String

def getDevice (d : Device) : DeviceDoc := { name := d.name, displayName := d.displayName }

def putDevice (st : BState) (doc : DeviceDoc) : BState :=
  { st with device := { st.device with name := doc.name, displayName := doc.displayName } }

/-- PUT /devices: all slaves removed, the listed ones added (later duplicates of a name are refused: first wins) -/
def putSlaves (st : BState) (docs : List (String × Slave)) : BState :=
  { st with slaves := fun n => (docs.find? (fun a => a.1 = n)).map (·.2) }

/-- PUT /device with a document that may fail the (loose) device schema: validation comes first and raises before
anything is touched; PUT /device never touches the updating/events switches -/
def putDeviceDoc (st : BState) (doc : Option DeviceDoc) : BState × Bool :=
  match doc with
  | none => (st, false)
  | some d => (putDevice st d, true)

/-- index of the first entry that fails the POST /devices schema (`none` entries), counting from `i` -/
def firstInvalid : List (Option (String × Slave)) → Nat → Option Nat
  | [], _ => none
  | none :: _, i => some i
  | some _ :: r, i => firstInvalid r (i + 1)

inductive SlavesResp where
  | ok
  | err (index : Nat)
  deriving DecidableEq, Repr

/-- PUT /devices as a whole: switches off; `try:` all slave devices removed, every entry validated in document order
(the first failing one raises an error carrying its index), the devices added; `finally:` switches on -/
def putSlavesDoc (st : BState) (docs : List (Option (String × Slave))) : BState × SlavesResp :=
  let st1 := { st with events := false, updating := false }
  let body : (String → Option Slave) × SlavesResp :=
    match firstInvalid docs 0 with
    | some i => (fun _ => none, .err i)
    | none => ((putSlaves st1 (docs.filterMap id)).slaves, .ok)
  ({ st1 with slaves := body.1, updating := true, events := true }, body.2)

end QtVerif.Backup
