/-
Attribute NAMES of a mirrored port (C12): qtoggleserver/slaves/ports.py, `SlavePort.get_attr` / `set_attr` and the
module regexes `_DEVICE_EXPRESSION_RE = ^(device_)+expression$`, `_DEVICE_HISTORY_RE = ^(device_)+history_[a-z0-9_]+$`,
`MASTER_ATTRS`. Names are character lists. A name of the family is mapped by stripping EXACTLY ONE leading `device_`
(`name[7:]`), whatever the number of prefixes: a slave that is itself a hub has `device_expression` next to `expression`,
shown by the master as `device_device_expression` and `device_expression`.
Core Lean only.
-/
namespace QtVerif.Slave.Names

abbrev Name := List Char

def devPrefix : Name := ['d', 'e', 'v', 'i', 'c', 'e', '_']
def exprName : Name := ['e', 'x', 'p', 'r', 'e', 's', 's', 'i', 'o', 'n']
def histPrefix : Name := ['h', 'i', 's', 't', 'o', 'r', 'y', '_']

/-- `name[7:]` when `name` starts with `device_`. -/
def stripDev : Name → Option Name
  | 'd' :: 'e' :: 'v' :: 'i' :: 'c' :: 'e' :: '_' :: rest => some rest
  | _ => none

/-- The name without ALL its leading `device_` (what the regex group `(device_)*` consumes, greedily: neither
`expression` nor `history_` starts with `device_`, so no backtracking changes the outcome). -/
def baseName : Name → Name
  | 'd' :: 'e' :: 'v' :: 'i' :: 'c' :: 'e' :: '_' :: rest => baseName rest
  | l => l

def okChar (c : Char) : Bool := (c.isLower || c.isDigit || c == '_')

/-- `expression` or `history_[a-z0-9_]+` -/
def isBase (b : Name) : Bool :=
  b == exprName || (histPrefix.isPrefixOf b && !(b.drop 8).isEmpty && (b.drop 8).all okChar)

/-- `^(device_)*(expression|history_[a-z0-9_]+)$`: the slave attributes shown one `device_` deeper. -/
def family (n : Name) : Bool := isBase (baseName n)

/-- `_DEVICE_EXPRESSION_RE.match(name) or _DEVICE_HISTORY_RE.match(name)`: at least one `device_`. -/
def shownFamily (n : Name) : Bool := (stripDev n).isSome && family n

/-- `SlavePort.set_attr` / `get_attr`: the slave-side attribute behind the master's name `n` (`none`: the attribute
stays on the master). -/
def slaveName (owned : List Name) (n : Name) : Option Name :=
  if owned.contains n then none
  else if shownFamily n then stripDev n
  else some n

/-- Under which name the master shows the slave's attribute `k` (`none`: hidden behind a master-owned name). -/
def presentName (owned : List Name) (k : Name) : Option Name :=
  if family k then some (devPrefix ++ k) else if owned.contains k then none else some k

/-- `SlavePort.get_standard_attrdefs`: the `device_*` names defined for a port whose cache has the names `cached`:
level by level, stopping (`break`) at the first level whose slave-side name is not cached. -/
def definedLevels (cached : List Name) (base : Name) : (fuel : Nat) → Name → List Name
  | 0, _ => []
  | f + 1, cur => if cached.contains cur then (devPrefix ++ cur) :: definedLevels cached base f (devPrefix ++ cur) else []

end QtVerif.Slave.Names
