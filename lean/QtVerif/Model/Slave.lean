/-
Message-level model of ONE master/slave pair (properties C12 and C13).

Mirrors qtoggleserver/slaves/devices.py and slaves/ports.py:

  SlavePort.push_remote_value / get_last_remote_value / read_value   -> push / lastRemote / drainPort
  SlavePort.set_attr (offline branch) / write_value                  -> editAttr / editValue
  SlavePort.get_provisioning_attrs / get_provisioning_value          -> MPort.pendAttrs / MPort.pendValue
  SlavePort.update_cached_attrs / update_enabled                     -> inside handlePortUpdate / mkPort
  Slave._handle_value_change / _handle_port_update / _handle_port_add / _handle_port_remove /
        _handle_device_update                                        -> handleValueChange … handleDeviceUpdate
  Slave._listen_loop (a batch of events handled in order, errors swallowed)  -> handleEvents
  Slave.fetch_and_update_ports                                       -> fetchPorts
  Slave.apply_provisioning / _handle_online                          -> applyProvisioning / handleOnline
  Slave._poll_once                                                   -> pollOnce
  Slave.intercept_request (offline PATCH /device, /webhooks, /reverse) -> editDev / editWebhooks / editReverse

Attribute names and JSON values are interned to numbers by the harness (`Nat` names, `Int` values; a port
value is `Option Int`, `none` = JSON null). Attribute maps are association lists with Python-dict update
semantics (replace in place, else append).

`Fix` selects the behaviour of the code as found at the pinned commit (`false`) or as repaired by
fixes/C13-provision-value-body.diff (`valueBody`), fixes/C13-port-update-keeps-pending.diff (`keepPending`) and
fixes/C13-offline-write-kept-over-queued-values.diff (`keepPendingValue`).
Core Lean only.
-/
namespace QtVerif.Slave

abbrev Attrs := List (Nat × Int)
abbrev PVal := Option Int

namespace Attrs
def get? (a : Attrs) (n : Nat) : Option Int := (a.find? (fun kv => kv.1 == n)).map (·.2)
def has (a : Attrs) (n : Nat) : Bool := a.any (fun kv => kv.1 == n)
/-- Python `d[n] = v`: replace in place, else append. -/
def set : Attrs → Nat → Int → Attrs
  | [], n, v => [(n, v)]
  | (k, w) :: rest, n, v => if k == n then (k, v) :: rest else (k, w) :: set rest n v
/-- Python `d.update(other)`. -/
def update (a : Attrs) (other : Attrs) : Attrs := other.foldl (fun acc kv => set acc kv.1 kv.2) a
def keys (a : Attrs) : List Nat := a.map (·.1)
end Attrs

/-- The interned name of the `enabled` port attribute (value 1 = true). -/
def aEnabled : Nat := 0

structure Fix where
  valueBody   : Bool     -- apply_provisioning sends the cached value as the body of PATCH /ports/<id>/value
  keepPending : Bool     -- _handle_port_update keeps pending attributes and does not queue the embedded value
  keepPendingValue : Bool -- read_value leaves _cached_value alone while a value is pending provisioning
  deriving Repr, DecidableEq

def Fix.repaired : Fix := ⟨true, true, true⟩
def Fix.asFound : Fix := ⟨false, false, false⟩

/-! ### Master side -/

structure MPort where
  id        : Nat
  attrs     : Attrs            -- _cached_attrs (slave-side names)
  rq        : List PVal        -- _remote_value_queue, oldest first
  cached    : PVal             -- _cached_value
  prov      : List Nat         -- attribute names in _provisioning (insertion order, no duplicates)
  provValue : Bool             -- 'value' ∈ _provisioning
  lastRead  : PVal             -- _last_read_value: what GET /ports reports while the port is enabled
  enabled   : Bool
  deriving Repr, DecidableEq

/-- get_last_remote_value(): newest queued value, else the cached one. -/
def MPort.lastRemote (p : MPort) : PVal :=
  match p.rq.getLast? with
  | some v => v
  | none => p.cached

/-- get_provisioning_attrs(): pending names that have a (non-null) cached value. -/
def MPort.pendAttrs (p : MPort) : Attrs :=
  p.prov.filterMap (fun n => (p.attrs.get? n).map (fun v => (n, v)))

/-- get_provisioning_value() -/
def MPort.pendValue (p : MPort) : PVal := if p.provValue then p.cached else none

def MPort.push (p : MPort) (v : PVal) : MPort := { p with rq := p.rq ++ [v] }

inductive Mode | listen | poll
  deriving Repr, DecidableEq

structure Master where
  mode         : Mode
  ports        : List MPort       -- registry order
  dev          : Attrs            -- Slave._cached_attrs
  devProv      : List Nat         -- Slave._provisioning_attrs
  webhooks     : Attrs
  reverse      : Attrs
  provWebhooks : Bool
  provReverse  : Bool
  hasWebhooks  : Bool             -- 'webhooks' ∈ flags
  hasReverse   : Bool
  online       : Bool
  ready        : Bool
  deriving Repr, DecidableEq

def Master.init (mode : Mode) : Master :=
  { mode := mode, ports := [], dev := [], devProv := [], webhooks := [], reverse := [], provWebhooks := false,
    provReverse := false, hasWebhooks := false, hasReverse := false, online := false, ready := false }

def findPort (l : List MPort) (id : Nat) : Option MPort := l.find? (fun p => p.id == id)
def updPort (l : List MPort) (id : Nat) (f : MPort → MPort) : List MPort :=
  l.map (fun p => if p.id == id then f p else p)
def erasePort (l : List MPort) (id : Nat) : List MPort := l.filter (fun p => !(p.id == id))

/-- Slave.get_provisioning_attrs() -/
def Master.pendDev (m : Master) : Attrs :=
  m.devProv.filterMap (fun n => (m.dev.get? n).map (fun v => (n, v)))

/-! ### Messages -/

/-- A port as the slave reports it: attributes, and the value when the message carries one
(`none` = no `value` key: the polling loop pops it). -/
structure PortMsg where
  id    : Nat
  attrs : Attrs
  value : Option PVal
  deriving Repr, DecidableEq

inductive Ev
  | valueChange (id : Nat) (v : PVal)
  | portUpdate (p : PortMsg)
  | portAdd (p : PortMsg)
  | portRemove (id : Nat)
  | deviceUpdate (attrs : Attrs)
  deriving Repr, DecidableEq

/-- Requests the master sends to the slave. -/
inductive Req
  | patchDevice (body : Attrs)
  | putWebhooks (body : Attrs)
  | putReverse (body : Attrs)
  | patchPort (id : Nat) (body : Attrs)
  | patchValue (id : Nat) (body : PVal)        -- `none` = request without body
  | getWebhooks | getReverse | getDevice | getPorts
  | getValue (id : Nat)
  deriving Repr, DecidableEq

inductive HErr | portNotFound | portExists | dictChanged
  deriving Repr, DecidableEq

/-! ### Event handlers -/

def truthy (a : Attrs) : Bool := match a.get? aEnabled with | some v => v != 0 | none => false

/-- _handle_value_change -/
def handleValueChange (m : Master) (id : Nat) (v : PVal) : Except HErr Master :=
  match findPort m.ports id with
  | none => .error .portNotFound
  | some p =>
    if p.pendValue.isSome then .ok m                       -- pending provisioning value: ignored
    else if p.lastRemote == v then .ok m                   -- same value: ignored
    else .ok { m with ports := updPort m.ports id (fun q => q.push v) }

/-- update_cached_attrs + update_enabled of one port for a port-update message. Returns the port and
whether it has just been enabled (handle_enable then fetches the value when the slave is ready). -/
def applyPortUpdate (fix : Fix) (p : MPort) (msg : PortMsg) : MPort × Bool :=
  let attrs := if fix.keepPending then msg.attrs.update p.pendAttrs else msg.attrs
  let value := if fix.keepPending && p.pendValue.isSome then none else msg.value
  let p1 : MPort := { p with attrs := attrs }
  let p2 := match value with | some v => p1.push v | none => p1
  let en := truthy attrs
  ({ p2 with enabled := en }, en && !p.enabled)

/-- _handle_port_update -/
def handlePortUpdate (fix : Fix) (m : Master) (msg : PortMsg) : Except HErr (Master × List Req) :=
  match findPort m.ports msg.id with
  | none => .error .portNotFound
  | some p =>
    let (_, justEnabled) := applyPortUpdate fix p msg
    .ok ({ m with ports := updPort m.ports msg.id (fun q => (applyPortUpdate fix q msg).1) },
         if justEnabled && m.ready then [.getValue msg.id] else [])

/-- SlavePort.__init__ + load (no persisted data) -/
def mkPort (msg : PortMsg) : MPort :=
  { id := msg.id, attrs := msg.attrs, rq := match msg.value with | some v => [v] | none => [],
    cached := none, prov := [], provValue := false, lastRead := none, enabled := truthy msg.attrs }

/-- _handle_port_add / _add_port -/
def handlePortAdd (m : Master) (msg : PortMsg) : Except HErr (Master × List Req) :=
  match findPort m.ports msg.id with
  | some _ => .error .portExists
  | none =>
    let p := mkPort msg
    .ok ({ m with ports := m.ports ++ [p] }, if p.enabled && m.ready then [.getValue msg.id] else [])

/-- _handle_port_remove -/
def handlePortRemove (m : Master) (id : Nat) : Except HErr Master :=
  match findPort m.ports id with
  | none => .error .portNotFound
  | some _ => .ok { m with ports := erasePort m.ports id }

/-- _handle_device_update, as written: popping a pending name from the dict being iterated raises
`RuntimeError: dictionary changed size during iteration` (always, even for the last key), so an update that
mentions a pending attribute is dropped as a whole; otherwise the cache is REPLACED by the reported attributes. -/
def handleDeviceUpdate (m : Master) (attrs : Attrs) : Except HErr Master :=
  if attrs.keys.any (fun n => m.pendDev.has n) then .error .dictChanged
  else .ok { m with dev := attrs }

def handleEvent (fix : Fix) (m : Master) : Ev → Except HErr (Master × List Req)
  | .valueChange id v => (handleValueChange m id v).map (fun m' => (m', []))
  | .portUpdate p => handlePortUpdate fix m p
  | .portAdd p => handlePortAdd m p
  | .portRemove id => (handlePortRemove m id).map (fun m' => (m', []))
  | .deviceUpdate a => (handleDeviceUpdate m a).map (fun m' => (m', []))

/-- The listen loop's `for event in received_events`: every error is swallowed. -/
def stepEvent (fix : Fix) (m : Master) (e : Ev) : Master :=
  match handleEvent fix m e with
  | .ok (m', _) => m'
  | .error _ => m

def handleEvents (fix : Fix) (m : Master) (evs : List Ev) : Master := evs.foldl (stepEvent fix) m

/-- Requests issued while handling a batch (GET …/value of ports that were just enabled). -/
def eventReqs (fix : Fix) : Master → List Ev → List Req
  | _, [] => []
  | m, e :: rest =>
    match handleEvent fix m e with
    | .ok (m', r) => r ++ eventReqs fix m' rest
    | .error _ => eventReqs fix m rest

/-- Response to GET /ports/<id>/value issued by handle_enable. -/
def valueResp (m : Master) (id : Nat) (v : PVal) : Master :=
  match v with
  | none => m
  | some _ => { m with ports := updPort m.ports id (fun q => q.push v) }

/-! ### Master-side edits -/

def addName (l : List Nat) (n : Nat) : List Nat := if l.contains n then l else l ++ [n]

/-- SlavePort.set_attr for an attribute that lives on the slave. Online: forwarded (the cache changes only when
the slave's port-update comes back). Offline: recorded. -/
def editAttr (m : Master) (id n : Nat) (v : Int) : Master × List Req :=
  if m.online then (m, [.patchPort id [(n, v)]])
  else
    let f := fun (p : MPort) => { p with prov := addName p.prov n, attrs := p.attrs.set n v }
    ({ m with ports := updPort m.ports id f }, [])

/-- SlavePort.write_value. `ok` = the slave answered 204 (online case). -/
def editValue (m : Master) (id : Nat) (v : Int) (ok : Bool) : Master × List Req :=
  if m.online then
    (if ok then { m with ports := updPort m.ports id (fun p => p.push (some v)) } else m,
     [.patchValue id (some v)])
  else ({ m with ports := updPort m.ports id (fun p => { p with cached := some v, provValue := true }) }, [])

/-- intercept_request PATCH /device while offline. -/
def editDev (m : Master) (n : Nat) (v : Int) : Master × List Req :=
  if m.online then (m, [.patchDevice [(n, v)]])
  else ({ m with devProv := addName m.devProv n, dev := m.dev.set n v }, [])

def editWebhooks (m : Master) (kv : Attrs) : Master :=
  if m.online then m else { m with provWebhooks := true, webhooks := m.webhooks.update kv }

def editReverse (m : Master) (kv : Attrs) : Master :=
  if m.online then m else { m with provReverse := true, reverse := m.reverse.update kv }

def goOffline (m : Master) : Master := { m with online := false }

/-! ### Reconnect: apply_provisioning, _handle_online -/

/-- Requests that push the pending edits of one port, and the port afterwards (clear_provisioning).
`refused` = the slave answered the value push with an error. The repaired code queues the pushed value as the
newest remote value when the push succeeded (as the online write path does); the code as found sends no body,
which the slave always refuses. -/
def provisionPort (fix : Fix) (refused : List Nat) (p : MPort) : List Req × MPort :=
  let ra := if p.pendAttrs.isEmpty then [] else [Req.patchPort p.id p.pendAttrs]
  let rv := match p.pendValue with
    | some v => [Req.patchValue p.id (if fix.valueBody then some v else none)]
    | none => []
  let rq := match p.pendValue with
    | some v => if fix.valueBody && !refused.contains p.id then p.rq ++ [some v] else p.rq
    | none => p.rq
  (ra ++ rv, { p with prov := [], provValue := false, rq := rq })

def provisionPorts (fix : Fix) (refused : List Nat) : List MPort → List Req × List MPort
  | [] => ([], [])
  | p :: rest =>
    let (r, p') := provisionPort fix refused p
    let (rs, ps) := provisionPorts fix refused rest
    (r ++ rs, p' :: ps)

/-- apply_provisioning: (requests in the order sent, master afterwards). -/
def applyProvisioning (fix : Fix) (refused : List Nat) (m : Master) : List Req × Master :=
  let pd := m.pendDev
  let rDev := if pd.isEmpty then [] else [Req.patchDevice pd]
  let devProv := if pd.isEmpty then m.devProv else []
  let doW := !m.webhooks.isEmpty && m.provWebhooks
  let doR := !m.reverse.isEmpty && m.provReverse
  let rW := if doW then [Req.putWebhooks m.webhooks] else []
  let rR := if doR then [Req.putReverse m.reverse] else []
  let (rP, ports) := provisionPorts fix refused m.ports
  let qW := if !doW && m.hasWebhooks then [Req.getWebhooks] else []
  let qR := if !doR && m.hasReverse then [Req.getReverse] else []
  (rDev ++ rW ++ rR ++ rP ++ qW ++ qR,
   { m with devProv := devProv, provWebhooks := if doW then false else m.provWebhooks,
            provReverse := if doR then false else m.provReverse, ports := ports })

/-- fetch_and_update_ports on the answer of GET /ports: update existing, add new, remove missing. -/
def fetchPorts (fix : Fix) (m : Master) (resp : List PortMsg) : Master :=
  let localIds := m.ports.map (·.id)
  let m1 := resp.foldl (fun acc msg =>
    if localIds.contains msg.id then
      match handlePortUpdate fix acc msg with | .ok (a, _) => a | .error _ => acc
    else acc) m
  let m2 := resp.foldl (fun acc msg =>
    if localIds.contains msg.id then acc
    else match handlePortAdd acc msg with | .ok (a, _) => a | .error _ => acc) m1
  let remoteIds := resp.map (·.id)
  { m2 with ports := m2.ports.filter (fun p => !(localIds.contains p.id) || remoteIds.contains p.id) }

/-- _handle_online. `devResp` / `portsResp` = answers of the refresh GETs (`none` = request failed). -/
def handleOnline (fix : Fix) (refused : List Nat) (m : Master) (devResp : Option Attrs)
    (portsResp : Option (List PortMsg)) : List Req × Master :=
  let (reqs, m1) := applyProvisioning fix refused { m with online := true }
  match m.mode with
  | .poll => (reqs, { m1 with ready := true })
  | .listen =>
    match devResp with
    | none => (reqs ++ [.getDevice], { m1 with online := false })
    | some d =>
      match portsResp with
      | none => (reqs ++ [.getDevice, .getPorts], { m1 with dev := d, online := false })
      | some ps => (reqs ++ [.getDevice, .getPorts], { (fetchPorts fix { m1 with dev := d } ps) with ready := true })

/-- Pushed-events mode (the slave is neither listened to nor polled; it POSTs its events to
/devices/<name>/events): `post_slave_device_events` handles the event out of band (`stepEvent`) and schedules
`_provision_and_update` = apply_provisioning, fetch_and_update_device, fetch_and_update_ports. The slave is never
"online" in this mode: edits stay recorded until the next run pushes them. `none` = the fetch failed (the run dies). -/
def provisionAndUpdate (fix : Fix) (refused : List Nat) (m : Master) (devResp : Option Attrs)
    (portsResp : Option (List PortMsg)) : List Req × Master :=
  let (reqs, m1) := applyProvisioning fix refused m
  match devResp with
  | none => (reqs ++ [.getDevice], m1)
  | some d =>
    match portsResp with
    | none => (reqs ++ [.getDevice, .getPorts], { m1 with dev := d })
    | some ps => (reqs ++ [.getDevice, .getPorts], fetchPorts fix { m1 with dev := d } ps)

/-- One pushed event followed (one second later) by its synchronisation run. -/
def pushedStep (fix : Fix) (refused : List Nat) (m : Master) (e : Ev) (devResp : Option Attrs)
    (portsResp : Option (List PortMsg)) : List Req × Master :=
  provisionAndUpdate fix refused (stepEvent fix m e) devResp portsResp

/-- One listen response: events in order, then the online transition if the master was offline. -/
def listenStep (fix : Fix) (refused : List Nat) (m : Master) (evs : List Ev) (devResp : Option Attrs)
    (portsResp : Option (List PortMsg)) : List Req × Master :=
  let m1 := handleEvents fix m evs
  if m1.online then ([], m1) else handleOnline fix refused m1 devResp portsResp

/-! ### Polling -/

def attrsDiffer (cached reported : Attrs) : Bool :=
  reported.keys.any (fun n => !cached.has n) || cached.keys.any (fun n => !reported.has n) ||
  cached.any (fun kv => match reported.get? kv.1 with | some v => v != kv.2 | none => false)

/-- The ports part of _poll_once, given the answer of GET /ports (values already separated). -/
def pollPorts (fix : Fix) (m : Master) (resp : List PortMsg) : Master :=
  let locals := m.ports
  let localIds := locals.map (·.id)
  let remoteIds := resp.map (·.id)
  let strip (msg : PortMsg) : PortMsg := { msg with value := none }
  -- added
  let m1 := resp.foldl (fun acc msg =>
    if localIds.contains msg.id then acc
    else match handlePortAdd acc (strip msg) with | .ok (a, _) => a | .error _ => acc) m
  -- removed
  let m2 := localIds.foldl (fun acc id =>
    if remoteIds.contains id then acc
    else match handlePortRemove acc id with | .ok a => a | .error _ => acc) m1
  -- updated attributes and values of the ports that were local before
  locals.foldl (fun acc lp =>
    match resp.find? (fun msg => msg.id == lp.id) with
    | none => acc
    | some msg =>
      let cur := (findPort acc.ports lp.id).getD lp
      let acc1 := if attrsDiffer cur.attrs msg.attrs then
          (match handlePortUpdate fix acc (strip msg) with | .ok (a, _) => a | .error _ => acc) else acc
      let cur1 := (findPort acc1.ports lp.id).getD lp
      let newV : PVal := match msg.value with | some v => v | none => none
      if cur1.lastRemote != newV then
        (match handleValueChange acc1 lp.id newV with | .ok a => a | .error _ => acc1)
      else acc1) m2

/-- _poll_once after a successful GET /device. -/
def pollOnce (fix : Fix) (refused : List Nat) (m : Master) (devAttrs : Attrs)
    (portsResp : Option (List PortMsg)) : List Req × Master :=
  let m1 := if attrsDiffer m.dev devAttrs then
      (match handleDeviceUpdate m devAttrs with | .ok a => a | .error _ => m) else m
  let (reqs, m2) := if m1.online then ([], m1) else handleOnline fix refused m1 none none
  if !m2.ready then (reqs, m2)
  else match portsResp with
    | none => (reqs ++ [.getPorts], { m2 with online := false })
    | some ps => (reqs ++ [.getPorts], pollPorts fix m2 ps)

/-! ### The hub's polling tick: read_value pops one value per tick -/

/-- One tick on one port: `(value-change reported?, port)`. Disabled ports are not read. The popped value is
returned / reported in every case; repaired (`keepPendingValue`), it replaces `_cached_value` only if no value is
pending provisioning (`'value' not in self._provisioning`), as found it always does. -/
def tickPort (fix : Fix) (p : MPort) : Option PVal × MPort :=
  if !p.enabled then (none, p)
  else match p.rq with
    | [] => (none, p)
    | v :: rest =>
      let p' := { p with rq := rest, cached := if fix.keepPendingValue && p.provValue then p.cached else v,
                         lastRead := v }
      (if v != p.lastRead then some v else none, p')

/-- All queued values of one port read, one per tick: the series of reported changes and the port. -/
def drainPort (fix : Fix) : (fuel : Nat) → MPort → List PVal × MPort
  | 0, p => ([], p)
  | n + 1, p =>
    if !p.enabled || p.rq.isEmpty then ([], p)
    else
      let (r, p') := tickPort fix p
      let (rs, p'') := drainPort fix n p'
      ((match r with | some v => [v] | none => []) ++ rs, p'')

def drain (fix : Fix) (m : Master) : List (Nat × List PVal) × Master :=
  let res := m.ports.map (fun p => drainPort fix p.rq.length p)
  ((m.ports.zip res).map (fun x => (x.1.id, x.2.1)), { m with ports := res.map (·.2) })

/-! ### Slave side (for the replication invariant of C12) -/

structure SPort where
  id    : Nat
  attrs : Attrs
  value : PVal
  deriving Repr, DecidableEq

structure SlaveSt where
  ports : List SPort
  dev   : Attrs
  queue : List Ev           -- the listening session's pending events, oldest first
  deriving Repr, DecidableEq

def SPort.msg (p : SPort) : PortMsg := ⟨p.id, p.attrs, some p.value⟩

inductive Change
  | setValue (id : Nat) (v : PVal)
  | setAttrs (id : Nat) (attrs : Attrs) (v : PVal)     -- new attribute set (and the value it reports)
  | addPort (p : SPort)
  | removePort (id : Nat)
  | setDev (attrs : Attrs)
  deriving Repr, DecidableEq

def findS (l : List SPort) (id : Nat) : Option SPort := l.find? (fun p => p.id == id)

/-- A change on the device and the event it emits (`none` when the change is refused / is a no-op). -/
def applyChange (s : SlaveSt) : Change → SlaveSt × Option Ev
  | .setValue id v =>
    match findS s.ports id with
    | none => (s, none)
    | some p => if p.value == v then (s, none) else
      ({ s with ports := s.ports.map (fun q => if q.id == id then { q with value := v } else q) },
       some (.valueChange id v))
  | .setAttrs id a v =>
    match findS s.ports id with
    | none => (s, none)
    | some _ =>
      ({ s with ports := s.ports.map (fun q => if q.id == id then { q with attrs := a, value := v } else q) },
       some (.portUpdate ⟨id, a, some v⟩))
  | .addPort p =>
    match findS s.ports p.id with
    | some _ => (s, none)
    | none => ({ s with ports := s.ports ++ [p] }, some (.portAdd p.msg))
  | .removePort id =>
    match findS s.ports id with
    | none => (s, none)
    | some _ => ({ s with ports := s.ports.filter (fun q => !(q.id == id)) }, some (.portRemove id))
  | .setDev a => ({ s with dev := a }, some (.deviceUpdate a))

/-- The change is applied and its event is appended to the session queue. -/
def remoteStep (s : SlaveSt) (c : Change) : SlaveSt :=
  match applyChange s c with
  | (s', some e) => { s' with queue := s'.queue ++ [e] }
  | (s', none) => s'

end QtVerif.Slave
