import QtVerif.Model.Proto
import QtVerif.Model.Slave
import QtVerif.Model.SlaveRestart
import QtVerif.Model.SlaveNames
/-!
Line-protocol front end of the master/slave model, shared by Driver/C12.lean and Driver/C13.lean.

Encodings (no spaces inside a token):
  attrs    `n=v,n=v`            empty = `-`
  value    integer | `~` (JSON null)
  port msg `id|attrs|value`     value `!` = the message has no value key
  port list  msgs joined by `;` empty = `-`      failed request = `?`
  event    `vc:id:value` | `pu:<msg>` | `pa:<msg>` | `pr:id` | `du:attrs`      list joined by `;`, empty = `-`
  request  `PD{attrs}` `PW{attrs}` `PR{attrs}` `PP:id{attrs}` `PV:id:value` (`PV:id:!` = no body) `GW` `GR` `GD` `GP` `GV:id`
-/
namespace QtVerif.Slave.Prov
open QtVerif.Slave

def parseAttrs (s : String) : Option Attrs :=
  if s == "-" then some [] else
  (s.splitOn ",").mapM (fun kv =>
    match kv.splitOn "=" with
    | [k, v] => do let k ← k.toNat?; let v ← v.toInt?; pure (k, v)
    | _ => none)

def parseNats (s : String) : Option (List Nat) :=
  if s == "-" then some [] else (s.splitOn ",").mapM String.toNat?

def parseVal (s : String) : Option PVal :=
  if s == "~" then some none else s.toInt?.map some

def parseOptVal (s : String) : Option (Option PVal) :=
  if s == "!" then some none else (parseVal s).map some

def parseMsg (s : String) : Option PortMsg :=
  match s.splitOn "|" with
  | [i, a, v] => do
    let i ← i.toNat?
    let a ← parseAttrs a
    let v ← parseOptVal v
    pure ⟨i, a, v⟩
  | _ => none

def parseMsgs (s : String) : Option (List PortMsg) :=
  if s == "-" then some [] else (s.splitOn ";").mapM parseMsg

def parseEv (s : String) : Option Ev :=
  if s.startsWith "vc:" then
    match (s.drop 3).toString.splitOn ":" with
    | [i, v] => do let i ← i.toNat?; let v ← parseVal v; pure (.valueChange i v)
    | _ => none
  else if s.startsWith "pu:" then (parseMsg (s.drop 3).toString).map .portUpdate
  else if s.startsWith "pa:" then (parseMsg (s.drop 3).toString).map .portAdd
  else if s.startsWith "pr:" then ((s.drop 3).toString.toNat?).map .portRemove
  else if s.startsWith "du:" then (parseAttrs (s.drop 3).toString).map .deviceUpdate
  else none

def parseEvs (s : String) : Option (List Ev) :=
  if s == "-" then some [] else (s.splitOn ";").mapM parseEv

def fmtAttrs (a : Attrs) : String :=
  if a.isEmpty then "-" else ",".intercalate (a.map (fun kv => s!"{kv.1}={kv.2}"))

def fmtVal : PVal → String
  | none => "~"
  | some v => toString v

def fmtReq : Req → String
  | .patchDevice b => "PD{" ++ fmtAttrs b ++ "}"
  | .putWebhooks b => "PW{" ++ fmtAttrs b ++ "}"
  | .putReverse b => "PR{" ++ fmtAttrs b ++ "}"
  | .patchPort i b => s!"PP:{i}" ++ "{" ++ fmtAttrs b ++ "}"
  | .patchValue i none => s!"PV:{i}:!"
  | .patchValue i (some v) => s!"PV:{i}:{v}"
  | .getWebhooks => "GW"
  | .getReverse => "GR"
  | .getDevice => "GD"
  | .getPorts => "GP"
  | .getValue i => s!"GV:{i}"

def fmtReqs (l : List Req) : String := " ".intercalate (l.map fmtReq)

def fmtNats (l : List Nat) : String := if l.isEmpty then "-" else ",".intercalate (l.map toString)

/-- `id|enabled|lastRead|lastRemote|prov|provValue|attrs` per port, joined by `;`, then ` dev=… devprov=… wh=… rv=… online=…`. -/
def fmtState (m : Master) : String :=
  let ps := m.ports.map (fun p =>
    s!"{p.id}|{if p.enabled then 1 else 0}|{fmtVal p.lastRead}|{fmtVal p.lastRemote}|{fmtNats p.prov}|" ++
    s!"{if p.provValue then 1 else 0}|{fmtAttrs p.attrs}|{fmtVal p.cached}")
  (if ps.isEmpty then "-" else ";".intercalate ps) ++
  s!" dev={fmtAttrs m.dev} devprov={fmtNats m.devProv} wh={if m.provWebhooks then 1 else 0} " ++
  s!"rv={if m.provReverse then 1 else 0} online={if m.online then 1 else 0} ready={if m.ready then 1 else 0}"

structure DState where
  fix : Fix := Fix.repaired
  m : Master := Master.init .listen

def b (s : String) : Option Bool := if s == "1" then some true else if s == "0" then some false else none

/-- `begin mode valueBody keepPending [keepPendingValue] hasWebhooks hasReverse dev webhooks reverse ports`; the third
fix flag may be left out (default: repaired). -/
def dbegin (d : DState) (mode f1 f2 f3 hw hr dev wh rv ports : String) : DState × String :=
  let r : Option DState := do
    let mode ← if mode == "listen" then some Mode.listen else if mode == "poll" then some Mode.poll else none
    let f1 ← b f1; let f2 ← b f2; let f3 ← b f3; let hw ← b hw; let hr ← b hr
    let dev ← parseAttrs dev; let wh ← parseAttrs wh; let rv ← parseAttrs rv
    let ports ← parseMsgs ports
    let m0 : Master := { Master.init mode with dev := dev, webhooks := wh, reverse := rv, hasWebhooks := hw,
                                               hasReverse := hr, online := true, ready := true }
    pure { fix := ⟨f1, f2, f3⟩, m := fetchPorts ⟨f1, f2, f3⟩ m0 ports }
  match r with
  | some d' => (d', "ok")
  | none => (d, "bad-op")

def dstep (d : DState) : List String → DState × String
  | ["begin", mode, f1, f2, f3, hw, hr, dev, wh, rv, ports] => dbegin d mode f1 f2 f3 hw hr dev wh rv ports
  | ["begin", mode, f1, f2, hw, hr, dev, wh, rv, ports] => dbegin d mode f1 f2 "1" hw hr dev wh rv ports
  | ["events", evs] =>
    match parseEvs evs with
    | some evs =>
      let reqs := eventReqs d.fix d.m evs
      let m' := handleEvents d.fix d.m evs
      ({ d with m := m' }, s!"ok online={if m'.online then 1 else 0} {fmtReqs reqs}")
    | none => (d, "bad-op")
  | ["online", refused, dev, ports] =>
    let dv : Option (Option Attrs) := if dev == "?" then some none else (parseAttrs dev).map some
    let ps : Option (Option (List PortMsg)) := if ports == "?" then some none else (parseMsgs ports).map some
    match dv, ps, parseNats refused with
    | some dv, some ps, some rf =>
      let (reqs, m') := handleOnline d.fix rf d.m dv ps
      ({ d with m := m' }, "ok " ++ fmtReqs reqs)
    | _, _, _ => (d, "bad-op")
  | ["sync", refused, dev, ports] =>
    let dv : Option (Option Attrs) := if dev == "?" then some none else (parseAttrs dev).map some
    let ps : Option (Option (List PortMsg)) := if ports == "?" then some none else (parseMsgs ports).map some
    match dv, ps, parseNats refused with
    | some dv, some ps, some rf =>
      let (reqs, m') := provisionAndUpdate d.fix rf d.m dv ps
      ({ d with m := m' }, "ok " ++ fmtReqs reqs)
    | _, _, _ => (d, "bad-op")
  | ["poll", refused, dev, ports] =>
    let ps : Option (Option (List PortMsg)) := if ports == "?" then some none else (parseMsgs ports).map some
    match parseAttrs dev, ps, parseNats refused with
    | some dv, some ps, some rf =>
      let (reqs, m') := pollOnce d.fix rf d.m dv ps
      ({ d with m := m' }, "ok " ++ fmtReqs reqs)
    | _, _, _ => (d, "bad-op")
  | ["offline"] => ({ d with m := goOffline d.m }, "ok")
  -- master restart of a permanently offline (webhook-driven) slave (C13): `restart-permoff <restore 0|1>`
  | ["restart-permoff", r] =>
    match b r with
    | some r => ({ d with m := restartPermOffline r d.m }, "ok")
    | none => (d, "bad-op")
  | ["edit-attr", i, n, v] =>
    match i.toNat?, n.toNat?, v.toInt? with
    | some i, some n, some v =>
      let (m', reqs) := editAttr d.m i n v
      ({ d with m := m' }, "ok " ++ fmtReqs reqs)
    | _, _, _ => (d, "bad-op")
  | ["edit-value", i, v, ok] =>
    match i.toNat?, v.toInt?, b ok with
    | some i, some v, some ok =>
      let (m', reqs) := editValue d.m i v ok
      ({ d with m := m' }, "ok " ++ fmtReqs reqs)
    | _, _, _ => (d, "bad-op")
  | ["edit-dev", n, v] =>
    match n.toNat?, v.toInt? with
    | some n, some v =>
      let (m', reqs) := editDev d.m n v
      ({ d with m := m' }, "ok " ++ fmtReqs reqs)
    | _, _ => (d, "bad-op")
  | ["edit-webhooks", kv] =>
    match parseAttrs kv with
    | some kv => ({ d with m := editWebhooks d.m kv }, "ok")
    | none => (d, "bad-op")
  | ["edit-reverse", kv] =>
    match parseAttrs kv with
    | some kv => ({ d with m := editReverse d.m kv }, "ok")
    | none => (d, "bad-op")
  | ["value-resp", i, v] =>
    match i.toNat?, parseVal v with
    | some i, some v => ({ d with m := valueResp d.m i v }, "ok")
    | _, _ => (d, "bad-op")
  | ["drain"] =>
    let (rep, m') := drain d.fix d.m
    let parts := (rep.filter (fun x => !x.2.isEmpty)).map (fun x =>
      s!"{x.1}:" ++ ",".intercalate (x.2.map fmtVal))
    ({ d with m := m' }, "ok " ++ ";".intercalate parts)
  | ["observe"] => (d, "ok " ++ fmtState d.m)
  -- attribute names (C12): `slave-name owned,owned,… name` / `present-name owned,… name`; answer: the mapped name or `-`
  | ["slave-name", owned, n] =>
    (d, "ok " ++ match Names.slaveName ((owned.splitOn ",").map String.toList) n.toList with
      | some k => String.ofList k | none => "-")
  | ["present-name", owned, k] =>
    (d, "ok " ++ match Names.presentName ((owned.splitOn ",").map String.toList) k.toList with
      | some n => String.ofList n | none => "-")
  | _ => (d, "bad-op")

end QtVerif.Slave.Prov
