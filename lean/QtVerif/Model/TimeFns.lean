/-
Executable model of the history-dependent expression functions of qtoggleserver (C16). Core Lean only.

Mirrors, line by line,
  core/expressions/timeprocessing.py   DELAY SAMPLE FREEZE HELD DERIV INTEG FMAVG FMEDIAN
  core/expressions/various.py          RISING FALLING ACC ACCINC HYST SEQUENCE
  core/expressions/base.py             Expression.eval / pause_asap_eval / is_asap_eval_paused
  core/expressions/functions.py        Function.eval_args, Function.is_asap_eval_paused (repaired rule)
  core/main.py                         handle_value_changes: the skip rule for pure `asap` triggers
Constants of the code (`HISTORY_SIZE`, `QUEUE_SIZE`, `TIME_JUMP_THRESHOLD`) are parameters (`Params`).

Numbers: one carrier `α` with the operations of `Num`. Theorems use `Int` (exact, ordered) or any carrier
(where no arithmetic law is needed); the driver uses `Float` (= Python float, bit patterns on the wire).
Times (`now_ms`) are `Int`, as in Python; `ofInt` is Python's implicit int → float conversion.

`Params.fixed = true` is the repaired code (fixes/C16-pause-deadlines.diff): HELD pauses until its own
deadline, and a function is "paused" only while each argument that is a function is paused as well.
`fixed = false` is the code as found at the pinned commit (kept for the `unrepaired_…` theorems and for
replaying the witnesses).
-/
namespace QtVerif.TimeFns

/-- Arithmetic carrier. `eq` is Python `==`, `lt`/`le` Python `<`/`<=` (all false on NaN for floats),
`div` is true division (callers check for a zero divisor), `pmod` Python `%`, `trunc` Python `int()`,
`sum` the builtin `sum()` (Neumaier-compensated for floats since CPython 3.12). -/
class Num (α : Type) where
  ofInt : Int → α
  add : α → α → α
  sub : α → α → α
  mul : α → α → α
  div : α → α → α
  pmod : α → α → α
  lt : α → α → Bool
  le : α → α → Bool
  eq : α → α → Bool
  trunc : α → Int
  sum : List α → α

open Num

instance : Num Int where
  ofInt := id
  add := (· + ·)
  sub := (· - ·)
  mul := (· * ·)
  div := (· / ·)
  pmod := (· % ·)          -- callers guarantee a positive divisor where it matters (`Int.emod`)
  lt a b := decide (a < b)
  le a b := decide (a ≤ b)
  eq a b := decide (a = b)
  trunc := id
  sum l := l.foldl (· + ·) 0

instance : Num Rat where
  ofInt n := (n : Rat)
  add := (· + ·)
  sub := (· - ·)
  mul := (· * ·)
  div := (· / ·)
  pmod a b := a - b * ((a / b).floor : Rat)
  lt a b := decide (a < b)
  le a b := decide (a ≤ b)
  eq a b := decide (a = b)
  trunc a := if a < 0 then -((-a).floor) else a.floor
  sum l := l.foldl (· + ·) 0

/-- CPython ≥ 3.12 `sum()` over floats: `0 + x₀`, then Neumaier's compensated loop, compensation added at
the end when it is non-zero and finite. -/
def neumaier : List Float → Float
  | [] => 0.0
  | x0 :: rest =>
    let f0 : Float := 0.0 + x0
    let (f, c) := rest.foldl (fun (fc : Float × Float) x =>
      let f := fc.1
      let t := f + x
      let c := if f.abs >= x.abs then fc.2 + ((f - t) + x) else fc.2 + ((x - t) + f)
      (t, c)) (f0, 0.0)
    if c != 0.0 && c.isFinite then f + c else f

/-- `int(x)` for a finite float (truncation toward zero). -/
def floatTrunc (x : Float) : Int :=
  if x < 0.0 then -((-x).floor.toUInt64.toNat : Int) else (x.floor.toUInt64.toNat : Int)

/-- Python float `%` (sign of the divisor). Exact for integral operands below 2^53 (the only ones the
harness generates for SEQUENCE); otherwise `x - floor(x/y)*y`. -/
def floatPmod (x y : Float) : Float :=
  if x == x.floor && y == y.floor && x.abs < 9007199254740992.0 && y.abs < 9007199254740992.0 then
    let a := floatTrunc x
    let b := floatTrunc y
    Float.ofInt (a.fmod b)
  else
    x - (x / y).floor * y

instance : Num Float where
  ofInt := Float.ofInt
  add := (· + ·)
  sub := (· - ·)
  mul := (· * ·)
  div := (· / ·)
  pmod := floatPmod
  lt a b := a < b
  le a b := a <= b
  eq a b := a == b
  trunc := floatTrunc
  sum := neumaier

/-! ## Outcomes, pausing -/

/-- How an evaluation can fail: `ValueUnavailable`, `EvalSkipped`, or a Python exception that is not an
expression error (`ZeroDivisionError`, `IndexError`). -/
inductive Fail where
  | unavailable | skipped | exc
  deriving DecidableEq, Repr, Inhabited

abbrev Res (α : Type) := Except Fail α

variable {α : Type} [Num α]

/-- `int(1e13)`. -/
def forever : α := ofInt 10000000000000
/-- `_asap_eval_paused_until_ms = 0` (set at the start of every `eval`). -/
def noPause : α := ofInt 0
/-- `pause_asap_eval(x)`: `x or int(1e13)`. -/
def pauseUntil (x : α) : α := if eq x (ofInt 0) then forever else x
/-- `is_asap_eval_paused(now_ms)` of one node: `now_ms < _asap_eval_paused_until_ms`. -/
def isPaused (now : Int) (p : α) : Bool := lt (ofInt now : α) p

/-- Constants read from the live modules + which pause rule is modelled. -/
structure Params where
  H : Nat := 1024            -- DelayFunction.HISTORY_SIZE
  Q : Nat := 1024            -- FMAvgFunction.QUEUE_SIZE
  Qm : Nat := 1024           -- FMedianFunction.QUEUE_SIZE
  thr : Int := 86400000      -- TIME_JUMP_THRESHOLD
  fixed : Bool := true       -- repaired pause rules
  deriving Repr

/-- Memory of one function object (union of the private fields of all the classes). -/
structure Mem (α : Type) where
  q : List (Int × α) := []   -- DELAY `_queue` (time, value)
  w : List α := []           -- FMAVG / FMEDIAN `_queue`
  v : Option α := none       -- `_last_value`
  c : Option α := none       -- DELAY `_current_value`
  t : Int := 0               -- `_last_time_ms` / HELD `_start_time_ms`
  d : Option α := none       -- SAMPLE / FREEZE `_last_duration_ms` (`none` = the initial int 0)
  s : Nat := 0               -- HELD `_state` (0 off, 1 waiting, 2 on) / HYST `_last_result`

def Mem.dur (m : Mem α) : α := m.d.getD (ofInt 0)

/-- `value != self._last_value` with `_last_value` possibly `None`. -/
def differs (value : α) : Option α → Bool
  | none => true
  | some l => !(eq value l)

/-! ## DELAY -/

/-- `while self._queue and (now - self._queue[0][0]) >= delay: cur = self._queue.pop(0)[1]` -/
def popDue (now : Int) (delay : α) : List (Int × α) → α → List (Int × α) × α
  | [], c => ([], c)
  | (t, v) :: rest, c =>
    if le delay (ofInt (now - t)) then popDue now delay rest v else ((t, v) :: rest, c)

/-- `while len(queue) >= H: queue.pop(0)` for `H ≥ 1`. -/
def dropOld {β : Type} (H : Nat) (q : List β) : List β := q.drop (q.length - (H - 1))

def delayStep (P : Params) (m : Mem α) (now : Int) (value delay : α) : Mem α × Res α × α :=
  let cur0 : α := m.c.getD value
  if differs value m.v && P.H == 0 then
    -- the drop loop never terminates on a non-empty queue … and raises IndexError on the empty one
    ({ m with q := [], v := some value, c := some cur0 }, .error .exc, noPause)
  else
    let q1 := if differs value m.v then dropOld P.H m.q ++ [(now, value)] else m.q
    let v1 := if differs value m.v then some value else m.v
    let pd := popDue now delay q1 cur0
    let p := match pd.1 with
      | (t, _) :: _ => pauseUntil (add (ofInt t) delay)
      | [] => pauseUntil (add (ofInt now) delay)
    ({ m with q := pd.1, v := v1, c := some pd.2 }, .ok pd.2, p)

/-! ## SAMPLE (the hold test comes before the arguments are evaluated) -/

def sampleHolds (m : Mem α) (now : Int) : Bool := lt (ofInt (now - m.t)) m.dur

def sampleTake (m : Mem α) (now : Int) (value duration : α) : Mem α × Res α × α :=
  ({ m with v := some value, d := some duration, t := now }, .ok value, noPause)

/-! ## HELD -/

def heldStep (P : Params) (m : Mem α) (now : Int) (value fixedV duration : α) : Mem α × Res α × α :=
  let out (m' : Mem α) (p : α) : Mem α × Res α × α := (m', .ok (if m'.s == 2 then ofInt 1 else ofInt 0), p)
  if eq value fixedV then
    if m.s == 0 then
      out { m with t := now, s := 1 }
        (if P.fixed then (if lt (ofInt 0) duration then pauseUntil (add (ofInt now) duration) else noPause)
         else pauseUntil (add (ofInt now) duration))
    else if m.s == 1 then
      if le duration (ofInt (now - m.t)) then out { m with s := 2 } forever
      else out m (if P.fixed then pauseUntil (add (ofInt m.t) duration) else forever)
    else out m noPause
  else out { m with s := 0 } forever

/-! ## DERIV / INTEG -/

def derivStep (P : Params) (m : Mem α) (now : Int) (value interval : α) : Mem α × Res α × α :=
  match m.v with
  | none => ({ m with v := some value, t := now }, .ok (ofInt 0), noPause)
  | some l =>
    let delta := now - m.t
    if lt (ofInt delta) interval then (m, .error .skipped, pauseUntil (add (ofInt m.t) interval))
    else if delta > P.thr then ({ m with v := some value, t := now }, .error .skipped, noPause)
    else if delta == 0 then (m, .error .exc, noPause)     -- ZeroDivisionError
    else ({ m with v := some value, t := now },
          .ok (mul (div (sub value l) (ofInt delta)) (ofInt 1000)), noPause)

def integStep (P : Params) (m : Mem α) (now : Int) (value accu interval : α) : Mem α × Res α × α :=
  match m.v with
  | none => ({ m with v := some value, t := now }, .ok accu, noPause)
  | some l =>
    let delta := now - m.t
    if lt (ofInt delta) interval then (m, .error .skipped, pauseUntil (add (ofInt m.t) interval))
    else if delta > P.thr then ({ m with v := some value, t := now }, .error .skipped, noPause)
    else ({ m with v := some value, t := now },
          .ok (add accu (div (mul (add value l) (ofInt delta)) (ofInt 2000))), noPause)

/-! ## FMAVG / FMEDIAN -/

/-- `while len(queue) >= width: queue.pop(0)`; `none` = `IndexError` (pop from the empty list, `width ≤ 0`). -/
def trimQ (width : α) : List α → Option (List α)
  | [] => if le width (ofInt 0) then none else some []
  | x :: r => if le width (ofInt ((r.length : Int) + 1)) then trimQ width r else some (x :: r)

/-- `queue[-int(width):]` (`-0` is `0`: the whole list). -/
def lastN (width : α) (q : List α) : List α :=
  let k := trunc width
  if k == 0 then q
  else if k > 0 then q.drop (q.length - k.toNat)
  else q.drop (min k.natAbs q.length)          -- `queue[k':]` with k' = -k > 0 (unreachable: width > 0 here)

def insertSorted (x : α) : List α → List α
  | [] => [x]
  | y :: r => if lt x y then x :: y :: r else y :: insertSorted x r

/-- `list.sort()` on numbers: a stable sort by `<`. -/
def sortAsc (l : List α) : List α := l.foldl (fun acc x => insertSorted x acc) []

def meanOf (win : List α) : Res α := .ok (div (Num.sum win) (ofInt win.length))
/-- `queue[len(queue) // 2]` of the sorted window: the upper median for an even count. -/
def medianOf (win : List α) : Res α :=
  match (sortAsc win)[win.length / 2]? with
  | some x => .ok x
  | none => .error .exc

def fmStep (P : Params) (Q : Nat) (agg : List α → Res α) (m : Mem α) (now : Int) (value width interval : α) :
    Mem α × Res α × α :=
  let w : α := if lt (ofInt Q) width then ofInt Q else width              -- min(width, QUEUE_SIZE)
  let delta := now - m.t
  if m.t > 0 && lt (ofInt delta) interval then
    (m, .error .skipped, pauseUntil (add (ofInt m.t) interval))
  else if m.t > 0 && delta > P.thr then
    ({ m with t := now }, .error .skipped, noPause)
  else
    match trimQ w m.w with
    | none => ({ m with w := [] }, .error .exc, noPause)
    | some q1 =>
      let q2 := q1 ++ [value]
      ({ m with w := q2, t := now }, agg (lastN w q2), noPause)

/-! ## RISING / FALLING / ACC / ACCINC / HYST -/

def risingStep (m : Mem α) (value : α) : Mem α × Res α × α :=
  ({ m with v := some value },
   .ok (match m.v with | some l => if lt l value then ofInt 1 else ofInt 0 | none => ofInt 0), noPause)

def fallingStep (m : Mem α) (value : α) : Mem α × Res α × α :=
  ({ m with v := some value },
   .ok (match m.v with | some l => if lt value l then ofInt 1 else ofInt 0 | none => ofInt 0), noPause)

def accStep (m : Mem α) (value accu : α) : Mem α × Res α × α :=
  ({ m with v := some value },
   .ok (match m.v with | some l => add accu (sub value l) | none => accu), noPause)

def accIncStep (m : Mem α) (value accu : α) : Mem α × Res α × α :=
  ({ m with v := some value },
   .ok (match m.v with | some l => if lt l value then add accu (sub value l) else accu | none => accu), noPause)

def hystStep (m : Mem α) (value th1 th2 : α) : Mem α × Res α × α :=
  let r : Nat := if (m.s == 0 && lt th2 value) || (m.s != 0 && le th1 value) then 1 else 0
  ({ m with s := r }, .ok (ofInt r), noPause)

/-! ## SEQUENCE -/

/-- `(values, delays)` from `v0, d0, v1, d1, …` (a trailing odd argument is ignored, as in the code). -/
def seqPairs : List α → List (α × α)
  | v :: d :: rest => (v, d) :: seqPairs rest
  | _ => []

/-- The `for` loop: first index whose cumulated delay is `>= delta`. -/
def seqPick (delta : α) : List (α × α) → α → Option α
  | [], _ => none
  | (v, d) :: rest, soFar =>
    let soFar' := add soFar d
    if le delta soFar' then some v else seqPick delta rest soFar'

/-- `_eval` after `_last_time_ms` was initialised (`m.t`). -/
def sequenceStep (m : Mem α) (now : Int) (args : List α) : Mem α × Res α × α :=
  let pairs := seqPairs args
  match pairs with
  | [] => (m, .error .exc, noPause)                     -- cannot happen: MIN_ARGS = 2
  | (v0, _) :: _ =>
    let total := pairs.foldl (fun acc p => add acc p.2) (ofInt 0)
    if eq total (ofInt 0) then (m, .error .exc, noPause)       -- ZeroDivisionError in `%`
    else
      let delta := pmod (ofInt (now - m.t)) total
      (m, .ok ((seqPick delta pairs (ofInt 0)).getD v0), noPause)

/-! ## Expression trees with stateful nodes -/

inductive Fn where
  | delay | sample | freeze | held | deriv | integ | fmavg | fmedian
  | rising | falling | acc | accinc | hyst | sequence
  | add | sub | gt | lt | not
  deriving DecidableEq, Repr, Inhabited

/-- `'asap' in DEPS` of the class. -/
def Fn.asap : Fn → Bool
  | .delay | .sample | .freeze | .held | .deriv | .integ | .fmavg | .fmedian | .sequence => true
  | _ => false

/-- A parsed expression: literals (`none` = `unavailable`), port values (index into the context), function
objects carrying their memory `m` and `_asap_eval_paused_until_ms` `p`. -/
inductive Node (α : Type) where
  | lit (v : Option α)
  | port (i : Nat)
  | fn (k : Fn) (m : Mem α) (p : α) (args : List (Node α))

/-- The context: `port_values` (index = port; `none` = unavailable). -/
abbrev Env (α : Type) := List (Option α)

def envGet (env : Env α) (i : Nat) : Res α :=
  match env[i]? with
  | some (some x) => .ok x
  | _ => .error .unavailable

/-- All argument values, or the first failure in argument order. -/
def collect : List (Res α) → Except Fail (List α)
  | [] => .ok []
  | .ok x :: rest => (collect rest).map (x :: ·)
  | .error f :: _ => .error f

def b2n (b : Bool) : α := if b then ofInt 1 else ofInt 0

/-- `_eval` of the functions that start with `await self.eval_args(context)`, on the argument values. -/
def stepStrict (P : Params) (k : Fn) (m : Mem α) (now : Int) (vs : List α) : Mem α × Res α × α :=
  match k, vs with
  | .delay, [v, d] => delayStep P m now v d
  | .sample, [v, d] => sampleTake m now v d
  | .held, [v, f, d] => heldStep P m now v f d
  | .deriv, [v, i] => derivStep P m now v i
  | .integ, [v, a, i] => integStep P m now v a i
  | .fmavg, [v, w, i] => fmStep P P.Q meanOf m now v w i
  | .fmedian, [v, w, i] => fmStep P P.Qm medianOf m now v w i
  | .rising, [v] => risingStep m v
  | .falling, [v] => fallingStep m v
  | .acc, [v, a] => accStep m v a
  | .accinc, [v, a] => accIncStep m v a
  | .hyst, [v, a, b] => hystStep m v a b
  | .sequence, vs => sequenceStep m now vs
  | .add, [a, b] => (m, .ok (add a b), noPause)
  | .sub, [a, b] => (m, .ok (sub a b), noPause)
  | .gt, [a, b] => (m, .ok (b2n (lt b a)), noPause)
  | .lt, [a, b] => (m, .ok (b2n (lt a b)), noPause)
  | .not, [a] => (m, .ok (b2n (eq a (ofInt 0))), noPause)
  | _, _ => (m, .error .exc, noPause)                    -- wrong arity: rejected by the parser

/-- What happens to the memory before the arguments are evaluated (SEQUENCE initialises its start time). -/
def preStep (k : Fn) (m : Mem α) (now : Int) : Mem α :=
  match k with
  | .sequence => if m.t == 0 then { m with t := now } else m
  | _ => m

/-- The tail of `Function._eval` for the classes that start with `await self.eval_args(context)`: a failing
argument propagates (memory as it is, pause reset), otherwise the class's `_eval` body runs on the values. -/
def evalStrict (P : Params) (k : Fn) (m0 : Mem α) (now : Int) (args' : List (Node α)) (rs : List (Res α)) :
    Node α × Res α :=
  match collect rs with
  | .error f => (.fn k m0 noPause args', .error f)
  | .ok vs => let st := stepStrict P k m0 now vs; (.fn k st.1 st.2.2 args', st.2.1)

/-- `return self._last_value` (a `None` result makes the port unavailable, like `ValueUnavailable`). -/
def lastValue (m : Mem α) : Res α :=
  match m.v with | some x => .ok x | none => .error .unavailable

/-- FREEZE: timer running and not expired at `now`. -/
def freezeActive (m : Mem α) (now : Int) : Bool := m.t != 0 && !(lt m.dur (ofInt (now - m.t)))

mutual
/-- `Expression.eval(context)`: reset the pause, run `_eval`, keep memory and the new pause deadline in the
node. All arguments of a function are evaluated even if one of them fails (`asyncio.gather`); SAMPLE and
FREEZE evaluate their arguments only in some states. -/
def evalNode (P : Params) (env : Env α) (now : Int) : Node α → Node α × Res α
  | .lit v => (.lit v, match v with | some x => .ok x | none => .error .unavailable)
  | .port i => (.port i, envGet env i)
  | .fn k m _ args =>
    match k, args with
    | .sample, args =>
      if sampleHolds m now then
        (.fn .sample m (pauseUntil (add (ofInt m.t) m.dur)) args, lastValue m)
      else
        let ea := evalArgs P env now args
        evalStrict P .sample m now ea.1 ea.2
    | .freeze, [a0, a1] =>
      if freezeActive m now then
        (.fn .freeze m (pauseUntil (add (ofInt m.t) m.dur)) [a0, a1], lastValue m)
      else
        -- idle, or timer expired: back to idle, then the idle branch (the recursive `self._eval` call)
        let m0 : Mem α := { m with t := 0 }
        let e0 := evalNode P env now a0
        match e0.2 with
        | .error f => (.fn .freeze m0 noPause [e0.1, a1], .error f)
        | .ok value =>
          if differs value m0.v then
            let m1 : Mem α := { m0 with t := now }
            let e1 := evalNode P env now a1
            match e1.2 with
            | .error f => (.fn .freeze m1 noPause [e0.1, e1.1], .error f)
            | .ok dur => (.fn .freeze { m1 with d := some dur, v := some value } noPause [e0.1, e1.1], .ok value)
          else
            (.fn .freeze m0 forever [e0.1, a1], lastValue m0)
    | k, args =>
      let ea := evalArgs P env now args
      evalStrict P k (preStep k m now) now ea.1 ea.2
def evalArgs (P : Params) (env : Env α) (now : Int) : List (Node α) → List (Node α) × List (Res α)
  | [] => ([], [])
  | a :: rest =>
    let ea := evalNode P env now a
    let er := evalArgs P env now rest
    (ea.1 :: er.1, ea.2 :: er.2)
end

mutual
/-- `is_asap_eval_paused(now_ms)` of a function node. Repaired rule: own deadline ∧ every argument that is a
function is paused; as found: own deadline only. -/
def effPaused (fixed : Bool) (now : Int) : Node α → Bool
  | .fn _ _ p args => isPaused now p && (!fixed || argsPaused fixed now args)
  | _ => false
def argsPaused (fixed : Bool) (now : Int) : List (Node α) → Bool
  | [] => true
  | .fn k m p args :: rest => effPaused fixed now (.fn k m p args) && argsPaused fixed now rest
  | _ :: rest => argsPaused fixed now rest
end

mutual
/-- `'asap' in expression.get_deps()`. -/
def hasAsap : Node α → Bool
  | .fn k _ _ args => k.asap || argsAsap args
  | _ => false
def argsAsap : List (Node α) → Bool
  | [] => false
  | a :: rest => hasAsap a || argsAsap rest
end

/-! ## The port carrying the expression, under the polling loop -/

/-- `_eval_and_write`: a value is written, `ValueUnavailable` makes the port unavailable, any other failure
leaves the port alone. -/
def applyRes (cur : Option α) : Res α → Option α
  | .ok v => some v
  | .error .unavailable => none
  | .error _ => cur

/-- One pass of the loop as the expression's port sees it: the time, the port values, and whether one of
the expression's dependencies changed in this pass (or an evaluation was forced). -/
structure Tick (α : Type) where
  now : Int
  env : Env α
  trig : Bool

structure PortSt (α : Type) where
  tree : Node α
  value : Option α

/-- `handle_value_changes` for one port with an expression. `skip = true`: the real rule (an expression
whose only changed dependency is `asap` is not evaluated while it is paused); `skip = false`: the reference
that evaluates on every tick. Without an `asap` dependency the expression is evaluated on triggers only. -/
def loopStep (P : Params) (skip : Bool) (st : PortSt α) (tk : Tick α) : PortSt α :=
  let asap := hasAsap st.tree
  if tk.trig || (asap && !(skip && effPaused P.fixed tk.now st.tree)) then
    let (tree', r) := evalNode P tk.env tk.now st.tree
    { tree := tree', value := applyRes st.value r }
  else st

/-- Port values after each pass. -/
def runLoop (P : Params) (skip : Bool) : PortSt α → List (Tick α) → List (Option α)
  | _, [] => []
  | st, tk :: rest => let st' := loopStep P skip st tk; st'.value :: runLoop P skip st' rest

/-! ## Polling passes and the port's evaluation task as separate steps

A pass (`main.update()` → `handle_value_changes`) only QUEUES an evaluation context (`push_eval`: time and port values
of the pass); the port's evaluation task runs the queued contexts later, in order. Passes happen at every tick and
also right after any confirmed port write, so several passes can see a queued, not yet run evaluation
(`has_pending_eval`). -/

structure QPort (α : Type) where
  st : PortSt α
  queue : List (Int × Env α)          -- queued evaluation contexts, oldest first

/-- The decision of `handle_value_changes` for the port. `guardAll = false` is the code: the two shortcuts
(paused → skip, evaluation already pending → skip) apply only when `asap` is the ONLY changed dependency; a changed
port (or a forced evaluation) always queues. `guardAll = true` is the variant in which the pending-evaluation
shortcut applies to every trigger of an asap expression (kept for the counter-example). -/
def passStep (P : Params) (guardAll : Bool) (q : QPort α) (tk : Tick α) : QPort α :=
  let asap := hasAsap q.st.tree
  let pending := !q.queue.isEmpty
  let paused := effPaused P.fixed tk.now q.st.tree
  let push : QPort α := { q with queue := q.queue ++ [(tk.now, tk.env)] }
  if !asap then (if tk.trig then push else q)
  else if !tk.trig then (if paused then q else if pending then q else push)
  else if guardAll && pending then q
  else push

/-- `_eval_loop`: every queued context is evaluated, oldest first, the port follows each outcome. -/
def runQueue (P : Params) (st : PortSt α) : List (Int × Env α) → PortSt α
  | [] => st
  | (now, env) :: rest =>
    let e := evalNode P env now st.tree
    runQueue P { tree := e.1, value := applyRes st.value e.2 } rest

inductive Ev (α : Type) where
  | pass (tk : Tick α)        -- a polling pass
  | run                       -- the port's evaluation task gets to run

def evStep (P : Params) (guardAll : Bool) (q : QPort α) : Ev α → QPort α
  | .pass tk => passStep P guardAll q tk
  | .run => { st := runQueue P q.st q.queue, queue := [] }

/-- Port value after each event of a schedule. -/
def runEvents (P : Params) (guardAll : Bool) : QPort α → List (Ev α) → List (Option α)
  | _, [] => []
  | q, e :: rest => let q' := evStep P guardAll q e; q'.st.value :: runEvents P guardAll q' rest

end QtVerif.TimeFns
