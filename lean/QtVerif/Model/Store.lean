/-
Model for property C06 — every persistence driver behaves like the reference record store.

Mirrors
  qtoggleserver/utils/json.py            dumps (scalar fast path), loads + the "extended types" hooks, on top of
                                         a character-level model of CPython's json.dumps / json.loads
                                         (ensure_ascii, default separators; strict scanstring)
  qtoggleserver/drivers/persist/json.py  JSONDriver.query/insert/update/replace/remove, _filter_matches,
                                         _filter_value_matches, _find_next_id, _index/_unindex (`Op.reload`)
  qtoggleserver/drivers/persist/redis.py RedisDriver.query/insert/update/replace/remove, _get_next_id,
                                         _record_to_db/_record_from_db, _value_to_db/_value_from_db, over an
                                         abstract key–value server (hashes by id, the id set, the id counter)
  qtoggleserver/persist/__init__.py      replace (replace-or-insert and its return value)
and defines the SPEC: `Ref` — a plain in-memory record store: a collection is the list of its records in
insertion order, a record is a dict holding its id under "id"; a query is filter → stable sort by the
lexicographic order of the sort keys → limit → projection; the name of an auto-generated id is an input of the
step (any name not in use is acceptable), operations outside the contract are rejected explicitly (`Res.err`).

Strings are lists of Unicode code points (`Str = List Nat`). Floats are IEEE-754 bit patterns compared exactly
(also with integers); their text form (`float.__repr__` / `float()`) and the text form of dates
(`strftime` / `strptime`) are an environment parameter `FloatText`. Python's `==`, `<`, `in` on JSON-like values
are `jeq`, `jcmp`, `opEval` (`none` = TypeError). Repairs of defects found in /repo are behind the `Fix` flags
(all `true` = repaired code = the model proper; `Fix.asFound` = the code at the pinned commit, used only by the
`unrepaired_…` theorems). Core Lean only.
-/
namespace QtVerif.Store

abbrev Str := List Nat

/-- JSON-representable values as the persistence API sees them (Python objects). -/
inductive JVal where
  | null
  | bool (b : Bool)
  | int (i : Int)
  | num (bits : Nat)                 -- finite binary64, by bit pattern
  | str (s : Str)
  | date (dt : Bool) (txt : Str)     -- datetime.date (dt = false) / datetime.datetime (dt = true), by zero-padded ISO text
  | arr (l : List JVal)
  | obj (l : List (Str × JVal))      -- Python dict: insertion ordered, keys unique
  deriving Repr, Inhabited

abbrev Fields := List (Str × JVal)

/-! ## Python dict operations on association lists -/

def dget {β : Type} (k : Str) : List (Str × β) → Option β
  | [] => none
  | (k', v) :: t => if k' = k then some v else dget k t

/-- `d[k] = v`: an existing key keeps its position, a new key is appended. -/
def dset {β : Type} (k : Str) (v : β) : List (Str × β) → List (Str × β)
  | [] => [(k, v)]
  | (k', v') :: t => if k' = k then (k', v) :: t else (k', v') :: dset k v t

/-- `d.pop(k, None)` (result dict only). -/
def dpop {β : Type} (k : Str) : List (Str × β) → List (Str × β)
  | [] => []
  | (k', v') :: t => if k' = k then t else (k', v') :: dpop k t

/-- `d.update(part)`. -/
def dupdate {β : Type} (d : List (Str × β)) : List (Str × β) → List (Str × β)
  | [] => d
  | (k, v) :: t => dupdate (dset k v d) t

def dkeys {β : Type} (d : List (Str × β)) : List Str := d.map Prod.fst

/-! ## Names used by the code -/

def kId : Str := [105, 100]                       -- "id"
def kT : Str := [95, 95, 116]                     -- "__t"
def kV : Str := [95, 95, 118]                     -- "__v"
def tD : Str := [95, 95, 100]                     -- "__d"
def tDT : Str := [95, 95, 100, 116]               -- "__dt"
def opGt : Str := [103, 116]
def opGe : Str := [103, 101]
def opLt : Str := [108, 116]
def opLe : Str := [108, 101]
def opIn : Str := [105, 110]

/-! ## Decimal numerals (`str(int)`, `int(str)`) -/

def toDecAux : Nat → Nat → Str
  | 0, n => [48 + n % 10]
  | fuel + 1, n => if n < 10 then [48 + n] else toDecAux fuel (n / 10) ++ [48 + n % 10]

/-- `str(n)` (the fuel `n` is never exhausted: every step divides by ten) -/
def toDec (n : Nat) : Str := toDecAux n n

def isDigit (c : Nat) : Bool := 48 ≤ c && c ≤ 57

def digitsVal : Nat → Str → Nat
  | acc, [] => acc
  | acc, c :: t => digitsVal (acc * 10 + (c - 48)) t

/-- Nonempty run of ASCII digits. -/
def parseDec (s : Str) : Option Nat :=
  if s ≠ [] ∧ s.all isDigit then some (digitsVal 0 s) else none

def intToStr (i : Int) : Str :=
  if i < 0 then 45 :: toDec i.natAbs else toDec i.natAbs

/-- `int(s)` of CPython restricted to an optional sign followed by ASCII digits (what `str(int)` produces and
what identifiers look like); anything else is the `ValueError` branch. -/
def parseInt : Str → Option Int
  | 45 :: t => (parseDec t).map (fun n => - (n : Int))
  | 43 :: t => (parseDec t).map (fun n => (n : Int))
  | s => (parseDec s).map (fun n => (n : Int))

/-! ## Python comparison semantics -/

/-- Exact dyadic value `± m · 2^e` of a bool / int / finite float. -/
structure Dy where
  neg : Bool
  m : Nat
  e : Int
  deriving Repr

def dyOfInt (i : Int) : Dy := ⟨decide (i < 0), i.natAbs, 0⟩

def dyOfBits (b : Nat) : Dy :=
  let s : Nat := b / 2 ^ 63 % 2
  let ex : Nat := b / 2 ^ 52 % 2048
  let mant : Nat := b % 2 ^ 52
  if ex = 0 then ⟨decide (s = 1), mant, -1074⟩ else ⟨decide (s = 1), 2 ^ 52 + mant, (ex : Int) - 1075⟩

def dyScaled (d : Dy) (k : Int) : Int :=
  let v : Int := (d.m : Int) * (2 : Int) ^ (d.e - k).toNat
  if d.neg then -v else v

def dyCmp (a b : Dy) : Ordering :=
  let k := min a.e b.e
  compare (dyScaled a k) (dyScaled b k)

/-- Finite float: exponent field not all ones. -/
def finiteBits (b : Nat) : Bool := b < 2 ^ 64 && b / 2 ^ 52 % 2048 != 2047

def numOf : JVal → Option Dy
  | .bool b => some (dyOfInt (if b then 1 else 0))
  | .int i => some (dyOfInt i)
  | .num b => some (dyOfBits b)
  | _ => none

def strCmp : Str → Str → Ordering
  | [], [] => .eq
  | [], _ :: _ => .lt
  | _ :: _, [] => .gt
  | a :: s, b :: t => if a < b then .lt else if b < a then .gt else strCmp s t

mutual
/-- Python `==` on JSON-like values: numbers (bool ⊂ int, float) by exact value, dicts order-insensitively. -/
def jeq : JVal → JVal → Bool
  | .null, .null => true
  | .str a, .str b => a == b
  | .date k a, .date k' b => k == k' && a == b
  | .arr a, .arr b => jeqList a b
  | .obj a, .obj b => a.length == b.length && jeqObj a b
  | a, b =>
    match numOf a, numOf b with
    | some x, some y => dyCmp x y == .eq
    | _, _ => false
def jeqList : List JVal → List JVal → Bool
  | [], [] => true
  | x :: xs, y :: ys => jeq x y && jeqList xs ys
  | _, _ => false
def jeqObj : List (Str × JVal) → List (Str × JVal) → Bool
  | [], _ => true
  | (k, v) :: t, b =>
    (match dget k b with
     | some v' => jeq v v'
     | none => false) && jeqObj t b
end

mutual
/-- Python three-way ordering; `none` = `TypeError` (unorderable operands). -/
def jcmp : JVal → JVal → Option Ordering
  | .str a, .str b => some (strCmp a b)
  | .date k a, .date k' b => if k == k' then some (strCmp a b) else none
  | .arr a, .arr b => jcmpList a b
  | a, b =>
    match numOf a, numOf b with
    | some x, some y => some (dyCmp x y)
    | _, _ => none
def jcmpList : List JVal → List JVal → Option Ordering
  | [], [] => some .eq
  | [], _ :: _ => some .lt
  | _ :: _, [] => some .gt
  | x :: xs, y :: ys => if jeq x y then jcmpList xs ys else jcmp x y
end

/-- `FILTER_OP_MAPPING[op](a, b)`; outer `none` = exception (`KeyError` for an unknown operator, `TypeError`). -/
def opEval (op : Str) (a b : JVal) : Option Bool :=
  if op = opGt then (jcmp a b).map (· == .gt)
  else if op = opGe then (jcmp a b).map (· != .lt)
  else if op = opLt then (jcmp a b).map (· == .lt)
  else if op = opLe then (jcmp a b).map (· != .gt)
  else if op = opIn then
    match b with
    | .arr l => some (l.any (fun x => jeq x a))
    | _ => none
  else none

/-- `_filter_value_matches`: a dict is a set of operators (all must hold, evaluated in order, first failure
returns), anything else is compared with `==`. -/
def opsMatch (v : JVal) : List (Str × JVal) → Option Bool
  | [] => some true
  | (op, w) :: t =>
    match opEval op v w with
    | none => none
    | some false => some false
    | some true => opsMatch v t

def condMatches (v : JVal) : JVal → Option Bool
  | .obj ops => opsMatch v ops
  | w => some (jeq v w)

/-- `_filter_matches(record, filt)`: keys in filter order, a missing key is a mismatch. -/
def recMatches (r : Fields) : Fields → Option Bool
  | [] => some true
  | (k, c) :: t =>
    match dget k r with
    | none => some false
    | some v =>
      match condMatches v c with
      | none => none
      | some false => some false
      | some true => recMatches r t

/-! ## Character-level model of `json.dumps` (ensure_ascii, default separators) and `json.loads` -/

/-- Environment: text form of finite floats (`float.__repr__`, `float(text)`) and of dates (`dateFmt` = `strftime`
of the date with the given zero-padded ISO text; `dateNorm` = `strptime`: the ISO text of the date a text denotes,
`none` = `ValueError`). -/
structure FloatText where
  fmt : Nat → Str
  parse : Str → Option Nat
  dateFmt : Bool → Str → Str
  dateNorm : Bool → Str → Option Str

def hexDigit (n : Nat) : Nat := if n < 10 then 48 + n else 87 + n          -- lowercase, as '{0:04x}'
def hex4 (n : Nat) : Str := [hexDigit (n / 4096 % 16), hexDigit (n / 256 % 16), hexDigit (n / 16 % 16), hexDigit (n % 16)]

/-- `ESCAPE_ASCII` replacement of one code point. -/
def escChar (c : Nat) : Str :=
  if c = 34 then [92, 34]
  else if c = 92 then [92, 92]
  else if c = 10 then [92, 110]
  else if c = 13 then [92, 114]
  else if c = 9 then [92, 116]
  else if c = 8 then [92, 98]
  else if c = 12 then [92, 102]
  else if 32 ≤ c ∧ c ≤ 126 then [c]
  else if c < 65536 then 92 :: 117 :: hex4 c
  else
    let v := c - 65536
    92 :: 117 :: hex4 (55296 + v / 1024 % 1024) ++ 92 :: 117 :: hex4 (56320 + v % 1024)

def escStr : Str → Str
  | [] => []
  | c :: t => escChar c ++ escStr t

/-- `json.dumps(s)` of a `str`. -/
def quoteStr (s : Str) : Str := 34 :: escStr s ++ [34]

def sNull : Str := [110, 117, 108, 108]
def sTrue : Str := [116, 114, 117, 101]
def sFalse : Str := [102, 97, 108, 115, 101]

mutual
/-- `json.dumps(v, default=encode_default_json_extended)`. -/
def printVal (ft : FloatText) : JVal → Str
  | .null => sNull
  | .bool true => sTrue
  | .bool false => sFalse
  | .int i => intToStr i
  | .num b => ft.fmt b
  | .str s => quoteStr s
  | .date dt txt =>                 -- {"__t": "__d"|"__dt", "__v": "<strftime>"}
    123 :: quoteStr kT ++ [58, 32] ++ quoteStr (if dt then tDT else tD) ++ [44, 32] ++ quoteStr kV ++ [58, 32]
      ++ quoteStr (ft.dateFmt dt txt) ++ [125]
  | .arr l => 91 :: printArr ft l
  | .obj l => 123 :: printObj ft l
def printArr (ft : FloatText) : List JVal → Str
  | [] => [93]
  | [x] => printVal ft x ++ [93]
  | x :: y :: t => printVal ft x ++ [44, 32] ++ printArr ft (y :: t)
def printObj (ft : FloatText) : List (Str × JVal) → Str
  | [] => [125]
  | [(k, x)] => quoteStr k ++ [58, 32] ++ printVal ft x ++ [125]
  | (k, x) :: y :: t => quoteStr k ++ [58, 32] ++ printVal ft x ++ [44, 32] ++ printObj ft (y :: t)
end

def hexVal (c : Nat) : Option Nat :=
  if 48 ≤ c ∧ c ≤ 57 then some (c - 48)
  else if 97 ≤ c ∧ c ≤ 102 then some (c - 87)
  else if 65 ≤ c ∧ c ≤ 70 then some (c - 55)
  else none

def parseHex4 : Str → Option (Nat × Str)
  | a :: b :: c :: d :: rest =>
    match hexVal a, hexVal b, hexVal c, hexVal d with
    | some a, some b, some c, some d => some (a * 4096 + b * 256 + c * 16 + d, rest)
    | _, _, _, _ => none
  | _ => none

/-- `py_scanstring` (strict) after the opening quote: returns the decoded string and the input after the
closing quote. -/
def parseStrBody : Nat → Str → Option (Str × Str)
  | 0, _ => none
  | _ + 1, [] => none
  | fuel + 1, c :: rest =>
    if c = 34 then some ([], rest)
    else if c = 92 then
      match rest with
      | [] => none
      | e :: rest' =>
        if e = 117 then
          match parseHex4 rest' with
          | none => none
          | some (u, rest2) =>
            -- a high surrogate followed by an escaped low surrogate is one code point
            let pair : Option (Nat × Str) :=
              if 55296 ≤ u ∧ u ≤ 56319 then
                match rest2 with
                | 92 :: 117 :: r3 =>
                  match parseHex4 r3 with
                  | some (u2, rest4) =>
                    if 56320 ≤ u2 ∧ u2 ≤ 57343 then some (65536 + (u - 55296) * 1024 + (u2 - 56320), rest4) else none
                  | none => none
                | _ => none
              else none
            match pair with
            | some (cp, rest4) => (parseStrBody fuel rest4).map (fun (s, r) => (cp :: s, r))
            | none => (parseStrBody fuel rest2).map (fun (s, r) => (u :: s, r))
        else
          let m : Option Nat :=
            if e = 34 then some 34 else if e = 92 then some 92 else if e = 47 then some 47
            else if e = 98 then some 8 else if e = 102 then some 12 else if e = 110 then some 10
            else if e = 114 then some 13 else if e = 116 then some 9 else none
          match m with
          | none => none
          | some d => (parseStrBody fuel rest').map (fun (s, r) => (d :: s, r))
    else if c < 32 then none
    else (parseStrBody fuel rest).map (fun (s, r) => (c :: s, r))

def isWs (c : Nat) : Bool := c = 32 || c = 9 || c = 10 || c = 13

def skipWs : Str → Str
  | [] => []
  | c :: t => if isWs c then skipWs t else c :: t

def isNumChar (c : Nat) : Bool := isDigit c || c = 45 || c = 43 || c = 46 || c = 101 || c = 69

def isFloatMark (c : Nat) : Bool := c = 46 || c = 101 || c = 69

/-- JSON integer literal: optional '-', then "0" or a digit run without leading zero. -/
def jsonIntBody (body : Str) : Option Nat :=
  match body with
  | [] => none
  | 48 :: _ :: _ => none
  | _ => parseDec body

def parseJsonInt : Str → Option Int
  | 45 :: t => (jsonIntBody t).map (fun n => - (n : Int))
  | s => (jsonIntBody s).map (fun n => (n : Int))

/-- `decode_json_hook_extended` applied to a freshly parsed dict; `none` = the hook raises (`strptime` of a
non-string is a `TypeError`, which the hook does not catch). -/
def extHook (ft : FloatText) (o : List (Str × JVal)) : Option JVal :=
  match dget kT o with
  | some (.str t) =>
    if t = tD then
      match dget kV o with
      | some (.str v) => some (match ft.dateNorm false v with | some c => .date false c | none => .obj o)
      | _ => none
    else if t = tDT then
      match dget kV o with
      | some (.str v) => some (match ft.dateNorm true v with | some c => .date true c | none => .obj o)
      | _ => none
    else some (.obj o)
  | _ => some (.obj o)

mutual
/-- `scan_once`: one JSON value at the head of the input (no leading whitespace). -/
def parseVal (ft : FloatText) : Nat → Str → Option (JVal × Str)
  | 0, _ => none
  | _ + 1, [] => none
  | fuel + 1, c :: rest =>
    if c = 34 then
      (parseStrBody (rest.length + 1) rest).map (fun (s, r) => (.str s, r))
    else if c = 123 then
      match skipWs rest with
      | 125 :: r => some (.obj [], r)
      | r =>
        match parseMembers ft fuel [] r with
        | none => none
        | some (o, r') => (extHook ft o).map (fun v => (v, r'))
    else if c = 91 then
      match skipWs rest with
      | 93 :: r => some (.arr [], r)
      | r => (parseElems ft fuel [] r).map (fun (l, r') => (.arr l, r'))
    else if c = 110 then
      match rest with
      | 117 :: 108 :: 108 :: r => some (.null, r)
      | _ => none
    else if c = 116 then
      match rest with
      | 114 :: 117 :: 101 :: r => some (.bool true, r)
      | _ => none
    else if c = 102 then
      match rest with
      | 97 :: 108 :: 115 :: 101 :: r => some (.bool false, r)
      | _ => none
    else if c = 45 ∨ isDigit c then
      let run := (c :: rest).takeWhile isNumChar
      let r := (c :: rest).dropWhile isNumChar
      if run.any isFloatMark then (ft.parse run).map (fun b => (.num b, r))
      else (parseJsonInt run).map (fun i => (.int i, r))
    else none
/-- Array elements after `[` (input at the first element), accumulated in order. -/
def parseElems (ft : FloatText) : Nat → List JVal → Str → Option (List JVal × Str)
  | 0, _, _ => none
  | fuel + 1, acc, s =>
    match parseVal ft fuel s with
    | none => none
    | some (v, r) =>
      match skipWs r with
      | 93 :: r' => some (acc ++ [v], r')
      | 44 :: r' => parseElems ft fuel (acc ++ [v]) (skipWs r')
      | _ => none
/-- Object members after `{` (input at the first key); a repeated key overwrites (Python dict). -/
def parseMembers (ft : FloatText) : Nat → List (Str × JVal) → Str → Option (List (Str × JVal) × Str)
  | 0, _, _ => none
  | fuel + 1, acc, s =>
    match s with
    | 34 :: s1 =>
      match parseStrBody (s1.length + 1) s1 with
      | none => none
      | some (k, r) =>
        match skipWs r with
        | 58 :: r1 =>
          match parseVal ft fuel (skipWs r1) with
          | none => none
          | some (v, r2) =>
            match skipWs r2 with
            | 125 :: r' => some (dset k v acc, r')
            | 44 :: r' => parseMembers ft fuel (dset k v acc) (skipWs r')
            | _ => none
        | _ => none
    | _ => none
end

/-- `json.loads(text, object_hook=decode_json_hook_extended)`: one value, surrounded by whitespace only. -/
def loads (ft : FloatText) (s : Str) : Option JVal :=
  match parseVal ft (s.length + 1) (skipWs s) with
  | some (v, r) => if skipWs r = [] then some v else none
  | none => none

/-! ## Repairs -/

/-- Defects of /repo that are repaired by `fixes/C06-*.diff`; `true` = repaired behaviour. -/
structure Fix where
  escape : Bool := true          -- utils/json.py dumps(str): escape instead of '"' + s + '"'
  jsonUpdFilt : Bool := true     -- json.py update by id honours the rest of the filter
  redisSrem : Bool := true       -- redis.py remove by id: id leaves the set only when the record is removed
  redisEmpty : Bool := true      -- redis.py by-id paths: a record exists iff its id is in the set
  redisEmptyPart : Bool := true  -- redis.py update with an empty part changes nothing
  redisFreshId : Bool := true    -- redis.py _get_next_id skips ids in use
  apiReplace : Bool := true      -- persist.replace returns True iff an existing record was replaced
  mongoIdFull : Bool := true     -- mongo.py _id_to_db: the ObjectId pattern must match the whole id (fullmatch)
  deriving Repr

def Fix.repaired : Fix := {}
def Fix.asFound : Fix := ⟨false, false, false, false, false, false, false, false⟩

/-- `utils/json.py dumps(v, extra_types=EXTENDED)` = RedisDriver._value_to_db. -/
def encodeVal (fx : Fix) (ft : FloatText) : JVal → Str
  | .str s => if fx.escape then quoteStr s else 34 :: s ++ [34]
  | v => printVal ft v

/-- `utils/json.py loads(s, extra_types=EXTENDED)` = RedisDriver._value_from_db. -/
def decodeVal (ft : FloatText) (s : Str) : Option JVal := loads ft s

/-! ## Operations, results -/

inductive Op where
  | insert (coll : Str) (rec : Fields)
  | update (coll : Str) (part filt : Fields)
  | replace (coll : Str) (id : Str) (rec : Fields)
  | remove (coll : Str) (filt : Fields)
  | query (coll : Str) (fields : Option (List Str)) (filt : Fields) (sort : List (Str × Bool)) (limit : Option Nat)
  | reload                                   -- a fresh driver instance on the same backing storage
  deriving Repr

inductive Err where
  | dup            -- DuplicateRecordId
  | notFresh       -- (Ref only) the name offered for an auto-generated id is already in use
  | badId          -- the record's "id" is neither absent/None nor a string
  | idInPart       -- (Ref only) update whose part names "id": outside the contract
  | typeErr        -- an exception while filtering / sorting (TypeError, KeyError, ValueError)
  | decode         -- stored text does not decode (JSONDecodeError)
  | backend        -- the storage client refuses the command (redis DataError)
  deriving Repr, DecidableEq

inductive Res where
  | id (s : Str)
  | count (n : Nat)
  | flag (b : Bool)
  | recs (l : List Fields)
  | unit
  | err (e : Err)
  deriving Repr

/-- collection table: missing name = empty collection -/
def aget {β : Type} (dflt : β) (k : Str) : List (Str × β) → β
  | [] => dflt
  | (k', v) :: t => if k' = k then v else aget dflt k t

def aset {β : Type} (k : Str) (v : β) : List (Str × β) → List (Str × β)
  | [] => [(k, v)]
  | (k', v') :: t => if k' = k then (k', v) :: t else (k', v') :: aset k v t

/-! ## Sorting, limit, projection -/

/-- stable insertion: `x` goes before the first element that is not strictly smaller -/
def insertBy {α : Type} (lt : α → α → Bool) (x : α) : List α → List α
  | [] => [x]
  | y :: t => if lt y x then y :: insertBy lt x t else x :: y :: t

/-- stable sort (the unique stable sorted permutation; stands for `list.sort`) -/
def isort {α : Type} (lt : α → α → Bool) : List α → List α
  | [] => []
  | x :: t => insertBy lt x (isort lt t)

def keyLt (a b : JVal) : Bool := jcmp a b == some .lt

/-- every pair of keys can be ordered (otherwise `list.sort` raises `TypeError`) -/
def pairsOk (keys : List JVal) : Bool := keys.all (fun a => keys.all (fun b => (jcmp a b).isSome))

def attachKeys {α : Type} (kf : α → Option JVal) : List α → Option (List (JVal × α))
  | [] => some []
  | r :: t =>
    match kf r, attachKeys kf t with
    | some k, some kt => some ((k, r) :: kt)
    | _, _ => none

/-- one `records.sort(key=…, reverse=rev)`: keys are computed first, then a stable sort by `<` on the keys
(`reverse=True` keeps the original order of equal keys as well) -/
def sortPass {α : Type} (kf : α → Option JVal) (rev : Bool) (l : List α) : Option (List α) :=
  match attachKeys kf l with
  | none => none
  | some kl =>
    if pairsOk (kl.map Prod.fst) then
      some ((isort (fun a b => if rev then keyLt b.1 a.1 else keyLt a.1 b.1) kl).map Prod.snd)
    else none

/-- `for field, rev in reversed(sort): records.sort(...)` — the last key is sorted first -/
def multiSort {α : Type} (kf : Str → α → Option JVal) : List (Str × Bool) → List α → Option (List α)
  | [], l => some l
  | (f, rev) :: rest, l =>
    match multiSort kf rest l with
    | none => none
    | some l' => sortPass (kf f) rev l'

/-- sort key as the JSON driver computes it: `int(r['id'])`, else `r.get(field)` (None when missing) -/
def sortKeyJ (field : Str) (r : Fields) : Option JVal :=
  if field = kId then
    match dget kId r with
    | some (.str s) => (parseInt s).map .int
    | _ => none
  else some ((dget field r).getD .null)

/-- sort key of the reference store (and, on decoded fields, of the Redis driver): a missing field is an error -/
def sortKeyR (field : Str) (r : Fields) : Option JVal :=
  if field = kId then
    match dget kId r with
    | some (.str s) => (parseInt s).map .int
    | _ => none
  else dget field r

/-- strict "comes first" of one sort key on two records -/
def passLt {α : Type} (kf : α → Option JVal) (rev : Bool) (a b : α) : Bool :=
  match kf a, kf b with
  | some ka, some kb => if rev then keyLt kb ka else keyLt ka kb
  | _, _ => false

/-- lexicographic comparison by the sort keys, first key most significant -/
def lexLt {α : Type} (kf : Str → α → Option JVal) : List (Str × Bool) → α → α → Bool
  | [], _, _ => false
  | (f, rev) :: t, a, b =>
    if passLt (kf f) rev a b then true
    else if passLt (kf f) rev b a then false
    else lexLt kf t a b

/-- `lt` is a strict weak order on the members of `l` (as Python's `<` is on mutually comparable values) -/
def swoB {α : Type} (lt : α → α → Bool) (l : List α) : Bool :=
  l.all (fun a => l.all (fun b =>
    (!lt a b || !lt b a) && l.all (fun c => lt a b || lt b c || !lt a c)))

/-- all sort keys exist, are mutually orderable, and `<` orders them consistently -/
def sortDomain {α : Type} (kf : Str → α → Option JVal) (sort : List (Str × Bool)) (l : List α) : Bool :=
  sort.all (fun fr =>
    (match attachKeys (kf fr.1) l with
     | none => false
     | some kl => pairsOk (kl.map Prod.fst)) && swoB (passLt (kf fr.1) fr.2) l)

/-- declarative sort of the reference store: one stable sort by the lexicographic order -/
def lexSort (sort : List (Str × Bool)) (l : List Fields) : Option (List Fields) :=
  if sortDomain sortKeyR sort l then some (isort (lexLt sortKeyR sort) l) else none

def applyLimit {α : Type} (limit : Option Nat) (l : List α) : List α :=
  match limit with
  | none => l
  | some n => l.take n

def project {β : Type} (fields : Option (List Str)) (r : List (Str × β)) : List (Str × β) :=
  match fields with
  | none => r
  | some fs => r.filter (fun kv => fs.contains kv.1)

/-! ## SPEC: the reference record store -/

/-- A record of the reference store is a dict that holds its own id under "id" (`dict(record, id=id_)`);
a collection is the list of its records in insertion order. -/
def recId (d : Fields) : Str :=
  match dget kId d with
  | some (.str i) => i
  | _ => []

abbrev Coll := List Fields
abbrev RefState := List (Str × Coll)

def Coll.ids (c : Coll) : List Str := c.map recId

/-- matching flags of all records (or `none` when the filter cannot be evaluated on one of them) -/
def matchAll (filt : Fields) : List Fields → Option (List Bool)
  | [] => some []
  | v :: t =>
    match recMatches v filt, matchAll filt t with
    | some b, some bs => some (b :: bs)
    | _, _ => none

def selectBy {α : Type} : List α → List Bool → List α
  | x :: xs, b :: bs => if b then x :: selectBy xs bs else selectBy xs bs
  | _, _ => []

def countTrue : List Bool → Nat
  | [] => 0
  | b :: t => (if b then 1 else 0) + countTrue t

/-- the contract's filter language: exact values, or operator dicts over gt / ge / lt / le / in (list of values) -/
def condOk : JVal → Bool
  | .obj ops => ops.all (fun ow =>
      if ow.1 = opIn then (match ow.2 with | .arr _ => true | _ => false)
      else ow.1 = opGt || ow.1 = opGe || ow.1 = opLt || ow.1 = opLe)
  | _ => true

def filtOk (filt : Fields) : Bool := filt.all (fun kc => condOk kc.2)

namespace Ref

def updRecs (part : Fields) : Coll → List Bool → Coll
  | r :: rs, b :: bs => (if b then dupdate r part else r) :: updRecs part rs bs
  | rs, _ => rs

def replaceRec (id : Str) (new : Fields) : Coll → Coll
  | [] => []
  | r :: rs => if recId r = id then new :: rs else r :: replaceRec id new rs

/-- One operation of the reference store. `name` is the identifier offered for an auto-generated id (the
reference store is indifferent to how such ids are named, it only demands that they are not in use). -/
def step (s : RefState) (name : Str) : Op → RefState × Res
  | .insert coll rec =>
    let c : Coll := aget [] coll s
    match dget kId rec with
    | none | some .null =>
      if c.ids.contains name then (s, .err .notFresh)
      else (aset coll (c ++ [dset kId (.str name) rec]) s, .id name)
    | some (.str i) =>
      if c.ids.contains i then (s, .err .dup)
      else (aset coll (c ++ [rec]) s, .id i)
    | some _ => (s, .err .badId)
  | .update coll part filt =>
    let c : Coll := aget [] coll s
    if (dget kId part).isSome then (s, .err .idInPart)
    else if !filtOk filt then (s, .err .typeErr)
    else
      match matchAll filt c with
      | none => (s, .err .typeErr)
      | some bs => (aset coll (updRecs part c bs) s, .count (countTrue bs))
  | .replace coll id rec =>
    let c : Coll := aget [] coll s
    if c.ids.contains id then (aset coll (replaceRec id (dset kId (.str id) rec) c) s, .flag true)
    else (s, .flag false)
  | .remove coll filt =>
    let c : Coll := aget [] coll s
    if !filtOk filt then (s, .err .typeErr)
    else
      match matchAll filt c with
      | none => (s, .err .typeErr)
      | some bs => (aset coll (selectBy c (bs.map not)) s, .count (countTrue bs))
  | .query coll fields filt sort limit =>
    let c : Coll := aget [] coll s
    if !filtOk filt then (s, .err .typeErr)
    else
      match matchAll filt c with
      | none => (s, .err .typeErr)
      | some bs =>
        match lexSort sort (selectBy c bs) with
        | none => (s, .err .typeErr)
        | some sorted => (s, .recs ((applyLimit limit sorted).map (project fields)))
  | .reload => (s, .unit)

end Ref

/-! ## JSON driver (`drivers/persist/json.py`) -/

abbrev JColl := List (Str × Fields)          -- Collection = dict[id, record]; the record holds "id" too
abbrev JState := List (Str × JColl)

namespace Json

/-- `_find_next_id` -/
def findNextId (c : JColl) : Str :=
  let m : Int := c.foldl (fun acc kv => match parseInt kv.1 with | some i => max acc i | none => acc) 0
  toDec (m + 1).toNat

/-- generic path of query: `for id_, record in coll.items(): if matches(dict(record, id=id_), filt)`; an
exception aborts the whole call -/
def scan (filt : Fields) : JColl → Option (List Fields)
  | [] => some []
  | (i, d) :: t =>
    match recMatches (dset kId (.str i) d) filt, scan filt t with
    | some true, some rs => some (d :: rs)
    | some false, some rs => some rs
    | _, _ => none

/-- generic path of update: records are updated in place while iterating, an exception stops the loop -/
def updLoop (part filt : Fields) : JColl → JColl × Nat × Bool
  | [] => ([], 0, false)
  | (i, d) :: t =>
    match recMatches (dset kId (.str i) d) filt with
    | none => ((i, d) :: t, 0, true)
    | some false => let (t', n, e) := updLoop part filt t; ((i, d) :: t', n, e)
    | some true => let (t', n, e) := updLoop part filt t; ((i, dupdate d part) :: t', n + 1, e)

/-- generic path of remove (iterates over a snapshot, pops matching records) -/
def remLoop (filt : Fields) : JColl → JColl × Nat × Bool
  | [] => ([], 0, false)
  | (i, d) :: t =>
    match recMatches (dset kId (.str i) d) filt with
    | none => ((i, d) :: t, 0, true)
    | some false => let (t', n, e) := remLoop filt t; ((i, d) :: t', n, e)
    | some true => let (t', n, e) := remLoop filt t; (t', n + 1, e)

/-- `filt.get('id')` is a `str`: the id fast path applies -/
def idOf (filt : Fields) : Option Str :=
  match dget kId filt with
  | some (.str i) => some i
  | _ => none

/-- what one record becomes when the file is written and read back -/
def reloadRec (ft : FloatText) (d : Fields) : Option (Str × Fields) :=
  match loads ft (printVal ft (.obj d)) with
  | some (.obj d') => some ((match dget kId d' with | some (.str i) => i | _ => []), d')
  | _ => none

/-- `_index`: `{r.get('id', ''): r for r in records}` over the records read back from the file -/
def reloadColl (ft : FloatText) : JColl → JColl → Option JColl
  | acc, [] => some acc
  | acc, (_, d) :: t =>
    match reloadRec ft d with
    | some kd => reloadColl ft (aset kd.1 kd.2 acc) t
    | none => none

def reloadAll (ft : FloatText) : JState → Option JState
  | [] => some []
  | (c, jc) :: t =>
    match reloadColl ft [] jc, reloadAll ft t with
    | some jc', some t' => some ((c, jc') :: t')
    | _, _ => none

/-- the records a query selects: by id when the filter names one (`isinstance(filt.get('id'), Id)`), else a scan -/
def find (filt : Fields) (c : JColl) : Option (List Fields) :=
  match idOf filt with
  | some i =>
    match dget i c with
    | none => some []
    | some d =>
      match recMatches d (dpop kId filt) with
      | none => none
      | some true => some [d]
      | some false => some []
  | none => scan filt c

def step (fx : Fix) (ft : FloatText) (s : JState) : Op → JState × Res
  | .insert coll rec =>
    let c : JColl := aget [] coll s
    match dget kId rec with
    | none | some .null =>
      let i := findNextId c
      (aset coll (dset i (dset kId (.str i) rec) c) s, .id i)
    | some (.str i) =>
      if (dget i c).isSome then (s, .err .dup)
      else (aset coll (dset i rec c) s, .id i)
    | some _ => (s, .err .badId)
  | .update coll part filt =>
    let c : JColl := aget [] coll s
    match idOf filt with
    | some i =>
      let filt' := dpop kId filt
      match dget i c with
      | none => (aset coll c s, .count 0)
      | some d =>
        if fx.jsonUpdFilt then
          match recMatches d filt' with
          | none => (s, .err .typeErr)
          | some false => (aset coll c s, .count 0)
          | some true => (aset coll (dset i (dupdate d part) c) s, .count 1)
        else (aset coll (dset i (dupdate d part) c) s, .count 1)
    | none =>
      let (c', n, e) := updLoop part filt c
      (aset coll c' s, if e then .err .typeErr else .count n)
  | .replace coll id rec =>
    let c : JColl := aget [] coll s
    match dget id c with
    | none => (aset coll c s, .flag false)
    | some _ => (aset coll (dset id (dset kId (.str id) rec) c) s, .flag true)
  | .remove coll filt =>
    let c : JColl := aget [] coll s
    match idOf filt with
    | some i =>
      let filt' := dpop kId filt
      match dget i c with
      | none => (aset coll c s, .count 0)
      | some d =>
        match recMatches d filt' with
        | none => (s, .err .typeErr)
        | some false => (aset coll c s, .count 0)
        | some true => (aset coll (dpop i c) s, .count 1)
    | none =>
      let (c', n, e) := remLoop filt c
      (aset coll c' s, if e then .err .typeErr else .count n)
  | .query coll fields filt sort limit =>
    let c : JColl := aget [] coll s
    match find filt c with
    | none => (s, .err .typeErr)
    | some recs =>
      match multiSort sortKeyJ sort recs with
      | none => (s, .err .typeErr)
      | some sorted => (s, .recs ((applyLimit limit sorted).map (project fields)))
  | .reload =>
    match reloadAll ft s with
    | some s' => (s', .unit)
    | none => (s, .err .decode)

end Json

/-! ## Redis driver (`drivers/persist/redis.py`) over an abstract key–value server -/

abbrev Hash := List (Str × Str)              -- field ↦ text

/-- the keys of one collection: hashes "<coll>:<id>", the set "<coll>-id-set", the counter "<coll>-id-sequence" -/
structure RColl where
  hashes : List (Str × Hash) := []           -- by id; Redis has no empty hashes
  ids : List Str := []                       -- the id set (scan order modelled as insertion order)
  seq : Nat := 0
  deriving Repr

abbrev RState := List (Str × RColl)

namespace Redis

def hgetall (i : Str) (c : RColl) : Hash := (dget i c.hashes).getD []

/-- `hset(key, mapping=m)` with a non-empty mapping -/
def hsetMap (i : Str) (m : Hash) (c : RColl) : RColl :=
  { c with hashes := dset i (dupdate (hgetall i c) m) c.hashes }

def delKey (i : Str) (c : RColl) : RColl := { c with hashes := dpop i c.hashes }

def sadd (i : Str) (c : RColl) : RColl := if c.ids.contains i then c else { c with ids := c.ids ++ [i] }

def srem (i : Str) (c : RColl) : RColl := { c with ids := c.ids.filter (· ≠ i) }

/-- `_record_to_db` -/
def recordToDb (fx : Fix) (ft : FloatText) (r : Fields) : Hash :=
  r.map (fun kv => (kv.1, if kv.1 = kId then (match kv.2 with | .str i => i | _ => []) else encodeVal fx ft kv.2))

/-- `_record_from_db` (with the projection) -/
def recordFromDb (ft : FloatText) (fields : Option (List Str)) : Hash → Option Fields
  | [] => some []
  | (k, raw) :: t =>
    let keep := match fields with | none => true | some fs => fs.contains k
    if keep then
      match (if k = kId then some (.str raw) else decodeVal ft raw), recordFromDb ft fields t with
      | some v, some t' => some ((k, v) :: t')
      | _, _ => none
    else recordFromDb ft fields t

/-- `_filter_matches(db_record, filt)` -/
def hmatches (ft : FloatText) (h : Hash) : Fields → Option Bool
  | [] => some true
  | (k, c) :: t =>
    match dget k h with
    | none => some false
    | some raw =>
      match (if k = kId then some (JVal.str raw) else decodeVal ft raw) with
      | none => none
      | some v =>
        match condMatches v c with
        | none => none
        | some false => some false
        | some true => hmatches ft h t

/-- `_get_next_id`: the counter is incremented until the name is free (repaired), or once (as found) -/
def nextId (fx : Fix) (c : RColl) : Nat → Str × Nat
  | 0 => (toDec (c.seq + 1), c.seq + 1)
  | fuel + 1 =>
    let i := toDec (c.seq + 1)
    if fx.redisFreshId && c.ids.contains i then nextId fx { c with seq := c.seq + 1 } fuel
    else (i, c.seq + 1)

/-- a record with this id exists, as the by-id paths test it -/
def existsById (fx : Fix) (i : Str) (c : RColl) : Bool :=
  if fx.redisEmpty then c.ids.contains i else !(hgetall i c).isEmpty

def scan (ft : FloatText) (filt : Fields) (c : RColl) : List Str → Option (List Hash)
  | [] => some []
  | i :: t =>
    let h := dset kId i (hgetall i c)
    match hmatches ft h filt, scan ft filt c t with
    | some true, some rs => some (h :: rs)
    | some false, some rs => some rs
    | _, _ => none

def updLoop (fx : Fix) (ft : FloatText) (part : Hash) (filt : Fields) : RColl → List Str → RColl × Nat × Bool
  | c, [] => (c, 0, false)
  | c, i :: t =>
    match hmatches ft (dset kId i (hgetall i c)) filt with
    | none => (c, 0, true)
    | some false => updLoop fx ft part filt c t
    | some true =>
      let c' := if !part.isEmpty then hsetMap i part c else if fx.redisEmptyPart then c else delKey i c
      let (c'', n, e) := updLoop fx ft part filt c' t
      (c'', n + 1, e)

/-- first loop of the generic remove: delete matching hashes, remember their ids -/
def remLoop (ft : FloatText) (filt : Fields) : RColl → List Str → RColl × List Str × Bool
  | c, [] => (c, [], false)
  | c, i :: t =>
    match hmatches ft (dset kId i (hgetall i c)) filt with
    | none => (c, [], true)
    | some false => remLoop ft filt c t
    | some true =>
      let (c', rm, e) := remLoop ft filt (delKey i c) t
      (c', i :: rm, e)

def sortKeyDb (ft : FloatText) (field : Str) (h : Hash) : Option JVal :=
  if field = kId then
    match dget kId h with
    | some i => (parseInt i).map .int
    | none => none
  else
    match dget field h with
    | some raw => decodeVal ft raw
    | none => none

def fromDbAll (ft : FloatText) (fields : Option (List Str)) : List Hash → Option (List Fields)
  | [] => some []
  | h :: t =>
    match recordFromDb ft fields h, fromDbAll ft fields t with
    | some r, some rs => some (r :: rs)
    | _, _ => none

/-- the hashes a query selects (with the id added), by id or by scanning the id set -/
def find (fx : Fix) (ft : FloatText) (filt : Fields) (c : RColl) : Option (List Hash) :=
  match Json.idOf filt with
  | some i =>
    if existsById fx i c then
      match hmatches ft (hgetall i c) (dpop kId filt) with
      | none => none
      | some true => some [dset kId i (hgetall i c)]
      | some false => some []
    else some []
  | none => scan ft filt c c.ids

def step (fx : Fix) (ft : FloatText) (s : RState) : Op → RState × Res
  | .insert coll rec =>
    let c : RColl := aget {} coll s
    let body := dpop kId rec
    let (i?, c1) : Option Str × RColl :=
      match dget kId rec with
      | none | some .null => let (i, sq) := nextId fx c (c.ids.length + 1); (some i, { c with seq := sq })
      | some (.str i) => (some i, c)
      | some _ => (none, c)
    match i? with
    | none => (s, .err .badId)
    | some i =>
      if c1.ids.contains i then (aset coll c1 s, .err .dup)
      else
        let db := recordToDb fx ft body
        let c2 := if !db.isEmpty then hsetMap i db c1 else c1
        (aset coll (sadd i c2) s, .id i)
  | .update coll part filt =>
    let c : RColl := aget {} coll s
    let dbPart := recordToDb fx ft part
    match Json.idOf filt with
    | some i =>
      let filt' := dpop kId filt
      if existsById fx i c then
        match hmatches ft (hgetall i c) filt' with
        | none => (s, .err .typeErr)
        | some false => (s, .count 0)
        | some true =>
          if !dbPart.isEmpty then (aset coll (hsetMap i dbPart c) s, .count 1)
          else if fx.redisEmptyPart then (s, .count 1)
          else (s, .err .backend)
      else (s, .count 0)
    | none =>
      let (c', n, e) := updLoop fx ft dbPart filt c c.ids
      (aset coll c' s, if e then .err .typeErr else .count n)
  | .replace coll id rec =>
    let c : RColl := aget {} coll s
    let db := dpop kId (recordToDb fx ft rec)
    if c.ids.contains id then
      let c1 := delKey id c
      let c2 := if !db.isEmpty then hsetMap id db c1 else c1
      (aset coll (sadd id c2) s, .flag true)
    else (s, .flag false)
  | .remove coll filt =>
    let c : RColl := aget {} coll s
    match Json.idOf filt with
    | some i =>
      let filt' := dpop kId filt
      if existsById fx i c then
        match hmatches ft (hgetall i c) filt' with
        | none => (s, .err .typeErr)
        | some false => (if fx.redisSrem then s else aset coll (srem i c) s, .count 0)
        | some true => (aset coll (srem i (delKey i c)) s, .count 1)
      else (if fx.redisSrem then s else aset coll (srem i c) s, .count 0)
    | none =>
      let (c', rm, e) := remLoop ft filt c c.ids
      if e then (aset coll c' s, .err .typeErr)
      else (aset coll (rm.foldl (fun acc i => srem i acc) c') s, .count rm.length)
  | .query coll fields filt sort limit =>
    let c : RColl := aget {} coll s
    match find fx ft filt c with
    | none => (s, .err .typeErr)
    | some hs =>
      match multiSort (sortKeyDb ft) sort hs with
      | none => (s, .err .typeErr)
      | some sorted =>
        match fromDbAll ft fields (applyLimit limit sorted) with
        | none => (s, .err .decode)
        | some rs => (s, .recs rs)
  | .reload => (s, .unit)

end Redis

/-! ## `persist.replace` (persist/__init__.py): replace, or insert when there is no such record -/

namespace Api

def replace {σ : Type} (fx : Fix) (drv : σ → Op → σ × Res) (s : σ) (coll id : Str) (rec : Fields) : σ × Res :=
  let rec' := dset kId (.str id) rec                      -- dict(record, id=id_)
  match drv s (.replace coll id rec') with
  | (s1, .flag true) => (s1, .flag fx.apiReplace)         -- as found: `return False` after replacing
  | (s1, .flag false) =>
    match drv s1 (.insert coll rec') with
    | (s2, .id _) => (s2, .flag (!fx.apiReplace))
    | (s2, r) => (s2, r)
  | (s1, r) => (s1, r)

end Api

/-! ## Mongo driver: identifiers (`drivers/persist/mongo.py` `_id_to_db` / `_id_from_db`) -/

namespace Mongo

/-- what the driver hands to the engine as `_id`: the string itself, or a 12-byte `bson.ObjectId` -/
inductive DbId where
  | str (s : Str)
  | oid (bytes : List Nat)
  deriving Repr, DecidableEq

/-- `[0-9a-f]` -/
def isLowerHex (c : Nat) : Bool := (48 ≤ c && c ≤ 57) || (97 ≤ c && c ≤ 102)

/-- `_OBJECT_ID_RE = '^[0-9a-f]{24}$'`: with `fullmatch` (repaired) exactly 24 lower-case hex digits; with `match`
(as found) `$` also matches before a final newline: the 25-character case -/
def isOidText (fx : Fix) (s : Str) : Bool :=
  (s.length == 24 && s.all isLowerHex) ||
  (!fx.mongoIdFull && s.length == 25 && (s.take 24).all isLowerHex && s.drop 24 == [10])

/-- `bytes.fromhex` on an even number of hex digits (either case) -/
def hexBytes : Str → Option (List Nat)
  | [] => some []
  | [_] => none
  | a :: b :: t =>
    match hexVal a, hexVal b, hexBytes t with
    | some x, some y, some r => some ((x * 16 + y) :: r)
    | _, _, _ => none

/-- `str(ObjectId)` = lower-case hex of the bytes -/
def bytesHex : List Nat → Str
  | [] => []
  | b :: t => hexDigit (b / 16 % 16) :: hexDigit (b % 16) :: bytesHex t

/-- `_id_to_db`: strings that look like an ObjectId become one (`bson.ObjectId(id_)` raises `InvalidId` for
anything but 24 hex digits: the `none` branch) -/
def idToDb (fx : Fix) (s : Str) : Option DbId :=
  if isOidText fx s then
    (if s.length = 24 then hexBytes s else none).map .oid
  else some (.str s)

/-- `_id_from_db` -/
def idFromDb : DbId → Str
  | .oid b => bytesHex b
  | .str s => s

/-! ### what the driver sends to the document engine, and the engine it expects

`EVal` are the values the engine sees: Python values, or ObjectIds. The translation functions mirror
`_id_to_db_rec` + `_filt_to_db` (fused: first the "id" condition is moved to "_id" with the id mapping applied to
its operands, then operator names are mapped), the sort / projection construction of `query`, `insert`'s
record → document, and `_query_gen_wrapper`. -/

inductive EVal where
  | j (v : JVal)
  | oid (b : List Nat)
  deriving Repr, Inhabited

/-- operand of a `$`-operator: a single value, or (for the id condition's `in`) a list of mapped ids -/
inductive EOperand where
  | one (v : EVal)
  | many (l : List EVal)
  deriving Repr

inductive ECond where
  | eq (v : EVal)
  | ops (l : List (Str × EOperand))
  deriving Repr

abbrev EFilt := List (Str × ECond)
abbrev EDoc := List (Str × EVal)

def kUid : Str := [95, 105, 100]                                   -- "_id"
def dGt : Str := [36, 103, 116]                                    -- "$gt"
def dGte : Str := [36, 103, 116, 101]
def dLt : Str := [36, 108, 116]
def dLte : Str := [36, 108, 116, 101]
def dIn : Str := [36, 105, 110]

/-- `FILTER_OP_MAPPING[k]` (`none` = `KeyError`) -/
def opTable (op : Str) : Option Str :=
  if op = opGt then some dGt else if op = opGe then some dGte else if op = opLt then some dLt
  else if op = opLe then some dLte else if op = opIn then some dIn else none

/-- `_id_to_db` on any Python value: strings are mapped, everything else is returned as it is -/
def idV (fx : Fix) : JVal → Option EVal
  | .str s => (idToDb fx s).map (fun d => match d with | .oid b => EVal.oid b | .str t => EVal.j (.str t))
  | v => some (.j v)

def idVs (fx : Fix) : List JVal → Option (List EVal)
  | [] => some []
  | x :: t =>
    match idV fx x, idVs fx t with
    | some e, some r => some (e :: r)
    | _, _ => none

/-- the operators of the "id" condition: `_id_to_db_rec` on the operand (a list is mapped element-wise; a nested
dict is outside the model), then the operator name -/
def idOps (fx : Fix) : List (Str × JVal) → Option (List (Str × EOperand))
  | [] => some []
  | (op, w) :: t =>
    let operand : Option EOperand :=
      match w with
      | .arr l => (idVs fx l).map .many
      | .obj _ => none
      | w => (idV fx w).map .one
    match operand, opTable op, idOps fx t with
    | some o, some name, some r => some ((name, o) :: r)
    | _, _, _ => none

/-- the "id" condition as the engine gets it under "_id" -/
def idCond (fx : Fix) : JVal → Option ECond
  | .obj ops => (idOps fx ops).map .ops
  | .arr _ => none                                 -- a bare list: outside the model
  | w => (idV fx w).map .eq

def plainOps : List (Str × JVal) → Option (List (Str × EOperand))
  | [] => some []
  | (op, w) :: t =>
    match opTable op, plainOps t with
    | some name, some r => some ((name, .one (.j w)) :: r)
    | _, _ => none

/-- `_filt_to_db` on one condition of another field -/
def plainCond : JVal → Option ECond
  | .obj ops => (plainOps ops).map .ops
  | w => some (.eq (.j w))

def plainConds : Fields → Option EFilt
  | [] => some []
  | (k, c) :: t =>
    match plainCond c, plainConds t with
    | some e, some r => some ((k, e) :: r)
    | _, _ => none

/-- `if 'id' in filt: filt = dict(filt); filt['_id'] = self._id_to_db_rec(filt.pop('id'))`, then `_filt_to_db` -/
def filtToDb (fx : Fix) (filt : Fields) : Option EFilt :=
  match dget kId filt with
  | none => plainConds filt
  | some c =>
    match idCond fx c, plainConds (dpop kId filt) with
    | some e, some r => some (r ++ [(kUid, e)])
    | _, _ => none

/-- `[(f, [pymongo.ASCENDING, pymongo.DESCENDING][r]) for f, r in sort]` -/
def sortToDb (sort : List (Str × Bool)) : List (Str × Int) := sort.map (fun fr => (fr.1, if fr.2 then -1 else 1))

/-- `if fields: fields = dict((f, 1) for f in fields); fields['_id'] = 1 if 'id' in fields else 0` -/
def projToDb (fields : Option (List Str)) : Option (List (Str × Nat)) :=
  match fields with
  | none => none
  | some [] => none
  | some fs => some (dset kUid (if fs.contains kId then 1 else 0) (fs.foldl (fun acc f => dset f 1 acc) []))

/-- a record's fields as engine values -/
def toE (d : Fields) : EDoc := d.map (fun kv => (kv.1, EVal.j kv.2))

/-- `record = dict(record); if 'id' in record: record['_id'] = self._id_to_db(record.pop('id'))` -/
def recordToDoc (fx : Fix) (rec : Fields) : Option EDoc :=
  match dget kId rec with
  | none => some (toE rec)
  | some i => (idV fx i).map (fun e => dset kUid e (toE (dpop kId rec)))

def eToJ : EVal → JVal
  | .j v => v
  | .oid b => .str (bytesHex b)

/-- `_query_gen_wrapper`: `if '_id' in r: r['id'] = cls._id_from_db(r.pop('_id'))` -/
def recordFromDoc (doc : EDoc) : Fields :=
  match dget kUid doc with
  | none => doc.map (fun kv => (kv.1, eToJ kv.2))
  | some e => dset kId (eToJ e) ((dpop kUid doc).map (fun kv => (kv.1, eToJ kv.2)))

/-! ### SPEC of the document engine (the part of `find` / `update_many` / `replace_one` / `delete_many` /
`insert_one` the driver relies on, on flat documents; an assumption about MongoDB, validated through mongomock) -/

def deq : EVal → EVal → Bool
  | .j a, .j b => jeq a b
  | .oid a, .oid b => a == b
  | _, _ => false

def ecmp : EVal → EVal → Option Ordering
  | .j a, .j b => jcmp a b
  | .oid a, .oid b => some (strCmp a b)
  | _, _ => none

/-- one `$`-operator on the value of a field; values of different kinds do not compare (no match) -/
def eOpHolds (op : Str) (v : EVal) : EOperand → Bool
  | .one w =>
    if op = dGt then ecmp v w == some .gt
    else if op = dGte then (match ecmp v w with | some o => o != .lt | none => false)
    else if op = dLt then ecmp v w == some .lt
    else if op = dLte then (match ecmp v w with | some o => o != .gt | none => false)
    else if op = dIn then (match w with | .j (.arr l) => l.any (fun x => deq (.j x) v) | _ => false)
    else false
  | .many l => if op = dIn then l.any (fun x => deq x v) else false

/-- a condition on a field: a missing field matches nothing -/
def eCondHolds (v : Option EVal) (c : ECond) : Bool :=
  match v with
  | none => false
  | some v =>
    match c with
    | .eq w => deq v w
    | .ops l => l.all (fun ow => eOpHolds ow.1 v ow.2)

def eMatches (doc : EDoc) (f : EFilt) : Bool := f.all (fun kc => eCondHolds (dget kc.1 doc) kc.2)

def eKey (f : Str) (doc : EDoc) : Option JVal :=
  match dget f doc with
  | some (.j v) => some v
  | _ => none

/-- `cursor.sort(spec)`: stable, lexicographic -/
def eSort (spec : List (Str × Int)) (docs : List EDoc) : List EDoc :=
  isort (lexLt eKey (spec.map (fun fd => (fd.1, decide (fd.2 < 0))))) docs

/-- `cursor.limit(n)`: 0 means no limit -/
def eLimit (n : Option Nat) (docs : List EDoc) : List EDoc :=
  match n with
  | none => docs
  | some 0 => docs
  | some n => docs.take n

/-- inclusion projection: the named fields, and "_id" unless switched off -/
def eProject (p : Option (List (Str × Nat))) (doc : EDoc) : EDoc :=
  match p with
  | none => doc
  | some p => doc.filter (fun kv => if kv.1 = kUid then dget kUid p != some 0 else dget kv.1 p == some 1)

def eFind (docs : List EDoc) (f : EFilt) (p : Option (List (Str × Nat))) (sort : List (Str × Int)) (limit : Option Nat) :
    List EDoc :=
  (eLimit limit (if sort.isEmpty then docs.filter (eMatches · f) else eSort sort (docs.filter (eMatches · f)))).map
    (eProject p)

/-- `$set` changes the document (some field is new or gets a different value) -/
def eChanged (d set : EDoc) : Bool :=
  set.any (fun kv => match dget kv.1 d with | some o => !deq o kv.2 | none => true)

/-- documents are stored with "_id" first -/
def eNormDoc (doc : EDoc) : EDoc :=
  match dget kUid doc with
  | some e => (kUid, e) :: dpop kUid doc
  | none => doc

/-- some document of the collection has this "_id" (`insert_one` then raises `DuplicateKeyError`) -/
def hasUid (e : EVal) (docs : List EDoc) : Bool :=
  docs.any (fun d => match dget kUid d with | some e' => deq e' e | none => false)

/-- `_id_from_db(inserted_id)` -/
def idOfE (e : EVal) : Str :=
  match eToJ e with
  | .str i => i
  | _ => []

abbrev MState := List (Str × List EDoc)

/-- One operation of the Mongo driver over the engine spec. `gen` are the bytes of the ObjectId the engine
generates for a document inserted without "_id". -/
def step (fx : Fix) (s : MState) (gen : List Nat) : Op → MState × Res
  | .insert coll rec =>
    let docs : List EDoc := aget [] coll s
    match recordToDoc fx rec with
    | none => (s, .err .badId)
    | some doc =>
      let doc' := match dget kUid doc with
        | some _ => eNormDoc doc
        | none => (kUid, EVal.oid gen) :: doc
      match dget kUid doc' with
      | some e =>
        if hasUid e docs then (s, .err .dup)
        else (aset coll (docs ++ [doc']) s, .id (idOfE e))
      | none => (s, .err .badId)
  | .update coll part filt =>
    let docs : List EDoc := aget [] coll s
    match recordToDoc fx part, filtToDb fx filt with
    | some set, some f =>
      let docs' := docs.map (fun d => if eMatches d f then dupdate d set else d)
      let modified := (docs.filter (fun d => eMatches d f && eChanged d set)).length   -- modified_count
      (aset coll docs' s, .count modified)
    | _, _ => (s, .err .typeErr)
  | .replace coll id rec =>
    let docs : List EDoc := aget [] coll s
    match idV fx (.str id) with
    | none => (s, .err .badId)
    | some e =>
      let doc := (kUid, e) :: toE (dpop kUid rec)       -- record['_id'] = id_ (an "id" key stays a field); "_id" first
      let hit := docs.any (fun d => eMatches d [(kUid, .eq e)])
      (aset coll (docs.map (fun d => if eMatches d [(kUid, .eq e)] then doc else d)) s, .flag hit)
  | .remove coll filt =>
    let docs : List EDoc := aget [] coll s
    match filtToDb fx filt with
    | some f => (aset coll (docs.filter (fun d => !eMatches d f)) s, .count (docs.filter (eMatches · f)).length)
    | none => (s, .err .typeErr)
  | .query coll fields filt sort limit =>
    let docs : List EDoc := aget [] coll s
    match filtToDb fx filt with
    | some f => (s, .recs ((eFind docs f (projToDb fields) (sortToDb sort) limit).map recordFromDoc))
    | none => (s, .err .typeErr)
  | .reload => (s, .unit)

end Mongo

end QtVerif.Store
