/-
C01 — model of the hub's scheduler (core Lean only).

Mirrors, as a small-step transition system whose actions are the atomic stretches between two `await`s:
  core/main.py   update (35-98), handle_value_changes (115-188), force_eval_expressions
  core/ports.py  push_eval (817-824), _eval_loop/_eval_and_write (829-862), transform_and_write_value,
                 _write_value_queued/_write_value_loop (772-815), enable/disable, attr_set_expression
  core/expressions/port.py  PortValue._eval (live `is_enabled()` test + value from the snapshot)

Expression evaluation is ABSTRACT: a configuration carries `deps` and `evalE`; the theorems need only the frame
property (`Frame`), which C02 proves for the concrete evaluator. A tiny concrete language (`TExpr`) instantiates
it for the driver and for the counter-example schedules.

Repairs: the model proper is the REPAIRED scheduler (`repConfirm = true`: `_eval_and_write` awaits `main.update()`
after its write — fixes/C01-stale-compare.diff; `repForce = true`: `enable()`/`disable()` call
`main.force_eval_expressions()` — fixes/C01-enable-reeval.diff; `repCapture = true`: `update()` takes the forced
set / flag BEFORE polling instead of at the end of the pass — fixes/C01-force-capture.diff). With a flag off the model is
the code before that repair; `Props/C01.lean` proves a counter-example schedule for each.
A fourth repair (fixes/C01-read-while-disabled.diff) has no switch: the model has no read errors — `passRead` polls a
port iff it is enabled at that instant — and the repair makes `update()` treat a read that fails because the port was
disabled meanwhile as exactly that skip (before it, such a port was not polled for 10 s: `_ports_with_read_error`).
-/
namespace QtVerif.Core

abbrev PortId := Nat

/-- What an expression sees of a port: disabled (→ `DisabledPort`, an evaluation *error*), unavailable
(value `None` → `PortValueUnavailable`), or a value. -/
inductive Cell where
  | dis
  | na
  | v (x : Int)
  deriving DecidableEq, Repr

/-- Outcome of an evaluation: a value, `ValueUnavailable` (port is written `None`), or another
`ExpressionEvalError` (`_eval_and_write` returns, the port keeps its value). -/
inductive Res where
  | val (x : Int)
  | unavail
  | error
  deriving DecidableEq, Repr

abbrev View := PortId → Cell

def cellOf : Option Int → Cell
  | none => .na
  | some x => .v x

/-- Static part of a hub: number of ports, the (abstract) expression language, the per-port type coercion
(`adapt_value_type`), and the three repair switches. -/
structure Cfg (E : Type) where
  n : Nat
  deps : E → List PortId
  evalE : E → View → Res
  adapt : PortId → Int → Int
  repConfirm : Bool
  repForce : Bool
  repCapture : Bool

/-- Frame property of the evaluator (proved for the concrete one by C02, for `TExpr` below). -/
def Frame {E : Type} (cfg : Cfg E) : Prop :=
  ∀ e (v v' : View), (∀ q, q ∈ cfg.deps e → v q = v' q) → cfg.evalE e v = cfg.evalE e v'

/-- Program counter of a port's `_eval_loop` task. -/
inductive Ev where
  | idle                    -- `await self._eval_queue.get()`
  | computed (r : Res)      -- expression evaluated (`await expression.eval(context)` yields), not yet compared
  | waitW                   -- `await done` inside `_write_value_queued`
  | confirmWant             -- (repaired) waiting for the update lock of its confirming `main.update()`
  | confirmRun              -- (repaired) its confirming pass is running
  deriving DecidableEq, Repr

structure PortSt (E : Type) where
  enabled : Bool
  expr : Option E
  lastRead : Option Int            -- `_last_read_value` (`none` = unavailable)
  drv : Option Int                 -- the driver's register (H1); writing "unavailable" is register := none too
  evalQ : List View := []          -- `_eval_queue`: value snapshots (`push_eval`)
  ev : Ev := .idle
  wq : List (Option Int) := []     -- `_write_value_queue`
  wr : Option (Option Int) := none -- value inside `write_value()` right now
  wConfirm : Bool := false         -- writer task is at `await main.update()` after a write

inductive Owner where
  | anon                    -- the ticker, an API call, `set_attr`
  | writer (p : PortId)     -- `_write_value_loop` of p: "do an update after every confirmed write"
  | evaler (p : PortId)     -- (repaired) `_eval_and_write` of p
  deriving DecidableEq, Repr

/-- A polling pass in progress (holder of `_update_lock`). -/
structure Pass where
  owner : Owner
  todo : List PortId               -- ports still to be read (`for port in ports.get_all()`)
  changed : List PortId            -- `changed_set`
  handling : Bool                  -- inside `handle_value_changes`
  forced : List PortId             -- `forced_ports` (taken at the start of the pass; before the repair: on entering
  all : Bool                       -- `full_eval`       `handle_value_changes`)
  deriving DecidableEq

structure State (E : Type) where
  port : PortId → PortSt E
  forced : List PortId             -- `_force_eval_expression_ports`
  forceAll : Bool                  -- `_force_eval_all_expressions`
  pass : Option Pass

inductive Act (E : Type) where
  | passBegin (o : Owner)
  | passRead
  | passSkip
  | passHandleA
  | passHandleB
  | evalTake (p : PortId)
  | evalCmp (p : PortId)
  | writeBegin (p : PortId)
  | writeEnd (p : PortId)
  | setSource (p : PortId) (v : Option Int)
  | apiWrite (p : PortId) (v : Option Int)
  | enable (p : PortId)
  | disable (p : PortId)
  | hookDone (p : PortId)
  | setExpr (p : PortId) (e : E)
  | clearExpr (p : PortId)

variable {E : Type}

def State.setPort (s : State E) (p : PortId) (f : PortSt E → PortSt E) : State E :=
  { s with port := fun q => if q = p then f (s.port q) else s.port q }

/-- Current values as `push_eval` snapshots them: enabled ports with their last read value. -/
def view (s : State E) : View :=
  fun q => if (s.port q).enabled then cellOf (s.port q).lastRead else .dis

/-- What an evaluation sees: the LIVE enabled flag, the value from the snapshot (`dict.get` → `None` when the
port was not enabled when the snapshot was taken). -/
def eff (s : State E) (σ : View) : View :=
  fun q => if (s.port q).enabled then (match σ q with | .dis => .na | c => c) else .dis

/-- `idle`: nothing of the port's own evaluation / write machinery is in flight. -/
def PortSt.quiet (P : PortSt E) : Bool :=
  P.evalQ.isEmpty && (P.ev == .idle) && P.wq.isEmpty && P.wr.isNone

/-- The test of `handle_value_changes` for one enabled port carrying expression `e`. -/
def trig (cfg : Cfg E) (ps : Pass) (p : PortId) (e : E) : Bool :=
  ps.all || ps.forced.contains p || (cfg.deps e).any (fun q => q != p && ps.changed.contains q)

def pushed (cfg : Cfg E) (s : State E) (ps : Pass) (q : PortId) : Bool :=
  decide (q < cfg.n) && (s.port q).enabled &&
    (match (s.port q).expr with | some e => trig cfg ps q e | none => false)

/-- One action; `none` = the action is not enabled in this state. -/
def step? (cfg : Cfg E) (s : State E) : Act E → Option (State E)
  | .passBegin o =>
    if s.pass.isSome then none else
    -- (repaired) the forced set / flag are taken here, before any port is polled
    let ps : Pass := if cfg.repCapture then ⟨o, List.range cfg.n, [], false, s.forced, s.forceAll⟩
                     else ⟨o, List.range cfg.n, [], false, [], false⟩
    let s0 : State E := if cfg.repCapture then { s with forced := [], forceAll := false } else s
    match o with
    | .anon => some { s0 with pass := some ps }
    | .writer p =>
      if (s.port p).wConfirm && (s.port p).wr.isNone then some { s0 with pass := some ps } else none
    | .evaler p =>
      if (s.port p).ev = .confirmWant then
        some { (s0.setPort p fun P => { P with ev := .confirmRun }) with pass := some ps }
      else none
  | .passRead =>
    match s.pass with
    | some ps =>
      if ps.handling then none else
      match ps.todo with
      | [] => none
      | q :: rest =>
        let P := s.port q
        if P.enabled && decide (P.drv ≠ P.lastRead) then
          some { (s.setPort q fun P => { P with lastRead := P.drv }) with
                 pass := some { ps with todo := rest, changed := q :: ps.changed } }
        else some { s with pass := some { ps with todo := rest } }
    | none => none
  | .passSkip =>
    -- the head port's read yields nothing: the driver's `read_value` raises (the port is then not polled for
    -- `_PORT_READ_ERROR_RETRY_INTERVAL`, which is again this action) or raises `SkipRead`; `update()` does `continue`
    -- and the last read value stays. Only for ports WITHOUT expression (a failing read of an expression port would
    -- leave its own write unconfirmed; such driver faults are C15's subject).
    match s.pass with
    | some ps =>
      if ps.handling then none else
      match ps.todo with
      | [] => none
      | q :: rest =>
        if (s.port q).expr.isNone then some { s with pass := some { ps with todo := rest } } else none
    | none => none
  | .passHandleA =>
    match s.pass with
    | some ps =>
      if ps.handling || !ps.todo.isEmpty then none else
      if cfg.repCapture then some { s with pass := some { ps with handling := true } }
      else some { s with forced := [], forceAll := false,
                         pass := some { ps with handling := true, forced := s.forced, all := s.forceAll } }
    | none => none
  | .passHandleB =>
    match s.pass with
    | some ps =>
      if !ps.handling then none else
      let snap := view s
      let port1 : PortId → PortSt E := fun q =>
        if pushed cfg s ps q then { s.port q with evalQ := (s.port q).evalQ ++ [snap] } else s.port q
      let port2 : PortId → PortSt E := fun q =>
        match ps.owner with
        | .anon => port1 q
        | .writer p => if q = p then { port1 q with wConfirm := false } else port1 q
        | .evaler p =>
          if q = p ∧ (port1 q).ev = .confirmRun then { port1 q with ev := .idle } else port1 q
      some { s with port := port2, pass := none }
    | none => none
  | .evalTake p =>
    let P := s.port p
    if P.ev = .idle then
      match P.evalQ with
      | [] => none
      | σ :: rest =>
        match P.expr with
        | none => some (s.setPort p fun P => { P with evalQ := rest })
        | some e => some (s.setPort p fun P => { P with evalQ := rest, ev := .computed (cfg.evalE e (eff s σ)) })
    else none
  | .evalCmp p =>
    match (s.port p).ev with
    | .computed r =>
      match r with
      | .error => some (s.setPort p fun P => { P with ev := .idle })
      | .val x =>
        if some (cfg.adapt p x) = (s.port p).lastRead then some (s.setPort p fun P => { P with ev := .idle })
        else some (s.setPort p fun P => { P with ev := .waitW, wq := P.wq ++ [some (cfg.adapt p x)] })
      | .unavail =>
        if none = (s.port p).lastRead then some (s.setPort p fun P => { P with ev := .idle })
        else some (s.setPort p fun P => { P with ev := .waitW, wq := P.wq ++ [none] })
    | _ => none
  | .writeBegin p =>
    let P := s.port p
    if P.wr.isNone && !P.wConfirm then
      match P.wq with
      | [] => none
      | x :: rest => some (s.setPort p fun P => { P with wq := rest, wr := some x })
    else none
  | .writeEnd p =>
    match (s.port p).wr with
    | some x =>
      some (s.setPort p fun P =>
        { P with drv := x, wr := none, wConfirm := true,
                 ev := if P.ev = .waitW then (if cfg.repConfirm then .confirmWant else .idle) else P.ev })
    | none => none
  | .setSource p v =>
    if (s.port p).expr.isNone then some (s.setPort p fun P => { P with drv := v }) else none
  | .apiWrite p v =>
    if (s.port p).expr.isNone && (s.port p).enabled then some (s.setPort p fun P => { P with wq := P.wq ++ [v] })
    else none
  | .hookDone _ =>
    -- `await self.handle_enable()` / `handle_disable()` returns (the driver hook may stay suspended over any number of
    -- passes and other actions): `BasePort.enable()` / `disable()` do nothing afterwards. MODELLED ORDER: `.enable p` /
    -- `.disable p` are the part BEFORE that await — the `_enabled` flag is flipped AND the forced evaluations are
    -- registered in one atomic stretch — which is what the proof of `converges` uses (a pass running while the hook is
    -- suspended already sees the port enabled and serves the force). A hook that raises (flag reverted) is not modelled.
    some s
  | .enable p =>
    if (s.port p).enabled then none else
    some { (s.setPort p fun P => { P with enabled := true }) with
           forced := if (s.port p).expr.isSome then p :: s.forced else s.forced,
           forceAll := s.forceAll || cfg.repForce }
  | .disable p =>
    if (s.port p).enabled then
      some { (s.setPort p fun P => { P with enabled := false }) with forceAll := s.forceAll || cfg.repForce }
    else none
  | .setExpr p e =>
    -- a FIRST expression only while no API write / stale evaluation of the port is in flight; re-assignment any time
    if (s.port p).expr.isSome || (s.port p).quiet then
      some { (s.setPort p fun P => { P with expr := some e }) with forced := p :: s.forced }
    else none
  | .clearExpr p => some (s.setPort p fun P => { P with expr := none })

/-- Run a schedule; `none` as soon as an action is not enabled. -/
def run? (cfg : Cfg E) (s : State E) : List (Act E) → Option (State E)
  | [] => some s
  | a :: rest => match step? cfg s a with
    | some s' => run? cfg s' rest
    | none => none

/-- Boot: every port idle, `main.init()` has called `force_eval_expressions()`. -/
def State.init (p0 : PortId → PortSt E) : State E := ⟨p0, [], true, none⟩

/-- Admissible initial port table: nothing in flight (values, registers, flags and expressions are arbitrary). -/
def InitOk (p0 : PortId → PortSt E) : Prop :=
  ∀ p, (p0 p).quiet = true

inductive Reach (cfg : Cfg E) (p0 : PortId → PortSt E) : State E → Prop where
  | init : Reach cfg p0 (State.init p0)
  | step {s s' : State E} (a : Act E) : Reach cfg p0 s → step? cfg s a = some s' → Reach cfg p0 s'

/-- No evaluation or write pending, no pass in progress, nothing forced. -/
def Quiescent (cfg : Cfg E) (s : State E) : Prop :=
  s.pass = none ∧ s.forced = [] ∧ s.forceAll = false ∧
  ∀ p, p < cfg.n → (s.port p).quiet = true ∧ (s.port p).wConfirm = false

/-- `x` is what a port carrying `e` has to hold in state `s`. An evaluation *error* constrains nothing. -/
def Good (cfg : Cfg E) (s : State E) (p : PortId) (e : E) (x : Option Int) : Prop :=
  match cfg.evalE e (view s) with
  | .val v => x = some (cfg.adapt p v)
  | .unavail => x = none
  | .error => True

/-- Every enabled port whose expression does not read the port itself holds the value of its expression over the
current values. -/
def Converged (cfg : Cfg E) (s : State E) : Prop :=
  ∀ p, p < cfg.n → ∀ e, (s.port p).expr = some e → (s.port p).enabled = true → p ∉ cfg.deps e →
    Good cfg s p e (s.port p).lastRead

/-! ## Tiny concrete expression language (driver, harness, counter-examples) -/

inductive Op2 where
  | add | sub | mul | gt | eq | and | or | min | max
  deriving DecidableEq, Repr

inductive TExpr where
  | lit (k : Int)
  | una                         -- the literal `unavailable`
  | port (q : PortId)
  | op2 (o : Op2) (a b : TExpr)
  | not (a : TExpr)
  | ite (c a b : TExpr)
  | avail (a : TExpr)
  | dflt (a b : TExpr)
  deriving Repr, DecidableEq

def TExpr.deps : TExpr → List PortId
  | .lit _ => []
  | .una => []
  | .port q => [q]
  | .op2 _ a b => a.deps ++ b.deps
  | .not a => a.deps
  | .ite c a b => c.deps ++ a.deps ++ b.deps
  | .avail a => a.deps
  | .dflt a b => a.deps ++ b.deps

def b2i (b : Bool) : Int := if b then 1 else 0

def Op2.ap : Op2 → Int → Int → Int
  | .add, x, y => x + y
  | .sub, x, y => x - y
  | .mul, x, y => x * y
  | .gt, x, y => b2i (decide (x > y))
  | .eq, x, y => b2i (decide (x = y))
  | .and, x, y => b2i (x != 0 && y != 0)
  | .or, x, y => b2i (x != 0 || y != 0)
  | .min, x, y => if x ≤ y then x else y
  | .max, x, y => if x ≤ y then y else x

/-- Eager functions: an error in any argument wins, then unavailability; `IF`, `AND`, `OR` are lazy; `AVAILABLE` / `DEFAULT`
catch every evaluation error (also a disabled port). -/
def TExpr.eval : TExpr → View → Res
  | .lit k, _ => .val k
  | .una, _ => .unavail
  | .port q, v => match v q with
    | .dis => .error
    | .na => .unavail
    | .v x => .val x
  | .op2 .and a b, v => match a.eval v with          -- `AND` / `OR` evaluate their arguments one by one
    | .val x => if x == 0 then .val 0 else (match b.eval v with
      | .val y => .val (b2i (y != 0))
      | r => r)
    | r => r
  | .op2 .or a b, v => match a.eval v with
    | .val x => if x != 0 then .val 1 else (match b.eval v with
      | .val y => .val (b2i (y != 0))
      | r => r)
    | r => r
  | .op2 o a b, v => match a.eval v, b.eval v with
    | .error, _ => .error
    | _, .error => .error
    | .unavail, _ => .unavail
    | _, .unavail => .unavail
    | .val x, .val y => .val (o.ap x y)
  | .not a, v => match a.eval v with
    | .val x => .val (b2i (x == 0))
    | r => r
  | .ite c a b, v => match c.eval v with
    | .val x => if x != 0 then a.eval v else b.eval v
    | r => r
  | .avail a, v => match a.eval v with
    | .val _ => .val 1
    | _ => .val 0
  | .dflt a b, v => match a.eval v with
    | .val x => .val x
    | _ => b.eval v

/-- Hub over the tiny language; `bools` lists the boolean ports (`adapt_value_type`: `bool(value)`). -/
def tinyCfg (n : Nat) (bools : List PortId) (repConfirm repForce repCapture : Bool) : Cfg TExpr :=
  { n := n, deps := TExpr.deps, evalE := TExpr.eval,
    adapt := fun p x => if bools.contains p then (if x = 0 then 0 else 1) else x,
    repConfirm := repConfirm, repForce := repForce, repCapture := repCapture }

end QtVerif.Core
