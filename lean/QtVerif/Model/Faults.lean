/-
Model of the fault-containment structure of the qtoggleserver polling core, for property C15
("a failing port driver does not disturb other ports").  Self-contained (does not use Model/Core).

Mirrors (the code as it is):
  core/main.py   update()                -> `pass`  = `pollAll` (per-port fold) + `deliver` + `pushEvals`
                   per port: is_enabled / old value / heart_beat_second under `try … except Exception`
                   / `port in _ports_with_read_error` / read_transformed_value under
                   `except SkipRead` + `except Exception` (→ TimedSet.add) / change detection
                 update_loop()           -> `PassKind.loop` + `State.loopAlive`
                 handle_value_changes()  -> `deliver` (value-change events, one per changed port, to every
                                            registered handler) + `pushEvals` (full eval flag, dependency ∩ changed)
  utils/timedset.py TimedSet             -> `errContains` (expiry test `now - t > timeout`, entry deleted on
                                            expiry) and the `(id, now) ::` insertion in `readStep`
  core/events/handlers.py trigger()      -> `deliverTo` (handler exception contained: `try … except Exception`)
  core/ports.py  _eval_loop/_eval_and_write -> `evalPort` (pop one snapshot, evaluate, compare with the last
                                            read value, submit a write and block until it is resolved)
                 _write_value_loop       -> `writePort`/`writeObs` (pop one queued write, call the driver,
                                            resolve the submitter with the result or the exception)
                 transform_and_write_value via the API -> `Action.apiWrite`

Exceptions.  The code catches `Exception` at every one of these sites.  An outcome `raise` stands for any
`Exception` subclass (contained); `escape` stands for something the handlers do NOT catch (a `BaseException`
such as `asyncio.CancelledError`, which is not an `Exception` since Python 3.8): it aborts the REST of the
polling pass (no events, no re-evaluation for that pass) and ends `update_loop`.  A mutation that removes one
of the `try` blocks turns `raise` into `escape` at that site.

Time is explicit: every pass carries its `now` (in time units; `ups` units per second, `retry` =
`_PORT_READ_ERROR_RETRY_INTERVAL` in units).  A schedule is any list of `Action`s; the confirming pass the
code runs after each driver write is a separate `pass` action, so that a schedule fixes the pass times.
Drivers are registers (`reg`): `ROut.ok` returns the register, `setSrc` is the physical world changing it,
a successful write stores into it.  The expression layer is abstract: `Env.deps` + `Env.evalE`.
The error set is keyed by port IDENTITY (the port object), not by port id: a port that is removed and a port created
later under the same id are two identities (two entries of the port list, `Action.remove` / `Action.create`); the new
one has no error-set entry and is polled at once, whatever back-off its predecessor was in.  A write submitted by a
synchronous event handler from inside a pass is an `apiWrite` + `write` right after that pass (the pass has done all
its reads before it delivers events, and the writer's confirming pass waits for the update lock).
Not modelled (named in the MANIFEST note): time-dependent expression deps ('second', 'asap' pause rule),
queue overflow, read/write transforms, latencies (a pass is atomic), the per-port forced-evaluation set and
enabling/disabling ports at run time (`enabled` is static here) — hence also the branch "a port that is DISABLED when
its read fails is not put into the error set" (repo commit 680658d) cannot be reached by the fault schedules of this
model and of the harness: outside.  The confirming `main.update()` that `_eval_and_write` runs after an expression
write (C01 repair) and the one of `_write_value_loop` are ordinary `pass` actions of a schedule.
Core Lean only.
-/
namespace QtVerif.Faults

abbrev PortId := Nat
/-- A port value; `none` = unavailable (`None`). -/
abbrev Val := Option Int

/-- Outcome of one `read_value()` call. -/
inductive ROut
  | ok                 -- returns the driver register
  | val (v : Val)      -- returns `v` whatever the register holds
  | skip               -- raises SkipRead
  | raise              -- raises an `Exception` subclass
  | escape             -- raises something `except Exception` does not catch
  deriving DecidableEq, Repr

/-- Outcome of `heart_beat_second()`, `write_value()`, `Handler.handle_event()`. -/
inductive XOut
  | ok | raise | escape
  deriving DecidableEq, Repr

/-- Result of evaluating a port's expression on a snapshot. `err` = ExpressionEvalError or any other exception
(both make `_eval_and_write` return without writing). -/
inductive ERes
  | val (v : Val) | err
  deriving DecidableEq, Repr

/-- Who submitted a queued write. -/
inductive Sub
  | expr | api (k : Nat)
  deriving DecidableEq, Repr

/-- `push_eval`'s `port_values`: (id, last read value) of every enabled port. -/
abbrev Snap := List (PortId × Val)

/-- The environment: fault schedule (outcome per port and call index), handlers, expression layer. -/
structure Env where
  rd : PortId → Nat → ROut
  hb : PortId → Nat → XOut
  wr : PortId → Nat → XOut
  /-- handler `j` handling the value-change event of port `p` (pass time, old, new) -/
  hd : Nat → PortId → Nat → Val → Val → XOut
  /-- `expression.get_deps()` restricted to ports; `none` = the port has no expression -/
  deps : PortId → Option (List PortId)
  evalE : PortId → Snap → ERes

structure Params where
  retry : Nat      -- _PORT_READ_ERROR_RETRY_INTERVAL, in time units
  ups : Nat        -- time units per second
  nh : Nat         -- number of registered (synchronous) event handlers

structure Port where
  id : PortId
  enabled : Bool
  last : Val                    -- _last_read_value
  reg : Val                     -- the driver's register
  nrd : Nat                     -- read_value calls so far
  nhb : Nat                     -- heart_beat_second calls so far
  nwr : Nat                     -- write_value calls so far
  evalQ : List Snap             -- _eval_queue, oldest first
  writeQ : List (Val × Sub)     -- _write_value_queue, oldest first
  busy : Bool                   -- the eval task waits for its submitted write
  deriving DecidableEq, Repr

/-- Observable occurrences, each about one port. -/
inductive Obs
  | hbeat (p : PortId) (o : XOut)
  | read (p : PortId) (o : ROut)
  | event (h : Nat) (p : PortId) (old new : Val)
  | write (p : PortId) (v : Val) (o : XOut)
  | wres (p : PortId) (s : Sub) (ok : Bool)
  deriving DecidableEq, Repr

def Obs.port : Obs → PortId
  | .hbeat p _ => p
  | .read p _ => p
  | .event _ p _ _ => p
  | .write p _ _ => p
  | .wres p _ _ => p

structure State where
  ports : List Port                 -- registry order (= iteration order of update())
  errs : List (PortId × Nat)        -- _ports_with_read_error: (port, time added)
  lastSec : Nat                     -- _last_time
  fullEval : Bool                   -- _force_eval_all_expressions
  loopAlive : Bool                  -- the update_loop task still runs
  trace : List Obs                  -- newest first
  deriving DecidableEq, Repr

/-- Accumulator of one pass. -/
structure Acc where
  errs : List (PortId × Nat)
  trace : List Obs
  changed : List (PortId × Val × Val)     -- value_pairs / changed_set, in detection order
  aborted : Bool

/-- `port in _ports_with_read_error` (TimedSet.__contains__): membership, with the entry deleted on expiry. -/
def errContains (retry now : Nat) (errs : List (PortId × Nat)) (p : PortId) : Bool × List (PortId × Nat) :=
  match errs.find? (fun e => e.1 == p) with
  | none => (false, errs)
  | some e => if now - e.2 > retry then (false, errs.filter (fun x => x.1 != p)) else (true, errs)

/-- `if second_changed: try: port.heart_beat_second() except Exception: log` -/
def hbStep (E : Env) (sec : Bool) (a : Acc) (p : Port) : Acc × Port :=
  if sec then
    ({ a with trace := .hbeat p.id (E.hb p.id p.nhb) :: a.trace, aborted := E.hb p.id p.nhb == .escape },
     { p with nhb := p.nhb + 1 })
  else (a, p)

/-- `if new_value != old_value: set_last_read_value; changed_set.add; value_pairs[port] = old, new` -/
def adopt (a : Acc) (p : Port) (v : Val) : Acc × Port :=
  if v != p.last then ({ a with changed := a.changed ++ [(p.id, p.last, v)] }, { p with last := v }) else (a, p)

/-- error-set test, `read_transformed_value()` under its two `except` clauses, change detection -/
def readStep (P : Params) (E : Env) (now : Nat) (a : Acc) (p : Port) : Acc × Port :=
  if (errContains P.retry now a.errs p.id).1 then (a, p)
  else
    let a1 : Acc := { a with errs := (errContains P.retry now a.errs p.id).2,
                             trace := .read p.id (E.rd p.id p.nrd) :: a.trace }
    let p1 : Port := { p with nrd := p.nrd + 1 }
    match E.rd p.id p.nrd with
    | .ok => adopt a1 p1 p.reg
    | .val v => adopt a1 p1 v
    | .skip => (a1, p1)
    | .raise => ({ a1 with errs := (p.id, now) :: a1.errs }, p1)
    | .escape => ({ a1 with aborted := true }, p1)

/-- body of the `for port in ports.get_all()` loop of `update()`; once aborted nothing more happens -/
def pollPort (P : Params) (E : Env) (now : Nat) (sec : Bool) (a : Acc) (p : Port) : Acc × Port :=
  if a.aborted || !p.enabled then (a, p)
  else if (hbStep E sec a p).1.aborted then hbStep E sec a p
  else readStep P E now (hbStep E sec a p).1 (hbStep E sec a p).2

def pollAll (P : Params) (E : Env) (now : Nat) (sec : Bool) : Acc → List Port → Acc × List Port
  | a, [] => (a, [])
  | a, p :: ps =>
    ((pollAll P E now sec (pollPort P E now sec a p).1 ps).1,
     (pollPort P E now sec a p).2 :: (pollAll P E now sec (pollPort P E now sec a p).1 ps).2)

/-- `trigger()`: one handler, `try: await handler.handle_event(event) except Exception: log` -/
def deliverTo (E : Env) (now : Nat) (c : PortId × Val × Val) (st : List Obs × Bool) (j : Nat) : List Obs × Bool :=
  if st.2 then st
  else (.event j c.1 c.2.1 c.2.2 :: st.1, E.hd j c.1 now c.2.1 c.2.2 == .escape)

/-- the event loop of `handle_value_changes`: every changed port's event to every handler -/
def deliver (E : Env) (now nh : Nat) (st : List Obs × Bool) (cs : List (PortId × Val × Val)) : List Obs × Bool :=
  cs.foldl (fun st c => (List.range nh).foldl (deliverTo E now c) st) st

def snapshot (ps : List Port) : Snap :=
  (ps.filter (fun q => q.enabled)).map (fun q => (q.id, q.last))

/-- does an expression port have to be re-evaluated: `deps - {own id}` meets the changed set -/
def depChanged (id : PortId) (deps : List PortId) (changed : List PortId) : Bool :=
  deps.any (fun d => d != id && changed.contains d)

/-- one port of the re-evaluation loop of `handle_value_changes`: `push_eval` when forced or a dependency changed -/
def pushOne (E : Env) (full : Bool) (changed : List PortId) (sn : Snap) (q : Port) : Port :=
  match E.deps q.id with
  | none => q
  | some ds => if q.enabled && (full || depChanged q.id ds changed) then { q with evalQ := q.evalQ ++ [sn] } else q

/-- the re-evaluation loop of `handle_value_changes` -/
def pushEvals (E : Env) (full : Bool) (changed : List PortId) (sn : Snap) (ps : List Port) : List Port :=
  ps.map (pushOne E full changed sn)

inductive PassKind
  | loop      -- called from update_loop
  | other     -- called after a write / from an API function
  deriving DecidableEq, Repr

def kill (k : PassKind) (s : State) : State :=
  if k == .loop then { s with loopAlive := false } else s

/-- `update()`.  The forced-evaluation flag is taken (and cleared) at the START of the pass, before polling
(repo commit c8ed452), so an aborted pass has consumed it too. -/
def pass (P : Params) (E : Env) (k : PassKind) (now : Nat) (s : State) : State :=
  if k == .loop && !s.loopAlive then s
  else
    let r := pollAll P E now (now / P.ups != s.lastSec) ⟨s.errs, s.trace, [], false⟩ s.ports
    let s1 : State := { s with ports := r.2, errs := r.1.errs, lastSec := now / P.ups, fullEval := false,
                               trace := r.1.trace }
    if r.1.aborted then kill k s1
    else
      let d := deliver E now P.nh (r.1.trace, false) r.1.changed
      let s2 : State := { s1 with trace := d.1 }
      if d.2 then kill k s2
      else { s2 with ports := pushEvals E s.fullEval (r.1.changed.map (fun c => c.1)) (snapshot r.2) r.2 }

def modPort (id : PortId) (f : Port → Port) (ps : List Port) : List Port :=
  ps.map (fun q => if q.id == id then f q else q)

/-- one iteration of `_eval_loop` (only when the task is not blocked on its own pending write) -/
def evalPort (E : Env) (q : Port) : Port :=
  if q.busy then q
  else match q.evalQ with
    | [] => q
    | sn :: rest =>
      match E.evalE q.id sn with
      | .err => { q with evalQ := rest }
      | .val v =>
        if v != q.last then { q with evalQ := rest, writeQ := q.writeQ ++ [(v, .expr)], busy := true }
        else { q with evalQ := rest }

/-- one iteration of `_write_value_loop` without its trailing `main.update()` (a separate `pass`) -/
def writePort (E : Env) (q : Port) : Port :=
  match q.writeQ with
  | [] => q
  | (v, sub) :: rest =>
    match E.wr q.id q.nwr with
    | .ok => { q with writeQ := rest, nwr := q.nwr + 1, reg := v, busy := if sub == .expr then false else q.busy }
    | .raise => { q with writeQ := rest, nwr := q.nwr + 1, busy := if sub == .expr then false else q.busy }
    | .escape => { q with writeQ := rest, nwr := q.nwr + 1 }

/-- what that iteration shows: the driver call and the result handed to the submitter (newest first) -/
def writeObs (E : Env) (q : Port) : List Obs :=
  match q.writeQ with
  | [] => []
  | (v, sub) :: _ =>
    match E.wr q.id q.nwr with
    | .ok => [.wres q.id sub true, .write q.id v .ok]
    | .raise => [.wres q.id sub false, .write q.id v .raise]
    | .escape => [.write q.id v .escape]

def setReg (v : Val) (q : Port) : Port := { q with reg := v }

/-- `_write_value_queued` called for API request `k` -/
def enqApi (v : Val) (k : Nat) (q : Port) : Port := { q with writeQ := q.writeQ ++ [(v, .api k)] }

/-- a port comes into existence (`core.ports.load` + `enable()`) or goes away (`remove()`).  The port list declares
every port identity that ever exists; one that does not exist (yet / any more) is simply not `enabled`. -/
def setEnabled (b : Bool) (q : Port) : Port := { q with enabled := b }

inductive Action
  | pass (k : PassKind) (now : Nat)
  | setSrc (p : PortId) (v : Val)               -- the physical value behind port p changes
  | apiWrite (p : PortId) (v : Val) (k : Nat)   -- submission k (API request, synchronous event handler) of v to port p
  | eval (p : PortId)
  | write (p : PortId)
  | create (p : PortId)                         -- port identity p is loaded and enabled
  | remove (p : PortId)                         -- port identity p is removed
  | forceEval                                   -- main.force_eval_expressions() (what enable() also does)
  deriving DecidableEq, Repr

def step (P : Params) (E : Env) (s : State) : Action → State
  | .pass k now => pass P E k now s
  | .setSrc p v => { s with ports := modPort p (setReg v) s.ports }
  | .apiWrite p v k => { s with ports := modPort p (enqApi v k) s.ports }
  | .eval p => { s with ports := modPort p (evalPort E) s.ports }
  | .write p =>
    { s with ports := modPort p (writePort E) s.ports,
             trace := (match s.ports.find? (fun q => q.id == p) with
                       | some q => writeObs E q
                       | none => []) ++ s.trace }
  | .create p => { s with ports := modPort p (setEnabled true) s.ports }
  | .remove p => { s with ports := modPort p (setEnabled false) s.ports }
  | .forceEval => { s with fullEval := true }

def run (P : Params) (E : Env) (s : State) (σ : List Action) : State :=
  σ.foldl (step P E) s

/-! ### Projection on a set of ports -/

def rport (H : PortId → Bool) (q : Port) : Port :=
  { q with evalQ := q.evalQ.map (fun sn => sn.filter (fun e => H e.1)) }

/-- The system as seen on `H`: the other ports are ABSENT. -/
def proj (H : PortId → Bool) (s : State) : State :=
  { s with ports := (s.ports.filter (fun q => H q.id)).map (rport H),
           errs := s.errs.filter (fun e => H e.1),
           trace := s.trace.filter (fun o => H o.port) }

/-- Which actions of a schedule exist when only the ports of `H` exist: every pass, and the actions on `H`. -/
def keep (H : PortId → Bool) : Action → Bool
  | .pass _ _ => true
  | .setSrc p _ => H p
  | .apiWrite p _ _ => H p
  | .eval p => H p
  | .write p => H p
  | .create p => H p
  | .remove p => H p
  | .forceEval => true

/-! ### Helpers for the driver -/

def mkPort (id : PortId) (enabled : Bool) (last reg : Val) : Port :=
  { id := id, enabled := enabled, last := last, reg := reg, nrd := 0, nhb := 0, nwr := 0,
    evalQ := [], writeQ := [], busy := false }

def State.init (ps : List Port) : State :=
  { ports := ps, errs := [], lastSec := 0, fullEval := true, loopAlive := true, trace := [] }

/-- run the eval tasks that can run (harness policy: after every pass), in port order, until none can -/
def settle (E : Env) : Nat → List Port → List Port
  | 0, ps => ps
  | fuel + 1, ps =>
    if ps.any (fun q => !q.busy && !q.evalQ.isEmpty) then settle E fuel (ps.map (evalPort E)) else ps

end QtVerif.Faults
