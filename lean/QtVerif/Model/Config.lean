/-
Configuration persistence model (C07, reused by C20). Core Lean only.

Mirrors, in qtoggleserver:
  core/ports.py     BasePort.set_attr / prepare_for_save / save / load / load_from_data / save_loop
  core/vports.py    add / remove / init
  core/api/funcs/ports.py   add_virtual_port, set_port_attrs (PATCH /ports/<id>), delete_port, patch_port_value
  core/device/__init__.py   load / save / reset ; core/device/attrs.py (password hashes only);
  core/api/funcs/device.py  patch_device, put_device (= reset + load + set_attrs + save)
  slaves/devices.py         prepare_for_save / load (record level; disabled slaves only)

The persistence store is modelled as the reference record store (what was stored is what is read back: that is C06's
statement); strings are arbitrary `String`s. Expression texts are canonicalised by a parameter `canon` (= `str(parse t)`,
`none` = parse error; its idempotence is C03's `print_fixpoint` and appears as a hypothesis of the theorems).
-/
namespace QtVerif.Config

/-- attribute values (JSON scalars that port/device attributes take) -/
inductive AVal where
  | str (s : String)
  | bool (b : Bool)
  | int (n : Int)
  deriving DecidableEq, Repr, Inhabited

/-- port values -/
inductive PVal where
  | num (n : Int)
  | bool (b : Bool)
  deriving DecidableEq, Repr, Inhabited

/-- how `set_attr` treats an attribute name: plain `setattr`, or one of the three `attr_set_<expression>` methods -/
inductive Kind where
  | plain | expr | xformR | xformW
  deriving DecidableEq, Repr

def kindOf (n : String) : Kind :=
  if n = "expression" then .expr
  else if n = "transform_read" then .xformR
  else if n = "transform_write" then .xformW
  else .plain

abbrev Fields := List (String × AVal)

def lookupF (n : String) : Fields → Option AVal
  | [] => none
  | (m, v) :: r => if m = n then some v else lookupF n r

def names (fs : Fields) : List String := fs.map (·.1)

/-- definition of a virtual port = the record of the `vports` collection -/
structure VDef where
  isNumber : Bool
  min : Option Int
  max : Option Int
  step : Option Int
  integer : Option Bool
  choices : Option (List Int)
  deriving DecidableEq, Repr, Inhabited

/-- what the driver class and its constructor arguments fix for one port -/
structure PortDef where
  virtual : Bool
  writable : Bool
  vdef : Option VDef
  /-- the modifiable, supported (getter ≠ None) attributes of a fresh instance, with their values -/
  defaults : Fields
  /-- what `read_value()` returns on a fresh instance -/
  initial : Option PVal
  deriving DecidableEq, Repr

/-- `VirtualPort(...)`: writable, enabled=False, the standard modifiable attributes (unit only for numbers,
history attributes only when history is enabled) -/
def vportDefaults (hist : Bool) (isNumber : Bool) : Fields :=
  [("display_name", .str "")] ++ (if isNumber then [("unit", .str "")] else []) ++
  [("enabled", .bool false), ("tag", .str ""), ("expression", .str ""), ("transform_read", .str ""),
   ("transform_write", .str ""), ("persisted", .bool false), ("internal", .bool false)] ++
  (if hist then [("history_interval", .int 0), ("history_retention", .int 0)] else [])

def vportDef (hist : Bool) (vd : VDef) : PortDef :=
  { virtual := true, writable := true, vdef := some vd, defaults := vportDefaults hist vd.isNumber, initial := none }

structure Port where
  pdef : PortDef
  /-- `get_attr(name)` for the modifiable attributes; `none` = unsupported (`get_attr` returns None) -/
  attrs : String → Option AVal
  /-- `_last_read_value` -/
  value : Option PVal
  /-- `_pending_save` -/
  pendingSave : Bool

def fresh (d : PortDef) : Port :=
  { pdef := d, attrs := fun n => lookupF n d.defaults, value := none, pendingSave := false }

/-- record of the `ports` collection (id and history_last_timestamp left out) -/
structure PortRec where
  value : Option PVal
  fields : Fields
  deriving DecidableEq, Repr

def emptyRec : PortRec := { value := none, fields := [] }

structure Device where
  name : String
  displayName : String
  adminHash : String
  normalHash : String
  viewonlyHash : String
  deriving DecidableEq, Repr

/-- record of the `device` collection: every field may be missing -/
structure DeviceRec where
  name : Option String
  displayName : Option String
  adminHash : Option String
  normalHash : Option String
  viewonlyHash : Option String
  deriving DecidableEq, Repr

/-- slave device as `prepare_for_save` / `Slave(**entry)` / `to_json` carry it -/
structure Slave where
  enabled : Bool
  scheme : String
  host : String
  port : Nat
  path : String
  pwHash : String
  pollInterval : Nat
  listenEnabled : Bool
  lastSync : Int
  attrs : Fields
  provAttrs : List String
  deriving DecidableEq, Repr

structure Cfg where
  /-- `str(parse(self_id, text, role))`; `none` = ExpressionParseError (incl. external dependency of a transform) -/
  canon : Kind → String → Option String
  /-- meaning of a canonical transform text on a value (`none` = unavailable) -/
  xf : String → PVal → Option PVal
  /-- settings.ports: the statically configured ports, the same in every boot -/
  statics : String → Option PortDef
  /-- history attributes available (driver supports samples) -/
  hist : Bool
  /-- repaired `set_port_attrs`: the port is saved also when one attribute was refused -/
  saveOnError : Bool
  /-- default device name (host name) and the hash function / hash of the empty password -/
  defName : String
  hash : String → String
  emptyHash : String

/-! ### attributes -/

def upd {α : Type} (f : String → Option α) (n : String) (v : Option α) : String → Option α :=
  fun m => if m = n then v else f m

/-- new value of attribute `n` (currently `cur`) after `set_attr(n, v)`, and whether it succeeded.
`cur = none`: unsupported attribute, silently refused (`return`). Plain attributes are assigned. Expression-like
attributes: `''` clears; otherwise the text is parsed and the attribute reads back as the canonical text; a parse error
raises and leaves the attribute unchanged. -/
def setText (cfg : Cfg) (k : Kind) (old : AVal) (v : AVal) : Option AVal × Bool :=
  match v with
  | .str t =>
    if t = "" then (some (.str ""), true)
    else match cfg.canon k t with
      | some c => (some (.str c), true)
      | none => (some old, false)
  | _ => (some old, false)

def setVal (cfg : Cfg) (cur : Option AVal) (n : String) (v : AVal) : Option AVal × Bool :=
  match cur with
  | none => (none, true)
  | some old => if kindOf n = .plain then (some v, true) else setText cfg (kindOf n) old v

def setAttr (cfg : Cfg) (p : Port) (n : String) (v : AVal) : Port × Bool :=
  let r := setVal cfg (p.attrs n) n v
  ({ p with attrs := upd p.attrs n r.1 }, r.2)

/-- apply a list of (name, value) with `set_attr`, each on its own (an error does not stop the others);
the flag says whether all succeeded -/
def applyFields (cfg : Cfg) (p : Port) : Fields → Port × Bool
  | [] => (p, true)
  | (n, v) :: r =>
    let (p1, ok1) := setAttr cfg p n v
    let (p2, ok2) := applyFields cfg p1 r
    (p2, ok1 && ok2)

def boolAttr (p : Port) (n : String) : Bool := p.attrs n = some (.bool true)

def persistedOf (p : Port) : Bool := boolAttr p "persisted"
def enabledOf (p : Port) : Bool := boolAttr p "enabled"

/-- value handed to `write_value` for user-level value `v` (the write transform, if any) -/
def writeXform (cfg : Cfg) (p : Port) (v : PVal) : Option PVal :=
  match p.attrs "transform_write" with
  | some (.str t) => if t = "" then some v else cfg.xf t v
  | _ => some v

def readXform (cfg : Cfg) (p : Port) (v : Option PVal) : Option PVal :=
  match p.attrs "transform_read" with
  | some (.str t) => if t = "" then v else v.bind (cfg.xf t)
  | _ => v

/-! ### save / load of one port -/

/-- `prepare_for_save`: the value only if persisted; every modifiable attribute whose getter is not None -/
def prepareForSave (p : Port) : PortRec :=
  { value := if persistedOf p then p.value else none,
    fields := (names p.pdef.defaults).filterMap (fun n => (p.attrs n).map (fun v => (n, v))) }

/-- `v = data.get(k); if v is not None: [(k, v)]` -/
def entryOf (k : String) (fs : Fields) : Fields :=
  match lookupF k fs with
  | some v => [(k, v)]
  | none => []

/-- order in which `load_from_data` applies the stored attributes: `enabled` first, `expression` last, the others
sorted by name -/
def loadOrder (fs : Fields) : Fields :=
  entryOf "enabled" fs ++
  (fs.filter (fun a => a.1 ≠ "enabled" ∧ a.1 ≠ "expression")).mergeSort (fun a b => decide (a.1 ≤ b.1)) ++
  entryOf "expression" fs

/-- driver writes of a load for a persisted port with stored value `v`: exactly one — the value through the write
transform — when the port is writable; none when the write transform cannot be evaluated, which is the case for a
disabled port (a transform reads the port's own value `$`, and that raises DisabledPort; repaired `load_from_data`
logs it and skips the write; the unrepaired code lets the exception abort the start of the hub) -/
def loadWrites (cfg : Cfg) (p : Port) (v : PVal) : List (Option PVal) :=
  if p.pdef.writable then
    (if enabledOf p = false ∧ p.attrs "transform_write" ≠ some (.str "") ∧ p.attrs "transform_write" ≠ none then []
     else [writeXform cfg p v])
  else []

/-- `load_from_data`: attributes (errors are only logged), then the value: a persisted port with a stored value takes
it as its last value and — if writable — hands it once to the driver through the write transform; otherwise an enabled
port reads its driver. Returns the port and the driver writes. -/
def finishLoad (cfg : Cfg) (p1 : Port) (rv : Option PVal) : Port × List (Option PVal) :=
  match persistedOf p1, rv with
  | true, some v =>
    ({ p1 with value := some v }, loadWrites cfg p1 v)
  | _, _ =>
    if enabledOf p1 then ({ p1 with value := readXform cfg p1 p1.pdef.initial }, [])
    else (p1, [])

def loadFromData (cfg : Cfg) (p : Port) (r : PortRec) : Port × List (Option PVal) :=
  finishLoad cfg (applyFields cfg p (loadOrder r.fields)).1 r.value

/-! ### hub and store -/

structure Hub where
  ports : String → Option Port
  device : Device
  slaves : String → Option Slave

structure Store where
  vports : String → Option VDef
  ports : String → Option PortRec
  device : Option DeviceRec
  slaves : String → Option Slave

def Store.empty : Store :=
  { vports := fun _ => none, ports := fun _ => none, device := none, slaves := fun _ => none }

structure State where
  hub : Hub
  store : Store
  /-- driver `write_value` calls made while loading, per port, in the last boot -/
  writes : String → List (Option PVal)

/-- `device.load()` on the defaults of a fresh process -/
def bootDevice (cfg : Cfg) (r : Option DeviceRec) : Device :=
  let orEmpty (h : Option String) : String :=
    match h with
    | some s => if s = "" then cfg.emptyHash else s
    | none => cfg.emptyHash
  match r with
  | none => { name := cfg.defName, displayName := "", adminHash := cfg.emptyHash, normalHash := cfg.emptyHash,
              viewonlyHash := cfg.emptyHash }
  | some d => { name := d.name.getD cfg.defName, displayName := d.displayName.getD "",
                adminHash := orEmpty d.adminHash, normalHash := orEmpty d.normalHash,
                viewonlyHash := orEmpty d.viewonlyHash }

/-- `device.save()` -/
def saveDevice (d : Device) : DeviceRec :=
  { name := some d.name, displayName := some d.displayName, adminHash := some d.adminHash,
    normalHash := some d.normalHash, viewonlyHash := some d.viewonlyHash }

/-- "Hash empty passwords" at the end of `device.load()` -/
def orEmptyHash (cfg : Cfg) (h : String) : String := if h = "" then cfg.emptyHash else h

/-- `core.device.reset(preserve_attrs=[the three password hashes])` followed by `core.device.load()`, as PUT /device
runs them: the `device` record is removed from the store (`persist.remove('device')`), the attributes module is
reloaded (name = host name, display name = '', hashes = None) and the three preserved hashes are put back; `load()`
then finds no record, sets nothing, and hashes whatever password hash is still empty. -/
def resetDevice (cfg : Cfg) (d : Device) : Device :=
  { name := cfg.defName, displayName := "", adminHash := orEmptyHash cfg d.adminHash,
    normalHash := orEmptyHash cfg d.normalHash, viewonlyHash := orEmptyHash cfg d.viewonlyHash }

/-- one port of a boot: statically configured ports first (`ports.load(settings.ports)`), then `vports.init()` -/
def bootPort (cfg : Cfg) (s : Store) (id : String) : Option (Port × List (Option PVal)) :=
  match cfg.statics id with
  | some d => some (loadFromData cfg (fresh d) ((s.ports id).getD emptyRec))
  | none =>
    match s.vports id with
    | some vd => some (loadFromData cfg (fresh (vportDef cfg.hist vd)) ((s.ports id).getD emptyRec))
    | none => none

/-- a (re)start of the hub on a store: nothing of the previous process survives but the store -/
def boot (cfg : Cfg) (s : Store) : State :=
  { hub := { ports := fun id => (bootPort cfg s id).map (·.1),
             device := bootDevice cfg s.device,
             slaves := s.slaves },
    store := s,
    writes := fun id => match bootPort cfg s id with | some r => r.2 | none => [] }

/-! ### API operations -/

inductive Err where
  | noSuchPort | duplicatePort | notRemovable | invalidRequest | invalidField | noSuchDevice
  deriving DecidableEq, Repr

inductive Resp where
  | ok
  | err (e : Err)
  deriving DecidableEq, Repr

structure DevPatch where
  name : Option String := none
  displayName : Option String := none
  adminPw : Option String := none
  normalPw : Option String := none
  viewonlyPw : Option String := none
  deriving DecidableEq, Repr

inductive Op where
  /-- POST /ports -/
  | addV (id : String) (vd : VDef)
  /-- PATCH /ports/id -/
  | patch (id : String) (attrs : Fields)
  /-- DELETE /ports/id -/
  | del (id : String)
  /-- a polling pass (`main.update`) detects that the port's value is now `v` (after an API write, an expression
  evaluation, a driver-side change): value-change handling -/
  | valueChange (id : String) (v : Option PVal)
  /-- one iteration of `save_loop` -/
  | saveTick
  /-- PATCH /device -/
  | patchDev (d : DevPatch)
  /-- PUT /device (restore of a backup) with a document that passes the loose device schema: the password fields and
  every attribute that is unknown or not modifiable are ignored (`ignore_extra`); what is left for this model is the
  name and the display name, each possibly absent from the document -/
  | putDev (name : Option String) (displayName : Option String)
  /-- PUT /devices -/
  | putSlaves (l : List (String × Slave))
  /-- DELETE /devices/name -/
  | delSlave (name : String)
  /-- PATCH /devices/name (poll interval, listen flag of a disabled slave) -/
  | patchSlave (name : String) (poll : Option Nat) (listen : Option Bool)
  /-- PATCH /devices/name/forward/device while the slave is offline: pending (provisioning) edit -/
  | fwdSlave (name : String) (attrs : Fields)
  /-- process exit + start on the same store -/
  | restart

def sameCtor : AVal → AVal → Bool
  | .str _, .str _ => true
  | .bool _, .bool _ => true
  | .int _, .int _ => true
  | _, _ => false

/-- up-front schema validation of PATCH /ports/id: every name is a modifiable, supported attribute and the value has
the attribute's JSON type -/
def validPatch (p : Port) (attrs : Fields) : Bool :=
  attrs.all (fun a => match p.attrs a.1 with | some old => sameCtor old a.2 | none => false)

def savePort (st : State) (id : String) (p : Port) : State :=
  let p' := { p with pendingSave := false }
  { st with hub := { st.hub with ports := upd st.hub.ports id (some p') },
            store := { st.store with ports := upd st.store.ports id (some (prepareForSave p')) } }

def setFields (fs : Fields) (kv : Fields) : Fields :=
  kv.foldl (fun acc a => if (lookupF a.1 acc).isSome then acc.map (fun b => if b.1 = a.1 then a else b) else acc ++ [a]) fs

def step (cfg : Cfg) (st : State) : Op → State × Resp
  | .addV id vd =>
    match st.hub.ports id with
    | some _ => (st, .err .duplicatePort)
    | none =>
      -- vports.add, then load_one (reads whatever `ports` record exists under that id), enable, save
      let store1 := { st.store with vports := upd st.store.vports id (some vd) }
      let p := (loadFromData cfg (fresh (vportDef cfg.hist vd)) ((st.store.ports id).getD emptyRec)).1
      let p := (setAttr cfg p "enabled" (.bool true)).1
      (savePort { st with store := store1 } id p, .ok)
  | .patch id attrs =>
    match st.hub.ports id with
    | none => (st, .err .noSuchPort)
    | some p =>
      if ¬ validPatch p attrs then (st, .err .invalidRequest)
      else
        let (p1, ok) := applyFields cfg p attrs
        if ok then (savePort st id p1, .ok)
        else if cfg.saveOnError then (savePort st id p1, .err .invalidField)
        else ({ st with hub := { st.hub with ports := upd st.hub.ports id (some p1) } }, .err .invalidField)
  | .del id =>
    match st.hub.ports id with
    | none => (st, .err .noSuchPort)
    | some p =>
      if ¬ p.pdef.virtual then (st, .err .notRemovable)
      else
        ({ st with hub := { st.hub with ports := upd st.hub.ports id none },
                   store := { st.store with ports := upd st.store.ports id none,
                                            vports := upd st.store.vports id none } }, .ok)
  | .valueChange id v =>
    match st.hub.ports id with
    | none => (st, .err .noSuchPort)
    | some p =>
      -- handle_value_changes: the new value becomes the last read value; a persisted port is marked for saving
      let p' := { p with value := v, pendingSave := p.pendingSave || persistedOf p }
      ({ st with hub := { st.hub with ports := upd st.hub.ports id (some p') } }, .ok)
  | .saveTick =>
    ({ st with
        hub := { st.hub with ports := (fun id => (st.hub.ports id).map (fun p => { p with pendingSave := false })) },
        store := { st.store with ports := (fun id =>
          match st.hub.ports id with
          | some p => if p.pendingSave then some (prepareForSave { p with pendingSave := false }) else st.store.ports id
          | none => st.store.ports id) } }, .ok)
  | .patchDev d =>
    let dev := st.hub.device
    let dev := { dev with name := d.name.getD dev.name, displayName := d.displayName.getD dev.displayName,
                          adminHash := (d.adminPw.map cfg.hash).getD dev.adminHash,
                          normalHash := (d.normalPw.map cfg.hash).getD dev.normalHash,
                          viewonlyHash := (d.viewonlyPw.map cfg.hash).getD dev.viewonlyHash }
    ({ st with hub := { st.hub with device := dev }, store := { st.store with device := some (saveDevice dev) } }, .ok)
  | .putDev name displayName =>
    -- reset + load: the record is gone from the store, the attributes are back at their defaults, the hashes are kept
    let st1 : State := { st with hub := { st.hub with device := resetDevice cfg st.hub.device },
                                 store := { st.store with device := none } }
    -- set_attrs(params, ignore_extra=True), then device.save()
    let dev := { st1.hub.device with name := name.getD st1.hub.device.name,
                                     displayName := displayName.getD st1.hub.device.displayName }
    ({ st1 with hub := { st1.hub with device := dev }, store := { st1.store with device := some (saveDevice dev) } }, .ok)
  | .putSlaves l =>
    let m : String → Option Slave := fun n => (l.reverse.find? (fun a => a.1 = n)).map (·.2)
    ({ st with hub := { st.hub with slaves := m }, store := { st.store with slaves := m } }, .ok)
  | .delSlave n =>
    match st.hub.slaves n with
    | none => (st, .err .noSuchDevice)
    | some _ =>
      ({ st with hub := { st.hub with slaves := upd st.hub.slaves n none },
                 store := { st.store with slaves := upd st.store.slaves n none } }, .ok)
  | .patchSlave n poll listen =>
    match st.hub.slaves n with
    | none => (st, .err .noSuchDevice)
    | some s =>
      let s' := { s with pollInterval := poll.getD s.pollInterval, listenEnabled := listen.getD s.listenEnabled }
      ({ st with hub := { st.hub with slaves := upd st.hub.slaves n (some s') },
                 store := { st.store with slaves := upd st.store.slaves n (some s') } }, .ok)
  | .fwdSlave n attrs =>
    match st.hub.slaves n with
    | none => (st, .err .noSuchDevice)
    | some s =>
      let s' := { s with attrs := setFields s.attrs attrs,
                         provAttrs := attrs.foldl (fun acc a => if acc.contains a.1 then acc else acc ++ [a.1]) s.provAttrs }
      ({ st with hub := { st.hub with slaves := upd st.hub.slaves n (some s') },
                 store := { st.store with slaves := upd st.store.slaves n (some s') } }, .ok)
  | .restart => (boot cfg st.store, .ok)

def run (cfg : Cfg) (st : State) : List Op → State
  | [] => st
  | o :: r => run cfg (step cfg st o).1 r

/-- first start on an empty store -/
def init (cfg : Cfg) : State := boot cfg Store.empty

/-! ### the first read after a load -/

/-- What the first polling pass after a start reports as the value of port `p` as `load_from_data` left it, for a
register-like driver (`read_value` returns what `write_value` stored: `core/vports.py` VirtualPort): a persisted,
enabled, writable port whose stored value `v` went to the driver through the write transform reads that driver value
back through the READ transform (`read_transformed_value`) — `read(write(v))`, which is `v` exactly when the two
transforms are inverse on `v`. Every other port keeps reporting the loaded value (disabled ports are not read; for the
others the load did not touch the driver). -/
def firstRead (cfg : Cfg) (p : Port) : Option PVal :=
  match p.value with
  | none => none
  | some v =>
    if persistedOf p && enabledOf p && p.pdef.writable then
      match loadWrites cfg p v with
      | [some w] => readXform cfg p (some w)
      | _ => some v
    else some v

end QtVerif.Config
