import QtVerif.Proofs.CalendarZone
/-!
C17: the regularity hypotheses of the zone theorems are decidable on a zone given by a transition table, and the
decision procedures of the model (`regularAtTable`, `boundedTable`, run by the driver on the tables extracted from
the tz database) are sound. This ties the hypotheses `Zone.Bounded` / `Zone.RegularAt` to the data the check uses.
-/
namespace QtVerif.Calendar

abbrev Incr (tr : List (Int × Int)) : Prop := tr.Pairwise (fun p q => p.1 < q.1)

theorem increasing_sound : ∀ tr : List (Int × Int), increasing tr = true → Incr tr
  | [], _ => List.Pairwise.nil
  | [_], _ => List.pairwise_singleton _ _
  | (a, oa) :: (b, o) :: rest, h => by
    simp only [increasing, Bool.and_eq_true, decide_eq_true_eq] at h
    have ih := increasing_sound ((b, o) :: rest) h.2
    refine List.Pairwise.cons ?_ ih
    intro q hq
    rcases List.mem_cons.1 hq with rfl | hq
    · exact h.1
    · have := (List.pairwise_cons.1 ih).1 q hq
      simp only at this ⊢; omega

/-- Transitions after `x` do not matter at `x`. -/
theorem tableOff_all_gt (o : Int) (l : List (Int × Int)) (x : Int) (h : ∀ p ∈ l, x < p.1) : tableOff o l x = o := by
  cases l with
  | nil => rfl
  | cons p r => obtain ⟨t, o'⟩ := p; simp only [tableOff]; rw [if_pos (h (t, o') (List.mem_cons_self ..))]

theorem filter_all_gt (l : List (Int × Int)) (L R : Int) (h : ∀ p ∈ l, R < p.1) :
    l.filter (fun p => decide (L < p.1 ∧ p.1 ≤ R)) = [] := by
  rw [List.filter_eq_nil_iff]
  intro p hp
  have := h p hp
  simp only [decide_eq_true_eq]; omega

/-- Lemma B: once all transitions are after `L`, only those up to `R` matter for `x ≤ R`. -/
theorem tableOff_filter_le (l : List (Int × Int)) (o L R x : Int) (hs : Incr l) (hl : ∀ p ∈ l, L < p.1) (hx : x ≤ R) :
    tableOff o l x = tableOff o (l.filter (fun p => decide (L < p.1 ∧ p.1 ≤ R))) x := by
  induction l generalizing o with
  | nil => rfl
  | cons p r ih =>
    obtain ⟨t, o'⟩ := p
    have hp := List.pairwise_cons.1 hs
    have hL : L < t := hl (t, o') (List.mem_cons_self ..)
    by_cases hR : t ≤ R
    · rw [List.filter_cons_of_pos (by simp only [decide_eq_true_eq]; omega)]
      simp only [tableOff]
      rw [ih o' hp.2 (fun q hq => hl q (List.mem_cons_of_mem _ hq))]
    · have hgt : ∀ q ∈ r, R < q.1 := fun q hq => by have := hp.1 q hq; simp only at this; omega
      rw [List.filter_cons_of_neg (by simp only [decide_eq_true_eq]; omega), filter_all_gt r L R hgt]
      simp only [tableOff]
      rw [if_pos (by omega)]

/-- Inside the window `[L, R]` the table acts like the offset at `L` followed by the transitions in `(L, R]`. -/
theorem tableOff_window (tr : List (Int × Int)) (base L R x : Int) (hs : Incr tr) (h1 : L ≤ x) (h2 : x ≤ R) :
    tableOff base tr x =
      tableOff (tableOff base tr L) (tr.filter (fun p => decide (L < p.1 ∧ p.1 ≤ R))) x := by
  induction tr generalizing base with
  | nil => rfl
  | cons p r ih =>
    obtain ⟨t, o⟩ := p
    have hp := List.pairwise_cons.1 hs
    by_cases hL : L < t
    · have hall : ∀ q ∈ (t, o) :: r, L < q.1 := by
        intro q hq
        rcases List.mem_cons.1 hq with rfl | hq
        · exact hL
        · have := hp.1 q hq; simp only at this; omega
      have ea : tableOff base ((t, o) :: r) L = base := by simp only [tableOff]; rw [if_pos hL]
      rw [ea]
      exact tableOff_filter_le _ base L R x hs hall h2
    · have ea : tableOff base ((t, o) :: r) L = tableOff o r L := by simp only [tableOff]; rw [if_neg hL]
      rw [ea, List.filter_cons_of_neg (by simp only [decide_eq_true_eq]; omega)]
      simp only [tableOff]
      rw [if_neg (by omega)]
      exact ih o hp.2

/-- **Soundness of the regularity check** on increasing tables. -/
theorem regularAtTable_sound (base : Int) (tr : List (Int × Int)) (P : Int) (hs : Incr tr)
    (h : regularAtTable base tr P = true) : (Zone.table base tr).RegularAt P := by
  unfold regularAtTable at h
  simp only at h
  have hw := fun x h1 h2 => tableOff_window tr base (P - W) (P + W) x hs h1 h2
  split at h
  · rename_i e
    simp only [decide_eq_true_eq] at h
    refine ⟨0, _, _, ⟨h, h, by omega, fun x h1 h2 => ?_⟩, by omega, by omega⟩
    show tableOff base tr x = _
    rw [hw x h1 h2, e]; simp [tableOff]
  · rename_i T b e
    simp only [decide_eq_true_eq] at h
    refine ⟨T, _, b, ⟨h.1, h.2.1, h.2.2.1, fun x h1 h2 => ?_⟩, h.2.2.2.1, h.2.2.2.2⟩
    show tableOff base tr x = _
    rw [hw x h1 h2, e]; simp [tableOff]
  · cases h

/-- `RegularAt` only depends on the offsets inside the window. -/
theorem regularAt_congr (Z Z' : Zone) (P : Int) (h : ∀ x, P - W ≤ x → x ≤ P + W → Z'.off x = Z.off x)
    (hr : Z.RegularAt P) : Z'.RegularAt P := by
  obtain ⟨T, a, b, hn, h1, h2⟩ := hr
  exact ⟨T, a, b, ⟨hn.ha, hn.hb, hn.hj, fun x hx1 hx2 => (h x hx1 hx2).trans (hn.near x hx1 hx2)⟩, h1, h2⟩

/-- Offset in force after all transitions of `pre`. -/
def offAfter (base : Int) (pre : List (Int × Int)) : Int :=
  match pre.getLast? with
  | none => base
  | some p => p.2

theorem offAfter_cons (base : Int) (p : Int × Int) (pre : List (Int × Int)) :
    offAfter base (p :: pre) = offAfter p.2 pre := by
  cases pre with
  | nil => simp [offAfter]
  | cons q r =>
    simp only [offAfter, List.getLast?_cons_cons]
    cases hq : (q :: r).getLast? with
    | none => exact absurd (List.getLast?_eq_none_iff.1 hq) (List.cons_ne_nil _ _)
    | some v => rfl

/-- Transitions at or before `x` can be replaced by the offset they leave behind. -/
theorem tableOff_append_le (base : Int) (pre suf : List (Int × Int)) (x : Int) (h : ∀ p ∈ pre, p.1 ≤ x) :
    tableOff base (pre ++ suf) x = tableOff (offAfter base pre) suf x := by
  induction pre generalizing base with
  | nil => simp [offAfter]
  | cons p r ih =>
    obtain ⟨t, o⟩ := p
    have ht : t ≤ x := h (t, o) (List.mem_cons_self ..)
    rw [offAfter_cons]
    simp only [List.cons_append, tableOff]
    rw [if_neg (by omega)]
    exact ih o (fun q hq => h q (List.mem_cons_of_mem _ hq))

/-- Transitions after `x` at the end of the table can be dropped. -/
theorem tableOff_append_gt (o : Int) (l rest : List (Int × Int)) (x : Int) (h : ∀ p ∈ rest, x < p.1) :
    tableOff o (l ++ rest) x = tableOff o l x := by
  induction l generalizing o with
  | nil => simpa [tableOff] using tableOff_all_gt o rest x h
  | cons p r ih =>
    obtain ⟨t, o'⟩ := p
    simp only [List.cons_append, tableOff]
    rw [ih o']

theorem incr_last_le (pre : List (Int × Int)) (q : Int × Int) (hs : Incr pre) (hq : pre.getLast? = some q) :
    ∀ p ∈ pre, p.1 ≤ q.1 := by
  intro p hp
  obtain ⟨ys, e⟩ := List.getLast?_eq_some_iff.1 hq
  rw [e] at hs hp
  rcases List.mem_append.1 hp with h | h
  · have := (List.pairwise_append.1 hs).2.2 p h q (List.mem_singleton.2 rfl)
    omega
  · rw [List.mem_singleton.1 h]; omega

/-- **Soundness of the split regularity check**, for every split point. -/
theorem regularAtSplit_sound (base : Int) (pre suf : List (Int × Int)) (P : Int) (hs : Incr (pre ++ suf))
    (h : regularAtSplit base pre suf P = true) : (Zone.table base (pre ++ suf)).RegularAt P := by
  unfold regularAtSplit at h
  simp only [Bool.and_eq_true] at h
  obtain ⟨hok, hreg⟩ := h
  have hsp := List.pairwise_append.1 hs
  have hpre : ∀ p ∈ pre, p.1 ≤ P - W := by
    cases hq : pre.getLast? with
    | none =>
      have : pre = [] := List.getLast?_eq_none_iff.1 hq
      intro p hp; rw [this] at hp; cases hp
    | some q =>
      rw [hq] at hok
      simp only [decide_eq_true_eq] at hok
      intro p hp
      have := incr_last_le pre q hsp.1 hq p hp
      omega
  -- the entries of `suf` beyond the window end
  have hsplit := List.takeWhile_append_dropWhile (p := fun p : Int × Int => decide (p.1 ≤ P + W)) (l := suf)
  have hrest : ∀ p ∈ suf.dropWhile (fun p => decide (p.1 ≤ P + W)), P + W < p.1 := by
    intro p hp
    cases hd : suf.dropWhile (fun p => decide (p.1 ≤ P + W)) with
    | nil => rw [hd] at hp; cases hp
    | cons q r =>
      have hq : ¬ (decide (q.1 ≤ P + W) = true) := by
        have := List.head_dropWhile_not (fun p : Int × Int => decide (p.1 ≤ P + W)) (l := suf)
          (by rw [hd]; exact List.cons_ne_nil _ _)
        simp only [hd, List.head_cons] at this
        rw [this]; exact Bool.false_ne_true
      simp only [decide_eq_true_eq] at hq
      have hsd : Incr (q :: r) := by
        rw [← hd]; exact hsp.2.1.sublist (List.dropWhile_sublist _)
      rw [hd] at hp
      rcases List.mem_cons.1 hp with rfl | hp
      · omega
      · have := (List.pairwise_cons.1 hsd).1 p hp; omega
  have htw : Incr (suf.takeWhile (fun p => decide (p.1 ≤ P + W))) := hsp.2.1.sublist (List.takeWhile_sublist _)
  have hr := regularAtTable_sound _ _ P htw hreg
  refine regularAt_congr _ _ P (fun x h1 h2 => ?_) hr
  show tableOff base (pre ++ suf) x = tableOff _ (suf.takeWhile _) x
  rw [tableOff_append_le base pre suf x (fun p hp => by have := hpre p hp; omega)]
  conv => lhs; rw [← hsplit]
  rw [tableOff_append_gt _ _ _ x (fun p hp => by have := hrest p hp; omega)]
  rfl

theorem tableOff_mem (base : Int) (tr : List (Int × Int)) (x : Int) :
    tableOff base tr x = base ∨ ∃ p ∈ tr, tableOff base tr x = p.2 := by
  induction tr generalizing base with
  | nil => left; rfl
  | cons p r ih =>
    obtain ⟨t, o⟩ := p
    simp only [tableOff]
    split
    · left; rfl
    · right
      rcases ih o with h | ⟨q, hq, h⟩
      · exact ⟨(t, o), List.mem_cons_self .., h⟩
      · exact ⟨q, List.mem_cons_of_mem _ hq, h⟩

/-- **Soundness of the boundedness check.** -/
theorem boundedTable_sound (base : Int) (tr : List (Int × Int)) (h : boundedTable base tr = true) :
    (Zone.table base tr).Bounded := by
  simp only [boundedTable, Bool.and_eq_true, decide_eq_true_eq, List.all_eq_true] at h
  intro x
  show -86400 < tableOff base tr x ∧ tableOff base tr x < 86400
  rcases tableOff_mem base tr x with e | ⟨p, hp, e⟩
  · rw [e]; exact h.1
  · rw [e]; exact h.2 p hp

end QtVerif.Calendar
