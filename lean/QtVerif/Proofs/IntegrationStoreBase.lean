import QtVerif.Model.Config
import QtVerif.Proofs.StoreCodec
/-!
Integration C07 × C06 — base definitions: how a Config-model string becomes a C06 string, and what a record codec
(Config record ↦ C06 `Fields`, and back) has to satisfy. Core Lean only.
-/
namespace QtVerif.IntegrationStore
open QtVerif.Store

/-- a `String` of the Config model as the C06 model sees it: the list of its code points -/
def strOf (s : String) : Str := s.toList.map Char.toNat

/-- A record codec: `enc` gives the FIELDS of the record as the hub hands them to `persist.replace` (without "id": the
persistence API adds it), `dec` reads a record that a driver returned (with its "id", wherever the driver put it). -/
structure Codec (ρ : Type) where
  enc : ρ → Fields
  dec : Fields → Option ρ

/-- What the composition needs of a codec: decoding what was encoded gives the record back, with the id in front (JSON
driver, reference store) or at the end (Redis driver, `normRec`); the encoded dict has distinct keys, none of them
"id", and its values are inside C06's codec domain `WF` for every float/date environment. -/
structure Codec.Lawful {ρ : Type} (c : Codec ρ) : Prop where
  dec_front : ∀ (i : Str) (r : ρ), c.dec ((kId, .str i) :: c.enc r) = some r
  dec_back : ∀ (i : Str) (r : ρ), c.dec (c.enc r ++ [(kId, .str i)]) = some r
  nodup : ∀ r, (dkeys (c.enc r)).Nodup
  noId : ∀ r, kId ∉ dkeys (c.enc r)
  wf : ∀ (ft : FloatText) (r : ρ), ∀ kv ∈ c.enc r, WF ft kv.2

end QtVerif.IntegrationStore
