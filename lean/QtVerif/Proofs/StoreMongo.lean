import QtVerif.Proofs.StoreInv
/-!
Helper lemmas for C06, part 6: the Mongo driver's identifier mapping (`_id_to_db` / `_id_from_db`).
-/
namespace QtVerif.Store
open Mongo

theorem hexDigit_hexVal_lower (c : Nat) (h : isLowerHex c = true) : ∃ d, hexVal c = some d ∧ d < 16 ∧ hexDigit d = c := by
  simp only [isLowerHex, Bool.or_eq_true, Bool.and_eq_true, decide_eq_true_eq] at h
  unfold hexVal hexDigit
  rcases h with h | h
  · refine ⟨c - 48, by simp [h], by omega, ?_⟩
    have : c - 48 < 10 := by omega
    simp [this]; omega
  · have h1 : ¬ (48 ≤ c ∧ c ≤ 57) := by omega
    refine ⟨c - 87, by simp [h1, h], by omega, ?_⟩
    have : ¬ c - 87 < 10 := by omega
    simp [this]; omega

/-- hex → bytes → lower-case hex is the identity on an even number of lower-case hex digits -/
theorem bytesHex_hexBytes : ∀ (n : Nat) (s : Str), s.length = 2 * n → s.all isLowerHex = true →
    ∃ b, hexBytes s = some b ∧ bytesHex b = s ∧ b.length = n := by
  intro n
  induction n with
  | zero => intro s hl _; cases s with
    | nil => exact ⟨[], rfl, rfl, rfl⟩
    | cons a t => simp at hl
  | succ n ih =>
    intro s hl hall
    match s, hl, hall with
    | a :: b :: t, hl, hall =>
      simp only [List.all_cons, Bool.and_eq_true] at hall
      obtain ⟨x, hx, hx16, hxd⟩ := hexDigit_hexVal_lower a hall.1
      obtain ⟨y, hy, hy16, hyd⟩ := hexDigit_hexVal_lower b hall.2.1
      obtain ⟨r, hr, hrb, hrl⟩ := ih t (by simp at hl; omega) hall.2.2
      refine ⟨(x * 16 + y) :: r, by simp [hexBytes, hx, hy, hr], ?_, by simp [hrl]⟩
      have e1 : (x * 16 + y) / 16 % 16 = x := by omega
      have e2 : (x * 16 + y) % 16 = y := by omega
      simp only [bytesHex, e1, e2, hxd, hyd, hrb]
    | [], hl, _ => simp at hl
    | [_], hl, _ => simp at hl; omega

theorem idToDb_roundtrip (s : Str) : ∃ d, idToDb Fix.repaired s = some d ∧ idFromDb d = s := by
  unfold idToDb
  by_cases ho : isOidText Fix.repaired s = true
  · rw [if_pos ho]
    simp only [isOidText, Fix.repaired, Bool.not_true, Bool.false_and, Bool.or_false, Bool.and_eq_true, beq_iff_eq] at ho
    obtain ⟨b, hb, hbs, _⟩ := bytesHex_hexBytes 12 s (by omega) ho.2
    exact ⟨.oid b, by simp [ho.1, hb], hbs⟩
  · rw [if_neg ho]; exact ⟨.str s, rfl, rfl⟩

theorem idToDb_injective (s t : Str) (d : DbId) (hs : idToDb Fix.repaired s = some d) (ht : idToDb Fix.repaired t = some d) :
    s = t := by
  have key : ∀ u e, idToDb Fix.repaired u = some e → idFromDb e = u := by
    intro u e hu
    obtain ⟨e', he', hb⟩ := idToDb_roundtrip u
    rw [hu] at he'; injection he' with he'; rw [he']; exact hb
  rw [← key s d hs, ← key t d ht]

/-- a variant of `_id_to_db` whose ObjectId test accepts hex digits of either case (as `bson.ObjectId.is_valid`
does); only used to show why the test has to be case-sensitive -/
def idToDbLoose (s : Str) : Option DbId :=
  if s.length = 24 ∧ (s.all fun c => (hexVal c).isSome) = true then (hexBytes s).map .oid else some (.str s)

end QtVerif.Store
