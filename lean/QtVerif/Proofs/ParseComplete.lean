import QtVerif.Proofs.ParseScan
/-! Completeness of the parser model for the grammar (`Derives env e s → parseFuel … s = ok e`). Helper lemmas for
C03. -/
set_option linter.unusedSimpArgs false
namespace QtVerif.Parse
open QtVerif.Syntax
def headSpecial (s : List Char) : Bool :=
  match s with
  | c :: _ => c == '$' || c == '@'
  | [] => false

theorem parseFuel_succ (env : Env) (n pos0 : Nat) (s0 : List Char) :
    parseFuel env (n + 1) pos0 s0 =
      if headSpecial (trim s0) then parsePort (pos0 + lead s0) (trim s0)
      else if hasParen (trim s0) then
        parseCall env (fun p a => parseFuel env n p a) (pos0 + lead s0) (trim s0)
      else parseLiteral env (pos0 + lead s0) (trim s0) := by
  simp only [parseFuel, headSpecial]
  generalize trim s0 = t
  cases t <;> rfl

theorem tight_of_noSpace {s : List Char} (h : ∀ c ∈ s, isSpace c = false) : Tight s := by
  constructor
  · intro c hc; exact h c (List.mem_of_mem_head? hc)
  · intro c hc; exact h c (List.mem_of_getLast? hc)

theorem hasParen_false {s : List Char} (h : ∀ c ∈ s, isSpecial c = false) : hasParen s = false := by
  simp only [hasParen, Bool.or_eq_false_iff]
  constructor
  · cases hc : s.contains '(' with
    | false => rfl
    | true => have := h '(' (by simpa using hc); revert this; decide
  · cases hc : s.contains ')' with
    | false => rfl
    | true => have := h ')' (by simpa using hc); revert this; decide

theorem headSpecial_false {s : List Char} (h : ∀ c, s.head? = some c → isSpecial c = false) :
    headSpecial s = false := by
  cases s with
  | nil => rfl
  | cons c r =>
    have := h c rfl
    simp only [isSpecial, Bool.or_eq_false_iff] at this
    simp [headSpecial, this]

theorem plain_space {c : Char} (h : isPlain c = true) : isSpace c = false := ((plain_iff c).mp h).1
theorem plain_special {c : Char} (h : isPlain c = true) : isSpecial c = false := ((plain_iff c).mp h).2

theorem parseLiteral_ok (env : Env) (pos : Nat) {t : List Char} (h : LitText env t) :
    parseLiteral env pos t = .ok (.lit (String.ofList t)) := by
  have hp := literal_plain env h.2
  have ht : trim t = t := trim_tight (tight_of_noSpace (fun c hc => plain_space (hp c hc)))
  simp only [parseLiteral, ht]
  have : t.isEmpty = false := by cases t with | nil => exact absurd rfl h.1 | cons _ _ => rfl
  simp [this, h.2]

theorem complete_lit (env : Env) (n pos : Nat) {t ws1 ws2 : List Char} (h1 : AllSpace ws1) (h2 : AllSpace ws2)
    (h : LitText env t) : parseFuel env (n + 1) pos (ws1 ++ t ++ ws2) = .ok (.lit (String.ofList t)) := by
  have hp := literal_plain env h.2
  have ht : Tight t := tight_of_noSpace (fun c hc => plain_space (hp c hc))
  rw [parseFuel_succ, trim_wrap h1 h2 ht,
    headSpecial_false (fun c hc => plain_special (hp c (List.mem_of_mem_head? hc))),
    hasParen_false (fun c hc => plain_special (hp c hc))]
  simp [parseLiteral_ok env _ h]

theorem firstNot_none {p : Char → Bool} {s : List Char} (h : ∀ c ∈ s, p c = true) (i : Nat) :
    firstNot p s i = none := by
  induction s generalizing i with
  | nil => rfl
  | cons c r ih =>
    simp only [firstNot, h c List.mem_cons_self, if_true]
    exact ih (fun d hd => h d (List.mem_cons_of_mem _ hd)) _

theorem firstNot_none_all {p : Char → Bool} {s : List Char} {i : Nat} (h : firstNot p s i = none) :
    ∀ c ∈ s, p c = true := by
  induction s generalizing i with
  | nil => intro c hc; cases hc
  | cons a r ih =>
    cases hp : p a with
    | false => simp [firstNot, hp] at h
    | true =>
      simp [firstNot, hp] at h
      intro c hc
      rcases List.mem_cons.mp hc with rfl | hc
      · exact hp
      · exact ih h c hc

theorem complete_port (env : Env) (n pos : Nat) {id ws1 ws2 : List Char} (h1 : AllSpace ws1) (h2 : AllSpace ws2)
    (h : IdText id) (pfx : Char) (hpfx : pfx = '$' ∨ pfx = '@') :
    parseFuel env (n + 1) pos (ws1 ++ pfx :: id ++ ws2) =
      .ok (if pfx == '$' then .portVal (String.ofList id) else .portRef (String.ofList id)) := by
  have hns : ∀ c ∈ pfx :: id, isSpace c = false := by
    intro c hc
    rcases List.mem_cons.mp hc with rfl | hc
    · rcases hpfx with rfl | rfl <;> decide
    · exact idChar_not_space (h.2 c hc)
  have ht : Tight (pfx :: id) := tight_of_noSpace hns
  have hs : headSpecial (pfx :: id) = true := by rcases hpfx with rfl | rfl <;> rfl
  rw [parseFuel_succ, trim_wrap h1 h2 ht, hs]
  simp only [if_true, parsePort, trim_tight ht]
  have : id.isEmpty = false := by cases id with | nil => exact absurd rfl h.1 | cons _ _ => rfl
  simp [this, firstNot_none h.2]
  rcases hpfx with rfl | rfl <;> simp

theorem complete_self (env : Env) (n pos : Nat) {ws1 ws2 : List Char} (h1 : AllSpace ws1) (h2 : AllSpace ws2)
    (pfx : Char) (hpfx : pfx = '$' ∨ pfx = '@') :
    parseFuel env (n + 1) pos (ws1 ++ [pfx] ++ ws2) = .ok (if pfx == '$' then .selfVal else .selfRef) := by
  have ht : Tight [pfx] := tight_of_noSpace (by
    intro c hc; simp at hc; subst hc; rcases hpfx with rfl | rfl <;> decide)
  have hs : headSpecial [pfx] = true := by rcases hpfx with rfl | rfl <;> rfl
  rw [parseFuel_succ, trim_wrap h1 h2 ht, hs]
  simp only [if_true, parsePort, trim_tight ht]
  rcases hpfx with rfl | rfl <;> simp

/-! ### argument lists -/

/-- element-wise relation between two lists of the same length -/
inductive All2 {α β : Type} (R : α → β → Prop) : List α → List β → Prop
  | nil : All2 R [] []
  | cons {a : α} {b : β} {l1 : List α} {l2 : List β} : R a b → All2 R l1 l2 → All2 R (a :: l1) (b :: l2)

theorem dargs_texts (env : Env) : ∀ (args : List Expr) (body : List Char), DArgs env args body →
    ∃ ts, body = joinC ts ∧ All2 (fun e t => Derives env e t) args ts := by
  intro args
  induction args with
  | nil => intro body h; rw [DArgs] at h; exact ⟨[], by simp [h, joinC], All2.nil⟩
  | cons e r ih =>
    intro body h
    cases r with
    | nil =>
      rw [DArgs] at h
      exact ⟨[body], by simp [joinC], All2.cons h All2.nil⟩
    | cons e' es =>
      rw [DArgs] at h
      obtain ⟨s1, body', hb, hd, hr⟩ := h
      obtain ⟨ts, hts, hf⟩ := ih body' hr
      cases ts with
      | nil => cases hf
      | cons t' ts' =>
        exact ⟨s1 :: t' :: ts', by simp [joinC, hb, hts], All2.cons hd hf⟩

theorem dargs_of_texts (env : Env) : ∀ (args : List Expr) (ts : List (List Char)),
    All2 (fun e t => Derives env e t) args ts → DArgs env args (joinC ts) := by
  intro args
  induction args with
  | nil => intro ts h; cases h; rw [DArgs]; rfl
  | cons e r ih =>
    intro ts h
    cases h with
    | cons hd hr =>
      rename_i t ts'
      cases r with
      | nil => cases hr; rw [DArgs]; exact hd
      | cons e' es =>
        cases hr with
        | cons hd' hr' =>
          rename_i t' ts''
          rw [DArgs]
          exact ⟨t, joinC (t' :: ts''), by simp [joinC], hd, ih _ (All2.cons hd' hr')⟩

theorem mapArgs_of_forall2 (f : Nat → List Char → Except Err Expr) :
    ∀ (sargs : List (List Char × Nat)) (args : List Expr),
    All2 (fun a e => f a.2 a.1 = .ok e) sargs args → mapArgs f sargs = .ok args := by
  intro sargs args h
  induction h with
  | nil => rfl
  | @cons a e sargs' args' h1 _ ih =>
    rcases a with ⟨a, sp⟩
    simp only [mapArgs]
    simp only at h1
    rw [h1]; simp only; rw [ih]

theorem forall2_of_mapArgs (f : Nat → List Char → Except Err Expr) :
    ∀ (sargs : List (List Char × Nat)) (args : List Expr),
    mapArgs f sargs = .ok args → All2 (fun a e => f a.2 a.1 = .ok e) sargs args := by
  intro sargs
  induction sargs with
  | nil => intro args h; simp [mapArgs] at h; subst h; exact All2.nil
  | cons a r ih =>
    intro args h
    rcases a with ⟨a, sp⟩
    simp only [mapArgs] at h
    cases h1 : f sp a with
    | error e => rw [h1] at h; cases h
    | ok x =>
      rw [h1] at h; simp only at h
      cases h2 : mapArgs f r with
      | error e => rw [h2] at h; cases h
      | ok xs =>
        rw [h2] at h; simp only at h
        cases h
        exact All2.cons h1 (ih xs h2)

/-! ### texts of the grammar are tight, balanced and comma-protected -/

theorem nameChar_not_space {c : Char} (h : isNameChar c = true) : isSpace c = false :=
  idChar_not_space (nameChar_idChar h)
theorem nameChar_not_special {c : Char} (h : isNameChar c = true) : isSpecial c = false :=
  idChar_not_special (nameChar_idChar h)

theorem core_tight (env : Env) {e : Expr} {core : List Char} (h : Core env e core) : Tight core ∧ core ≠ [] := by
  cases e with
  | lit t =>
    rw [Core] at h
    have hp := literal_plain env h.2.2
    exact ⟨tight_of_noSpace (fun c hc => plain_space (hp c hc)), h.2.1⟩
  | portVal id =>
    rw [Core] at h
    obtain ⟨rfl, hid⟩ := h
    refine ⟨tight_of_noSpace ?_, by simp⟩
    intro c hc
    rcases List.mem_cons.mp hc with rfl | hc
    · decide
    · exact idChar_not_space (hid.2 c hc)
  | selfVal => rw [Core] at h; subst h; exact ⟨tight_of_noSpace (by decide), by simp⟩
  | portRef id =>
    rw [Core] at h
    obtain ⟨rfl, hid⟩ := h
    refine ⟨tight_of_noSpace ?_, by simp⟩
    intro c hc
    rcases List.mem_cons.mp hc with rfl | hc
    · decide
    · exact idChar_not_space (hid.2 c hc)
  | selfRef => rw [Core] at h; subst h; exact ⟨tight_of_noSpace (by decide), by simp⟩
  | call n args =>
    rw [Core] at h
    obtain ⟨f, fname, ws, body, rfl, hn, hws, hfw, -⟩ := h
    refine ⟨⟨?_, ?_⟩, by simp⟩
    · intro c hc
      cases fname with
      | nil =>
        rw [hfw rfl] at hc
        simp at hc; subst hc; decide
      | cons a r =>
        simp at hc; subst hc
        exact nameChar_not_space (hn _ List.mem_cons_self)
    · intro c hc
      have : (fname ++ ws ++ '(' :: body ++ [')']).getLast? = some ')' := by
        have h0 : ∀ l : List Char, (l ++ [')']).getLast? = some ')' := fun l => by simp
        simpa using h0 (fname ++ ws ++ '(' :: body)
      rw [this] at hc; cases hc; decide

theorem derives_trim (env : Env) {e : Expr} {s : List Char} (h : Derives env e s) : trim s ≠ [] := by
  obtain ⟨ws1, core, ws2, rfl, h1, h2, hc⟩ := h
  have := core_tight env hc
  rw [trim_wrap h1 h2 this.1]; exact this.2

theorem bal_of_noPC (b : Bool) {w : List Char} (h : ∀ c ∈ w, c ≠ '(' ∧ c ≠ ')' ∧ c ≠ ',') : Bal b w := by
  induction w with
  | nil => exact Bal.nil b
  | cons c r ih =>
    have hc := h c List.mem_cons_self
    exact Bal.plain b c r hc.1 hc.2.1 hc.2.2 (ih (fun d hd => h d (List.mem_cons_of_mem _ hd)))

theorem noPC_of_not_special {c : Char} (h : isSpecial c = false) : c ≠ '(' ∧ c ≠ ')' ∧ c ≠ ',' := by
  refine ⟨?_, ?_, ?_⟩ <;> (intro hc; subst hc; revert h; decide)

theorem bal_allSpace (b : Bool) {ws : List Char} (h : AllSpace ws) : Bal b ws :=
  bal_of_noPC b (fun c hc => noPC_of_not_special (space_not_special (h c hc)))

theorem bal_joinC {ts : List (List Char)} (h : ∀ t ∈ ts, Bal false t) : Bal true (joinC ts) := by
  induction ts with
  | nil => exact Bal.nil _
  | cons t r ih =>
    cases r with
    | nil => simpa [joinC] using (h t List.mem_cons_self).weaken
    | cons t' r' =>
      simp only [joinC]
      exact Bal.append (h t List.mem_cons_self).weaken
        (Bal.comma _ (ih (fun x hx => h x (List.mem_cons_of_mem _ hx))))

theorem mem_joinC_length {ts : List (List Char)} {t : List Char} (h : t ∈ ts) : t.length ≤ (joinC ts).length := by
  induction ts with
  | nil => cases h
  | cons a r ih =>
    cases r with
    | nil => simp at h; subst h; simp [joinC]
    | cons b r' =>
      simp only [joinC, List.length_append, List.length_cons]
      rcases List.mem_cons.mp h with rfl | h
      · omega
      · have := ih h; omega

theorem forall2_right_mem {α β : Type} {R : α → β → Prop} {l1 : List α} {l2 : List β}
    (h : All2 R l1 l2) : ∀ b ∈ l2, ∃ a ∈ l1, R a b := by
  induction h with
  | nil => intro b hb; cases hb
  | cons h1 _ ih =>
    intro b hb
    rcases List.mem_cons.mp hb with rfl | hb
    · exact ⟨_, List.mem_cons_self, h1⟩
    · obtain ⟨a, ha, hr⟩ := ih b hb
      exact ⟨a, List.mem_cons_of_mem _ ha, hr⟩

theorem derives_bal (env : Env) : ∀ (n : Nat) (e : Expr) (s : List Char), s.length < n → Derives env e s →
    Bal false s := by
  intro n
  induction n with
  | zero => intro e s h; omega
  | succ n ih =>
    intro e s hlen h
    obtain ⟨ws1, core, ws2, rfl, h1, h2, hc⟩ := h
    refine Bal.append (Bal.append (bal_allSpace _ h1) ?_) (bal_allSpace _ h2)
    cases e with
    | lit t =>
      rw [Core] at hc
      exact bal_of_noPC _ (fun c hcm => noPC_of_not_special (plain_special (literal_plain env hc.2.2 c hcm)))
    | portVal id =>
      rw [Core] at hc; obtain ⟨rfl, hid⟩ := hc
      exact Bal.plain _ _ _ (by decide) (by decide) (by decide)
        (bal_of_noPC _ (fun c hcm => noPC_of_not_special (idChar_not_special (hid.2 c hcm))))
    | selfVal => rw [Core] at hc; subst hc; exact bal_of_noPC _ (by decide)
    | portRef id =>
      rw [Core] at hc; obtain ⟨rfl, hid⟩ := hc
      exact Bal.plain _ _ _ (by decide) (by decide) (by decide)
        (bal_of_noPC _ (fun c hcm => noPC_of_not_special (idChar_not_special (hid.2 c hcm))))
    | selfRef => rw [Core] at hc; subst hc; exact bal_of_noPC _ (by decide)
    | call nm args =>
      rw [Core] at hc
      obtain ⟨f, fname, ws, body, rfl, hn, hws, -, -, -, -, -, -, hd⟩ := hc
      obtain ⟨ts, rfl, hf⟩ := dargs_texts env args body hd
      have hb : Bal true (joinC ts) := by
        apply bal_joinC
        intro t ht
        obtain ⟨a, -, hr⟩ := forall2_right_mem hf t ht
        have := mem_joinC_length ht
        simp only [List.length_append, List.length_cons] at hlen
        exact ih a t (by omega) hr
      have e : fname ++ ws ++ '(' :: joinC ts ++ [')'] = (fname ++ ws) ++ ('(' :: (joinC ts ++ ')' :: [])) := by simp
      rw [e]
      refine Bal.append (Bal.append ?_ (bal_allSpace _ hws)) (Bal.paren _ _ _ hb (Bal.nil _))
      exact bal_of_noPC _ (fun c hcm => noPC_of_not_special (nameChar_not_special (hn c hcm)))

theorem all2_length {α β : Type} {R : α → β → Prop} {l1 : List α} {l2 : List β} (h : All2 R l1 l2) :
    l1.length = l2.length := by
  induction h with
  | nil => rfl
  | cons _ _ ih => simp [ih]

theorem all2_map_left {α β γ : Type} {R : α → β → Prop} (g : γ → α) :
    ∀ {l1 : List γ} {l2 : List β}, All2 (fun c b => R (g c) b) l1 l2 → All2 R (l1.map g) l2 := by
  intro l1 l2 h
  induction h with
  | nil => exact All2.nil
  | cons h1 _ ih => exact All2.cons h1 ih

theorem all2_of_map_left {α β γ : Type} {R : α → β → Prop} (g : γ → α) :
    ∀ {l1 : List γ} {l2 : List β}, All2 R (l1.map g) l2 → All2 (fun c b => R (g c) b) l1 l2 := by
  intro l1
  induction l1 with
  | nil => intro l2 h; cases h; exact All2.nil
  | cons a r ih => intro l2 h; cases h with | cons h1 h2 => exact All2.cons h1 (ih h2)

theorem all2_flip {α β : Type} {R : α → β → Prop} {l1 : List α} {l2 : List β} (h : All2 R l1 l2) :
    All2 (fun b a => R a b) l2 l1 := by
  induction h with
  | nil => exact All2.nil
  | cons h1 _ ih => exact All2.cons h1 ih

theorem all2_imp {α β : Type} {R S : α → β → Prop} {l1 : List α} {l2 : List β} (h : All2 R l1 l2)
    (hi : ∀ a ∈ l1, ∀ b ∈ l2, R a b → S a b) : All2 S l1 l2 := by
  induction h with
  | nil => exact All2.nil
  | cons h1 _ ih =>
    exact All2.cons (hi _ List.mem_cons_self _ List.mem_cons_self h1)
      (ih (fun a ha b hb => hi a (List.mem_cons_of_mem _ ha) b (List.mem_cons_of_mem _ hb)))

/-- The call case of completeness, for any recursive parser `rec` that parses the argument texts. -/
theorem complete_call (env : Env) (rec : Nat → List Char → Except Err Expr) (pos : Nat) {f : FnSpec}
    {fname ws : List Char} {ts : List (List Char)} {args : List Expr}
    (hn : NameText fname) (hws : AllSpace ws) (hfw : fname = [] → ws = [])
    (hl : lookup env.reg fname = some f) (hen : f.enabled = true) (har : ArityOK f args.length)
    (hk : firstBadKind f.kinds 0 args = none)
    (hts : All2 (fun e t => Bal false t ∧ trim t ≠ [] ∧ ∀ p, rec p t = .ok e) args ts) :
    parseCall env rec pos (fname ++ ws ++ '(' :: joinC ts ++ [')']) = .ok (.call (String.ofList f.canon) args) := by
  have hcore : Tight (fname ++ ws ++ '(' :: joinC ts ++ [')']) := by
    constructor
    · intro c hc
      cases fname with
      | nil => rw [hfw rfl] at hc; simp at hc; subst hc; decide
      | cons a r => simp at hc; subst hc; exact nameChar_not_space (hn _ List.mem_cons_self)
    · intro c hc
      have h0 : ∀ l : List Char, (l ++ [')']).getLast? = some ')' := fun l => by simp
      have : (fname ++ ws ++ '(' :: joinC ts ++ [')']).getLast? = some ')' := by
        simpa using h0 (fname ++ ws ++ '(' :: joinC ts)
      rw [this] at hc; cases hc; decide
  have hhd : ∀ c ∈ fname ++ ws, c ≠ '(' ∧ c ≠ ')' := by
    intro c hc
    have : isSpecial c = false := by
      rcases List.mem_append.mp hc with h | h
      · exact nameChar_not_special (hn c h)
      · exact space_not_special (hws c h)
    exact ⟨(noPC_of_not_special this).1, (noPC_of_not_special this).2.1⟩
  have hb : ∀ t ∈ ts, Bal false t ∧ trim t ≠ [] := by
    intro t ht
    obtain ⟨a, -, h1, h2, -⟩ := forall2_right_mem hts t ht
    exact ⟨h1, h2⟩
  obtain ⟨sargs, hscan, hmap⟩ := scan_call (pos + lead (fname ++ ws ++ '(' :: joinC ts ++ [')'])) (fname ++ ws) ts hhd hb
  have htr : trim (fname ++ ws) = fname := by
    have := trim_wrap (ws1 := []) allSpace_nil hws
      (tight_of_noSpace (s := fname) (fun c hc => nameChar_not_space (hn c hc)))
    simpa using this
  have hlen : sargs.length = args.length := by
    have := all2_length hts
    rw [← hmap] at this; simp at this; omega
  have hmapargs : mapArgs (fun sp a => rec (pos + lead (fname ++ ws ++ '(' :: joinC ts ++ [')']) + sp) a) sargs
      = .ok args := by
    apply mapArgs_of_forall2
    rw [← hmap] at hts
    have h3 := all2_of_map_left (R := fun t e => Bal false t ∧ trim t ≠ [] ∧ ∀ p, rec p t = .ok e)
      Prod.fst (all2_flip hts)
    exact all2_imp h3 (fun a _ e _ h => h.2.2 _)
  unfold parseCall
  simp only [trim_tight hcore]
  rw [hscan]
  simp only [htr, firstNot_none hn, hl, hen, hlen, har.1, har.2, hmapargs, hk]
  simp

/-- **Completeness**, fuel form: every text of the grammar parses to its tree, at any position, with any fuel
exceeding its length. -/
theorem complete_aux (env : Env) : ∀ (n : Nat) (e : Expr) (s : List Char) (pos : Nat), s.length < n →
    Derives env e s → parseFuel env n pos s = .ok e := by
  intro n
  induction n with
  | zero => intro e s pos h; omega
  | succ n ih =>
    intro e s pos hlen h
    obtain ⟨ws1, core, ws2, rfl, h1, h2, hc⟩ := h
    cases e with
    | lit t =>
      rw [Core] at hc
      obtain ⟨rfl, hl⟩ := hc
      rw [complete_lit env n pos h1 h2 hl]; simp
    | portVal id =>
      rw [Core] at hc; obtain ⟨rfl, hid⟩ := hc
      rw [complete_port env n pos h1 h2 hid '$' (Or.inl rfl)]; simp
    | selfVal =>
      rw [Core] at hc; subst hc
      rw [complete_self env n pos h1 h2 '$' (Or.inl rfl)]; simp
    | portRef id =>
      rw [Core] at hc; obtain ⟨rfl, hid⟩ := hc
      rw [complete_port env n pos h1 h2 hid '@' (Or.inr rfl)]; simp
    | selfRef =>
      rw [Core] at hc; subst hc
      rw [complete_self env n pos h1 h2 '@' (Or.inr rfl)]; simp
    | call nm args =>
      have htc := core_tight env hc
      rw [Core] at hc
      obtain ⟨f, fname, ws, body, rfl, hn, hws, hfw, hl, hen, rfl, har, hk, hd⟩ := hc
      obtain ⟨ts, rfl, hf⟩ := dargs_texts env args body hd
      rw [parseFuel_succ, trim_wrap h1 h2 htc.1]
      have hhs : headSpecial (fname ++ ws ++ '(' :: joinC ts ++ [')']) = false := by
        cases fname with
        | nil => rw [hfw rfl]; rfl
        | cons a r =>
          have := nameChar_not_special (hn a List.mem_cons_self)
          simp only [isSpecial, Bool.or_eq_false_iff] at this
          simp [headSpecial, this]
      have hhp : hasParen (fname ++ ws ++ '(' :: joinC ts ++ [')']) = true := by
        simp [hasParen]
      rw [hhs, hhp]
      simp only [Bool.false_eq_true, if_false, if_true]
      apply complete_call env _ _ hn hws hfw hl hen har hk
      refine all2_imp hf ?_
      intro a _ t ht hder
      have hlt : t.length < n := by
        have := mem_joinC_length ht
        simp only [List.length_append, List.length_cons] at hlen
        omega
      exact ⟨derives_bal env n a t hlt hder, derives_trim env hder, fun p => ih a t p hlt hder⟩

end QtVerif.Parse
