import QtVerif.Model.Num
/-!
C02 helper lemmas: the hand-written bitwise operators of `Model/Num.lean` on unbounded Python ints are the
two's-complement ones, bit by bit; shifts are multiplication / floor division by `2^k` (= core `<<<` / `>>>`).
(Core Lean has no `Int.land` / `Int.lor` / `Int.xor`; `ibit` is the two's-complement bit of an `Int`.)
-/
namespace QtVerif.Num

/-- bit `k` of the infinite two's-complement representation of `n` -/
def ibit (n : Int) (k : Nat) : Bool :=
  match n with
  | .ofNat m => m.testBit k
  | .negSucc m => !(m.testBit k)

theorem iand_bit (a b : Int) (k : Nat) : ibit (iand a b) k = (ibit a k && ibit b k) := by
  cases a <;> cases b <;> simp only [iand, ibit, Nat.testBit_and, Nat.testBit_or, Nat.testBit_xor] <;>
    rename_i m n <;> cases m.testBit k <;> cases n.testBit k <;> rfl

theorem ior_bit (a b : Int) (k : Nat) : ibit (ior a b) k = (ibit a k || ibit b k) := by
  cases a <;> cases b <;> simp only [ior, ibit, Nat.testBit_and, Nat.testBit_or, Nat.testBit_xor] <;>
    rename_i m n <;> cases m.testBit k <;> cases n.testBit k <;> rfl

theorem ixor_bit (a b : Int) (k : Nat) : ibit (ixor a b) k = (ibit a k ^^ ibit b k) := by
  cases a <;> cases b <;> simp only [ixor, ibit, Nat.testBit_xor] <;>
    rename_i m n <;> cases m.testBit k <;> cases n.testBit k <;> rfl

theorem inot_eq (n : Int) : inot n = match n with | .ofNat m => .negSucc m | .negSucc m => .ofNat m := by
  cases n with
  | ofNat m => simp only [inot]; rw [Int.negSucc_eq]; simp only [Int.ofNat_eq_natCast]; omega
  | negSucc m => simp only [inot]; rw [Int.negSucc_eq]; simp only [Int.ofNat_eq_natCast]; omega

theorem inot_bit (n : Int) (k : Nat) : ibit (inot n) k = !(ibit n k) := by
  rw [inot_eq]
  cases n <;> simp [ibit]

/-- `-1 & x = x` and `0 | x = x`: the fold seeds of BITAND / BITOR are neutral. -/
theorem iand_neg_one (x : Int) : iand (-1) x = x := by
  have h : (-1 : Int) = Int.negSucc 0 := rfl
  rw [h]
  cases x <;> simp [iand]
theorem ior_zero (x : Int) : ior 0 x = x := by
  have h : (0 : Int) = Int.ofNat 0 := rfl
  rw [h]
  cases x <;> simp [ior]

/-- `a << n` is `a · 2^n` (core `<<<`), `a >> n` is the floor of `a / 2^n` (core `>>>`). -/
theorem ishl_eq (a n : Int) (hn : 0 ≤ n) : ishl a n = .ok (a <<< n.toNat) := by
  have : ¬ n < 0 := by omega
  simp [ishl, this, Int.shiftLeft_eq]
theorem ishr_eq (a n : Int) (hn : 0 ≤ n) : ishr a n = .ok (a >>> n.toNat) := by
  have : ¬ n < 0 := by omega
  simp [ishr, this, Int.shiftRight_eq_div_pow]
theorem ishr_floor (a n : Int) (hn : 0 ≤ n) :
    ∃ q : Int, ishr a n = .ok q ∧ q * 2 ^ n.toNat ≤ a ∧ a < (q + 1) * 2 ^ n.toNat := by
  have : ¬ n < 0 := by omega
  have hp : (0 : Int) < 2 ^ n.toNat := Int.pow_pos (by omega)
  refine ⟨a / 2 ^ n.toNat, by simp [ishr, this], Int.ediv_mul_le a (by omega), Int.lt_ediv_add_one_mul_self a hp⟩

end QtVerif.Num
