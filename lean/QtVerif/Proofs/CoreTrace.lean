import QtVerif.Proofs.Core
/-!
C01 — TRACE-LEVEL forms of the property's second sentence ("a port is re-evaluated after every change of a port it
reads, and a change of a port it does not read never alters it").

`RunAll cfg R acts s`: every step `t --a--> t1` of the run of `acts` from `s` satisfies `R t a t1`;
`RunEx cfg R acts s`: some step of the run does (the run is enabled at least up to that step).

(A) `settled_run`: a settled, unforced expression port stays settled along every run in which no port it reads changes
    its last read value, the port is not forced and its expression is not edited: register and value unchanged, no step
    of its eval task / writer task occurs.
(B) `owed_run`: once a pass has detected a change of `q` (new value `v`), every run that keeps `p` enabled with an
    expression reading `q` (and `q` enabled) and ends in a quiescent state contains a step `evalTake p` whose snapshot
    shows `q = v`.
-/
namespace QtVerif.Core
variable {E : Type}

def optAll {α : Type} (o : Option α) (P : α → Prop) : Prop := ∀ x, o = some x → P x
def optEx {α : Type} (o : Option α) (P : α → Prop) : Prop := ∃ x, o = some x ∧ P x

instance {α : Type} (o : Option α) (P : α → Prop) [∀ x, Decidable (P x)] : Decidable (optAll o P) :=
  match o with
  | none => isTrue (fun _ h => by cases h)
  | some x => if h : P x then isTrue (fun y hy => by cases hy; exact h) else isFalse (fun hh => h (hh x rfl))

instance {α : Type} (o : Option α) (P : α → Prop) [∀ x, Decidable (P x)] : Decidable (optEx o P) :=
  match o with
  | none => isFalse (fun ⟨_, h, _⟩ => by cases h)
  | some x => if h : P x then isTrue ⟨x, rfl, h⟩ else isFalse (fun ⟨y, hy, hp⟩ => by cases hy; exact h hp)

/-- Every step of the run of `acts` from `s` (as far as it is enabled) satisfies `R pre action post`. -/
def RunAll (cfg : Cfg E) (R : State E → Act E → State E → Prop) : List (Act E) → State E → Prop
  | [], _ => True
  | a :: rest, s => optAll (step? cfg s a) fun s1 => R s a s1 ∧ RunAll cfg R rest s1

/-- Some step of the run of `acts` from `s` satisfies `R pre action post` (the run is enabled up to that step). -/
def RunEx (cfg : Cfg E) (R : State E → Act E → State E → Prop) : List (Act E) → State E → Prop
  | [], _ => False
  | a :: rest, s => optEx (step? cfg s a) fun s1 => R s a s1 ∨ RunEx cfg R rest s1

instance RunAll.dec (cfg : Cfg E) (R : State E → Act E → State E → Prop) [∀ s a s1, Decidable (R s a s1)] :
    ∀ acts s, Decidable (RunAll cfg R acts s)
  | [], _ => isTrue trivial
  | a :: rest, s =>
    have : ∀ s1, Decidable (RunAll cfg R rest s1) := RunAll.dec cfg R rest
    inferInstanceAs (Decidable (optAll (step? cfg s a) fun s1 => R s a s1 ∧ RunAll cfg R rest s1))

instance RunEx.dec (cfg : Cfg E) (R : State E → Act E → State E → Prop) [∀ s a s1, Decidable (R s a s1)] :
    ∀ acts s, Decidable (RunEx cfg R acts s)
  | [], _ => isFalse id
  | a :: rest, s =>
    have : ∀ s1, Decidable (RunEx cfg R rest s1) := RunEx.dec cfg R rest
    inferInstanceAs (Decidable (optEx (step? cfg s a) fun s1 => R s a s1 ∨ RunEx cfg R rest s1))

/-- No step satisfies `R` iff every step satisfies its negation (on a run that is enabled to the end). -/
theorem runAll_not_of_not_runEx {cfg : Cfg E} {R : State E → Act E → State E → Prop} :
    ∀ (acts : List (Act E)) (s : State E), ¬ RunEx cfg R acts s → RunAll cfg (fun t a t1 => ¬ R t a t1) acts s
  | [], _, _ => trivial
  | _ :: rest, _, h => fun s1 h1 =>
    ⟨fun hr => h ⟨s1, h1, .inl hr⟩, runAll_not_of_not_runEx rest s1 (fun hr => h ⟨s1, h1, .inr hr⟩)⟩

theorem not_runEx_of_runAll_not {cfg : Cfg E} {R : State E → Act E → State E → Prop} :
    ∀ (acts : List (Act E)) (s : State E), RunAll cfg (fun t a t1 => ¬ R t a t1) acts s → ¬ RunEx cfg R acts s
  | [], _, _ => id
  | a :: rest, s, h => fun ⟨s1, h1, hr⟩ => by
    obtain ⟨g1, g2⟩ := h s1 h1
    rcases hr with hr | hr
    · exact g1 hr
    · exact not_runEx_of_runAll_not rest s1 g2 hr

theorem RunAll.and {cfg : Cfg E} {R R' : State E → Act E → State E → Prop} :
    ∀ (acts : List (Act E)) (s : State E), RunAll cfg R acts s → RunAll cfg R' acts s →
      RunAll cfg (fun t a t1 => R t a t1 ∧ R' t a t1) acts s
  | [], _, _, _ => trivial
  | _ :: rest, _, h, h' => fun s1 h1 =>
    ⟨⟨(h s1 h1).1, (h' s1 h1).1⟩, RunAll.and rest s1 (h s1 h1).2 (h' s1 h1).2⟩

/-! ### (A) a change of a port it does not read never alters a port -/

/-- No evaluation of `p` is forced: neither globally nor by the running pass, and the running pass has not detected a
change of a port read by `e` (other than `p` itself, which `handle_value_changes` ignores). -/
def Unforced (cfg : Cfg E) (s : State E) (p : PortId) (e : E) : Prop :=
  p ∉ s.forced ∧ s.forceAll = false ∧
  ∀ ps, s.pass = some ps → ps.all = false ∧ p ∉ ps.forced ∧ ∀ q, q ∈ ps.changed → q ∈ cfg.deps e → q = p

/-- Step condition of (A): the port keeps its expression `e`, is not forced, and no OTHER port read by `e` changes its
last read value in this step. -/
def Unread (cfg : Cfg E) (p : PortId) (e : E) (s : State E) (_a : Act E) (s1 : State E) : Prop :=
  (s1.port p).expr = some e ∧ p ∉ s1.forced ∧ s1.forceAll = false ∧
  ∀ q, q ∈ cfg.deps e → q ≠ p → (s1.port q).lastRead = (s.port q).lastRead

/-- `p` carries `e`, nothing of its eval / write machinery is in flight, nothing forces it, its register is `d`, its
value is `l`, and (if enabled) the value is the register. -/
structure Settled (cfg : Cfg E) (p : PortId) (e : E) (d l : Option Int) (s : State E) : Prop where
  expr : (s.port p).expr = some e
  quiet : (s.port p).quiet = true
  drv : (s.port p).drv = d
  lr : (s.port p).lastRead = l
  fresh : (s.port p).enabled = true → d = l
  unf : Unforced cfg s p e

theorem Settled.of_fields {cfg : Cfg E} {p e d l} {s s1 : State E} {a : Act E}
    (hJ : Settled cfg p e d l s) (hU : Unread cfg p e s a s1)
    (hport : (s1.port p).evalQ = [] ∧ (s1.port p).ev = .idle ∧ (s1.port p).wq = [] ∧ (s1.port p).wr = none ∧
      (s1.port p).drv = (s.port p).drv ∧ (s1.port p).lastRead = (s.port p).lastRead ∧
      ((s1.port p).enabled = true → (s.port p).enabled = true))
    (hpass : ∀ ps, s1.pass = some ps → ps.all = false ∧ p ∉ ps.forced ∧ ∀ q, q ∈ ps.changed → q ∈ cfg.deps e → q = p) :
    Settled cfg p e d l s1 := by
  obtain ⟨u1, u2, u3, _⟩ := hU
  obtain ⟨f1, f2, f3, f4, f5, f6, f7⟩ := hport
  exact ⟨u1, by rw [quiet_iff]; exact ⟨f1, f2, f3, f4⟩, by rw [f5]; exact hJ.drv, by rw [f6]; exact hJ.lr,
    fun hen => hJ.fresh (f7 hen), u2, u3, hpass⟩

theorem Settled.of_port {cfg : Cfg E} {p e d l} {s s1 : State E} {a : Act E}
    (hJ : Settled cfg p e d l s) (hU : Unread cfg p e s a s1)
    (hport : s1.port p = s.port p)
    (hpass : ∀ ps, s1.pass = some ps → ps.all = false ∧ p ∉ ps.forced ∧ ∀ q, q ∈ ps.changed → q ∈ cfg.deps e → q = p) :
    Settled cfg p e d l s1 := by
  have hq := (quiet_iff _).1 hJ.quiet
  exact hJ.of_fields hU (by rw [hport]; exact ⟨hq.1, hq.2.1, hq.2.2.1, hq.2.2.2, rfl, rfl, id⟩) hpass

theorem Settled.of_port_pass {cfg : Cfg E} {p e d l} {s s1 : State E} {a : Act E}
    (hJ : Settled cfg p e d l s) (hU : Unread cfg p e s a s1)
    (hport : s1.port p = s.port p) (hpass : s1.pass = s.pass) : Settled cfg p e d l s1 :=
  hJ.of_port hU hport (by rw [hpass]; exact hJ.unf.2.2)

/-- One step of (A): a settled port stays settled, and the step is none of the port's own eval / write task steps. -/
theorem settled_step {cfg : Cfg E} {p e d l} {s s1 : State E} {a : Act E}
    (hJ : Settled cfg p e d l s) (h : step? cfg s a = some s1) (hU : Unread cfg p e s a s1) :
    Settled cfg p e d l s1 ∧ a ≠ .evalTake p ∧ a ≠ .evalCmp p ∧ a ≠ .writeBegin p ∧ a ≠ .writeEnd p := by
  have hJ0 := hJ
  obtain ⟨hexp, hq, hd, hl, hf, hu1, hu2, hu3⟩ := hJ
  have hU0 := hU
  obtain ⟨u1, u2, u3, u4⟩ := hU
  rw [quiet_iff] at hq
  obtain ⟨q1, q2, q3, q4⟩ := hq
  cases a with
  | passBegin o =>
    refine ⟨?_, by simp, by simp, by simp, by simp⟩
    simp only [step?] at h
    split at h
    · simp at h
    · rename_i hn
      simp at hn
      have hport : s1.port p = s.port p := by
        cases o with
        | anon => simp at h; subst h; split <;> rfl
        | writer w => simp only at h; split at h <;> simp at h; subst h; split <;> rfl
        | evaler w =>
          simp only at h
          split at h <;> simp at h
          rename_i hw
          subst h
          have hwp : p ≠ w := by intro hpw; subst hpw; simp [q2] at hw
          split <;> simp [State.setPort, hwp]
      have hpass : ∃ ps, s1.pass = some ps ∧ ps.changed = [] ∧
          ((ps.forced = s.forced ∧ ps.all = s.forceAll) ∨ (ps.forced = [] ∧ ps.all = false)) := by
        cases o with
        | anon => simp at h; subst h; split <;> simp
        | writer w => simp only at h; split at h <;> simp at h; subst h; split <;> simp
        | evaler w => simp only at h; split at h <;> simp at h; subst h; split <;> simp
      obtain ⟨ps, g1, g2, g3⟩ := hpass
      refine ⟨u1, by rw [hport, quiet_iff]; exact ⟨q1, q2, q3, q4⟩, by rw [hport]; exact hd, by rw [hport]; exact hl,
        by rw [hport]; exact hf, u2, u3, ?_⟩
      intro ps' h'
      rw [g1] at h'; cases h'
      rcases g3 with ⟨g3, g4⟩ | ⟨g3, g4⟩
      · exact ⟨by rw [g4]; exact hu2, by rw [g3]; exact hu1, by simp [g2]⟩
      · exact ⟨g4, by simp [g3], by simp [g2]⟩
  | passRead =>
    refine ⟨?_, by simp, by simp, by simp, by simp⟩
    simp only [step?] at h
    split at h
    · rename_i ps hps
      obtain ⟨v1, v2, v3⟩ := hu3 ps hps
      split at h
      · simp at h
      · split at h
        · simp at h
        · rename_i q rest htodo
          split at h
          · rename_i hg
            simp at hg
            simp at h; subst h
            by_cases hqp : q = p
            · subst hqp
              exact absurd (by rw [hd, hl]; exact hf hg.1) hg.2
            · refine hJ0.of_port hU0 (by simp [State.setPort, Ne.symm hqp]) ?_
              intro ps' h'
              simp at h'; subst h'
              refine ⟨v1, v2, fun x hx hxd => ?_⟩
              simp at hx
              rcases hx with hx | hx
              · subst hx
                have := u4 x hxd hqp
                simp [State.setPort] at this
                exact absurd this hg.2
              · exact v3 x hx hxd
          · simp at h; subst h
            refine hJ0.of_port hU0 rfl ?_
            intro ps' h'
            simp at h'; subst h'
            exact ⟨v1, v2, v3⟩
    · simp at h
  | passSkip =>
    refine ⟨?_, by simp, by simp, by simp, by simp⟩
    simp only [step?] at h
    split at h
    · rename_i ps hps
      obtain ⟨v1, v2, v3⟩ := hu3 ps hps
      split at h
      · simp at h
      · split at h
        · simp at h
        · split at h
          · simp at h; subst h
            refine hJ0.of_port hU0 rfl ?_
            intro ps' h'
            simp at h'; subst h'
            exact ⟨v1, v2, v3⟩
          · simp at h
    · simp at h
  | passHandleA =>
    refine ⟨?_, by simp, by simp, by simp, by simp⟩
    simp only [step?] at h
    split at h
    · rename_i ps hps
      obtain ⟨v1, v2, v3⟩ := hu3 ps hps
      split at h
      · simp at h
      · split at h
        · simp at h; subst h
          refine hJ0.of_port hU0 rfl ?_
          intro ps' h'
          simp at h'; subst h'
          exact ⟨v1, v2, v3⟩
        · simp at h; subst h
          refine hJ0.of_port hU0 rfl ?_
          intro ps' h'
          simp at h'; subst h'
          exact ⟨hu2, hu1, v3⟩
    · simp at h
  | passHandleB =>
    refine ⟨?_, by simp, by simp, by simp, by simp⟩
    cases hps : s.pass with
    | none => simp [step?, hps] at h
    | some ps =>
      obtain ⟨v1, v2, v3⟩ := hu3 ps hps
      by_cases hh : ps.handling = true
      · rw [step_handleB cfg s ps hps hh] at h
        simp at h; subst h
        obtain ⟨f1, _, f3, f4, f5, f6, f7, f8⟩ := hb_fields cfg s ps p
        have hnp : pushed cfg s ps p = false := by
          cases hpu : pushed cfg s ps p with
          | false => rfl
          | true =>
            exfalso
            simp only [pushed, hexp, trig, v1, Bool.false_or, Bool.and_eq_true, Bool.or_eq_true,
              List.contains_eq_mem, decide_eq_true_eq, List.any_eq_true, bne_iff_ne] at hpu
            rcases hpu.2 with h | ⟨q, hq, hqp, hq2⟩
            · exact v2 h
            · exact hqp (v3 q hq2 hq)
        refine hJ0.of_fields hU0 ⟨?_, ?_, ?_, ?_, f4, f3, ?_⟩ (by intro ps' h'; simp at h')
        · simp only [f7, hnp]; simpa using q1
        · simp only [f8, q2]; simp
        · rw [f5]; exact q3
        · rw [f6]; exact q4
        · rw [f1]; exact id
      · simp [step?, hps, hh] at h
  | evalTake a =>
    by_cases hap : a = p
    · subst hap; simp [step?, q2, q1] at h
    · refine ⟨hJ0.of_port_pass hU0 ?_ ?_, by simp [hap], by simp, by simp, by simp⟩
      all_goals
        simp only [step?] at h
        (repeat' split at h) <;> simp at h <;> subst h <;> simp [State.setPort, Ne.symm hap]
  | evalCmp a =>
    by_cases hap : a = p
    · subst hap; simp [step?, q2] at h
    · refine ⟨hJ0.of_port_pass hU0 ?_ ?_, by simp, by simp [hap], by simp, by simp⟩
      all_goals
        simp only [step?] at h
        (repeat' split at h) <;> simp at h <;> subst h <;> simp [State.setPort, Ne.symm hap]
  | writeBegin a =>
    by_cases hap : a = p
    · subst hap; simp [step?, q3] at h
    · refine ⟨hJ0.of_port_pass hU0 ?_ ?_, by simp, by simp, by simp [hap], by simp⟩
      all_goals
        simp only [step?] at h
        (repeat' split at h) <;> simp at h <;> subst h <;> simp [State.setPort, Ne.symm hap]
  | writeEnd a =>
    by_cases hap : a = p
    · subst hap; simp [step?, q4] at h
    · refine ⟨hJ0.of_port_pass hU0 ?_ ?_, by simp, by simp, by simp, by simp [hap]⟩
      all_goals
        simp only [step?] at h
        (repeat' split at h) <;> simp at h <;> subst h <;> simp [State.setPort, Ne.symm hap]
  | setSource a v =>
    by_cases hap : a = p
    · subst hap; simp [step?, hexp] at h
    · refine ⟨hJ0.of_port_pass hU0 ?_ ?_, by simp, by simp, by simp, by simp⟩
      all_goals
        simp only [step?] at h
        (repeat' split at h) <;> simp at h <;> subst h <;> simp [State.setPort, Ne.symm hap]
  | apiWrite a v =>
    by_cases hap : a = p
    · subst hap; simp [step?, hexp] at h
    · refine ⟨hJ0.of_port_pass hU0 ?_ ?_, by simp, by simp, by simp, by simp⟩
      all_goals
        simp only [step?] at h
        (repeat' split at h) <;> simp at h <;> subst h <;> simp [State.setPort, Ne.symm hap]
  | hookDone a =>
    simp only [step?, Option.some.injEq] at h; subst h
    exact ⟨hJ0.of_port_pass hU0 rfl rfl, by simp, by simp, by simp, by simp⟩
  | enable a =>
    refine ⟨?_, by simp, by simp, by simp, by simp⟩
    simp only [step?] at h
    split at h
    · simp at h
    · simp at h; subst h
      by_cases hap : a = p
      · subst hap; simp [hexp] at u2
      · exact hJ0.of_port_pass hU0 (by simp [State.setPort, Ne.symm hap]) rfl
  | disable a =>
    refine ⟨?_, by simp, by simp, by simp, by simp⟩
    simp only [step?] at h
    split at h
    · simp at h; subst h
      by_cases hap : a = p
      · subst hap
        refine hJ0.of_fields hU0 ?_ hu3
        simp [State.setPort, q1, q2, q3, q4]
      · exact hJ0.of_port_pass hU0 (by simp [State.setPort, Ne.symm hap]) rfl
    · simp at h
  | setExpr a e' =>
    refine ⟨?_, by simp, by simp, by simp, by simp⟩
    simp only [step?] at h
    split at h
    · simp at h; subst h
      by_cases hap : a = p
      · subst hap; simp at u2
      · exact hJ0.of_port_pass hU0 (by simp [State.setPort, Ne.symm hap]) rfl
    · simp at h
  | clearExpr a =>
    refine ⟨?_, by simp, by simp, by simp, by simp⟩
    simp only [step?] at h
    simp at h; subst h
    by_cases hap : a = p
    · subst hap; simp [State.setPort] at u1
    · exact hJ0.of_port_pass hU0 (by simp [State.setPort, Ne.symm hap]) rfl

/-- (A), trace level: along a run every step of which satisfies `Unread`, a settled port stays settled — register `d`
and value `l` unchanged — and none of its eval task / writer task steps occurs. -/
theorem settled_run {cfg : Cfg E} {p e d l} : ∀ (acts : List (Act E)) (s s' : State E),
    Settled cfg p e d l s → run? cfg s acts = some s' → RunAll cfg (Unread cfg p e) acts s →
    Settled cfg p e d l s' ∧
      ∀ a, a ∈ acts → a ≠ .evalTake p ∧ a ≠ .evalCmp p ∧ a ≠ .writeBegin p ∧ a ≠ .writeEnd p
  | [], s, s', hJ, hrun, _ => by
    simp [run?] at hrun; subst hrun
    exact ⟨hJ, by simp⟩
  | a :: rest, s, s', hJ, hrun, hall => by
    simp only [run?] at hrun
    split at hrun
    · rename_i s1 h1
      obtain ⟨g1, g2⟩ := hall s1 h1
      obtain ⟨k1, k2⟩ := settled_step hJ h1 g1
      obtain ⟨r1, r2⟩ := settled_run rest s1 s' k1 hrun g2
      refine ⟨r1, fun b hb => ?_⟩
      simp at hb
      rcases hb with hb | hb
      · subst hb; exact k2
      · exact r2 b hb
    · simp at hrun

/-! ### (B) a port is re-evaluated after every change of a port it reads -/

def Act.isPass : Act E → Bool
  | .passBegin _ | .passRead | .passSkip | .passHandleA | .passHandleB => true
  | _ => false

def Act.isEvalTake (p : PortId) : Act E → Bool
  | .evalTake p' => p' == p
  | _ => false

theorem handleB_eq {cfg : Cfg E} {s s1 : State E} (h : step? cfg s .passHandleB = some s1) :
    ∃ ps, s.pass = some ps ∧ ps.handling = true ∧ s1 = { s with port := hbPort cfg s ps, pass := none } := by
  cases hps : s.pass with
  | none => simp [step?, hps] at h
  | some ps =>
    by_cases hh : ps.handling = true
    · rw [step_handleB cfg s ps hps hh] at h
      simp at h
      exact ⟨ps, rfl, hh, h.symm⟩
    · simp [step?, hps, hh] at h

/-- Only `passRead` changes a last read value. -/
theorem step_lastRead {cfg : Cfg E} {s s1 : State E} {a : Act E} (h : step? cfg s a = some s1) (q : PortId) :
    (s1.port q).lastRead = (s.port q).lastRead ∨ a = .passRead := by
  cases a with
  | passRead => exact .inr rfl
  | passHandleB =>
    obtain ⟨ps, _, _, rfl⟩ := handleB_eq h
    exact .inl (hb_fields cfg s ps q).2.2.1
  | _ =>
    left
    simp only [step?] at h
    (repeat' split at h) <;> simp at h <;> subst h <;> simp only [State.setPort] <;> (try split) <;> rfl

/-- Only `passHandleB` and the port's own `evalTake` change a port's evaluation queue. -/
theorem step_evalQ {cfg : Cfg E} {s s1 : State E} {a : Act E} (h : step? cfg s a = some s1) (p : PortId) :
    (s1.port p).evalQ = (s.port p).evalQ ∨ a = .passHandleB ∨ a = .evalTake p := by
  cases a with
  | passHandleB => exact .inr (.inl rfl)
  | evalTake a =>
    by_cases hap : a = p
    · subst hap; exact .inr (.inr rfl)
    · left
      simp only [step?] at h
      (repeat' split at h) <;> simp at h <;> subst h <;> simp [State.setPort, Ne.symm hap]
  | _ =>
    left
    simp only [step?] at h
    (repeat' split at h) <;> simp at h <;> subst h <;> simp only [State.setPort] <;> (try split) <;> rfl

/-- Only the pass actions change the running pass. -/
theorem step_pass {cfg : Cfg E} {s s1 : State E} {a : Act E} (h : step? cfg s a = some s1) :
    s1.pass = s.pass ∨ a.isPass = true := by
  cases a with
  | passBegin o => exact .inr rfl
  | passRead => exact .inr rfl
  | passSkip => exact .inr rfl
  | passHandleA => exact .inr rfl
  | passHandleB => exact .inr rfl
  | _ =>
    left
    simp only [step?] at h
    (repeat' split at h) <;> simp at h <;> subst h <;> rfl

/-- The change of `q` to `v` is still owed to `p`: the running pass has polled `q`, found it changed to `v` and will
handle it; or a snapshot showing `q = v` is waiting in `p`'s evaluation queue. -/
def Owed (s : State E) (p q : PortId) (v : Option Int) : Prop :=
  (∃ ps, s.pass = some ps ∧ q ∈ ps.changed ∧ q ∉ ps.todo ∧ (s.port q).lastRead = v) ∨
  (∃ σ, σ ∈ (s.port p).evalQ ∧ σ q = cellOf v)

/-- `p` is enabled and carries `e`; `q` is enabled. -/
def KeepsAt (s : State E) (p : PortId) (e : E) (q : PortId) : Prop :=
  (s.port p).enabled = true ∧ (s.port p).expr = some e ∧ (s.port q).enabled = true

/-- Step condition of (B): after the step `p` is (still) enabled and carries `e`, and `q` is (still) enabled. -/
def Keeps (p : PortId) (e : E) (q : PortId) (_s : State E) (_a : Act E) (s1 : State E) : Prop :=
  KeepsAt s1 p e q

/-- The step is `evalTake p` and the snapshot it takes (the head of `p`'s queue) shows `q = v`. -/
def EvalOf (p q : PortId) (v : Option Int) (s : State E) (a : Act E) (_s1 : State E) : Prop :=
  a.isEvalTake p = true ∧ (s.port p).evalQ.head?.map (fun σ => σ q) = some (cellOf v)

theorem owed_not_quiescent {cfg : Cfg E} {s : State E} {p q v} (hpn : p < cfg.n) (hO : Owed s p q v) :
    ¬ Quiescent cfg s := by
  intro ⟨h1, _, _, h4⟩
  rcases hO with ⟨ps, o1, _⟩ | ⟨σ, o1, _⟩
  · simp [h1] at o1
  · have := ((quiet_iff _).1 (h4 p hpn).1).1
    simp [this] at o1

/-- One step of (B): the debt is kept unless the step is the evaluation that discharges it. -/
theorem owed_step {cfg : Cfg E} {p q e v} {s s1 : State E} {a : Act E} (hpn : p < cfg.n) (hqp : q ≠ p)
    (hqd : q ∈ cfg.deps e) (hK : KeepsAt s p e q) (hO : Owed s p q v) (h : step? cfg s a = some s1) :
    EvalOf p q v s a s1 ∨ Owed s1 p q v := by
  obtain ⟨k1, k2, k3⟩ := hK
  rcases hO with ⟨ps, o1, o2, o3, o4⟩ | ⟨σ, o1, o2⟩
  · cases a with
    | passBegin o => simp [step?, o1] at h
    | passRead =>
      simp only [step?, o1] at h
      split at h
      · simp at h
      · split at h
        · simp at h
        · rename_i q' rest htodo
          rw [htodo] at o3
          simp at o3
          split at h <;> (simp at h; subst h; right; left)
          · exact ⟨_, rfl, by simp [o2], o3.2, by simp [State.setPort, o3.1]; exact o4⟩
          · exact ⟨_, rfl, o2, o3.2, o4⟩
    | passSkip =>
      simp only [step?, o1] at h
      split at h
      · simp at h
      · split at h
        · simp at h
        · rename_i q' rest htodo
          rw [htodo] at o3
          simp at o3
          split at h <;> simp at h
          subst h; right; left
          exact ⟨_, rfl, o2, o3.2, o4⟩
    | passHandleA =>
      simp only [step?, o1] at h
      split at h
      · simp at h
      · split at h <;> (simp at h; subst h; right; left; exact ⟨_, rfl, o2, o3, o4⟩)
    | passHandleB =>
      obtain ⟨ps', g1, g2, rfl⟩ := handleB_eq h
      rw [o1] at g1; cases g1
      right; right
      have hpu : pushed cfg s ps p = true := by
        simp only [pushed, hpn, k1, k2, trig, decide_true, Bool.true_and, Bool.or_eq_true, List.contains_eq_mem,
          decide_eq_true_eq, List.any_eq_true, Bool.and_eq_true, bne_iff_ne, ne_eq]
        exact .inr ⟨q, hqd, hqp, o2⟩
      refine ⟨view s, ?_, ?_⟩
      · simp [(hb_fields cfg s ps p).2.2.2.2.2.2.1, hpu]
      · simp [view, k3, o4]
    | _ =>
      rcases step_pass h with hp | hp
      · rcases step_lastRead h q with hl | hl
        · right; left; exact ⟨ps, by rw [hp]; exact o1, o2, o3, by rw [hl]; exact o4⟩
        · simp at hl
      · simp [Act.isPass] at hp
  · rcases step_evalQ h p with hq | hq | hq
    · right; right; exact ⟨σ, by rw [hq]; exact o1, o2⟩
    · subst hq
      obtain ⟨ps, _, _, rfl⟩ := handleB_eq h
      right; right
      refine ⟨σ, ?_, o2⟩
      simp only [(hb_fields cfg s ps p).2.2.2.2.2.2.1]
      split
      · simp [o1]
      · exact o1
    · subst hq
      simp only [step?] at h
      split at h
      · split at h
        · simp at h
        · rename_i σ' rest hq
          simp only [k2] at h
          simp at h; subst h
          by_cases hσ : σ' q = cellOf v
          · left
            exact ⟨by simp [Act.isEvalTake], by simp [hq, hσ]⟩
          · right; right
            refine ⟨σ, ?_, o2⟩
            rw [hq] at o1
            simp at o1
            rcases o1 with o1 | o1
            · subst o1; exact absurd o2 hσ
            · simpa [State.setPort] using o1
      · simp at h

/-- (B), trace level: while the change of `q` to `v` is owed to `p`, every run that keeps `p` enabled with `e` (which
reads `q`) and `q` enabled and that ends in a quiescent state contains an evaluation of `p` taken with a snapshot
showing `q = v`. -/
theorem owed_run {cfg : Cfg E} {p q e v} (hpn : p < cfg.n) (hqp : q ≠ p) (hqd : q ∈ cfg.deps e) :
    ∀ (acts : List (Act E)) (s s' : State E), KeepsAt s p e q → Owed s p q v → run? cfg s acts = some s' →
      RunAll cfg (Keeps p e q) acts s → Quiescent cfg s' → RunEx cfg (EvalOf p q v) acts s
  | [], s, s', _, hO, hrun, _, hQ => by
    simp [run?] at hrun; subst hrun
    exact absurd hQ (owed_not_quiescent hpn hO)
  | a :: rest, s, s', hK, hO, hrun, hall, hQ => by
    simp only [run?] at hrun
    split at hrun
    · rename_i s1 h1
      obtain ⟨g1, g2⟩ := hall s1 h1
      refine ⟨s1, h1, ?_⟩
      rcases owed_step hpn hqp hqd hK hO h1 with hE | hO1
      · exact .inl hE
      · exact .inr (owed_run hpn hqp hqd rest s1 s' g1 hO1 hrun g2 hQ)
    · simp at hrun

/-- The same, in the "as long as" form: along a run that keeps `p`, `e`, `q` as above and contains no evaluation of `p`
with a snapshot showing `q = v`, no state is quiescent (stated for the end state; every prefix of a run is a run). -/
theorem owed_run_not_quiescent {cfg : Cfg E} {p q e v} (hpn : p < cfg.n) (hqp : q ≠ p) (hqd : q ∈ cfg.deps e)
    (acts : List (Act E)) (s s' : State E) (hK : KeepsAt s p e q) (hO : Owed s p q v)
    (hrun : run? cfg s acts = some s') (hall : RunAll cfg (Keeps p e q) acts s)
    (hno : RunAll cfg (fun t a t1 => ¬ EvalOf p q v t a t1) acts s) : ¬ Quiescent cfg s' :=
  fun hQ => not_runEx_of_runAll_not acts s hno (owed_run hpn hqp hqd acts s s' hK hO hrun hall hQ)

/-- The pass step that detects the change of `q` creates the debt (needs the pass's to-do list to be duplicate-free:
`PassOk`, part of the invariant of reachable states). -/
theorem passRead_owes {cfg : Cfg E} {s s1 : State E} {ps : Pass} {q : PortId} {rest : List PortId} (p : PortId)
    (hok : PassOk s) (hps : s.pass = some ps) (hh : ps.handling = false) (ht : ps.todo = q :: rest)
    (hen : (s.port q).enabled = true) (hchg : (s.port q).drv ≠ (s.port q).lastRead)
    (hst : step? cfg s .passRead = some s1) : Owed s1 p q (s.port q).drv := by
  have hnd := (hok ps hps).1
  rw [ht] at hnd
  simp [step?, hps, hh, ht, hen, hchg] at hst
  subst hst
  exact .inl ⟨_, rfl, by simp, (List.nodup_cons.1 hnd).1, by simp [State.setPort]⟩

/-! ### decidability (for the non-vacuity examples on concrete hubs) -/

instance {cfg : Cfg E} {s : State E} {p : PortId} {e : E} : Decidable (Unforced cfg s p e) :=
  inferInstanceAs (Decidable (p ∉ s.forced ∧ s.forceAll = false ∧
    optAll s.pass fun ps => ps.all = false ∧ p ∉ ps.forced ∧ ∀ q, q ∈ ps.changed → q ∈ cfg.deps e → q = p))

instance [DecidableEq E] {cfg : Cfg E} {p : PortId} {e : E} {s : State E} {a : Act E} {s1 : State E} :
    Decidable (Unread cfg p e s a s1) := by
  unfold Unread
  infer_instance

instance [DecidableEq E] {s : State E} {p : PortId} {e : E} {q : PortId} : Decidable (KeepsAt s p e q) := by
  unfold KeepsAt
  infer_instance

instance [DecidableEq E] {p : PortId} {e : E} {q : PortId} {s : State E} {a : Act E} {s1 : State E} :
    Decidable (Keeps p e q s a s1) := by
  unfold Keeps
  infer_instance

instance {p q : PortId} {v : Option Int} {s : State E} {a : Act E} {s1 : State E} :
    Decidable (EvalOf p q v s a s1) := by
  unfold EvalOf
  infer_instance

end QtVerif.Core
