import QtVerif.Model.Faults
import QtVerif.Proofs.FaultsA
namespace QtVerif.Faults

theorem contains_filter_H (H : PortId → Bool) (d : PortId) (hd : H d = true) (l : List PortId) :
    (l.filter H).contains d = l.contains d := by
  induction l with
  | nil => rfl
  | cons x xs ih =>
    by_cases hx : H x = true
    · simp only [List.filter_cons, hx, if_true, List.contains_cons, ih]
    · have : (d == x) = false := by
        apply Bool.eq_false_iff.mpr; intro h; simp at h; rw [h] at hd; exact hx hd
      simp only [List.filter_cons, hx, Bool.false_eq_true, if_false, List.contains_cons, ih, this, Bool.false_or]

theorem depChanged_proj (H : PortId → Bool) (id : PortId) (ds : List PortId) (hds : ∀ d ∈ ds, H d = true)
    (ch : List PortId) : depChanged id ds (ch.filter H) = depChanged id ds ch := by
  unfold depChanged
  induction ds with
  | nil => rfl
  | cons d ds ih =>
    simp only [List.any_cons]
    rw [contains_filter_H H d (hds d (by simp)), ih (fun x hx => hds x (by simp [hx]))]

theorem snapshot_proj (H : PortId → Bool) (ps : List Port) :
    snapshot ((ps.filter (fun q => H q.id)).map (rport H)) = (snapshot ps).filter (fun e => H e.1) := by
  unfold snapshot
  induction ps with
  | nil => rfl
  | cons p ps ih =>
    by_cases hp : H p.id = true <;> by_cases he : p.enabled = true <;>
      simp_all [rport]

theorem pushOne_id (E : Env) (full : Bool) (ch : List PortId) (sn : Snap) (q : Port) :
    (pushOne E full ch sn q).id = q.id := by
  unfold pushOne
  cases E.deps q.id with
  | none => rfl
  | some ds => simp only []; split <;> rfl

theorem pushOne_rport (H : PortId → Bool) (E : Env) (hcl : Closed E H) (full : Bool) (ch : List PortId) (sn : Snap)
    (q : Port) (hq : H q.id = true) :
    pushOne E full (ch.filter H) (sn.filter (fun e => H e.1)) (rport H q) = rport H (pushOne E full ch sn q) := by
  unfold pushOne
  have e1 : (rport H q).id = q.id := rfl
  have e2 : (rport H q).enabled = q.enabled := rfl
  rw [e1, e2]
  cases hd : E.deps q.id with
  | none => rfl
  | some ds =>
    simp only []
    rw [depChanged_proj H q.id ds (hcl q.id ds hq hd)]
    split <;> simp [rport]

theorem map_filter_id (H : PortId → Bool) (f : Port → Port) (hf : ∀ q, (f q).id = q.id) (ps : List Port) :
    (ps.map f).filter (fun q => H q.id) = (ps.filter (fun q => H q.id)).map f := by
  induction ps with
  | nil => rfl
  | cons p ps ih =>
    by_cases hp : H p.id = true <;> simp [hf, hp, ih]

theorem pushEvals_proj (H : PortId → Bool) (E : Env) (hcl : Closed E H) (full : Bool) (ch : List PortId) (sn : Snap)
    (ps : List Port) :
    pushEvals E full (ch.filter H) (sn.filter (fun e => H e.1)) ((ps.filter (fun q => H q.id)).map (rport H))
      = ((pushEvals E full ch sn ps).filter (fun q => H q.id)).map (rport H) := by
  unfold pushEvals
  rw [map_filter_id H _ (pushOne_id E full ch sn)]
  simp only [List.map_map]
  apply List.map_congr_left
  intro q hq
  have hH : H q.id = true := by simpa using (List.mem_filter.mp hq).2
  exact pushOne_rport H E hcl full ch sn q hH

theorem changedIds_proj (H : PortId → Bool) (cs : List (PortId × Val × Val)) :
    (cs.filter (fun c => H c.1)).map (fun c => c.1) = (cs.map (fun c => c.1)).filter H := by
  induction cs with
  | nil => rfl
  | cons c cs ih => by_cases hc : H c.1 = true <;> simp_all

theorem proj_kill (H : PortId → Bool) (k : PassKind) (s : State) : proj H (kill k s) = kill k (proj H s) := by
  unfold kill; split <;> rfl

theorem pass_proj (H : PortId → Bool) (P : Params) (E : Env) (hs : Safe E H) (hcl : Closed E H)
    (k : PassKind) (now : Nat) (s : State) :
    proj H (pass P E k now s) = pass P E k now (proj H s) := by
  unfold pass
  have e0 : (proj H s).loopAlive = s.loopAlive := rfl
  rw [e0]
  by_cases h0 : (k == PassKind.loop && !s.loopAlive) = true
  · simp [h0]
  · simp only [h0, Bool.false_eq_true, if_false]
    have e1 : (proj H s).lastSec = s.lastSec := rfl
    have e2 : (proj H s).ports = (s.ports.filter (fun q => H q.id)).map (rport H) := rfl
    have e3 : (proj H s).fullEval = s.fullEval := rfl
    have e4 : (⟨(proj H s).errs, (proj H s).trace, [], false⟩ : Acc) = pacc H ⟨s.errs, s.trace, [], false⟩ := rfl
    rw [e1, e2, e3, e4, pollAll_proj H P E now _ hs]
    generalize pollAll P E now (now / P.ups != s.lastSec) ⟨s.errs, s.trace, [], false⟩ s.ports = r
    have e5 : (pacc H r.1).aborted = r.1.aborted := rfl
    have e6 : (pacc H r.1).trace = r.1.trace.filter (fun o => H o.port) := rfl
    have e7 : (pacc H r.1).changed = r.1.changed.filter (fun c => H c.1) := rfl
    have e8 : (pacc H r.1).errs = r.1.errs.filter (fun e => H e.1) := rfl
    simp only [e5, e6, e7, e8]
    by_cases h1 : r.1.aborted = true
    · simp only [h1, if_true, proj_kill]; rfl
    · simp only [h1, Bool.false_eq_true, if_false]
      have hd := deliver_proj H E now P.nh hs r.1.changed (r.1.trace, false)
      simp only [] at hd
      rw [hd]
      by_cases h2 : (deliver E now P.nh (r.1.trace, false) r.1.changed).2 = true
      · simp only [h2, if_true, proj_kill]; rfl
      · simp only [h2, Bool.false_eq_true, if_false]
        rw [snapshot_proj, changedIds_proj, pushEvals_proj H E hcl]
        rfl
end QtVerif.Faults
