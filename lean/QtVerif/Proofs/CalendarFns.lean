import QtVerif.Proofs.CalendarLoops
import QtVerif.Proofs.CalendarZone
/-!
C17: the functions of date.py in closed form. Whenever BOD / BOW / BOM / BOY return a value it is
`Z.start (first (idx (local day of u) + n))` for the unit's `idx`/`first`; the only error they can raise is a year
outside 1..9999; HMSINTERVAL / MDINTERVAL are membership tests of the local time of day / (month, day).
-/
namespace QtVerif.Calendar

/-- Decidable equality of results (used only to evaluate concrete witnesses and examples). -/
instance : DecidableEq (Except Err Int)
  | .ok x, .ok y => if h : x = y then isTrue (by rw [h]) else isFalse (by intro e; injection e; contradiction)
  | .error x, .error y => if h : x = y then isTrue (by rw [h]) else isFalse (by intro e; injection e; contradiction)
  | .ok _, .error _ => isFalse (by intro e; cases e)
  | .error _, .ok _ => isFalse (by intro e; cases e)

theorem bind_eq_ok {ε α β : Type} {x : Except ε α} {f : α → Except ε β} {r : β} (h : (x >>= f) = .ok r) :
    ∃ a, x = .ok a ∧ f a = .ok r := by
  cases x with
  | error e => simp [bind, Except.bind] at h
  | ok a => exact ⟨a, rfl, h⟩

theorem bind_eq_error {ε α β : Type} {x : Except ε α} {f : α → Except ε β} {e : ε} (h : (x >>= f) = .error e) :
    x = .error e ∨ ∃ a, x = .ok a ∧ f a = .error e := by
  cases x with
  | error e' => left; simpa [bind, Except.bind] using h
  | ok a => exact .inr ⟨a, rfl, h⟩

theorem fromtimestamp_ok {Z : Zone} {u : Int} {c : Civil} (h : fromtimestamp Z u = .ok c) :
    c = civilOfSeconds (Z.loc u) := by
  unfold fromtimestamp at h
  simp only at h
  split at h
  · injection h with h; exact h.symm
  · cases h

theorem fromtimestamp_error {Z : Zone} {u : Int} {e : Err} (h : fromtimestamp Z u = .error e) : e = .field 1 := by
  unfold fromtimestamp at h
  simp only at h
  split at h
  · cases h
  · injection h with h; exact h.symm

theorem fromtimestamp_date {Z : Zone} {u : Int} {c : Civil} (h : fromtimestamp Z u = .ok c) :
    c.date = civilFromDays (Z.day u) := by
  rw [fromtimestamp_ok h]; rfl

theorem addDays_ok {c dt : Civil} {k : Int} (h : addDays c k = .ok dt) :
    dt.date = civilFromDays (daysFromCivil c.date + k) ∧ dt.hh = c.hh ∧ dt.mm = c.mm ∧ dt.ss = c.ss := by
  unfold addDays at h
  simp only at h
  split at h
  · injection h with h; subst h; exact ⟨rfl, rfl, rfl, rfl⟩
  · cases h

theorem addDays_error {c : Civil} {k : Int} {e : Err} (h : addDays c k = .error e) : e = .field 1 := by
  unfold addDays at h
  simp only at h
  split at h
  · cases h
  · injection h with h; exact h.symm

theorem mkDatetime_ok {y m d hh mm ss : Int} {c : Civil} (h : mkDatetime y m d hh mm ss = .ok c) :
    c = ⟨y, m, d, hh, mm, ss⟩ ∧ c.Valid ∧ 1 ≤ y ∧ y ≤ 9999 := by
  unfold mkDatetime at h
  split at h; · cases h
  split at h; · cases h
  split at h; · cases h
  split at h; · cases h
  split at h; · cases h
  split at h; · cases h
  injection h with h
  subst h
  refine ⟨rfl, ?_, by omega, by omega⟩
  simp only [Civil.Valid, Date.Valid, Civil.date]
  omega

/-- For a valid date the constructor can only complain about the year. -/
theorem mkDatetime_midnight_error {c : Date} {e : Err} (hv : c.Valid) (h : mkDatetime c.y c.m c.d 0 0 0 = .error e) :
    e = .field 1 := by
  simp only [Date.Valid] at hv
  unfold mkDatetime at h
  split at h; · injection h with h; exact h.symm
  split at h; · omega
  split at h; · omega
  simp at h

theorem date_eq_of {c : Civil} {dt : Date} (h : c.date = dt) : c.y = dt.y ∧ c.m = dt.m ∧ c.d = dt.d :=
  ⟨congrArg Date.y h, congrArg Date.m h, congrArg Date.d h⟩

/-! ### BOD, BOW, BOM, BOY in closed form -/

/-- BOD(n) = start of local day `today + n`. -/
theorem bod_eq (Z : Zone) (u n r : Int) (h : bod Z u n = .ok r) :
    r = Z.start (Period.first .day (Period.idx .day (Z.day u) + n)) := by
  unfold bod at h
  obtain ⟨now, h1, h⟩ := bind_eq_ok h
  obtain ⟨dt, h2, h⟩ := bind_eq_ok h
  have e1 := fromtimestamp_date h1
  have e2 := (addDays_ok h2).1
  rw [e1, daysFromCivil_civilFromDays] at e2
  injection h with h
  rw [← h]
  simp only [Zone.start, Period.first, Period.idx, ← e2]
  rfl

theorem bod_error (Z : Zone) (u n : Int) (e : Err) (h : bod Z u n = .error e) : e = .field 1 := by
  unfold bod at h
  rcases bind_eq_error h with h | ⟨now, _, h⟩
  · exact fromtimestamp_error h
  · rcases bind_eq_error h with h | ⟨dt, _, h⟩
    · exact addDays_error h
    · cases h

/-- BOW(n, s) (repaired shift), `0 ≤ s ≤ 6` = start of the first day of the week that lies `n` weeks from the one
containing today, weeks starting on weekday `s`. For the unrepaired shift see `bow_eq_any`. -/
theorem bow_eq_any (Z : Zone) (fixed : Bool) (u n s r : Int) (h : bow Z fixed u n s = .ok r) :
    r = Z.start (Z.day u - bowShift fixed (weekday (Z.day u)) s + 7 * n) := by
  unfold bow at h
  obtain ⟨now, h1, h⟩ := bind_eq_ok h
  obtain ⟨dt, h2, h⟩ := bind_eq_ok h
  obtain ⟨dt', h3, h⟩ := bind_eq_ok h
  have e1 := fromtimestamp_date h1
  have e2 := (addDays_ok h2).1
  have e0 : ({ now with hh := 12 } : Civil).date = now.date := rfl
  rw [e0, e1, daysFromCivil_civilFromDays] at e2
  have hv := civilFromDays_valid (Z.day u + -bowShift fixed (weekday (Z.day u)) s)
  rw [e2, weekLoop_eq n _ hv, daysFromCivil_civilFromDays] at h3
  have e3 := (mkDatetime_ok h3).1
  injection h with h
  rw [← h, e3]
  simp only [Zone.start]
  have e : Z.day u + -bowShift fixed (weekday (Z.day u)) s + 7 * n =
      Z.day u - bowShift fixed (weekday (Z.day u)) s + 7 * n := by omega
  rw [e]
  rfl

theorem bow_eq (Z : Zone) (u n s r : Int) (h0 : 0 ≤ s) (h6 : s ≤ 6) (h : bow Z true u n s = .ok r) :
    r = Z.start (Period.first (.week s) (Period.idx (.week s) (Z.day u) + n)) := by
  rw [bow_eq_any Z true u n s r h, bowShift_fixed _ s h0 h6]
  simp only [Period.first]
  congr 1; omega

/-- The week loop never produces an invalid date: BOW can only fail for a year outside 1..9999. -/
theorem bow_error (Z : Zone) (fixed : Bool) (u n s : Int) (e : Err) (h : bow Z fixed u n s = .error e) :
    e = .field 1 := by
  unfold bow at h
  rcases bind_eq_error h with h | ⟨now, _, h⟩
  · exact fromtimestamp_error h
  · rcases bind_eq_error h with h | ⟨dt, h2, h⟩
    · exact addDays_error h
    · rcases bind_eq_error h with h | ⟨dt', _, h⟩
      · have hv : dt.date.Valid := by rw [(addDays_ok h2).1]; exact civilFromDays_valid _
        exact mkDatetime_midnight_error (weekLoop_spec n dt.date hv).1 h
      · cases h

/-- BOM(n) = start of the first day of the month `n` months from the current one. -/
theorem bom_eq (Z : Zone) (u n r : Int) (h : bom Z u n = .ok r) :
    r = Z.start (Period.first .month (Period.idx .month (Z.day u) + n)) := by
  unfold bom at h
  obtain ⟨now, h1, h⟩ := bind_eq_ok h
  obtain ⟨dt, h2, h⟩ := bind_eq_ok h
  have e1 := fromtimestamp_date h1
  have hv := civilFromDays_valid (Z.day u)
  obtain ⟨ey, em, _⟩ := date_eq_of e1
  simp only [Date.Valid] at hv
  rw [ey, em, monthLoop_eq n _ _ ⟨hv.1, hv.2.1⟩] at h2
  have e3 := (mkDatetime_ok h2).1
  injection h with h
  rw [← h, e3]
  simp only [Zone.start, month_first_civil, Period.idx]
  rfl

theorem bom_error (Z : Zone) (u n : Int) (e : Err) (h : bom Z u n = .error e) : e = .field 1 := by
  unfold bom at h
  rcases bind_eq_error h with h | ⟨now, h1, h⟩
  · exact fromtimestamp_error h
  · rcases bind_eq_error h with h | ⟨dt, _, h⟩
    · have e1 := fromtimestamp_date h1
      have hv := civilFromDays_valid (Z.day u)
      obtain ⟨ey, em, _⟩ := date_eq_of e1
      simp only [Date.Valid] at hv
      rw [ey, em, monthLoop_eq n _ _ ⟨hv.1, hv.2.1⟩] at h
      have hb := monthLen_bounds ((12 * (civilFromDays (Z.day u)).y + ((civilFromDays (Z.day u)).m - 1) + n) / 12)
        ((12 * (civilFromDays (Z.day u)).y + ((civilFromDays (Z.day u)).m - 1) + n) % 12 + 1)
      exact mkDatetime_midnight_error (c := ⟨_, _, 1⟩) (by simp only [Date.Valid]; omega) h
    · cases h

/-- BOY(n) = start of January 1st of the year `n` years from the current one. -/
theorem boy_eq (Z : Zone) (u n r : Int) (h : boy Z u n = .ok r) :
    r = Z.start (Period.first .year (Period.idx .year (Z.day u) + n)) := by
  unfold boy at h
  obtain ⟨now, h1, h⟩ := bind_eq_ok h
  obtain ⟨dt, h2, h⟩ := bind_eq_ok h
  have e1 := fromtimestamp_date h1
  obtain ⟨ey, _, _⟩ := date_eq_of e1
  rw [ey] at h2
  have e3 := (mkDatetime_ok h2).1
  injection h with h
  rw [← h, e3]
  simp only [Zone.start, year_first_civil, Period.idx]
  rfl

theorem boy_error (Z : Zone) (u n : Int) (e : Err) (h : boy Z u n = .error e) : e = .field 1 := by
  unfold boy at h
  rcases bind_eq_error h with h | ⟨now, _, h⟩
  · exact fromtimestamp_error h
  · rcases bind_eq_error h with h | ⟨dt, _, h⟩
    · have hb := monthLen_bounds (now.y + n) 1
      exact mkDatetime_midnight_error (c := ⟨_, 1, 1⟩) (by simp only [Date.Valid]; omega) h
    · cases h

/-! ### intervals -/

/-- Seconds since local midnight. -/
def Civil.sod (c : Civil) : Int := c.hh * 3600 + c.mm * 60 + c.ss

theorem le_same_date (p q : Civil) (hy : p.y = q.y) (hm : p.m = q.m) (hd : p.d = q.d)
    (hp : 0 ≤ p.mm ∧ p.mm ≤ 59 ∧ 0 ≤ p.ss ∧ p.ss ≤ 59) (hq : 0 ≤ q.mm ∧ q.mm ≤ 59 ∧ 0 ≤ q.ss ∧ q.ss ≤ 59) :
    p.le q = true ↔ p.sod ≤ q.sod := by
  unfold Civil.le Civil.sod
  simp only [hy, hm, hd, ne_eq, not_true_eq_false, if_false]
  (repeat' split) <;> simp only [decide_eq_true_eq] <;> omega

theorem le_same_time (p q : Civil) (hy : p.y = q.y) (hh : p.hh = q.hh) (hm : p.mm = q.mm) (hs : p.ss = q.ss) :
    p.le q = true ↔ (p.m < q.m ∨ (p.m = q.m ∧ p.d ≤ q.d)) := by
  unfold Civil.le
  simp only [hy, hh, hm, hs, ne_eq, not_true_eq_false, if_false]
  (repeat' split) <;> simp only [decide_eq_true_eq] <;> omega

/-- HMSINTERVAL: a value is returned only for in-range arguments, and it is 1 exactly when the local time of day
lies in the closed interval (no wrap-around). -/
theorem hmsInterval_ok (Z : Zone) (u sh sm ss eh em es r : Int) (h : hmsInterval Z u sh sm ss eh em es = .ok r) :
    ∃ now, fromtimestamp Z u = .ok now ∧ (r = 0 ∨ r = 1) ∧
      (r = 1 ↔ sh * 3600 + sm * 60 + ss ≤ now.sod ∧ now.sod ≤ eh * 3600 + em * 60 + es) := by
  unfold hmsInterval at h
  split at h; · cases h
  rename_i now h1
  refine ⟨now, h1, ?_⟩
  have hv := civilOfSeconds_valid (Z.loc u)
  rw [← fromtimestamp_ok h1] at hv
  obtain ⟨_, hv⟩ := hv
  split at h; · cases h
  split at h; · cases h
  split at h; · cases h
  split at h; · cases h
  split at h; · cases h
  split at h; · cases h
  injection h with h
  have a1 := le_same_date { now with hh := sh, mm := sm, ss := ss } now rfl rfl rfl (by simp only; omega) (by omega)
  have a2 := le_same_date now { now with hh := eh, mm := em, ss := es } rfl rfl rfl (by omega) (by simp only; omega)
  simp only [Civil.sod] at a1 a2 ⊢
  split at h
  · rename_i hc
    simp only [Bool.and_eq_true] at hc
    rw [a1, a2] at hc
    omega
  · rename_i hc
    simp only [Bool.and_eq_true] at hc
    rw [a1, a2] at hc
    omega

/-- MDINTERVAL: a value is returned only when both (month, day) pairs are dates of the current local year, and it
is 1 exactly when today's (month, day) lies between them in lexicographic order (closed, no wrap-around). -/
theorem mdInterval_ok (Z : Zone) (u sm sd em ed r : Int) (h : mdInterval Z u sm sd em ed = .ok r) :
    ∃ now, fromtimestamp Z u = .ok now ∧ (r = 0 ∨ r = 1) ∧
      (1 ≤ sm ∧ sm ≤ 12 ∧ 1 ≤ sd ∧ sd ≤ monthLen now.y sm) ∧ (1 ≤ em ∧ em ≤ 12 ∧ 1 ≤ ed ∧ ed ≤ monthLen now.y em) ∧
      (r = 1 ↔ (sm < now.m ∨ (sm = now.m ∧ sd ≤ now.d)) ∧ (now.m < em ∨ (now.m = em ∧ now.d ≤ ed))) := by
  unfold mdInterval at h
  split at h; · cases h
  rename_i now h1
  refine ⟨now, h1, ?_⟩
  split at h; · cases h
  split at h; · cases h
  rename_i start hs
  split at h; · cases h
  split at h; · cases h
  rename_i stop ht
  injection h with h
  obtain ⟨es, vs, _⟩ := mkDatetime_ok hs
  obtain ⟨et, vt, _⟩ := mkDatetime_ok ht
  subst es et
  have a1 := le_same_time ⟨now.y, sm, sd, now.hh, now.mm, now.ss⟩ now rfl rfl rfl rfl
  have a2 := le_same_time now ⟨now.y, em, ed, now.hh, now.mm, now.ss⟩ rfl rfl rfl rfl
  simp only [Civil.Valid, Date.Valid, Civil.date] at vs vt
  simp only at a1 a2
  refine ⟨?_, by omega, by omega, ?_⟩
  · split at h <;> omega
  · split at h
    · rename_i hc
      simp only [Bool.and_eq_true] at hc
      rw [a1, a2] at hc
      omega
    · rename_i hc
      simp only [Bool.and_eq_true] at hc
      rw [a1, a2] at hc
      omega

end QtVerif.Calendar
