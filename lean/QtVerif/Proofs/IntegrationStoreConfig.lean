import QtVerif.Proofs.IntegrationStore
import QtVerif.Proofs.IntegrationStoreCodec
/-!
Integration C07 × C06, layer B: the by-id writes a step of the configuration model performs on its abstract store, and
the view (`View`) they produce. Core Lean only.
-/
namespace QtVerif.IntegrationStore
open QtVerif.Store QtVerif.Config

def cPorts : Str := [112, 111, 114, 116, 115]          -- "ports"
def cVports : Str := [118, 112, 111, 114, 116, 115]    -- "vports"
def cDevice : Str := [100, 101, 118, 105, 99, 101]     -- "device"
/-- `persist.set_value('device', …)` keeps the single record of the collection under the empty id -/
def devId : Str := []

/-- `port.save()`: `persist.replace('ports', id, prepare_for_save())` -/
def savePortW (id : String) (p : Port) : W :=
  .put cPorts (strOf id) (portCodec.enc (prepareForSave { p with pendingSave := false }))

/-- the persistence writes of one step of the configuration model (port, virtual-port and device records) -/
def writesOf (cfg : Cfg) (st : State) : Config.Op → List W
  | .addV id vd =>
    match st.hub.ports id with
    | some _ => []
    | none =>
      [.put cVports (strOf id) (vdefCodec.enc vd),
       savePortW id (setAttr cfg (loadFromData cfg (fresh (vportDef cfg.hist vd))
         ((st.store.ports id).getD emptyRec)).1 "enabled" (.bool true)).1]
  | .patch id attrs =>
    match st.hub.ports id with
    | none => []
    | some p =>
      if ¬ validPatch p attrs then []
      else if (applyFields cfg p attrs).2 then [savePortW id (applyFields cfg p attrs).1]
      else if cfg.saveOnError then [savePortW id (applyFields cfg p attrs).1] else []
  | .del id =>
    match st.hub.ports id with
    | none => []
    | some p => if ¬ p.pdef.virtual then [] else [.del cPorts (strOf id), .del cVports (strOf id)]
  | .patchDev d => [.put cDevice devId (deviceCodec.enc (saveDevice (step cfg st (.patchDev d)).1.hub.device))]
  | .putDev n dn =>
    [.del cDevice devId, .put cDevice devId (deviceCodec.enc (saveDevice (step cfg st (.putDev n dn)).1.hub.device))]
  | _ => []

/-- the steps covered: everything but the slave-device operations, and a save-loop iteration only in a state where no
port is waiting to be saved (its writes would range over the hub's port table, which the model keeps as a total
function without an enumeration) -/
def Supported (st : State) : Config.Op → Prop
  | .saveTick => ∀ id p, st.hub.ports id = some p → p.pendingSave = false
  | .putSlaves _ => False
  | .delSlave _ => False
  | .patchSlave _ _ _ => False
  | .fwdSlave _ _ => False
  | _ => True

def writes (cfg : Cfg) (st : State) : List Config.Op → List W
  | [] => []
  | o :: r => writesOf cfg st o ++ writes cfg (step cfg st o).1 r

def SupportedRun (cfg : Cfg) (st : State) : List Config.Op → Prop
  | [] => True
  | o :: r => Supported st o ∧ SupportedRun cfg (step cfg st o).1 r

/-- the view holds, under the embedded ids, exactly the encoded records of the abstract store -/
structure Rel (s : Config.Store) (V : View) : Prop where
  ports : ∀ id, V cPorts (strOf id) = (s.ports id).map (fun r => full (strOf id) (portCodec.enc r))
  vports : ∀ id, V cVports (strOf id) = (s.vports id).map (fun r => full (strOf id) (vdefCodec.enc r))
  device : V cDevice devId = s.device.map (fun r => full devId (deviceCodec.enc r))

theorem strOf_inj (a b : String) : strOf a = strOf b ↔ a = b :=
  ⟨strOf_injective a b, fun h => h ▸ rfl⟩

theorem rel_step (cfg : Cfg) (st : State) (V : View) (h : Rel st.store V) (op : Config.Op) (hs : Supported st op) :
    Rel (step cfg st op).1.store ((writesOf cfg st op).foldl applyV V) := by
  have n1 : cPorts ≠ cVports := by decide
  have n2 : cPorts ≠ cDevice := by decide
  have n3 : cVports ≠ cDevice := by decide
  have n1' : cVports ≠ cPorts := by decide
  have n2' : cDevice ≠ cPorts := by decide
  have n3' : cDevice ≠ cVports := by decide
  obtain ⟨hp, hv, hd⟩ := h
  cases op with
  | addV id vd =>
    simp only [step, writesOf]
    cases hq : st.hub.ports id with
    | some _ => exact ⟨hp, hv, hd⟩
    | none =>
      refine ⟨fun j => ?_, fun j => ?_, ?_⟩
      · by_cases e : j = id
        · subst e; simp [applyV, savePortW, savePort, upd, n1, n1']
        · simp [applyV, savePortW, savePort, upd, n1, n1', strOf_inj, e, hp j]
      · by_cases e : j = id
        · subst e; simp [applyV, savePortW, savePort, upd, n1, n1']
        · simp [applyV, savePortW, savePort, upd, n1, n1', strOf_inj, e, hv j]
      · simp [applyV, savePortW, savePort, n2', n3', hd]
  | patch id attrs =>
    simp only [step, writesOf]
    cases hq : st.hub.ports id with
    | none => exact ⟨hp, hv, hd⟩
    | some p =>
      by_cases hval : validPatch p attrs = true
      · simp only [hval, not_true_eq_false, if_false]
        have key : ∀ p1 : Port, Rel (savePort st id p1).store ([savePortW id p1].foldl applyV V) := by
          intro p1
          refine ⟨fun j => ?_, fun j => ?_, ?_⟩
          · by_cases e : j = id
            · subst e; simp [applyV, savePortW, savePort, upd]
            · simp [applyV, savePortW, savePort, upd, strOf_inj, e, hp j]
          · simp [applyV, savePortW, savePort, n1', hv j]
          · simp [applyV, savePortW, savePort, n2', hd]
        cases hok : (applyFields cfg p attrs).2 with
        | true => simpa [hok] using key _
        | false =>
          cases hso : cfg.saveOnError with
          | true => simpa [hok, hso] using key _
          | false => simpa [hok, hso] using (⟨hp, hv, hd⟩ : Rel st.store V)
      · simp only [hval, not_false_eq_true, if_true]
        exact ⟨hp, hv, hd⟩
  | del id =>
    simp only [step, writesOf]
    cases hq : st.hub.ports id with
    | none => exact ⟨hp, hv, hd⟩
    | some p =>
      by_cases hvirt : p.pdef.virtual = true
      · simp only [hvirt, not_true_eq_false, if_false]
        refine ⟨fun j => ?_, fun j => ?_, ?_⟩
        · by_cases e : j = id
          · subst e; simp [applyV, upd, n1, n1']
          · simp [applyV, upd, n1, n1', strOf_inj, e, hp j]
        · by_cases e : j = id
          · subst e; simp [applyV, upd, n1, n1']
          · simp [applyV, upd, n1, n1', strOf_inj, e, hv j]
        · simp [applyV, n2', n3', hd]
      · simp only [hvirt, not_false_eq_true, if_true]
        exact ⟨hp, hv, hd⟩
  | valueChange id v =>
    simp only [step, writesOf]
    cases hq : st.hub.ports id <;> exact ⟨hp, hv, hd⟩
  | saveTick =>
    simp only [Supported] at hs
    refine ⟨fun j => ?_, hv, hd⟩
    simp only [step, writesOf, List.foldl_nil]
    cases hq : st.hub.ports j with
    | none => exact hp j
    | some p => simp [hs j p hq, hp j]
  | patchDev d =>
    refine ⟨fun j => ?_, fun j => ?_, ?_⟩
    · simp [step, writesOf, applyV, n2, hp j]
    · simp [step, writesOf, applyV, n3, hv j]
    · simp [step, writesOf, applyV]
  | putDev n dn =>
    refine ⟨fun j => ?_, fun j => ?_, ?_⟩
    · simp [step, writesOf, applyV, n2, hp j]
    · simp [step, writesOf, applyV, n3, hv j]
    · simp [step, writesOf, applyV]
  | restart => exact ⟨hp, hv, hd⟩
  | putSlaves l => exact hs.elim
  | delSlave n => exact hs.elim
  | patchSlave n a b => exact hs.elim
  | fwdSlave n a => exact hs.elim

theorem rel_run (cfg : Cfg) : ∀ (ops : List Config.Op) (st : State) (V : View), Rel st.store V →
    SupportedRun cfg st ops → Rel (run cfg st ops).store ((writes cfg st ops).foldl applyV V) := by
  intro ops
  induction ops with
  | nil => intro st V h _; exact h
  | cons o r ih =>
    intro st V h hs
    simp only [run, writes, List.foldl_append]
    exact ih _ _ (rel_step cfg st V h o hs.1) hs.2

theorem rel_init (cfg : Cfg) : Rel (init cfg).store (fun _ _ => none) :=
  ⟨fun _ => rfl, fun _ => rfl, rfl⟩

end QtVerif.IntegrationStore
