import QtVerif.Proofs.ValueDomainSpec
/-!
C05 — helper lemmas: exact grid arithmetic, the validation procedure against the declarative domain, purity of
rejections, the write path, sequences, the history invariant.
-/
namespace QtVerif.ValueDomain

theorem fmodQ_eq_zero_iff (a b : Rat) (hb : b ≠ 0) : fmodQ a b = 0 ↔ ∃ k : Int, a = (k : Rat) * b := by
  unfold fmodQ
  constructor
  · intro h
    exact ⟨(a / b).floor, by grind⟩
  · rintro ⟨k, rfl⟩
    have : (k : Rat) * b / b = k := Rat.mul_div_cancel hb
    rw [this, Rat.floor_intCast]
    grind

theorem isInt_iff (q : Rat) : q.isInt = true ↔ ∃ n : Int, q = (n : Rat) := by
  unfold Rat.isInt
  constructor
  · intro h
    refine ⟨q.num, ?_⟩
    have hd : q.den = 1 := by simpa using h
    apply Rat.ext
    · simp
    · simp [hd]
  · rintro ⟨n, rfl⟩
    simp

theorem onGrid_repaired_iff (q m s : Rat) (hs : s ≠ 0) :
    onGrid Cfg.repaired q m s = true ↔ ∃ k : Int, q = m + (k : Rat) * s := by
  simp only [onGrid, Cfg.repaired, if_true, beq_iff_eq]
  rw [fmodQ_eq_zero_iff _ _ hs]
  constructor
  · rintro ⟨k, h⟩; exact ⟨k, by grind⟩
  · rintro ⟨k, h⟩; exact ⟨k, by grind⟩

/-- adapt only changes the look of the token -/
theorem jeq_adapt (cfg : Cfg) (d : PortDef) (c : Choice) (v : JVal) : jeq c (adapt cfg d v) = jeq c v := by
  cases v <;> try rfl
  rename_i q i
  cases i <;> simp only [adapt] <;> try rfl
  split <;> cases c <;> rfl

theorem jeq_iff_matches (c : Choice) (v : JVal) : jeq c v = true ↔ Matches c v := by
  cases c <;> cases v <;> simp [jeq, Matches]


theorem validate_choices (d : PortDef) (cs : List Choice) (h : d.choices = some cs) (v : JVal) :
    validateValue Cfg.repaired d v =
      if cs.any (fun c => jeq c v) then .ok (adapt Cfg.repaired d v) else .error .invalidValue := by
  simp only [validateValue, schemaOk, stepCheck, h, Cfg.repaired, Option.isSome_some, Bool.and_self, if_true, jeq_adapt]
  split <;> simp_all

theorem any_jeq_iff (cs : List Choice) (v : JVal) :
    cs.any (fun c => jeq c v) = true ↔ ∃ c, c ∈ cs ∧ Matches c v := by
  simp [List.any_eq_true, jeq_iff_matches]

theorem matches_ofPortType (d : PortDef) (c : Choice) (v : JVal) (hc : ChoiceOfType d c) (hm : Matches c v) :
    OfPortType d v := by
  cases c <;> cases v <;> simp_all [Matches, ChoiceOfType, OfPortType]

/-- Main lemma, choices declared. -/
theorem validate_iff_choices (d : PortDef) (cs : List Choice) (h : d.choices = some cs) (hwf : WF d) (v : JVal) :
    (validateValue Cfg.repaired d v = .ok (adapt Cfg.repaired d v) ↔ InDomain d v) ∧
    (¬ InDomain d v → validateValue Cfg.repaired d v = .error .invalidValue) := by
  rw [validate_choices d cs h]
  have key : InDomain d v ↔ ∃ c, c ∈ cs ∧ Matches c v := by
    unfold InDomain; rw [h]
    constructor
    · exact fun hh => hh.2
    · rintro ⟨c, hc, hm⟩
      exact ⟨matches_ofPortType d c v (hwf.2 cs h c hc) hm, c, hc, hm⟩
  rw [key, ← any_jeq_iff]
  cases hh : cs.any (fun c => jeq c v) <;> simp


/-- Main lemma, no choices, a number on a number port. -/
theorem validate_num (d : PortDef) (h : d.choices = none) (ht : d.type = .number) (q : Rat) (i : Bool)
    (hj : (JVal.num q i).isJson) :
    (validateValue Cfg.repaired d (.num q i) = .ok (adapt Cfg.repaired d (.num q i)) ↔ InRangeGrid d q) ∧
    (¬ InRangeGrid d q → validateValue Cfg.repaired d (.num q i) = .error .invalidValue) := by
  -- the adapted value is `num q i'` with i' = true iff the token denotes an integer on an integer port
  have hint : d.integer = true → (i = true ∨ q.isInt = true ↔ ∃ n : Int, q = (n : Rat)) := by
    intro _
    rw [isInt_iff]
    cases i
    · simp
    · simp only [JVal.isJson] at hj; simp [hj]
  obtain ⟨i', hi', hii⟩ : ∃ i', adapt Cfg.repaired d (.num q i) = .num q i' ∧
      (d.integer = true → (i' = true ↔ ∃ n : Int, q = (n : Rat))) := by
    cases i
    · by_cases hc : (Cfg.repaired.integralFloats && d.integer && q.isInt) = true
      · refine ⟨true, by simp [adapt, hc], fun _ => ?_⟩
        simp only [Bool.and_eq_true] at hc
        simp [(isInt_iff q).1 hc.2]
      · refine ⟨false, by simp [adapt, hc], fun hi => ?_⟩
        have : q.isInt = false := by simpa [Cfg.repaired, hi] using hc
        rw [← isInt_iff]; simp [this]
    · refine ⟨true, rfl, fun hi => ?_⟩
      have := hint hi; simp at this; simp [this]
  have htype : typeOk d (.num q i') = true ↔ (d.integer = true → ∃ n : Int, q = (n : Rat)) := by
    unfold typeOk
    cases hi : d.integer
    · simp [ht, isNumber]
    · have := hii hi
      cases i' <;> simp_all
  have hstep : (stepCheck Cfg.repaired d (.num q i') = .on ↔
        ∀ m s, d.min = some m → d.step = some s → s ≠ 0 → ∃ k : Int, q = m + (k : Rat) * s) ∧
      (stepCheck Cfg.repaired d (.num q i') ≠ .on → stepCheck Cfg.repaired d (.num q i') = .off) := by
    simp only [stepCheck, h, Cfg.repaired, Option.isSome_none, Bool.and_false]
    cases hs : d.step with
    | none => simp
    | some s =>
      cases hm : d.min with
      | none => simp
      | some m =>
        by_cases hs0 : s = 0
        · simp [hs0]
        · have hg := onGrid_repaired_iff q m s hs0
          simp only [Cfg.repaired] at hg
          simp only [Bool.false_eq_true, if_false, hs0, gridCheck]
          by_cases hon : onGrid {} q m s = true
          · simp only [hon, if_true, true_iff, ne_eq, not_true_eq_false, false_implies, and_true]
            intro m' s' hm' hs' _
            cases hm'; cases hs'; exact hg.1 hon
          · have hoff : onGrid {} q m s = false := by simpa using hon
            simp only [hoff, Bool.false_eq_true, if_false]
            exact ⟨⟨fun hh => (by cases hh), fun hh => (hon (hg.2 (hh m s rfl rfl hs0))).elim⟩, fun _ => trivial⟩
  have hschema : schemaOk d (.num q i') = true ↔
      (∀ m, d.min = some m → m ≤ q) ∧ (∀ m, d.max = some m → q ≤ m) ∧ typeOk d (.num q i') = true := by
    unfold schemaOk; rw [h]
    cases d.min <;> cases d.max <;> simp [isNumber, ltRat, gtRat, Rat.not_lt, and_assoc]
  have hdom : InRangeGrid d q ↔ schemaOk d (.num q i') = true ∧ stepCheck Cfg.repaired d (.num q i') = .on := by
    unfold InRangeGrid; rw [hschema, htype, hstep.1]
    constructor
    · rintro ⟨a, b, c, e⟩; exact ⟨⟨a, b, c⟩, e⟩
    · rintro ⟨⟨a, b, c⟩, e⟩; exact ⟨a, b, c, e⟩
  rw [hdom]
  simp only [validateValue, hi']
  cases hS : schemaOk d (.num q i')
  · simp
  · cases hG : stepCheck Cfg.repaired d (.num q i')
    · simp
    · simp
    · exact absurd (hstep.2 (by simp [hG])) (by simp [hG])


theorem validate_spec (d : PortDef) (v : JVal) (hwf : WF d) (hj : v.isJson) :
    (validateValue Cfg.repaired d v = .ok (adapt Cfg.repaired d v) ↔ InDomain d v) ∧
    (¬ InDomain d v → validateValue Cfg.repaired d v = .error .invalidValue) := by
  cases h : d.choices with
  | some cs => exact validate_iff_choices d cs h hwf v
  | none =>
    cases ht : d.type with
    | boolean =>
      obtain ⟨hi, hmin, hmax, hstep⟩ := hwf.1 ht
      cases v with
      | num q i =>
        cases i <;>
        simp [validateValue, adapt, schemaOk, typeOk, InDomain, OfPortType, h, ht, hi, hmin, hmax]
      | _ =>
        simp [validateValue, adapt, schemaOk, stepCheck, typeOk, InDomain, OfPortType, h, ht, hi, hmin, hmax, hstep,
          Cfg.repaired, JVal.isJson] at hj ⊢
    | number =>
      cases v with
      | num q i =>
        have := validate_num d h ht q i hj
        simpa [InDomain, OfPortType, h, ht] using this
      | nonfin k => simp [JVal.isJson] at hj
      | _ =>
        cases hi : d.integer <;>
        simp [validateValue, adapt, schemaOk, typeOk, InDomain, OfPortType, h, ht, hi,
          isNumber, ltRat, gtRat] <;>
        (cases d.min <;> cases d.max <;> simp)


/-! ### value requests -/

theorem handleValue_spec (st : PState) (known : Bool) (v : JVal) (hwf : WF st.d) (hj : v.isJson) :
    (known = false → handleValue Cfg.repaired st known v = (st, .err .noSuchPort)) ∧
    (known = true → ¬ InDomain st.d v → handleValue Cfg.repaired st known v = (st, .err .invalidValue)) ∧
    (known = true → InDomain st.d v → st.d.enabled = false →
      handleValue Cfg.repaired st known v = (st, .err .portDisabled)) ∧
    (known = true → InDomain st.d v → st.d.enabled = true → st.d.writable = false →
      handleValue Cfg.repaired st known v = (st, .err .readOnlyPort)) ∧
    (known = true → InDomain st.d v → st.d.enabled = true → st.d.writable = true →
      performWrite st.d (adapt Cfg.repaired st.d v) = none →
      handleValue Cfg.repaired st known v = (st, .err .unexpected)) ∧
    (known = true → InDomain st.d v → st.d.enabled = true → st.d.writable = true →
      ∀ x, performWrite st.d (adapt Cfg.repaired st.d v) = some x →
      handleValue Cfg.repaired st known v = ({ st with calls := st.calls ++ [x] }, .ok)) := by
  have hv := validate_spec st.d v hwf hj
  refine ⟨?_, ?_, ?_, ?_, ?_, ?_⟩
  · intro hk; simp [handleValue, hk]
  · intro hk hn; simp [handleValue, hk, hv.2 hn]
  · intro hk hd he; simp [handleValue, hk, hv.1.2 hd, he]
  · intro hk hd he hw; simp [handleValue, hk, hv.1.2 hd, he, hw]
  · intro hk hd he hw hp; simp [handleValue, hk, hv.1.2 hd, he, hw, hp]
  · intro hk hd he hw x hp; simp [handleValue, hk, hv.1.2 hd, he, hw, hp]

/-! ### rejections are pure -/

theorem flush_settled (st : PState) (h : Settled st) : flush st = st := by
  have h1 : st.pend.filter (fun p => decide (p.1 ≤ st.now)) = [] := by
    simp only [List.filter_eq_nil_iff, decide_eq_true_eq]
    intro p hp; have := h p hp; omega
  have h2 : st.pend.filter (fun p => decide (st.now < p.1)) = st.pend := by
    simp only [List.filter_eq_self, decide_eq_true_eq]
    exact h
  cases st
  simp only [flush] at *
  simp [h1, h2]

theorem settled_flush (st : PState) : Settled (flush st) := by
  intro p hp
  simp only [flush, List.mem_filter, decide_eq_true_eq] at hp
  exact hp.2

theorem handle_reject (cfg : Cfg) (st : PState) (r : Req) (h : isReject (handle cfg st r).2 = true) :
    (handle cfg st r).1 = st := by
  cases r with
  | value known v =>
    simp only [handle, handleValue] at h ⊢
    repeat' split
    all_goals first | rfl | (simp_all [isReject])
  | sequence known values delays rep =>
    simp only [handle, handleSeq] at h ⊢
    repeat' split
    all_goals first | rfl | (simp_all [isReject])
  | enable => simp [handle, isReject] at h
  | disable => simp only [handle] at h ⊢; split <;> simp_all [isReject]
  | advance ms => simp [handle, isReject] at h
  | redefine d => simp [handle, isReject] at h

theorem step_reject (cfg : Cfg) (st : PState) (r : Req) (hs : Settled st) (h : isReject (step cfg st r).2 = true) :
    (step cfg st r).1 = st := by
  simp only [step] at h ⊢
  rw [handle_reject cfg st r h]
  exact flush_settled st hs

theorem step_settled (cfg : Cfg) (st : PState) (r : Req) : Settled (step cfg st r).1 := by
  simp only [step]; exact settled_flush _



/-! ### the delivered value -/

theorem adapt_same (cfg : Cfg) (d : PortDef) (v : JVal) : (adapt cfg d v).same v := by
  cases v with
  | num q i =>
    cases i
    · simp only [adapt]; split <;> simp [JVal.same]
    · simp [adapt, JVal.same]
  | _ => simp [adapt, JVal.same]

theorem coerce_same (d : PortDef) (a b : JVal) (h : a.same b) : coerce d a = coerce d b := by
  cases a <;> cases b <;> simp_all [JVal.same]
  rename_i q i q' i'
  simp [coerce]

theorem trunc_int (n : Int) :
    (((if 0 ≤ (n : Rat) then (n : Rat).floor else -((-(n : Rat)).floor) : Int)) : Rat) = (n : Rat) := by
  split
  · simp [Rat.floor_intCast]
  · have : (-(n : Rat)) = ((-n : Int) : Rat) := by simp [Rat.intCast_neg]
    rw [this, Rat.floor_intCast]; simp

theorem inDomain_integral (d : PortDef) (q : Rat) (i : Bool) (hwf : WF d) (hd : InDomain d (.num q i))
    (hi : d.integer = true) : ∃ n : Int, q = (n : Rat) := by
  unfold InDomain at hd
  cases h : d.choices with
  | none => rw [h] at hd; exact hd.2.2.2.1 hi
  | some cs =>
    rw [h] at hd
    obtain ⟨_, c, hc, hm⟩ := hd
    have := hwf.2 cs h c hc
    cases c with
    | cbool b => simp [Matches] at hm
    | cnum q' =>
      simp only [Matches] at hm
      subst hm
      exact this.2 hi

/-- An in-domain value is left as it is by the coercion to the port type (up to the look of the token). -/
theorem coerce_inDomain (d : PortDef) (v : JVal) (hwf : WF d) (hd : InDomain d v) :
    ∃ y, coerce d v = some y ∧ v.same y := by
  cases v with
  | bool b =>
    have ht : d.type = .boolean := hd.1
    exact ⟨.bool b, by simp [coerce, ht], by simp [JVal.same]⟩
  | num q i =>
    have ht : d.type = .number := hd.1
    cases hi : d.integer with
    | false => exact ⟨.num q false, by simp [coerce, ht, hi], by simp [JVal.same]⟩
    | true =>
      obtain ⟨n, rfl⟩ := inDomain_integral d q i hwf hd hi
      refine ⟨.num (n : Rat) true, ?_, by simp [JVal.same]⟩
      simp only [coerce, ht, hi, if_true]
      rw [trunc_int]
  | _ => exact absurd hd.1 (by simp [OfPortType])

theorem same_trans {a b c : JVal} (h1 : a.same b) (h2 : b.same c) : a.same c := by
  cases a <;> cases b <;> cases c <;> simp_all [JVal.same]

theorem performWrite_spec (d : PortDef) (v : JVal) (hwf : WF d) (htw : TwRespectsJson d) (hd : InDomain d v) :
    (performWrite d (adapt Cfg.repaired d v) = none ↔ specDelivery d v = none) ∧
    (∀ x, performWrite d (adapt Cfg.repaired d v) = some x → ∃ y, specDelivery d v = some y ∧ x.same y) := by
  unfold performWrite specDelivery
  cases h : d.tw with
  | none =>
    obtain ⟨y, hy, hs⟩ := coerce_inDomain d v hwf hd
    simp only [hy]
    refine ⟨by simp, ?_⟩
    intro x hx
    cases hx
    exact ⟨y, rfl, same_trans (adapt_same _ d v) hs⟩
  | some f =>
    have hsame := htw f h _ _ (adapt_same Cfg.repaired d v)
    simp only []
    cases h1 : f (adapt Cfg.repaired d v) <;> cases h2 : f v <;> simp_all [TOut.same]
    · rename_i a b
      rw [coerce_same d a b hsame]
      refine ⟨by simp, ?_⟩
      intro x hx; exact ⟨x, hx, by cases x <;> simp [JVal.same]⟩
    · simp [JVal.same]



/-! ### sequence requests -/

theorem validateAll_spec (d : PortDef) (hwf : WF d) (vs : List JVal) (hj : ∀ v, v ∈ vs → v.isJson) :
    (validateAll Cfg.repaired d vs = .ok (vs.map (adapt Cfg.repaired d)) ↔ ∀ v, v ∈ vs → InDomain d v) ∧
    ((¬ ∀ v, v ∈ vs → InDomain d v) → validateAll Cfg.repaired d vs = .error .invalidField) := by
  induction vs with
  | nil => simp [validateAll]
  | cons v vs ih =>
    have hv := validate_spec d v hwf (hj v (by simp))
    have ih := ih (fun w hw => hj w (by simp [hw]))
    by_cases hd : InDomain d v
    · have h1 := hv.1.2 hd
      by_cases hall : ∀ w, w ∈ vs → InDomain d w
      · have h2 := ih.1.2 hall
        simp only [validateAll, h1, h2, List.map_cons, true_iff]
        refine ⟨?_, fun hn => absurd ?_ hn⟩ <;>
        · intro w hw
          rcases List.mem_cons.1 hw with rfl | hw
          · exact hd
          · exact hall w hw
      · have h2 := ih.2 hall
        simp only [validateAll, h1, h2]
        refine ⟨⟨fun h => (by cases h), fun h => absurd (fun w hw => h w (by simp [hw])) hall⟩, fun _ => trivial⟩
    · have h1 := hv.2 hd
      simp only [validateAll, h1]
      refine ⟨⟨fun h => (by cases h), fun h => absurd (h v (by simp)) hd⟩, fun _ => trivial⟩

theorem handleSeq_spec (st : PState) (known : Bool) (values delays : List JVal) (rep : JVal)
    (hwf : WF st.d) (hj : ∀ v, v ∈ values → v.isJson) :
    (known = false → handleSeq Cfg.repaired st known values delays rep = (st, .err .noSuchPort)) ∧
    (known = true → shapeOk Cfg.repaired values delays rep = false →
      handleSeq Cfg.repaired st known values delays rep = (st, .err .invalidRequest)) ∧
    (known = true → shapeOk Cfg.repaired values delays rep = true → values.length ≠ delays.length →
      handleSeq Cfg.repaired st known values delays rep = (st, .err .invalidField)) ∧
    (known = true → shapeOk Cfg.repaired values delays rep = true → values.length = delays.length →
      (¬ ∀ v, v ∈ values → InDomain st.d v) →
      handleSeq Cfg.repaired st known values delays rep = (st, .err .invalidField)) ∧
    (known = true → shapeOk Cfg.repaired values delays rep = true → values.length = delays.length →
      (∀ v, v ∈ values → InDomain st.d v) → st.d.enabled = false →
      handleSeq Cfg.repaired st known values delays rep = (st, .err .portDisabled)) ∧
    (known = true → shapeOk Cfg.repaired values delays rep = true → values.length = delays.length →
      (∀ v, v ∈ values → InDomain st.d v) → st.d.enabled = true → st.d.writable = false →
      handleSeq Cfg.repaired st known values delays rep = (st, .err .readOnlyPort)) ∧
    (known = true → shapeOk Cfg.repaired values delays rep = true → values.length = delays.length →
      (∀ v, v ∈ values → InDomain st.d v) → st.d.enabled = true → st.d.writable = true → st.d.hasExpression = true →
      handleSeq Cfg.repaired st known values delays rep = (st, .err .portWithExpression)) ∧
    (known = true → shapeOk Cfg.repaired values delays rep = true → values.length = delays.length →
      (∀ v, v ∈ values → InDomain st.d v) → st.d.enabled = true → st.d.writable = true → st.d.hasExpression = false →
      handleSeq Cfg.repaired st known values delays rep =
        ({ st with pend := passes st.now (delays.map delayMs).sum (values.map (adapt Cfg.repaired st.d))
                            (delays.map delayMs) (delayMs rep) }, .ok)) := by
  have hv := validateAll_spec st.d hwf values hj
  refine ⟨?_, ?_, ?_, ?_, ?_, ?_, ?_, ?_⟩
  · intro hk; simp [handleSeq, hk]
  · intro hk hs; simp [handleSeq, hk, hs]
  · intro hk hs hl; simp [handleSeq, hk, hs, hl]
  · intro hk hs hl hn; simp [handleSeq, hk, hs, hl, hv.2 hn]
  · intro hk hs hl hd he; simp [handleSeq, hk, hs, hl, hv.1.2 hd, he]
  · intro hk hs hl hd he hw; simp [handleSeq, hk, hs, hl, hv.1.2 hd, he, hw]
  · intro hk hs hl hd he hw hx; simp [handleSeq, hk, hs, hl, hv.1.2 hd, he, hw, hx]
  · intro hk hs hl hd he hw hx; simp [handleSeq, hk, hs, hl, hv.1.2 hd, he, hw, hx]

theorem mem_onePass (t : Nat) (vs : List JVal) (ds : List Nat) (p : Nat × JVal) (h : p ∈ onePass t vs ds) :
    p.2 ∈ vs := by
  induction vs generalizing t ds with
  | nil => simp [onePass] at h
  | cons v vs ih =>
    cases ds with
    | nil => simp [onePass] at h
    | cons dl ds =>
      simp only [onePass, List.mem_cons] at h
      rcases h with h | h
      · subst h; simp
      · simp [ih _ _ h]

theorem mem_passes (t total : Nat) (vs : List JVal) (ds : List Nat) (r : Nat) (p : Nat × JVal)
    (h : p ∈ passes t total vs ds r) : p.2 ∈ vs := by
  induction r generalizing t with
  | zero => simp [passes] at h
  | succ r ih =>
    simp only [passes, List.mem_append] at h
    rcases h with h | h
    · exact mem_onePass _ _ _ _ h
    · exact ih _ h



/-! ### history invariant -/

/-- Model-level form of `LegitCall`. -/
def Good (d0 : PortDef) (x : JVal) : Prop :=
  ∃ v, v.isJson ∧ InDomain d0 v ∧ performWrite d0 (adapt Cfg.repaired d0 v) = some x

def PendGood (d0 : PortDef) (p : Nat × JVal) : Prop :=
  ∃ v, v.isJson ∧ InDomain d0 v ∧ p.2 = adapt Cfg.repaired d0 v

/-- `pre` = what the driver had been handed before the definition `d0` came into force. -/
def Inv (d0 : PortDef) (pre : List JVal) (st : PState) : Prop :=
  (∃ e, st.d = { d0 with enabled := e }) ∧ (∃ new, st.calls = pre ++ new ∧ ∀ x, x ∈ new → Good d0 x) ∧
  (∀ p, p ∈ st.pend → PendGood d0 p)

theorem good_legit (d0 : PortDef) (x : JVal) (hwf : WF d0) (htw : TwRespectsJson d0) (h : Good d0 x) :
    LegitCall d0 x := by
  obtain ⟨v, hj, hd, hp⟩ := h
  exact ⟨v, hj, hd, (performWrite_spec d0 v hwf htw hd).2 x hp⟩

theorem inv_flush (d0 : PortDef) (pre : List JVal) (st : PState) (h : Inv d0 pre st) : Inv d0 pre (flush st) := by
  obtain ⟨⟨e, he⟩, ⟨new, hnew, hc⟩, hp⟩ := h
  refine ⟨⟨e, he⟩, ⟨new ++ (st.pend.filter (fun p => p.1 ≤ st.now)).filterMap (fun p => performWrite st.d p.2), ?_, ?_⟩, ?_⟩
  · simp [flush, hnew, List.append_assoc]
  · intro x hx
    simp only [List.mem_append, List.mem_filterMap, List.mem_filter] at hx
    rcases hx with hx | ⟨p, ⟨hp1, _⟩, hw⟩
    · exact hc x hx
    · obtain ⟨v, hj, hd, hv⟩ := hp p hp1
      refine ⟨v, hj, hd, ?_⟩
      rw [← hv]
      rw [he] at hw
      exact hw
  · intro p hp1
    simp only [flush, List.mem_filter] at hp1
    exact hp p hp1.1

theorem inv_handle (d0 : PortDef) (pre : List JVal) (st : PState) (r : Req) (hwf : WF d0) (h : Inv d0 pre st)
    (hj : r.isJson) (hk : r.keepsDef) : Inv d0 pre (handle Cfg.repaired st r).1 := by
  have h0 := h
  obtain ⟨⟨e, he⟩, ⟨new, hnew, hc⟩, hp⟩ := h
  have hwf' : WF st.d := by rw [he]; exact hwf
  have hdom : ∀ v, InDomain st.d v ↔ InDomain d0 v := by intro v; rw [he]; exact Iff.rfl
  have hpw : ∀ v, performWrite st.d v = performWrite d0 v := by intro v; rw [he]; rfl
  have had : ∀ v, adapt Cfg.repaired st.d v = adapt Cfg.repaired d0 v := by intro v; rw [he]; rfl
  cases r with
  | value known v =>
    have hs := handleValue_spec st known v hwf' hj
    simp only [handle]
    cases hk : known with
    | false => rw [hk] at hs; rw [hs.1 rfl]; exact h0
    | true =>
      rw [hk] at hs
      by_cases hd : InDomain st.d v
      · cases hen : st.d.enabled with
        | false => rw [hs.2.2.1 rfl hd hen]; exact h0
        | true =>
          cases hw : st.d.writable with
          | false => rw [hs.2.2.2.1 rfl hd hen hw]; exact h0
          | true =>
            cases hpf : performWrite st.d (adapt Cfg.repaired st.d v) with
            | none => rw [hs.2.2.2.2.1 rfl hd hen hw hpf]; exact h0
            | some x =>
              rw [hs.2.2.2.2.2 rfl hd hen hw x hpf]
              refine ⟨⟨e, he⟩, ⟨new ++ [x], by simp [hnew, List.append_assoc], ?_⟩, hp⟩
              intro y hy
              simp only [List.mem_append, List.mem_singleton] at hy
              rcases hy with hy | rfl
              · exact hc y hy
              · exact ⟨v, hj, (hdom v).1 hd, by rw [← hpw, ← had]; exact hpf⟩
      · rw [hs.2.1 rfl hd]; exact h0
  | sequence known values delays rep =>
    have hs := handleSeq_spec st known values delays rep hwf' hj
    simp only [handle]
    cases hk : known with
    | false => rw [hk] at hs; rw [hs.1 rfl]; exact h0
    | true =>
      rw [hk] at hs
      cases hsh : shapeOk Cfg.repaired values delays rep with
      | false => rw [hs.2.1 rfl hsh]; exact h0
      | true =>
        by_cases hl : values.length = delays.length
        · by_cases hd : ∀ v, v ∈ values → InDomain st.d v
          · cases hen : st.d.enabled with
            | false => rw [hs.2.2.2.2.1 rfl hsh hl hd hen]; exact h0
            | true =>
              cases hw : st.d.writable with
              | false => rw [hs.2.2.2.2.2.1 rfl hsh hl hd hen hw]; exact h0
              | true =>
                cases hx : st.d.hasExpression with
                | true => rw [hs.2.2.2.2.2.2.1 rfl hsh hl hd hen hw hx]; exact h0
                | false =>
                  rw [hs.2.2.2.2.2.2.2 rfl hsh hl hd hen hw hx]
                  refine ⟨⟨e, he⟩, ⟨new, hnew, hc⟩, ?_⟩
                  intro p hp1
                  have := mem_passes _ _ _ _ _ _ hp1
                  simp only [List.mem_map] at this
                  obtain ⟨v, hv, hpv⟩ := this
                  exact ⟨v, hj v hv, (hdom v).1 (hd v hv), by rw [← hpv, had]⟩
          · rw [hs.2.2.2.1 rfl hsh hl hd]; exact h0
        · rw [hs.2.2.1 rfl hsh hl]; exact h0
  | enable => exact ⟨⟨true, by simp [handle, he]⟩, ⟨new, hnew, hc⟩, hp⟩
  | disable =>
    simp only [handle]
    split
    · exact ⟨⟨false, by simp [he]⟩, ⟨new, hnew, hc⟩, by simp⟩
    · exact h0
  | advance ms => exact ⟨⟨e, by simp [handle, he]⟩, ⟨new, hnew, hc⟩, hp⟩
  | redefine d => exact absurd hk (by simp [Req.keepsDef])

theorem inv_step (d0 : PortDef) (pre : List JVal) (st : PState) (r : Req) (hwf : WF d0) (h : Inv d0 pre st)
    (hj : r.isJson) (hk : r.keepsDef) : Inv d0 pre (step Cfg.repaired st r).1 := by
  simp only [step]; exact inv_flush d0 pre _ (inv_handle d0 pre st r hwf h hj hk)

theorem inv_run (d0 : PortDef) (pre : List JVal) (st : PState) (rs : List Req) (hwf : WF d0) (h : Inv d0 pre st)
    (hj : ∀ r, r ∈ rs → r.isJson ∧ r.keepsDef) : Inv d0 pre (run Cfg.repaired st rs) := by
  induction rs generalizing st with
  | nil => exact h
  | cons r rs ih =>
    simp only [run]
    exact ih _ (inv_step d0 pre st r hwf h (hj r (by simp)).1 (hj r (by simp)).2) (fun r' hr' => hj r' (by simp [hr']))

/-- The state right after a redefinition satisfies the invariant for the new definition, whatever happened before. -/
theorem inv_redefine (st : PState) (d : PortDef) : Inv d (step Cfg.repaired st (.redefine d)).1.calls
    (step Cfg.repaired st (.redefine d)).1 := by
  refine ⟨⟨d.enabled, by simp [step, handle, flush]⟩, ⟨[], by simp, by simp⟩, ?_⟩
  intro p hp
  simp [step, handle, flush] at hp

/-! ### bursts of value requests: one driver call per accepted request, in request order -/

/-- What a value request makes the driver receive on a port of definition `d`: nothing unless it is served. -/
def served (cfg : Cfg) (d : PortDef) (r : Bool × JVal) : Option JVal :=
  if r.1 && d.enabled && d.writable then
    match validateValue cfg d r.2 with
    | .ok v' => performWrite d v'
    | .error _ => none
  else none

theorem handleValue_calls (cfg : Cfg) (st : PState) (k : Bool) (v : JVal) :
    (handleValue cfg st k v).1 = { st with calls := st.calls ++ (served cfg st.d (k, v)).toList } := by
  simp only [handleValue, served]
  cases k <;> simp
  cases hv : validateValue cfg st.d v <;> simp
  cases st.d.enabled <;> simp
  cases st.d.writable <;> simp
  cases performWrite st.d _ <;> simp

theorem run_values_calls (cfg : Cfg) (st : PState) (rs : List (Bool × JVal)) (hp : st.pend = []) :
    run cfg st (rs.map fun r => .value r.1 r.2) =
      { st with calls := st.calls ++ rs.filterMap (served cfg st.d) } := by
  induction rs generalizing st with
  | nil => simp [run]
  | cons r rs ih =>
    simp only [List.map_cons, run, step, handle]
    rw [handleValue_calls]
    have hf : flush { st with calls := st.calls ++ (served cfg st.d (r.1, r.2)).toList } =
        { st with calls := st.calls ++ (served cfg st.d (r.1, r.2)).toList } := by
      apply flush_settled
      intro p hp'
      simp [hp] at hp'
    rw [hf, ih _ (by simpa using hp)]
    cases hs : served cfg st.d (r.1, r.2) <;> simp [hs, List.append_assoc]

end QtVerif.ValueDomain
