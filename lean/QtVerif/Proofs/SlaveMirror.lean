import QtVerif.Model.Slave
/-!
Helper definitions and lemmas for property C12 (the master's mirror of a slave follows the slave).

* lookup lemmas for `findPort / updPort / erasePort / findS` (no `Nodup` needed: everything is first-match);
* `mview` / `sview`: what the master exposes for a port id / what the slave has for it; `Synced`, `NoPending`, `Inv`;
* normal forms of `stepEvent`, and the *view semantics* of every event kind (`evView`, `mview_stepEvent`,
  `sview_applyChange`): under `NoPending` every handler does to `mview` what the emitting change did to `sview`;
* preservation of the replication invariant `Inv` by remote changes, listen batches and every interleaving;
* `drainPort` / `dedupFrom`: the hub's ticks report the queued values in FIFO order, none skipped;
* `fetchPorts` / `pollPorts` resynchronise; value-change series land in the remote queue in order.

The property theorems are in `QtVerif/Props/C12.lean`.
-/
namespace QtVerif.Slave

/-! ### Lookup lemmas, master side -/

theorem findPort_id {l : List MPort} {j : Nat} {p : MPort} (h : findPort l j = some p) : p.id = j := by
  have := List.find?_some h
  simpa using this

theorem findPort_mem {l : List MPort} {j : Nat} {p : MPort} (h : findPort l j = some p) : p ∈ l :=
  List.mem_of_find?_eq_some h

theorem findPort_updPort (l : List MPort) (i j : Nat) (f : MPort → MPort) (hf : ∀ p, (f p).id = p.id) :
    findPort (updPort l i f) j = if j = i then (findPort l j).map f else findPort l j := by
  have hc : ((fun p : MPort => p.id == j) ∘ fun p => if p.id == i then f p else p) = (fun p => p.id == j) := by
    funext q
    simp only [Function.comp]
    split <;> simp [hf]
  rw [findPort, updPort, List.find?_map, hc]
  cases h : l.find? (fun p => p.id == j) with
  | none => simp [findPort, h]
  | some p =>
    have hp := findPort_id h
    simp [findPort, h, hp]
    split <;> rfl

/-- A filter that only looks at the id keeps or drops all ports of one id together. -/
theorem findPort_filter_id (l : List MPort) (g : Nat → Bool) (j : Nat) :
    findPort (l.filter (fun p => g p.id)) j = if g j then findPort l j else none := by
  rw [findPort, List.find?_filter]
  by_cases hg : g j = true
  · simp only [hg, if_true, findPort]
    congr 1
    funext q
    by_cases hq : q.id = j
    · simp [hq, hg]
    · simp [hq]
  · simp only [hg, findPort]
    simp only [Bool.false_eq_true, if_false, List.find?_eq_none]
    intro q _ hgq
    simp at hgq
    rw [hgq.2] at hgq
    exact hg hgq.1

theorem findPort_erasePort (l : List MPort) (i j : Nat) :
    findPort (erasePort l i) j = if j = i then none else findPort l j := by
  have := findPort_filter_id l (fun k => !(k == i)) j
  simp only [erasePort, this]
  by_cases hji : j = i <;> simp [hji]

theorem findPort_append (l : List MPort) (p : MPort) (j : Nat) :
    findPort (l ++ [p]) j = (findPort l j).or (if p.id = j then some p else none) := by
  simp only [findPort, List.find?_append]
  by_cases h : p.id = j
  · simp [List.find?_cons_of_pos, h]
  · simp [List.find?_cons_of_neg, h]

theorem findPort_isSome_iff (l : List MPort) (j : Nat) :
    (findPort l j).isSome = (l.map (·.id)).contains j := by
  rw [Bool.eq_iff_iff]
  simp [findPort]

/-! ### Lookup lemmas, slave side -/

theorem findS_id {l : List SPort} {j : Nat} {p : SPort} (h : findS l j = some p) : p.id = j := by
  have := List.find?_some h
  simpa using this

theorem findS_map (l : List SPort) (i j : Nat) (f : SPort → SPort) (hf : ∀ p, (f p).id = p.id) :
    findS (l.map (fun q => if q.id == i then f q else q)) j =
      if j = i then (findS l j).map f else findS l j := by
  have hc : ((fun p : SPort => p.id == j) ∘ fun p => if p.id == i then f p else p) = (fun p => p.id == j) := by
    funext q
    simp only [Function.comp]
    split <;> simp [hf]
  rw [findS, List.find?_map, hc]
  cases h : l.find? (fun p => p.id == j) with
  | none => simp [findS, h]
  | some p =>
    have hp := findS_id h
    simp [findS, h, hp]
    split <;> rfl

theorem findS_filter_id (l : List SPort) (g : Nat → Bool) (j : Nat) :
    findS (l.filter (fun p => g p.id)) j = if g j then findS l j else none := by
  rw [findS, List.find?_filter]
  by_cases hg : g j = true
  · simp only [hg, if_true, findS]
    congr 1
    funext q
    by_cases hq : q.id = j
    · simp [hq, hg]
    · simp [hq]
  · simp only [hg, findS]
    simp only [Bool.false_eq_true, if_false, List.find?_eq_none]
    intro q _ hgq
    simp at hgq
    rw [hgq.2] at hgq
    exact hg hgq.1

theorem findS_erase (l : List SPort) (i j : Nat) :
    findS (l.filter (fun q => !(q.id == i))) j = if j = i then none else findS l j := by
  have := findS_filter_id l (fun k => !(k == i)) j
  simp only [this]
  by_cases hji : j = i <;> simp [hji]

theorem findS_append (l : List SPort) (p : SPort) (j : Nat) :
    findS (l ++ [p]) j = (findS l j).or (if p.id = j then some p else none) := by
  simp only [findS, List.find?_append]
  by_cases h : p.id = j
  · simp [List.find?_cons_of_pos, h]
  · simp [List.find?_cons_of_neg, h]

theorem findS_isSome_iff (l : List SPort) (j : Nat) :
    (findS l j).isSome = (l.map (·.id)).contains j := by
  rw [Bool.eq_iff_iff]
  simp [findS]
/-! ### Views, `Synced`, `NoPending`, `Inv` -/

/-- What is visible of one port: its attributes and its current (newest reported) value. -/
structure PV where
  attrs : Attrs
  value : PVal
  deriving DecidableEq, Repr

/-- The master's mirror of port `id`: cached attributes and newest remote value. -/
def mview (m : Master) (id : Nat) : Option PV := (findPort m.ports id).map (fun p => ⟨p.attrs, p.lastRemote⟩)
/-- The slave's port `id`. -/
def sview (s : SlaveSt) (id : Nat) : Option PV := (findS s.ports id).map (fun p => ⟨p.attrs, p.value⟩)

/-- The mirror shows exactly the slave's ports with the slave's attributes and values, and its device attributes. -/
def Synced (m : Master) (s : SlaveSt) : Prop := (∀ id, mview m id = sview s id) ∧ m.dev = s.dev

/-- Steady state: nothing is waiting on the master to be provisioned to the slave. -/
def NoPending (m : Master) : Prop := (∀ p ∈ m.ports, p.prov = [] ∧ p.provValue = false) ∧ m.devProv = []

instance (m : Master) : Decidable (NoPending m) := by unfold NoPending; infer_instance

/-- Replication invariant: replaying the slave session's pending events on the mirror gives the slave's state. -/
def Inv (fix : Fix) (m : Master) (s : SlaveSt) : Prop := Synced (handleEvents fix m s.queue) s

/-! ### Port-level facts -/

@[simp] theorem lastRemote_push (p : MPort) (v : PVal) : (p.push v).lastRemote = v := by
  simp [MPort.push, MPort.lastRemote]

theorem pendAttrs_nil {p : MPort} (h : p.prov = []) : p.pendAttrs = [] := by
  simp [MPort.pendAttrs, h]

theorem pendValue_none {p : MPort} (h : p.provValue = false) : p.pendValue = none := by
  simp [MPort.pendValue, h]

@[simp] theorem Attrs.update_nil (a : Attrs) : Attrs.update a [] = a := rfl

@[simp] theorem applyPortUpdate_id (fix : Fix) (p : MPort) (msg : PortMsg) :
    (applyPortUpdate fix p msg).1.id = p.id := by
  simp only [applyPortUpdate]
  split <;> rfl

@[simp] theorem applyPortUpdate_prov (fix : Fix) (p : MPort) (msg : PortMsg) :
    (applyPortUpdate fix p msg).1.prov = p.prov := by
  simp only [applyPortUpdate]
  split <;> rfl

@[simp] theorem applyPortUpdate_provValue (fix : Fix) (p : MPort) (msg : PortMsg) :
    (applyPortUpdate fix p msg).1.provValue = p.provValue := by
  simp only [applyPortUpdate]
  split <;> rfl

/-- With nothing pending on the port, a port-update message replaces the cached attributes and queues the
embedded value (if any), whatever `fix`. -/
theorem applyPortUpdate_view (fix : Fix) (p : MPort) (msg : PortMsg) (h1 : p.prov = []) (h2 : p.provValue = false) :
    (applyPortUpdate fix p msg).1.attrs = msg.attrs ∧
    (applyPortUpdate fix p msg).1.lastRemote = msg.value.getD p.lastRemote := by
  simp only [applyPortUpdate, pendAttrs_nil h1, pendValue_none h2]
  cases hv : msg.value with
  | none => simp [MPort.lastRemote]
  | some v =>
    simp only [Attrs.update_nil, ite_self, Option.isSome_none, Bool.and_false, Bool.false_eq_true, if_false,
      Option.getD_some]
    exact ⟨rfl, lastRemote_push _ v⟩

theorem mkPort_lastRemote (msg : PortMsg) : (mkPort msg).lastRemote = msg.value.getD none := by
  cases hv : msg.value <;> simp [mkPort, MPort.lastRemote, hv]

/-! ### Normal forms of `stepEvent` (errors swallowed) -/

theorem stepEvent_valueChange (fix : Fix) (m : Master) (id : Nat) (v : PVal) :
    stepEvent fix m (.valueChange id v) =
      match findPort m.ports id with
      | none => m
      | some p => if p.pendValue.isSome || p.lastRemote == v then m
                  else { m with ports := updPort m.ports id (fun q => q.push v) } := by
  simp only [stepEvent, handleEvent, handleValueChange]
  cases findPort m.ports id with
  | none => rfl
  | some p =>
    simp only []
    by_cases h1 : p.pendValue.isSome = true
    · simp [h1, Except.map]
    · by_cases h2 : (p.lastRemote == v) = true
      · simp [h1, h2, Except.map]
      · simp [h1, h2, Except.map]

theorem stepEvent_portUpdate (fix : Fix) (m : Master) (msg : PortMsg) :
    stepEvent fix m (.portUpdate msg) =
      match findPort m.ports msg.id with
      | none => m
      | some _ => { m with ports := updPort m.ports msg.id (fun q => (applyPortUpdate fix q msg).1) } := by
  simp only [stepEvent, handleEvent, handlePortUpdate]
  cases findPort m.ports msg.id <;> rfl

theorem stepEvent_portAdd (fix : Fix) (m : Master) (msg : PortMsg) :
    stepEvent fix m (.portAdd msg) =
      match findPort m.ports msg.id with
      | some _ => m
      | none => { m with ports := m.ports ++ [mkPort msg] } := by
  simp only [stepEvent, handleEvent, handlePortAdd]
  cases findPort m.ports msg.id <;> rfl

theorem stepEvent_portRemove (fix : Fix) (m : Master) (id : Nat) :
    stepEvent fix m (.portRemove id) =
      match findPort m.ports id with
      | none => m
      | some _ => { m with ports := erasePort m.ports id } := by
  simp only [stepEvent, handleEvent, handlePortRemove]
  cases findPort m.ports id <;> rfl

theorem stepEvent_deviceUpdate (fix : Fix) (m : Master) (a : Attrs) :
    stepEvent fix m (.deviceUpdate a) =
      if a.keys.any (fun n => m.pendDev.has n) then m else { m with dev := a } := by
  simp only [stepEvent, handleEvent, handleDeviceUpdate]
  by_cases h : (a.keys.any fun n => m.pendDev.has n) = true
  · simp [h, Except.map]
  · simp [h, Except.map]

/-! ### `NoPending` is preserved by every event -/

theorem noPending_updPort {l : List MPort} (i : Nat) (f : MPort → MPort)
    (hf : ∀ p, (f p).prov = p.prov ∧ (f p).provValue = p.provValue)
    (h : ∀ p ∈ l, p.prov = [] ∧ p.provValue = false) : ∀ p ∈ updPort l i f, p.prov = [] ∧ p.provValue = false := by
  intro q hq
  simp only [updPort, List.mem_map] at hq
  obtain ⟨q0, hq0, rfl⟩ := hq
  split
  · rw [(hf q0).1, (hf q0).2]; exact h q0 hq0
  · exact h q0 hq0

theorem noPending_stepEvent (fix : Fix) (m : Master) (e : Ev) (h : NoPending m) : NoPending (stepEvent fix m e) := by
  obtain ⟨hp, hd⟩ := h
  cases e with
  | valueChange id v =>
    rw [stepEvent_valueChange]
    split
    · exact ⟨hp, hd⟩
    · split
      · exact ⟨hp, hd⟩
      · exact ⟨noPending_updPort id _ (fun _ => ⟨rfl, rfl⟩) hp, hd⟩
  | portUpdate msg =>
    rw [stepEvent_portUpdate]
    split
    · exact ⟨hp, hd⟩
    · exact ⟨noPending_updPort msg.id _ (fun _ => ⟨by simp, by simp⟩) hp, hd⟩
  | portAdd msg =>
    rw [stepEvent_portAdd]
    split
    · exact ⟨hp, hd⟩
    · refine ⟨?_, hd⟩
      intro q hq
      simp only [List.mem_append, List.mem_singleton] at hq
      rcases hq with hq | rfl
      · exact hp q hq
      · exact ⟨rfl, rfl⟩
  | portRemove id =>
    rw [stepEvent_portRemove]
    split
    · exact ⟨hp, hd⟩
    · refine ⟨?_, hd⟩
      intro q hq
      simp only [erasePort, List.mem_filter] at hq
      exact hp q hq.1
  | deviceUpdate a =>
    rw [stepEvent_deviceUpdate]
    split
    · exact ⟨hp, hd⟩
    · exact ⟨hp, hd⟩

theorem noPending_handleEvents (fix : Fix) (evs : List Ev) (m : Master) (h : NoPending m) :
    NoPending (handleEvents fix m evs) := by
  induction evs generalizing m with
  | nil => exact h
  | cons e rest ih => exact ih _ (noPending_stepEvent fix m e h)

/-! ### View semantics of events

`evView e V` is what an event does to a port view `V : id ↦ (attrs, value)`; `evDev e d` what it does to the device
attributes. Under `NoPending` every master handler implements exactly this on `mview` (whatever `fix`), and every
slave change that emits `e` does exactly this on `sview`. -/

def evView (e : Ev) (V : Nat → Option PV) (j : Nat) : Option PV :=
  match e with
  | .valueChange i v => if j = i then (V j).map (fun pv => ⟨pv.attrs, v⟩) else V j
  | .portUpdate msg => if j = msg.id then (V j).map (fun pv => ⟨msg.attrs, msg.value.getD pv.value⟩) else V j
  | .portAdd msg => if j = msg.id then (V j).or (some ⟨msg.attrs, msg.value.getD none⟩) else V j
  | .portRemove i => if j = i then none else V j
  | .deviceUpdate _ => V j

def evDev (e : Ev) (d : Attrs) : Attrs :=
  match e with
  | .deviceUpdate a => a
  | _ => d

theorem pendDev_nil {m : Master} (h : m.devProv = []) : m.pendDev = [] := by simp [Master.pendDev, h]

theorem mview_stepEvent (fix : Fix) (m : Master) (e : Ev) (h : NoPending m) (j : Nat) :
    mview (stepEvent fix m e) j = evView e (mview m) j := by
  obtain ⟨hp, hd⟩ := h
  cases e with
  | valueChange i v =>
    rw [stepEvent_valueChange]
    simp only [evView]
    cases hf : findPort m.ports i with
    | none =>
      by_cases hji : j = i
      · subst hji; simp [mview, hf]
      · simp [hji]
    | some p =>
      have hpv := pendValue_none (hp p (findPort_mem hf)).2
      simp only [hpv, Option.isSome_none, Bool.false_or]
      by_cases hl : p.lastRemote = v
      · simp only [hl, beq_self_eq_true, if_true]
        by_cases hji : j = i
        · subst hji; simp [mview, hf, hl]
        · simp [hji]
      · have : (p.lastRemote == v) = false := by simp [hl]
        simp only [this, Bool.false_eq_true, if_false, mview]
        rw [findPort_updPort _ _ _ (fun q => q.push v) (fun _ => rfl)]
        by_cases hji : j = i
        · subst hji
          have : (p.push v).attrs = p.attrs := rfl
          simp [hf, this]
        · simp [hji]
  | portUpdate msg =>
    rw [stepEvent_portUpdate]
    simp only [evView]
    cases hf : findPort m.ports msg.id with
    | none =>
      by_cases hji : j = msg.id
      · subst hji; simp [mview, hf]
      · simp [hji]
    | some p =>
      simp only [mview]
      rw [findPort_updPort _ _ _ (fun q => (applyPortUpdate fix q msg).1) (fun _ => by simp)]
      by_cases hji : j = msg.id
      · subst hji
        have hv := applyPortUpdate_view fix p msg (hp p (findPort_mem hf)).1 (hp p (findPort_mem hf)).2
        simp [hf, hv.1, hv.2]
      · simp [hji]
  | portAdd msg =>
    rw [stepEvent_portAdd]
    simp only [evView]
    cases hf : findPort m.ports msg.id with
    | some p =>
      by_cases hji : j = msg.id
      · subst hji; simp [mview, hf]
      · simp [hji]
    | none =>
      simp only [mview, findPort_append]
      by_cases hji : j = msg.id
      · subst hji
        have h1 : (mkPort msg).id = msg.id := rfl
        have h2 : (mkPort msg).attrs = msg.attrs := rfl
        simp [hf, mkPort_lastRemote, h1, h2]
      · have : ¬ (mkPort msg).id = j := fun h => hji (by rw [← h]; rfl)
        simp [hji, this]
  | portRemove i =>
    rw [stepEvent_portRemove]
    simp only [evView]
    cases hf : findPort m.ports i with
    | none =>
      by_cases hji : j = i
      · subst hji; simp [mview, hf]
      · simp [hji]
    | some p =>
      simp only [mview, findPort_erasePort]
      by_cases hji : j = i <;> simp [hji]
  | deviceUpdate a =>
    rw [stepEvent_deviceUpdate]
    simp only [evView]
    split <;> rfl

theorem dev_stepEvent (fix : Fix) (m : Master) (e : Ev) (h : NoPending m) :
    (stepEvent fix m e).dev = evDev e m.dev := by
  obtain ⟨_, hd⟩ := h
  cases e with
  | valueChange i v =>
    rw [stepEvent_valueChange]
    split
    · rfl
    · split <;> rfl
  | portUpdate msg => rw [stepEvent_portUpdate]; split <;> rfl
  | portAdd msg => rw [stepEvent_portAdd]; split <;> rfl
  | portRemove i => rw [stepEvent_portRemove]; split <;> rfl
  | deviceUpdate a =>
    rw [stepEvent_deviceUpdate]
    simp [pendDev_nil hd, Attrs.has, evDev]

theorem applyChange_queue (s : SlaveSt) (c : Change) : (applyChange s c).1.queue = s.queue := by
  cases c with
  | setValue id v =>
    simp only [applyChange]
    split
    · rfl
    · split <;> rfl
  | setAttrs id a v => simp only [applyChange]; split <;> rfl
  | addPort p => simp only [applyChange]; split <;> rfl
  | removePort id => simp only [applyChange]; split <;> rfl
  | setDev a => rfl

theorem applyChange_none {s s' : SlaveSt} {c : Change} (h : applyChange s c = (s', none)) : s' = s := by
  cases c with
  | setValue id v =>
    simp only [applyChange] at h
    split at h
    · exact (Prod.mk.inj h).1.symm
    · split at h
      · exact (Prod.mk.inj h).1.symm
      · simp at h
  | setAttrs id a v =>
    simp only [applyChange] at h
    split at h
    · exact (Prod.mk.inj h).1.symm
    · simp at h
  | addPort p =>
    simp only [applyChange] at h
    split at h
    · exact (Prod.mk.inj h).1.symm
    · simp at h
  | removePort id =>
    simp only [applyChange] at h
    split at h
    · exact (Prod.mk.inj h).1.symm
    · simp at h
  | setDev a => simp [applyChange] at h

/-- A slave change that emits event `e` changes the slave's own view exactly as `e` describes. -/
theorem sview_applyChange {s s' : SlaveSt} {c : Change} {e : Ev} (h : applyChange s c = (s', some e)) :
    (∀ j, sview s' j = evView e (sview s) j) ∧ s'.dev = evDev e s.dev := by
  cases c with
  | setValue i v =>
    simp only [applyChange] at h
    split at h
    · simp at h
    · rename_i p hf
      split at h
      · simp at h
      · simp only [Prod.mk.injEq, Option.some.injEq] at h
        obtain ⟨rfl, rfl⟩ := h
        refine ⟨fun j => ?_, rfl⟩
        simp only [sview, evView]
        rw [findS_map _ _ _ (fun q => { q with value := v }) (fun _ => rfl)]
        by_cases hji : j = i
        · subst hji; simp [hf]
        · simp [hji]
  | setAttrs i a v =>
    simp only [applyChange] at h
    split at h
    · simp at h
    · rename_i p hf
      simp only [Prod.mk.injEq, Option.some.injEq] at h
      obtain ⟨rfl, rfl⟩ := h
      refine ⟨fun j => ?_, rfl⟩
      simp only [sview, evView]
      rw [findS_map _ _ _ (fun q => { q with attrs := a, value := v }) (fun _ => rfl)]
      by_cases hji : j = i
      · subst hji; simp [hf]
      · simp [hji]
  | addPort p =>
    simp only [applyChange] at h
    split at h
    · simp at h
    · rename_i hf
      simp only [Prod.mk.injEq, Option.some.injEq] at h
      obtain ⟨rfl, rfl⟩ := h
      refine ⟨fun j => ?_, rfl⟩
      simp only [sview, evView, findS_append, SPort.msg]
      by_cases hji : j = p.id
      · subst hji; simp [hf]
      · have : ¬ p.id = j := fun h => hji h.symm
        simp [hji, this]
  | removePort i =>
    simp only [applyChange] at h
    split at h
    · simp at h
    · simp only [Prod.mk.injEq, Option.some.injEq] at h
      obtain ⟨rfl, rfl⟩ := h
      refine ⟨fun j => ?_, rfl⟩
      simp only [sview, evView, findS_erase]
      by_cases hji : j = i <;> simp [hji]
  | setDev a =>
    simp only [applyChange, Prod.mk.injEq, Option.some.injEq] at h
    obtain ⟨rfl, rfl⟩ := h
    exact ⟨fun j => rfl, rfl⟩

theorem evView_congr (e : Ev) {V W : Nat → Option PV} (h : ∀ j, V j = W j) (j : Nat) : evView e V j = evView e W j := by
  have : V = W := funext h
  rw [this]

/-! ### The heart: each handler makes the mirror follow the remote change -/

theorem synced_stepEvent (fix : Fix) {m : Master} {s s' : SlaveSt} {c : Change} {e : Ev}
    (hs : Synced m s) (hn : NoPending m) (hc : applyChange s c = (s', some e)) : Synced (stepEvent fix m e) s' := by
  obtain ⟨hv, hd⟩ := sview_applyChange hc
  refine ⟨fun j => ?_, ?_⟩
  · rw [mview_stepEvent fix m e hn, hv, evView_congr e hs.1]
  · rw [dev_stepEvent fix m e hn, hd, hs.2]

theorem synced_queue_irrel {m : Master} {s : SlaveSt} (q : List Ev) (h : Synced m s) : Synced m { s with queue := q } := h

/-! ### The replication invariant -/

theorem handleEvents_append (fix : Fix) (m : Master) (q1 q2 : List Ev) :
    handleEvents fix m (q1 ++ q2) = handleEvents fix (handleEvents fix m q1) q2 := by
  simp [handleEvents, List.foldl_append]

theorem inv_remoteStep (fix : Fix) {m : Master} {s : SlaveSt} (c : Change) (hn : NoPending m) (hi : Inv fix m s) :
    Inv fix m (remoteStep s c) := by
  unfold remoteStep
  have hq := applyChange_queue s c
  cases hc : applyChange s c with
  | mk s' oe =>
    rw [hc] at hq
    cases oe with
    | none =>
      have := applyChange_none hc
      subst this
      exact hi
    | some e =>
      simp only [Inv] at hi ⊢
      simp only at hq
      rw [hq, handleEvents_append]
      have := synced_stepEvent fix hi (noPending_handleEvents fix _ m hn) hc
      exact this

theorem inv_listenBatch (fix : Fix) {m : Master} {s : SlaveSt} {q1 q2 : List Ev} (hq : s.queue = q1 ++ q2)
    (hi : Inv fix m s) : Inv fix (handleEvents fix m q1) { s with queue := q2 } := by
  simp only [Inv] at hi ⊢
  rw [hq, handleEvents_append] at hi
  exact hi

theorem inv_history (fix : Fix) (cs : List Change) {m : Master} {s : SlaveSt} (hn : NoPending m) (hi : Inv fix m s) :
    Inv fix m (cs.foldl remoteStep s) := by
  induction cs generalizing s with
  | nil => exact hi
  | cons c rest ih => exact ih (inv_remoteStep fix c hn hi)

/-- One step of the pair: the slave changes (and queues the event), or a listen response delivers the first
`k` pending events to the master. -/
inductive Step
  | remote (c : Change)
  | listen (k : Nat)
  deriving Repr, DecidableEq

def runStep (fix : Fix) (ms : Master × SlaveSt) : Step → Master × SlaveSt
  | .remote c => (ms.1, remoteStep ms.2 c)
  | .listen k => (handleEvents fix ms.1 (ms.2.queue.take k), { ms.2 with queue := ms.2.queue.drop k })

def run (fix : Fix) (ms : Master × SlaveSt) (steps : List Step) : Master × SlaveSt := steps.foldl (runStep fix) ms

theorem inv_runStep (fix : Fix) (ms : Master × SlaveSt) (st : Step) (hn : NoPending ms.1) (hi : Inv fix ms.1 ms.2) :
    NoPending (runStep fix ms st).1 ∧ Inv fix (runStep fix ms st).1 (runStep fix ms st).2 := by
  cases st with
  | remote c => exact ⟨hn, inv_remoteStep fix c hn hi⟩
  | listen k =>
    exact ⟨noPending_handleEvents fix _ _ hn, inv_listenBatch fix (List.take_append_drop k ms.2.queue).symm hi⟩

theorem inv_run (fix : Fix) (steps : List Step) (ms : Master × SlaveSt) (hn : NoPending ms.1) (hi : Inv fix ms.1 ms.2) :
    NoPending (run fix ms steps).1 ∧ Inv fix (run fix ms steps).1 (run fix ms steps).2 := by
  induction steps generalizing ms with
  | nil => exact ⟨hn, hi⟩
  | cons st rest ih =>
    obtain ⟨h1, h2⟩ := inv_runStep fix ms st hn hi
    exact ih _ h1 h2

theorem synced_of_inv_drained (fix : Fix) {m : Master} {s : SlaveSt} (hi : Inv fix m s) (hq : s.queue = []) :
    Synced m s := by
  simp only [Inv, hq] at hi
  exact hi

/-! ### The hub's ticks: FIFO, nothing skipped -/

/-- The series of *changes* in a list of successive values, starting after `prev`: each element equal to its
predecessor is dropped (that is what a value-change report is). -/
def dedupFrom (prev : PVal) : List PVal → List PVal
  | [] => []
  | v :: rest => (if v != prev then [v] else []) ++ dedupFrom v rest

/-- The port after all queued values have been read (repaired `read_value`: the cached value stays the user's while
a value is pending provisioning). -/
def MPort.drained (fix : Fix) (p : MPort) : MPort :=
  match p.rq.getLast? with
  | none => p
  | some v => { p with rq := [], cached := if fix.keepPendingValue && p.provValue then p.cached else v, lastRead := v }

/-- The port after `read_value` has popped `v` (the rest of the queue being `rest`). -/
def MPort.popped (fix : Fix) (p : MPort) (v : PVal) (rest : List PVal) : MPort :=
  { p with rq := rest, cached := if fix.keepPendingValue && p.provValue then p.cached else v, lastRead := v }

theorem drainPort_cons (fix : Fix) (n : Nat) (p : MPort) (v : PVal) (rest : List PVal) (he : p.enabled = true)
    (hrq : p.rq = v :: rest) :
    drainPort fix (n + 1) p =
      ((if v != p.lastRead then [v] else []) ++ (drainPort fix n (p.popped fix v rest)).1,
       (drainPort fix n (p.popped fix v rest)).2) := by
  simp only [drainPort, he, hrq, tickPort, Bool.not_true, List.isEmpty_cons, Bool.or_self, Bool.false_eq_true,
    if_false]
  by_cases hv : v = p.lastRead
  · simp [hv, MPort.popped, he]
  · simp [hv, MPort.popped, he]

theorem drainPort_spec (fix : Fix) (n : Nat) (p : MPort) (he : p.enabled = true) (hn : p.rq.length ≤ n) :
    drainPort fix n p = (dedupFrom p.lastRead p.rq, p.drained fix) := by
  induction n generalizing p with
  | zero =>
    have : p.rq = [] := List.eq_nil_of_length_eq_zero (by omega)
    simp [drainPort, this, dedupFrom, MPort.drained]
  | succ n ih =>
    cases hrq : p.rq with
    | nil => simp [drainPort, hrq, dedupFrom, MPort.drained]
    | cons v rest =>
      have hlen : rest.length ≤ n := by rw [hrq] at hn; simpa using hn
      rw [drainPort_cons fix n p v rest he hrq, ih (p.popped fix v rest) he hlen]
      simp only [dedupFrom, MPort.drained, hrq]
      congr 1
      cases hl : rest.getLast? with
      | none =>
        have : rest = [] := by simpa using hl
        simp [this, MPort.popped]
      | some w =>
        have : (v :: rest).getLast? = some w := by
          rw [List.getLast?_cons]; simp [hl]
        cases hc : (fix.keepPendingValue && p.provValue) <;> simp [this, MPort.popped, hl, hc]

theorem drained_rq (fix : Fix) (p : MPort) : (p.drained fix).rq = [] := by
  unfold MPort.drained
  cases h : p.rq.getLast? with
  | none => simpa using h
  | some v => rfl

theorem drained_lastRead (fix : Fix) (p : MPort) (h : p.rq ≠ []) : (p.drained fix).lastRead = p.lastRemote := by
  unfold MPort.drained MPort.lastRemote
  cases hl : p.rq.getLast? with
  | none => exact absurd (by simpa using hl) h
  | some v => rfl

/-- With no value pending (or with `read_value` as found) the ticks do not change the newest remote value … -/
theorem drained_lastRemote (fix : Fix) (p : MPort) (hpv : (fix.keepPendingValue && p.provValue) = false) :
    (p.drained fix).lastRemote = p.lastRemote := by
  unfold MPort.drained MPort.lastRemote
  cases hl : p.rq.getLast? with
  | none => simp [hl]
  | some v => simp [hpv]

/-- … and with a value pending, repaired, they leave the user's value as the cached one. -/
theorem drained_cached_pending (fix : Fix) (p : MPort) (hk : fix.keepPendingValue = true) (hpv : p.provValue = true) :
    (p.drained fix).cached = p.cached ∧ (p.drained fix).provValue = true := by
  unfold MPort.drained
  cases hl : p.rq.getLast? with
  | none => exact ⟨rfl, hpv⟩
  | some v => simp [hk, hpv]

/-- Dropping repeats twice is the same as dropping them once. -/
theorem dedupFrom_idem (prev : PVal) (l : List PVal) : dedupFrom prev (dedupFrom prev l) = dedupFrom prev l := by
  induction l generalizing prev with
  | nil => rfl
  | cons v rest ih =>
    simp only [dedupFrom]
    by_cases h : v = prev
    · subst h; simp [ih]
    · have : (v != prev) = true := by simp [h]
      simp only [this, if_true, List.singleton_append, dedupFrom, ih]

/-! ### `Synced` unfolded, and a decision procedure for it (used by the concrete examples) -/

theorem synced_unfold {m : Master} {s : SlaveSt} (h : Synced m s) (id : Nat) :
    (findPort m.ports id).isSome = (findS s.ports id).isSome ∧
    ∀ p q, findPort m.ports id = some p → findS s.ports id = some q →
      p.id = id ∧ q.id = id ∧ p.attrs = q.attrs ∧ p.lastRemote = q.value := by
  have hv := h.1 id
  simp only [mview, sview] at hv
  constructor
  · cases h1 : findPort m.ports id <;> cases h2 : findS s.ports id <;> simp [h1, h2] at hv ⊢
  · intro p q h1 h2
    simp only [h1, h2, Option.map_some, Option.some.injEq, PV.mk.injEq] at hv
    exact ⟨findPort_id h1, findS_id h2, hv.1, hv.2⟩

def syncedB (m : Master) (s : SlaveSt) : Bool :=
  (m.ports.map (·.id) ++ s.ports.map (·.id)).all (fun id => mview m id == sview s id) && m.dev == s.dev

theorem synced_iff_syncedB (m : Master) (s : SlaveSt) : Synced m s ↔ syncedB m s = true := by
  simp only [Synced, syncedB, Bool.and_eq_true, List.all_eq_true, beq_iff_eq]
  constructor
  · intro h; exact ⟨fun id _ => h.1 id, h.2⟩
  · intro h
    refine ⟨fun id => ?_, h.2⟩
    by_cases hm : id ∈ m.ports.map (·.id) ++ s.ports.map (·.id)
    · exact h.1 id hm
    · simp only [List.mem_append, not_or] at hm
      have h1 : findPort m.ports id = none := by
        have := findPort_isSome_iff m.ports id
        cases hf : findPort m.ports id with
        | none => rfl
        | some p => rw [hf] at this; exact absurd (by simpa using this.symm) hm.1
      have h2 : findS s.ports id = none := by
        have := findS_isSome_iff s.ports id
        cases hf : findS s.ports id with
        | none => rfl
        | some p => rw [hf] at this; exact absurd (by simpa using this.symm) hm.2
      simp [mview, sview, h1, h2]

instance (m : Master) (s : SlaveSt) : Decidable (Synced m s) := decidable_of_iff _ (synced_iff_syncedB m s).symm
instance (fix : Fix) (m : Master) (s : SlaveSt) : Decidable (Inv fix m s) := by unfold Inv; infer_instance

/-! ### Concrete instances used by the non-vacuity examples -/

namespace Ex
/-- A master in listen mode mirroring two ports (port 1 enabled with one value still queued, port 2 disabled). -/
def m0 : Master :=
  { Master.init .listen with
    ports := [⟨1, [(0, 1), (5, 20)], [some 7], some 5, [], false, some 5, true⟩,
              ⟨2, [(0, 0)], [], none, [], false, none, false⟩],
    dev := [(9, 1)], online := true, ready := true }
/-- The slave as the master knows it. -/
def s0 : SlaveSt := ⟨[⟨2, [(0, 0)], none⟩, ⟨1, [(0, 1), (5, 20)], some 7⟩], [(9, 1)], []⟩
/-- The same slave after three changes whose events are still pending in the session queue. -/
def s1 : SlaveSt :=
  [Change.setValue 1 (some 8), .addPort ⟨3, [(0, 1)], some 4⟩, .setAttrs 2 [(0, 1)] (some 1)].foldl remoteStep s0
/-- A master with a pending (unprovisioned) attribute: not a steady state. -/
def mPending : Master :=
  { m0 with ports := [⟨1, [(0, 1), (5, 21)], [some 7], some 5, [5], false, some 5, true⟩] }
end Ex

/-! ### Reconnect: `fetchPorts` resynchronises the mirror -/

/-- Phase 1 of `fetchPorts`: a port-update for every reported port that is known locally. -/
def fetch1 (fix : Fix) (L : List Nat) (acc : Master) (msg : PortMsg) : Master :=
  if L.contains msg.id then stepEvent fix acc (.portUpdate msg) else acc
/-- Phase 2 of `fetchPorts`: a port-add for every reported port that is not known locally. -/
def fetch2 (fix : Fix) (L : List Nat) (acc : Master) (msg : PortMsg) : Master :=
  if L.contains msg.id then acc else stepEvent fix acc (.portAdd msg)

theorem fetchPorts_eq (fix : Fix) (m : Master) (resp : List PortMsg) :
    fetchPorts fix m resp =
      { (resp.foldl (fetch2 fix (m.ports.map (·.id))) (resp.foldl (fetch1 fix (m.ports.map (·.id))) m)) with
        ports := (resp.foldl (fetch2 fix (m.ports.map (·.id))) (resp.foldl (fetch1 fix (m.ports.map (·.id))) m)).ports.filter
          (fun p => (fun k => !((m.ports.map (·.id)).contains k) || (resp.map (·.id)).contains k) p.id) } := rfl

theorem foldl_preserves {α β : Type} (P : α → Prop) (f : α → β → α) (hf : ∀ a b, P a → P (f a b)) (l : List β)
    (a : α) (h : P a) : P (l.foldl f a) := by
  induction l generalizing a with
  | nil => exact h
  | cons b rest ih => exact ih _ (hf a b h)

theorem fetch1_keeps (fix : Fix) (L : List Nat) (d : Attrs) (acc : Master) (msg : PortMsg)
    (h : NoPending acc ∧ acc.dev = d) : NoPending (fetch1 fix L acc msg) ∧ (fetch1 fix L acc msg).dev = d := by
  unfold fetch1
  split
  · exact ⟨noPending_stepEvent fix _ _ h.1, by rw [dev_stepEvent fix _ _ h.1]; exact h.2⟩
  · exact h

theorem fetch2_keeps (fix : Fix) (L : List Nat) (d : Attrs) (acc : Master) (msg : PortMsg)
    (h : NoPending acc ∧ acc.dev = d) : NoPending (fetch2 fix L acc msg) ∧ (fetch2 fix L acc msg).dev = d := by
  unfold fetch2
  split
  · exact h
  · exact ⟨noPending_stepEvent fix _ _ h.1, by rw [dev_stepEvent fix _ _ h.1]; exact h.2⟩

theorem mview_fetch1 (fix : Fix) (L : List Nat) (resp : List PortMsg) (hnd : (resp.map (·.id)).Nodup)
    (acc : Master) (hn : NoPending acc) (j : Nat) :
    mview (resp.foldl (fetch1 fix L) acc) j =
      match resp.find? (fun msg => msg.id == j) with
      | some msg =>
        if L.contains j then (mview acc j).map (fun pv => ⟨msg.attrs, msg.value.getD pv.value⟩) else mview acc j
      | none => mview acc j := by
  induction resp generalizing acc with
  | nil => rfl
  | cons msg rest ih =>
    simp only [List.map_cons, List.nodup_cons] at hnd
    have hn' : NoPending (fetch1 fix L acc msg) := (fetch1_keeps fix L acc.dev acc msg ⟨hn, rfl⟩).1
    rw [List.foldl_cons, ih hnd.2 _ hn']
    have hstep : mview (fetch1 fix L acc msg) j =
        if L.contains msg.id then evView (.portUpdate msg) (mview acc) j else mview acc j := by
      unfold fetch1
      split
      · exact mview_stepEvent fix acc _ hn j
      · rfl
    by_cases hj : msg.id = j
    · subst hj
      have hnone : rest.find? (fun m' => m'.id == msg.id) = none := by
        rw [List.find?_eq_none]
        intro x hx hxe
        exact hnd.1 (List.mem_map.2 ⟨x, hx, by simpa using hxe⟩)
      rw [hnone, List.find?_cons_of_pos (by simp)]
      simp only [hstep, evView, if_true]
    · have hj' : ¬ j = msg.id := fun h => hj h.symm
      rw [List.find?_cons_of_neg (by simpa using hj)]
      simp only [hstep, evView, hj', if_false, ite_self]

theorem mview_fetch2 (fix : Fix) (L : List Nat) (resp : List PortMsg) (acc : Master) (hn : NoPending acc) (j : Nat) :
    mview (resp.foldl (fetch2 fix L) acc) j =
      if L.contains j then mview acc j
      else (mview acc j).or ((resp.find? (fun msg => msg.id == j)).map (fun msg => ⟨msg.attrs, msg.value.getD none⟩)) := by
  induction resp generalizing acc with
  | nil => simp
  | cons msg rest ih =>
    have hn' : NoPending (fetch2 fix L acc msg) := (fetch2_keeps fix L acc.dev acc msg ⟨hn, rfl⟩).1
    rw [List.foldl_cons, ih _ hn']
    have hstep : mview (fetch2 fix L acc msg) j =
        if L.contains msg.id then mview acc j else evView (.portAdd msg) (mview acc) j := by
      unfold fetch2
      split
      · rfl
      · exact mview_stepEvent fix acc _ hn j
    by_cases hj : msg.id = j
    · subst hj
      rw [List.find?_cons_of_pos (by simp)]
      by_cases hL : L.contains msg.id = true
      · simp only [hstep, hL, if_true]
      · simp only [hstep, hL, evView, if_true, Bool.false_eq_true, if_false, Option.map_some]
        cases mview acc msg.id <;> simp
    · have hj' : ¬ j = msg.id := fun h => hj h.symm
      rw [List.find?_cons_of_neg (by simpa using hj)]
      simp only [hstep, evView, hj', if_false, ite_self]

theorem mview_filter_id (m : Master) (g : Nat → Bool) (j : Nat) :
    mview { m with ports := m.ports.filter (fun p => g p.id) } j = if g j then mview m j else none := by
  simp only [mview, findPort_filter_id]
  split <;> rfl

theorem find?_map_msg (l : List SPort) (j : Nat) :
    (l.map SPort.msg).find? (fun msg => msg.id == j) = (findS l j).map SPort.msg := by
  rw [List.find?_map]; rfl

theorem fetchPorts_synced (fix : Fix) (m : Master) (s : SlaveSt) (hn : NoPending m)
    (hnd : (s.ports.map (·.id)).Nodup) :
    Synced (fetchPorts fix { m with dev := s.dev } (s.ports.map SPort.msg)) s := by
  have hn0 : NoPending { m with dev := s.dev } := hn
  rw [fetchPorts_eq]
  generalize hL : ({ m with dev := s.dev } : Master).ports.map (·.id) = L
  have hLm : ∀ j, L.contains j = (mview m j).isSome := by
    intro j; rw [← hL]; simp only [mview, Option.isSome_map]; exact (findPort_isSome_iff m.ports j).symm
  have hids : (s.ports.map SPort.msg).map (·.id) = s.ports.map (·.id) := by simp [SPort.msg]
  have h1 := foldl_preserves (fun a => NoPending a ∧ a.dev = s.dev) (fetch1 fix L) (fetch1_keeps fix L s.dev)
    (s.ports.map SPort.msg) _ ⟨hn0, rfl⟩
  have h2 := foldl_preserves (fun a => NoPending a ∧ a.dev = s.dev) (fetch2 fix L) (fetch2_keeps fix L s.dev)
    (s.ports.map SPort.msg) _ h1
  refine ⟨fun j => ?_, h2.2⟩
  have hv1 := mview_fetch1 fix L (s.ports.map SPort.msg) (by rw [hids]; exact hnd) _ hn0 j
  have hv2 := mview_fetch2 fix L (s.ports.map SPort.msg) _ h1.1 j
  have hR : ((s.ports.map SPort.msg).map (·.id)).contains j = (findS s.ports j).isSome := by
    rw [hids]; exact (findS_isSome_iff s.ports j).symm
  have hm0 : mview ({ m with dev := s.dev } : Master) j = mview m j := rfl
  have hLj := hLm j
  rw [mview_filter_id _ (fun k => !L.contains k || ((s.ports.map SPort.msg).map (·.id)).contains k)]
  simp only [hR, hv2, hv1, find?_map_msg, hm0, hLj, sview]
  cases hs : findS s.ports j with
  | none => cases hm : mview m j <;> simp
  | some sp => cases hm : mview m j <;> simp [SPort.msg]

/-! ### Port ids stay duplicate-free on both sides -/

theorem map_id_updS (l : List SPort) (i : Nat) (f : SPort → SPort) (hf : ∀ p, (f p).id = p.id) :
    (l.map (fun q => if q.id == i then f q else q)).map (·.id) = l.map (·.id) := by
  rw [List.map_map]
  apply List.map_congr_left
  intro q _
  simp only [Function.comp]
  split <;> simp [hf]

theorem nodup_applyChange (s : SlaveSt) (c : Change) (h : (s.ports.map (·.id)).Nodup) :
    ((applyChange s c).1.ports.map (·.id)).Nodup := by
  cases c with
  | setValue i v =>
    simp only [applyChange]
    split
    · exact h
    · split
      · exact h
      · simp only []
        rw [map_id_updS _ _ (fun q => { q with value := v }) (fun _ => rfl)]
        exact h
  | setAttrs i a v =>
    simp only [applyChange]
    split
    · exact h
    · simp only []
      rw [map_id_updS _ _ (fun q => { q with attrs := a, value := v }) (fun _ => rfl)]
      exact h
  | addPort p =>
    simp only [applyChange]
    split
    · exact h
    · rename_i hf
      have hnot : p.id ∉ s.ports.map (·.id) := by
        have := findS_isSome_iff s.ports p.id
        rw [hf] at this
        intro hmem
        have : (s.ports.map (·.id)).contains p.id = true := by simpa using hmem
        simp_all
      simp only [List.map_append, List.map_cons, List.map_nil]
      rw [List.nodup_append]
      refine ⟨h, by simp, ?_⟩
      intro a ha b hb
      simp only [List.mem_singleton] at hb
      subst hb
      intro hab
      exact hnot (hab ▸ ha)
  | removePort i =>
    simp only [applyChange]
    split
    · exact h
    · exact List.Nodup.sublist (List.Sublist.map _ List.filter_sublist) h
  | setDev a => exact h

/-- The slave's port ids stay duplicate-free under every change. -/
theorem nodup_remoteStep (s : SlaveSt) (c : Change) (h : (s.ports.map (·.id)).Nodup) :
    ((remoteStep s c).ports.map (·.id)).Nodup := by
  have := nodup_applyChange s c h
  unfold remoteStep
  cases hc : applyChange s c with
  | mk s' oe =>
    rw [hc] at this
    cases oe <;> exact this

theorem map_id_updPort (l : List MPort) (i : Nat) (f : MPort → MPort) (hf : ∀ p, (f p).id = p.id) :
    (updPort l i f).map (·.id) = l.map (·.id) := by
  rw [updPort, List.map_map]
  apply List.map_congr_left
  intro q _
  simp only [Function.comp]
  split <;> simp [hf]

/-- The master's port ids stay duplicate-free under every event (no steady-state hypothesis needed). -/
theorem nodup_stepEvent (fix : Fix) (m : Master) (e : Ev) (h : (m.ports.map (·.id)).Nodup) :
    ((stepEvent fix m e).ports.map (·.id)).Nodup := by
  cases e with
  | valueChange i v =>
    rw [stepEvent_valueChange]
    split
    · exact h
    · split
      · exact h
      · simp only []
        rw [map_id_updPort _ _ (fun q => q.push v) (fun _ => rfl)]
        exact h
  | portUpdate msg =>
    rw [stepEvent_portUpdate]
    split
    · exact h
    · simp only []
      rw [map_id_updPort _ _ (fun q => (applyPortUpdate fix q msg).1) (fun _ => by simp)]
      exact h
  | portAdd msg =>
    rw [stepEvent_portAdd]
    split
    · exact h
    · rename_i hf
      have hnot : msg.id ∉ m.ports.map (·.id) := by
        have := findPort_isSome_iff m.ports msg.id
        rw [hf] at this
        intro hmem
        have : (m.ports.map (·.id)).contains msg.id = true := by simpa using hmem
        simp_all
      simp only [List.map_append, List.map_cons, List.map_nil]
      rw [List.nodup_append]
      refine ⟨h, by simp, ?_⟩
      intro a ha b hb
      simp only [List.mem_singleton] at hb
      subst hb
      intro hab
      have hab' : a = msg.id := hab
      exact hnot (hab' ▸ ha)
  | portRemove i =>
    rw [stepEvent_portRemove]
    split
    · exact h
    · exact List.Nodup.sublist (List.Sublist.map _ List.filter_sublist) h
  | deviceUpdate a =>
    rw [stepEvent_deviceUpdate]
    split <;> exact h

theorem nodup_handleEvents (fix : Fix) (evs : List Ev) (m : Master) (h : (m.ports.map (·.id)).Nodup) :
    ((handleEvents fix m evs).ports.map (·.id)).Nodup :=
  foldl_preserves (fun a => (a.ports.map (·.id)).Nodup) (stepEvent fix) (fun a e => nodup_stepEvent fix a e) evs m h

/-- With duplicate-free ids on both sides, a synced mirror has *exactly one* port per slave port and no others:
the two id lists are permutations of each other. -/
theorem synced_ids_perm {m : Master} {s : SlaveSt} (h : Synced m s) (hm : (m.ports.map (·.id)).Nodup)
    (hs : (s.ports.map (·.id)).Nodup) : (m.ports.map (·.id)).Perm (s.ports.map (·.id)) := by
  rw [List.perm_ext_iff_of_nodup hm hs]
  intro j
  have := (synced_unfold h j).1
  rw [findPort_isSome_iff, findS_isSome_iff] at this
  have h1 : j ∈ m.ports.map (·.id) ↔ (m.ports.map (·.id)).contains j = true := by simp
  have h2 : j ∈ s.ports.map (·.id) ↔ (s.ports.map (·.id)).contains j = true := by simp
  rw [h1, h2, this]

theorem nodup_fetchPorts (fix : Fix) (m : Master) (resp : List PortMsg) (h : (m.ports.map (·.id)).Nodup) :
    ((fetchPorts fix m resp).ports.map (·.id)).Nodup := by
  rw [fetchPorts_eq]
  have h1 := foldl_preserves (fun a : Master => (a.ports.map (·.id)).Nodup) (fetch1 fix (m.ports.map (·.id)))
    (fun a msg ha => by unfold fetch1; split; exact nodup_stepEvent fix a _ ha; exact ha) resp m h
  have h2 := foldl_preserves (fun a : Master => (a.ports.map (·.id)).Nodup) (fetch2 fix (m.ports.map (·.id)))
    (fun a msg ha => by unfold fetch2; split; exact ha; exact nodup_stepEvent fix a _ ha) resp _ h1
  exact List.Nodup.sublist (List.Sublist.map _ List.filter_sublist) h2

/-! ### Value series: what the slave reports lands in the remote queue in order, and is reported in order -/

/-- A series of value-change events for one port appends to its remote queue exactly the values that differ from
their predecessor, in order; nothing else about the port changes. -/
theorem valueChanges_rq (fix : Fix) (id : Nat) (vs : List PVal) (m : Master) (p : MPort)
    (hf : findPort m.ports id = some p) (hpv : p.provValue = false) :
    findPort (handleEvents fix m (vs.map (Ev.valueChange id))).ports id =
      some { p with rq := p.rq ++ dedupFrom p.lastRemote vs } := by
  induction vs generalizing m p with
  | nil => simp [handleEvents, dedupFrom, hf]
  | cons v rest ih =>
    simp only [List.map_cons, handleEvents, List.foldl_cons]
    rw [stepEvent_valueChange, hf]
    simp only [pendValue_none hpv, Option.isSome_none, Bool.false_or]
    by_cases hl : p.lastRemote = v
    · have := ih m p hf hpv
      simp only [handleEvents] at this
      simp only [hl, beq_self_eq_true, if_true, this, dedupFrom, bne_self_eq_false, Bool.false_eq_true, if_false,
        List.nil_append]
    · have hb : (p.lastRemote == v) = false := by simp [hl]
      have hb' : (v != p.lastRemote) = true := by simp [Ne.symm hl]
      have hf' : findPort (updPort m.ports id fun q => q.push v) id = some (p.push v) := by
        rw [findPort_updPort _ _ _ (fun q => q.push v) (fun _ => rfl)]; simp [hf]
      have := ih { m with ports := updPort m.ports id fun q => q.push v } (p.push v) hf' hpv
      simp only [handleEvents] at this
      simp only [hb, Bool.false_eq_true, if_false, this, dedupFrom, hb', if_true, lastRemote_push]
      simp [MPort.push]

/-- The slave side of the same series: successive writes of one port emit exactly one value-change event per write
that changes the value, in order. -/
theorem setValues_queue (id : Nat) (vs : List PVal) (s : SlaveSt) (sp : SPort) (hf : findS s.ports id = some sp) :
    ((vs.map (Change.setValue id)).foldl remoteStep s).queue =
      s.queue ++ (dedupFrom sp.value vs).map (Ev.valueChange id) := by
  induction vs generalizing s sp with
  | nil => simp [dedupFrom]
  | cons v rest ih =>
    simp only [List.map_cons, List.foldl_cons]
    by_cases hl : sp.value = v
    · have hstep : remoteStep s (.setValue id v) = s := by
        simp [remoteStep, applyChange, hf, hl]
      rw [hstep, ih s sp hf]
      simp [dedupFrom, hl]
    · have hb' : (v != sp.value) = true := by simp [Ne.symm hl]
      have hstep : remoteStep s (.setValue id v) =
          { s with ports := s.ports.map (fun q => if q.id == id then { q with value := v } else q),
                   queue := s.queue ++ [.valueChange id v] } := by
        simp [remoteStep, applyChange, hf, hl]
      have hf' : findS (s.ports.map (fun q => if q.id == id then { q with value := v } else q)) id =
          some { sp with value := v } := by
        rw [findS_map _ _ _ (fun q => { q with value := v }) (fun _ => rfl)]; simp [hf]
      rw [hstep, ih _ _ hf']
      simp [dedupFrom, hb']

theorem dedupFrom_append_dedup (a : PVal) (l vs : List PVal) :
    dedupFrom a (l ++ dedupFrom (l.getLast?.getD a) vs) = dedupFrom a (l ++ vs) := by
  induction l generalizing a with
  | nil => simp [dedupFrom_idem]
  | cons v rest ih =>
    have : (v :: rest).getLast?.getD a = rest.getLast?.getD v := by
      rw [List.getLast?_cons]; cases rest.getLast? <;> rfl
    simp only [List.cons_append, dedupFrom, this, ih v]

theorem lastRemote_eq (p : MPort) : p.lastRemote = p.rq.getLast?.getD p.cached := by
  unfold MPort.lastRemote; cases p.rq.getLast? <;> rfl

/-- End to end on the master: after a series of value-change events for an enabled port, the hub's ticks report
the change series of (values still queued ++ event values): the slave's values, same order, none missing. -/
theorem reported_series (fix : Fix) (id : Nat) (vs : List PVal) (m : Master) (p : MPort)
    (hf : findPort m.ports id = some p) (hpv : p.provValue = false) (he : p.enabled = true)
    (hr : p.rq = [] → p.lastRead = p.cached) :
    ∃ p', findPort (handleEvents fix m (vs.map (Ev.valueChange id))).ports id = some p' ∧
      (drainPort fix p'.rq.length p').1 = dedupFrom p.lastRead (p.rq ++ vs) := by
  refine ⟨_, valueChanges_rq fix id vs m p hf hpv, ?_⟩
  rw [drainPort_spec fix _ { p with rq := p.rq ++ dedupFrom p.lastRemote vs } he (Nat.le_refl _)]
  simp only [lastRemote_eq]
  cases hq : p.rq with
  | nil =>
    have := hr hq
    simp only [List.getLast?_nil, Option.getD_none, List.nil_append, ← this, dedupFrom_idem]
  | cons v rest =>
    have := dedupFrom_append_dedup p.lastRead (v :: rest) vs
    have hg : (v :: rest).getLast?.getD p.lastRead = (v :: rest).getLast?.getD p.cached := by
      rw [List.getLast?_cons]; cases rest.getLast? <;> rfl
    rw [hg] at this
    exact this

/-! ### Polling: `pollPorts` resynchronises (values at the second poll for newly discovered ports) -/


def strip (msg : PortMsg) : PortMsg := { msg with value := none }
def newV (msg : PortMsg) : PVal := match msg.value with | some v => v | none => none

def poll1 (fix : Fix) (L : List Nat) (acc : Master) (msg : PortMsg) : Master :=
  if L.contains msg.id then acc else stepEvent fix acc (.portAdd (strip msg))
def poll2 (fix : Fix) (R : List Nat) (acc : Master) (id : Nat) : Master :=
  if R.contains id then acc else stepEvent fix acc (.portRemove id)
def poll3 (fix : Fix) (resp : List PortMsg) (acc : Master) (lp : MPort) : Master :=
  match resp.find? (fun msg => msg.id == lp.id) with
  | none => acc
  | some msg =>
    let cur := (findPort acc.ports lp.id).getD lp
    let acc1 := if attrsDiffer cur.attrs msg.attrs then stepEvent fix acc (.portUpdate (strip msg)) else acc
    let cur1 := (findPort acc1.ports lp.id).getD lp
    if cur1.lastRemote != newV msg then stepEvent fix acc1 (.valueChange lp.id (newV msg)) else acc1

theorem stepEvent_remove_eq (fix : Fix) (acc : Master) (id : Nat) :
    (match handlePortRemove acc id with | .ok a => a | .error _ => acc) = stepEvent fix acc (.portRemove id) := by
  rw [stepEvent_portRemove]; unfold handlePortRemove; cases findPort acc.ports id <;> rfl

theorem stepEvent_value_eq (fix : Fix) (acc : Master) (id : Nat) (v : PVal) :
    (match handleValueChange acc id v with | .ok a => a | .error _ => acc) = stepEvent fix acc (.valueChange id v) := by
  rw [stepEvent_valueChange]; unfold handleValueChange
  cases findPort acc.ports id with
  | none => rfl
  | some p =>
    simp only []
    by_cases h1 : p.pendValue.isSome = true
    · simp [h1]
    · by_cases h2 : (p.lastRemote == v) = true
      · simp [h1, h2]
      · simp [h1, h2]

theorem pollPorts_eq (fix : Fix) (m : Master) (resp : List PortMsg) :
    pollPorts fix m resp =
      m.ports.foldl (poll3 fix resp)
        ((m.ports.map (·.id)).foldl (poll2 fix (resp.map (·.id))) (resp.foldl (poll1 fix (m.ports.map (·.id))) m)) := by
  unfold pollPorts
  simp only []
  congr 1
  · funext acc lp
    unfold poll3
    cases resp.find? (fun msg => msg.id == lp.id) with
    | none => rfl
    | some msg =>
      simp only [← stepEvent_value_eq fix]
      rfl
  · congr 1
    funext acc id
    unfold poll2
    rw [← stepEvent_remove_eq fix]
    rfl

/-- What one poll does to the view of a port that was known before: the reported attributes replace the cached
ones only when `attrsDiffer` says so, and the reported value becomes the newest remote value. -/
def pollView (msg : PortMsg) (pv : PV) : PV :=
  ⟨if attrsDiffer pv.attrs msg.attrs then msg.attrs else pv.attrs, newV msg⟩

theorem pollView_idem (msg : PortMsg) (pv : PV) : pollView msg (pollView msg pv) = pollView msg pv := by
  simp only [pollView]
  by_cases h : attrsDiffer pv.attrs msg.attrs = true
  · simp [h]
  · simp [h]

theorem poll1_keeps (fix : Fix) (L : List Nat) (acc : Master) (msg : PortMsg) (h : NoPending acc) :
    NoPending (poll1 fix L acc msg) := by
  unfold poll1; split
  · exact h
  · exact noPending_stepEvent fix _ _ h

theorem poll2_keeps (fix : Fix) (R : List Nat) (acc : Master) (id : Nat) (h : NoPending acc) :
    NoPending (poll2 fix R acc id) := by
  unfold poll2; split
  · exact h
  · exact noPending_stepEvent fix _ _ h

theorem noPending_ite_step (fix : Fix) (c : Prop) [Decidable c] (acc : Master) (e : Ev) (hn : NoPending acc) :
    NoPending (if c then stepEvent fix acc e else acc) := by
  split
  · exact noPending_stepEvent fix _ _ hn
  · exact hn

theorem poll3_keeps (fix : Fix) (resp : List PortMsg) (acc : Master) (lp : MPort) (h : NoPending acc) :
    NoPending (poll3 fix resp acc lp) := by
  unfold poll3
  split
  · exact h
  · exact noPending_ite_step fix _ _ _ (noPending_ite_step fix _ _ _ h)

theorem mview_ite_step (fix : Fix) (c : Bool) (acc : Master) (e : Ev) (hn : NoPending acc) (j : Nat) :
    mview (if c = true then stepEvent fix acc e else acc) j = if c = true then evView e (mview acc) j else mview acc j := by
  split
  · exact mview_stepEvent fix acc e hn j
  · rfl

theorem mview_poll3 (fix : Fix) (resp : List PortMsg) (acc : Master) (lp : MPort) (hn : NoPending acc) (j : Nat) :
    mview (poll3 fix resp acc lp) j =
      if j = lp.id then
        (match resp.find? (fun msg => msg.id == j) with
         | some msg => (mview acc j).map (pollView msg)
         | none => mview acc j)
      else mview acc j := by
  unfold poll3
  cases hfind : resp.find? (fun msg => msg.id == lp.id) with
  | none =>
    by_cases hj : j = lp.id
    · subst hj; simp [hfind]
    · simp [hj]
  | some msg =>
    have hid : msg.id = lp.id := by simpa using List.find?_some hfind
    simp only []
    generalize hc1 : attrsDiffer ((findPort acc.ports lp.id).getD lp).attrs msg.attrs = c1
    have hn1 : NoPending (if c1 = true then stepEvent fix acc (.portUpdate (strip msg)) else acc) := by
      split
      · exact noPending_stepEvent fix _ _ hn
      · exact hn
    generalize hc2 : (((findPort (if c1 = true then stepEvent fix acc (.portUpdate (strip msg)) else acc).ports
      lp.id).getD lp).lastRemote != newV msg) = c2
    rw [mview_ite_step fix c2 _ _ hn1 j]
    have hv1 := mview_ite_step fix c1 acc (.portUpdate (strip msg)) hn
    by_cases hj : j = lp.id
    · subst hj
      simp only [if_true, hfind]
      cases hq : findPort acc.ports lp.id with
      | none =>
        have h0 : mview acc lp.id = none := by simp [mview, hq]
        have h1 : mview (if c1 = true then stepEvent fix acc (.portUpdate (strip msg)) else acc) lp.id = none := by
          rw [hv1]; split <;> simp [evView, h0]
        simp only [evView, h1, h0, Option.map_none, ite_self]
      | some q =>
        have h0 : mview acc lp.id = some ⟨q.attrs, q.lastRemote⟩ := by simp [mview, hq]
        rw [hq] at hc1
        simp only [Option.getD_some] at hc1
        have h1 : mview (if c1 = true then stepEvent fix acc (.portUpdate (strip msg)) else acc) lp.id =
            some ⟨if c1 = true then msg.attrs else q.attrs, q.lastRemote⟩ := by
          rw [hv1]
          by_cases hc : c1 = true
          · simp [hc, evView, h0, strip, hid]
          · simp [hc, h0]
        have h1' := h1
        simp only [mview] at h1'
        cases hq1 : findPort (if c1 = true then stepEvent fix acc (.portUpdate (strip msg)) else acc).ports lp.id with
        | none => rw [hq1] at h1'; simp at h1'
        | some q1 =>
          rw [hq1] at h1' hc2
          simp only [Option.map_some, Option.some.injEq, PV.mk.injEq] at h1'
          simp only [Option.getD_some, h1'.2] at hc2
          simp only [h1, h0, evView, if_true, Option.map_some, pollView, hc1]
          by_cases hc : c2 = true
          · simp [hc]
          · have : q.lastRemote = newV msg := by
              rw [← hc2] at hc; simpa using hc
            simp [hc, this]
    · simp only [hj, if_false, evView]
      have hsid : (strip msg).id = lp.id := hid
      have := hv1 j
      simp only [evView, hsid, hj, if_false, ite_self] at this
      simp [this]

theorem mview_poll3_fold (fix : Fix) (resp : List PortMsg) (ls : List MPort) (acc : Master) (hn : NoPending acc)
    (j : Nat) :
    mview (ls.foldl (poll3 fix resp) acc) j =
      if ls.any (fun lp => lp.id == j) then
        (match resp.find? (fun msg => msg.id == j) with
         | some msg => (mview acc j).map (pollView msg)
         | none => mview acc j)
      else mview acc j := by
  induction ls generalizing acc with
  | nil => simp
  | cons lp rest ih =>
    rw [List.foldl_cons, ih _ (poll3_keeps fix resp acc lp hn), mview_poll3 fix resp acc lp hn j]
    by_cases hj : j = lp.id
    · subst hj
      simp only [if_true, List.any_cons, beq_self_eq_true, Bool.true_or]
      cases resp.find? (fun msg => msg.id == lp.id) with
      | none => simp
      | some msg =>
        simp only [Option.map_map]
        have : pollView msg ∘ pollView msg = pollView msg := funext (pollView_idem msg)
        rw [this]; simp
    · have : (lp.id == j) = false := by simp [Ne.symm hj]
      simp only [hj, if_false, List.any_cons, this, Bool.false_or]

theorem mview_poll2_fold (fix : Fix) (R : List Nat) (ids : List Nat) (acc : Master) (hn : NoPending acc) (j : Nat) :
    mview (ids.foldl (poll2 fix R) acc) j = if ids.contains j && !R.contains j then none else mview acc j := by
  induction ids generalizing acc with
  | nil => simp
  | cons i rest ih =>
    rw [List.foldl_cons, ih _ (poll2_keeps fix R acc i hn)]
    have hstep : mview (poll2 fix R acc i) j = if R.contains i then mview acc j else if j = i then none else mview acc j := by
      unfold poll2
      split
      · rfl
      · rw [mview_stepEvent fix acc _ hn j]; rfl
    rw [hstep]
    by_cases hj : j = i
    · subst hj
      by_cases hR : j ∈ R
      · simp [hR]
      · simp [hR]
    · simp [hj]

theorem poll1_fold_eq (fix : Fix) (L : List Nat) (resp : List PortMsg) (acc : Master) :
    resp.foldl (poll1 fix L) acc = (resp.map strip).foldl (fetch2 fix L) acc := by
  rw [List.foldl_map]; rfl

theorem mview_poll1_fold (fix : Fix) (L : List Nat) (resp : List PortMsg) (acc : Master) (hn : NoPending acc)
    (j : Nat) :
    mview (resp.foldl (poll1 fix L) acc) j =
      if L.contains j then mview acc j
      else (mview acc j).or ((resp.find? (fun msg => msg.id == j)).map (fun msg => ⟨msg.attrs, none⟩)) := by
  rw [poll1_fold_eq, mview_fetch2 fix L _ acc hn j, List.find?_map]
  have : ((fun msg : PortMsg => msg.id == j) ∘ strip) = (fun msg => msg.id == j) := rfl
  rw [this]
  simp only [Option.map_map]
  rfl

theorem noPending_pollPorts (fix : Fix) (m : Master) (resp : List PortMsg) (hn : NoPending m) :
    NoPending (pollPorts fix m resp) := by
  rw [pollPorts_eq]
  exact foldl_preserves NoPending _ (poll3_keeps fix resp) _ _
    (foldl_preserves NoPending _ (poll2_keeps fix _) _ _ (foldl_preserves NoPending _ (poll1_keeps fix _) _ _ hn))

/-- **One poll, at the view level.** A port unknown before is added with the slave's attributes but *no value yet*
(its value arrives with the next poll); a port known before that the slave still has gets the slave's value, and
the slave's attributes when `attrsDiffer` detects a difference; a port the slave no longer has is removed. -/
theorem pollPorts_view (fix : Fix) (m : Master) (s : SlaveSt) (hn : NoPending m) (j : Nat) :
    mview (pollPorts fix m (s.ports.map SPort.msg)) j =
      match mview m j with
      | none => (findS s.ports j).map (fun sp => ⟨sp.attrs, none⟩)
      | some pv => (findS s.ports j).map
          (fun sp => ⟨if attrsDiffer pv.attrs sp.attrs then sp.attrs else pv.attrs, sp.value⟩) := by
  rw [pollPorts_eq]
  have hn1 := foldl_preserves NoPending _ (poll1_keeps fix (m.ports.map (·.id))) (s.ports.map SPort.msg) _ hn
  have hn2 := foldl_preserves NoPending _ (poll2_keeps fix ((s.ports.map SPort.msg).map (·.id))) (m.ports.map (·.id)) _ hn1
  rw [mview_poll3_fold fix _ _ _ hn2 j, mview_poll2_fold fix _ _ _ hn1 j, mview_poll1_fold fix _ _ _ hn j,
    find?_map_msg]
  have hids : (s.ports.map SPort.msg).map (·.id) = s.ports.map (·.id) := by simp [SPort.msg]
  have hR : ((s.ports.map SPort.msg).map (·.id)).contains j = (findS s.ports j).isSome := by
    rw [hids]; exact (findS_isSome_iff s.ports j).symm
  have hL : (m.ports.map (·.id)).contains j = (mview m j).isSome := by
    simp only [mview, Option.isSome_map]; exact (findPort_isSome_iff m.ports j).symm
  have hA : m.ports.any (fun lp => lp.id == j) = (mview m j).isSome := by
    rw [← hL, Bool.eq_iff_iff]; simp
  rw [hA, hR, hL]
  cases hs : findS s.ports j with
  | none => cases hm : mview m j <;> simp
  | some sp => cases hm : mview m j <;> simp [SPort.msg, pollView, newV]

/-! #### `attrsDiffer = false` means equal as dictionaries -/

/-- Two attribute lists are equal as dictionaries. -/
def AttrsEquiv (a b : Attrs) : Prop := ∀ n, a.get? n = b.get? n

theorem Attrs.get?_eq_none_iff (a : Attrs) (n : Nat) : a.get? n = none ↔ a.has n = false := by
  simp [Attrs.get?, Attrs.has]

theorem Attrs.has_iff_mem_keys (a : Attrs) (n : Nat) : a.has n = true ↔ n ∈ a.keys := by
  simp [Attrs.has, Attrs.keys]

theorem attrsEquiv_of_not_differ {a b : Attrs} (h : attrsDiffer a b = false) : AttrsEquiv a b := by
  simp only [attrsDiffer, Bool.or_eq_false_iff, List.any_eq_false] at h
  obtain ⟨⟨h1, h2⟩, h3⟩ := h
  intro n
  cases ha : a.get? n with
  | none =>
    have hna : a.has n = false := (Attrs.get?_eq_none_iff a n).1 ha
    cases hb : b.get? n with
    | none => rfl
    | some w =>
      have hbn : b.has n = true := by
        cases hh : b.has n with
        | true => rfl
        | false => rw [(Attrs.get?_eq_none_iff b n).2 hh] at hb; cases hb
      have := h1 n ((Attrs.has_iff_mem_keys b n).1 hbn)
      simp [hna] at this
  | some v =>
    simp only [Attrs.get?, Option.map_eq_some_iff] at ha
    obtain ⟨kv, hkv, hv⟩ := ha
    have hmem := List.mem_of_find?_eq_some hkv
    have hk : kv.1 = n := by simpa using List.find?_some hkv
    have hbn : b.has n = true := by
      have := h2 n (by simp only [Attrs.keys, List.mem_map]; exact ⟨kv, hmem, hk⟩)
      simpa using this
    cases hb : b.get? n with
    | none => rw [(Attrs.get?_eq_none_iff b n).1 hb] at hbn; cases hbn
    | some w =>
      have := h3 kv hmem
      rw [hk, hb] at this
      simp only [bne_iff_ne, ne_eq, Decidable.not_not] at this
      rw [this, hv]

/-- Agreement as far as polling can establish it: same port ids, same values, attributes equal as dictionaries. -/
def PollSynced (m : Master) (s : SlaveSt) : Prop :=
  ∀ id, match mview m id, sview s id with
    | none, none => True
    | some x, some y => x.value = y.value ∧ AttrsEquiv x.attrs y.attrs
    | _, _ => False

theorem attrsEquiv_refl (a : Attrs) : AttrsEquiv a a := fun _ => rfl

theorem poll_ids (fix : Fix) (m : Master) (s : SlaveSt) (hn : NoPending m) (j : Nat) :
    (mview (pollPorts fix m (s.ports.map SPort.msg)) j).isSome = (sview s j).isSome := by
  rw [pollPorts_view fix m s hn j]
  cases mview m j <;> simp [sview]

/-- One poll suffices for the values and attributes when every slave port is already known to the master. -/
theorem poll_synced_of_known (fix : Fix) (m : Master) (s : SlaveSt) (hn : NoPending m)
    (hk : ∀ sp ∈ s.ports, (mview m sp.id).isSome = true) : PollSynced (pollPorts fix m (s.ports.map SPort.msg)) s := by
  intro j
  rw [pollPorts_view fix m s hn j]
  cases hm : mview m j with
  | none =>
    cases hs : findS s.ports j with
    | none => simp [sview, hs]
    | some sp =>
      have := hk sp (List.mem_of_find?_eq_some hs)
      rw [findS_id hs, hm] at this
      cases this
  | some pv =>
    cases hs : findS s.ports j with
    | none => simp [sview, hs]
    | some sp =>
      simp only [sview, hs, Option.map_some, true_and]
      by_cases hd : attrsDiffer pv.attrs sp.attrs = true
      · simp only [hd, if_true]; exact attrsEquiv_refl _
      · simp only [hd, Bool.false_eq_true, if_false]
        exact attrsEquiv_of_not_differ (by simpa using hd)

/-- Two successive polls that see the same slave state bring the mirror in line with it, from any steady state. -/
theorem poll_twice_synced (fix : Fix) (m : Master) (s : SlaveSt) (hn : NoPending m) :
    PollSynced (pollPorts fix (pollPorts fix m (s.ports.map SPort.msg)) (s.ports.map SPort.msg)) s := by
  refine poll_synced_of_known fix _ s (noPending_pollPorts fix m _ hn) ?_
  intro sp hsp
  rw [poll_ids fix m s hn sp.id]
  simp only [sview, Option.isSome_map]
  rw [findS_isSome_iff]
  simpa using ⟨sp, hsp, rfl⟩

/-! #### Session-queue supersession: an older queued port-update of the same port may be dropped -/

/-- The view after a batch of events, computed on views alone. -/
def viewAfter (evs : List Ev) (V : Nat → Option PV) : Nat → Option PV := evs.foldl (fun W e => evView e W) V

theorem mview_handleEvents (fix : Fix) (evs : List Ev) (m : Master) (hn : NoPending m) :
    mview (handleEvents fix m evs) = viewAfter evs (mview m) := by
  induction evs generalizing m with
  | nil => rfl
  | cons e rest ih =>
    simp only [handleEvents, List.foldl_cons, viewAfter] at ih ⊢
    rw [ih _ (noPending_stepEvent fix m e hn)]
    congr 1
    funext j
    exact mview_stepEvent fix m e hn j

theorem dev_handleEvents (fix : Fix) (evs : List Ev) (m : Master) (hn : NoPending m) :
    (handleEvents fix m evs).dev = evs.foldl (fun d e => evDev e d) m.dev := by
  induction evs generalizing m with
  | nil => rfl
  | cons e rest ih =>
    simp only [handleEvents, List.foldl_cons] at ih ⊢
    rw [ih _ (noPending_stepEvent fix m e hn), dev_stepEvent fix m e hn]

/-- Two views that agree except possibly on the attributes/value shown for port `i` (but agree on whether `i` exists). -/
def AgreeOff (i : Nat) (A B : Nat → Option PV) : Prop := ∀ j, (j ≠ i → A j = B j) ∧ (A j).isSome = (B j).isSome

theorem agreeOff_evView (i : Nat) (e : Ev) {A B : Nat → Option PV} (h : AgreeOff i A B) :
    AgreeOff i (evView e A) (evView e B) := by
  intro j
  obtain ⟨h1, h2⟩ := h j
  cases e with
  | valueChange k v =>
    simp only [evView]
    by_cases hjk : j = k
    · simp only [hjk, if_true]
      rw [hjk] at h1 h2
      exact ⟨fun hne => by rw [h1 hne], by simp [h2]⟩
    · simp only [hjk, if_false]; exact ⟨h1, h2⟩
  | portUpdate msg =>
    simp only [evView]
    by_cases hjk : j = msg.id
    · simp only [hjk, if_true]
      rw [hjk] at h1 h2
      exact ⟨fun hne => by rw [h1 hne], by simp [h2]⟩
    · simp only [hjk, if_false]; exact ⟨h1, h2⟩
  | portAdd msg =>
    simp only [evView]
    by_cases hjk : j = msg.id
    · simp only [hjk, if_true]
      rw [hjk] at h1 h2
      exact ⟨fun hne => by rw [h1 hne], by simp⟩
    · simp only [hjk, if_false]; exact ⟨h1, h2⟩
  | portRemove k =>
    simp only [evView]
    by_cases hjk : j = k
    · simp [hjk]
    · simp only [hjk, if_false]; exact ⟨h1, h2⟩
  | deviceUpdate a => exact ⟨h1, h2⟩

theorem agreeOff_viewAfter (i : Nat) (evs : List Ev) {A B : Nat → Option PV} (h : AgreeOff i A B) :
    AgreeOff i (viewAfter evs A) (viewAfter evs B) := by
  induction evs generalizing A B with
  | nil => exact h
  | cons e rest ih => exact ih (agreeOff_evView i e h)

theorem viewAfter_append (q1 q2 : List Ev) (V : Nat → Option PV) :
    viewAfter (q1 ++ q2) V = viewAfter q2 (viewAfter q1 V) := by
  simp [viewAfter, List.foldl_append]

/-- **Supersession.** When a port-update carrying a value is queued, an older port-update of the same port still in
the queue may be dropped: the mirror ends up showing the same ports, attributes, values and device attributes. -/
theorem supersede_portUpdate (fix : Fix) (m : Master) (hn : NoPending m) (q1 q2 : List Ev) (old new : PortMsg)
    (hid : old.id = new.id) (hv : new.value.isSome = true) :
    mview (handleEvents fix m (q1 ++ [.portUpdate old] ++ q2 ++ [.portUpdate new])) =
      mview (handleEvents fix m (q1 ++ q2 ++ [.portUpdate new])) ∧
    (handleEvents fix m (q1 ++ [.portUpdate old] ++ q2 ++ [.portUpdate new])).dev =
      (handleEvents fix m (q1 ++ q2 ++ [.portUpdate new])).dev := by
  constructor
  · rw [mview_handleEvents fix _ m hn, mview_handleEvents fix _ m hn]
    simp only [viewAfter_append]
    have h0 : AgreeOff new.id (viewAfter [.portUpdate old] (viewAfter q1 (mview m))) (viewAfter q1 (mview m)) := by
      intro j
      simp only [viewAfter, List.foldl_cons, List.foldl_nil, evView, hid]
      by_cases hj : j = new.id
      · simp [hj]
      · simp [hj]
    have h1 := agreeOff_viewAfter new.id q2 h0
    generalize viewAfter q2 (viewAfter [.portUpdate old] (viewAfter q1 (mview m))) = A at h1 ⊢
    generalize viewAfter q2 (viewAfter q1 (mview m)) = B at h1 ⊢
    funext j
    show evView (.portUpdate new) A j = evView (.portUpdate new) B j
    obtain ⟨ha, hb⟩ := h1 j
    obtain ⟨v, hv'⟩ := Option.isSome_iff_exists.1 hv
    simp only [evView, hv', Option.getD_some]
    by_cases hj : j = new.id
    · simp only [hj, if_true]
      rw [hj] at hb
      cases hA : A new.id <;> cases hB : B new.id <;> simp_all
    · simp only [hj, if_false]; exact ha hj
  · rw [dev_handleEvents fix _ m hn, dev_handleEvents fix _ m hn]
    simp [List.foldl_append, evDev]

/-- The answer of the `GET /ports/<id>/value` issued by `handle_enable` (for a port that has just been added or
enabled while the master is ready): a non-null value becomes the newest remote value of that port. -/
theorem mview_valueResp (m : Master) (i : Nat) (v : PVal) (j : Nat) :
    mview (valueResp m i v) j =
      if j = i ∧ v.isSome then (mview m j).map (fun pv => ⟨pv.attrs, v⟩) else mview m j := by
  cases v with
  | none => simp [valueResp]
  | some x =>
    simp only [valueResp, mview]
    rw [findPort_updPort _ _ _ (fun q => q.push (some x)) (fun _ => rfl)]
    by_cases hj : j = i
    · subst hj
      cases findPort m.ports j with
      | none => simp
      | some p =>
        have : (p.push (some x)).attrs = p.attrs := rfl
        simp [this]
    · simp [hj]

/-- A port discovered by a poll shows the slave's value as soon as the follow-up value fetch is answered. -/
theorem poll_then_valueResp (fix : Fix) (m : Master) (s : SlaveSt) (hn : NoPending m) (j : Nat) (sp : SPort)
    (hnew : mview m j = none) (hs : findS s.ports j = some sp) :
    mview (valueResp (pollPorts fix m (s.ports.map SPort.msg)) j sp.value) j = some ⟨sp.attrs, sp.value⟩ := by
  rw [mview_valueResp, pollPorts_view fix m s hn j, hnew, hs]
  cases hv : sp.value <;> simp

end QtVerif.Slave
