import QtVerif.Proofs.ParseSpec
/-! Character classes, the literal automaton and trimming: helper lemmas for C03. -/
set_option linter.unusedSimpArgs false
namespace QtVerif.Parse
open QtVerif.Syntax

/-- characters that steer the parser -/
def isSpecial (c : Char) : Bool := c == '(' || c == ')' || c == ',' || c == '$' || c == '@'

theorem ceq (c d : Char) : (c == d) = decide (c.toNat = d.toNat) := by
  by_cases h : c = d
  · subst h; simp
  · have : c.toNat ≠ d.toNat := fun h' => h (Char.toNat_inj.mp h')
    simp [h, this]

theorem ceq' (c d : Char) : (c = d) ↔ (c.toNat = d.toNat) := Char.toNat_inj.symm

theorem isSpace_iff (c : Char) : isSpace c = true ↔
    ((9 ≤ c.toNat ∧ c.toNat ≤ 13) ∨ (28 ≤ c.toNat ∧ c.toNat ≤ 32) ∨ c.toNat = 0x85 ∨ c.toNat = 0xA0 ∨ c.toNat = 0x1680 ∨
    (0x2000 ≤ c.toNat ∧ c.toNat ≤ 0x200A) ∨ c.toNat = 0x2028 ∨ c.toNat = 0x2029 ∨ c.toNat = 0x202F ∨ c.toNat = 0x205F ∨ c.toNat = 0x3000) := by
  simp [isSpace, Bool.or_eq_true, Bool.and_eq_true, decide_eq_true_eq, or_assoc]

theorem special_iff (c : Char) : isSpecial c = true ↔ (c.toNat = 40 ∨ c.toNat = 41 ∨ c.toNat = 44 ∨ c.toNat = 36 ∨ c.toNat = 64) := by
  simp [isSpecial, ceq, or_assoc]

theorem nameChar_iff (c : Char) : isNameChar c = true ↔
    ((97 ≤ c.toNat ∧ c.toNat ≤ 122) ∨ (65 ≤ c.toNat ∧ c.toNat ≤ 90) ∨ (48 ≤ c.toNat ∧ c.toNat ≤ 57) ∨ c.toNat = 95) := by
  simp [isNameChar, or_assoc]

theorem idChar_iff (c : Char) : isIdChar c = true ↔
    ((97 ≤ c.toNat ∧ c.toNat ≤ 122) ∨ (65 ≤ c.toNat ∧ c.toNat ≤ 90) ∨ (48 ≤ c.toNat ∧ c.toNat ≤ 57) ∨ c.toNat = 95 ∨ c.toNat = 46 ∨ c.toNat = 45) := by
  simp [isIdChar, nameChar_iff, ceq, or_assoc]

theorem space_not_special {c : Char} (h : isSpace c = true) : isSpecial c = false := by
  rw [isSpace_iff] at h
  cases hs : isSpecial c with
  | false => rfl
  | true => rw [special_iff] at hs; omega

theorem idChar_not_space {c : Char} (h : isIdChar c = true) : isSpace c = false := by
  rw [idChar_iff] at h
  cases hs : isSpace c with
  | false => rfl
  | true => rw [isSpace_iff] at hs; omega

theorem idChar_not_special {c : Char} (h : isIdChar c = true) : isSpecial c = false := by
  rw [idChar_iff] at h
  cases hs : isSpecial c with
  | false => rfl
  | true => rw [special_iff] at hs; omega

theorem nameChar_idChar {c : Char} (h : isNameChar c = true) : isIdChar c = true := by
  simp [isIdChar, h]

/-- a character that can occur in a numeric literal besides digits -/
def isLitSym (c : Char) : Bool :=
  c == '+' || c == '-' || c == '.' || c == '_' || isCh c 'e' 'E' || isCh c 'i' 'I' || isCh c 'n' 'N' ||
  isCh c 'f' 'F' || isCh c 'a' 'A' || isCh c 't' 'T' || isCh c 'y' 'Y'

theorem litStep_alive (dec : Char → Bool) (st : LS) (c : Char) (h : litStep dec st c ≠ .dead) :
    dec c = true ∨ isLitSym c = true := by
  cases hd : dec c with
  | true => exact Or.inl rfl
  | false =>
    right
    cases st <;> simp only [litStep, hd, Bool.false_eq_true, if_false] at h <;>
      (try (exfalso; exact h rfl)) <;> (repeat' split at h) <;> simp_all [isLitSym]

theorem litRun_dead (dec : Char → Bool) (s : List Char) : litRun dec .dead s = .dead := by
  induction s with
  | nil => rfl
  | cons c cs ih => simpa [litRun, litStep] using ih

theorem litRun_alive (dec : Char → Bool) (s : List Char) (st : LS) (h : litRun dec st s ≠ .dead) :
    ∀ c ∈ s, dec c = true ∨ isLitSym c = true := by
  induction s generalizing st with
  | nil => intro c hc; cases hc
  | cons a as ih =>
    intro c hc
    have h' : litRun dec (litStep dec st a) as ≠ .dead := by simpa [litRun] using h
    have ha : litStep dec st a ≠ .dead := by
      intro hd; rw [hd, litRun_dead] at h'; exact h' rfl
    rcases List.mem_cons.mp hc with rfl | hc
    · exact litStep_alive dec st c ha
    · exact ih _ h' c hc

/-- neither whitespace nor one of `( ) , $ @` -/
def isPlain (c : Char) : Bool := !isSpace c && !isSpecial c

theorem plain_iff (c : Char) : isPlain c = true ↔ isSpace c = false ∧ isSpecial c = false := by
  simp [isPlain]

theorem litSym_plain {c : Char} (h : isLitSym c = true) : isPlain c = true := by
  rw [plain_iff]
  simp only [isLitSym, isCh, ceq, Bool.or_eq_true, decide_eq_true_eq] at h
  constructor
  · cases hs : isSpace c with
    | false => rfl
    | true => rw [isSpace_iff] at hs; simp at h; omega
  · cases hs : isSpecial c with
    | false => rfl
    | true => rw [special_iff] at hs; simp at h; omega

theorem decimal_plain (env : Env) {c : Char} (h : env.isDecimal c = true) : isPlain c = true := by
  rw [plain_iff]
  simp only [Env.isDecimal, Bool.or_eq_true, Bool.and_eq_true, decide_eq_true_eq, Bool.not_eq_true'] at h
  constructor
  · cases hs : isSpace c with
    | false => rfl
    | true =>
      rcases h with h | h
      · rw [isSpace_iff] at hs; omega
      · simp [hs] at h
  · cases hs : isSpecial c with
    | false => rfl
    | true => rw [special_iff] at hs; omega

theorem keyword_plain {s : List Char} (h : isKeyword s = true) : ∀ c ∈ s, isPlain c = true := by
  simp only [isKeyword, Bool.or_eq_true, beq_iff_eq] at h
  rcases h with (h | h) | h <;> subst h <;> decide

theorem literal_plain (env : Env) {s : List Char} (h : isLiteral env s = true) : ∀ c ∈ s, isPlain c = true := by
  simp only [isLiteral, Bool.or_eq_true] at h
  rcases h with (h | h) | h
  · exact keyword_plain h
  · intro c hc
    have : litRun env.isDecimal .start s ≠ .dead := by
      simp only [pyInt, beq_iff_eq] at h; rw [h]; decide
    rcases litRun_alive _ s _ this c hc with h | h
    · exact decimal_plain env h
    · exact litSym_plain h
  · intro c hc
    have : litRun env.isDecimal .start s ≠ .dead := by
      intro hd; simp [pyFloat, hd] at h
    rcases litRun_alive _ s _ this c hc with h | h
    · exact decimal_plain env h
    · exact litSym_plain h

/-! ### trimming -/

theorem allSpace_nil : AllSpace [] := by intro c hc; cases hc
theorem allSpace_append {a b : List Char} (ha : AllSpace a) (hb : AllSpace b) : AllSpace (a ++ b) := by
  intro c hc; rcases List.mem_append.mp hc with h | h
  · exact ha c h
  · exact hb c h

theorem dropWhile_allSpace {ws : List Char} (h : AllSpace ws) (s : List Char) :
    (ws ++ s).dropWhile isSpace = s.dropWhile isSpace := by
  induction ws with
  | nil => rfl
  | cons a as ih =>
    have ha : isSpace a = true := h a (List.mem_cons_self)
    have : AllSpace as := fun c hc => h c (List.mem_cons_of_mem _ hc)
    simp [List.dropWhile, ha, ih this]

theorem trimL_allSpace_append {ws : List Char} (h : AllSpace ws) (s : List Char) : trimL (ws ++ s) = trimL s :=
  dropWhile_allSpace h s

theorem trimL_cons {c : Char} (h : isSpace c = false) (s : List Char) : trimL (c :: s) = c :: s := by
  simp [trimL, List.dropWhile, h]

theorem trimL_allSpace {ws : List Char} (h : AllSpace ws) : trimL ws = [] := by
  have := trimL_allSpace_append h []
  simpa [trimL] using this

theorem allSpace_reverse {ws : List Char} (h : AllSpace ws) : AllSpace ws.reverse := by
  intro c hc; exact h c (List.mem_reverse.mp hc)

theorem trimR_append_allSpace {ws : List Char} (h : AllSpace ws) (s : List Char) : trimR (s ++ ws) = trimR s := by
  simp only [trimR, List.reverse_append]
  rw [dropWhile_allSpace (allSpace_reverse h)]

theorem trimR_snoc {c : Char} (h : isSpace c = false) (s : List Char) : trimR (s ++ [c]) = s ++ [c] := by
  simp [trimR, List.dropWhile, h]

theorem trimR_nil : trimR [] = [] := rfl
theorem trimL_nil : trimL [] = [] := rfl

/-- no whitespace at either end -/
def Tight (s : List Char) : Prop :=
  (∀ c, s.head? = some c → isSpace c = false) ∧ (∀ c, s.getLast? = some c → isSpace c = false)

theorem tight_nil : Tight [] := by constructor <;> intro c h <;> cases h

theorem trim_wrap {ws1 core ws2 : List Char} (h1 : AllSpace ws1) (h2 : AllSpace ws2) (hc : Tight core) :
    trim (ws1 ++ core ++ ws2) = core := by
  unfold trim
  rw [List.append_assoc, trimL_allSpace_append h1]
  cases core with
  | nil => simp [trimL_allSpace h2, trimR]
  | cons c r =>
    have hc1 : isSpace c = false := hc.1 c rfl
    rw [List.cons_append, trimL_cons hc1, ← List.cons_append, trimR_append_allSpace h2]
    rcases List.eq_nil_or_concat (c :: r) with h | ⟨l, d, h⟩
    · cases h
    · rw [h, List.concat_eq_append] at hc ⊢
      have : isSpace d = false := hc.2 d (by simp)
      exact trimR_snoc this l

theorem trim_tight {s : List Char} (h : Tight s) : trim s = s := by
  simpa using trim_wrap allSpace_nil allSpace_nil h

theorem dropWhile_head {p : Char → Bool} (s : List Char) : ∀ c, (s.dropWhile p).head? = some c → p c = false := by
  induction s with
  | nil => intro c h; cases h
  | cons a as ih =>
    intro c h
    cases hp : p a with
    | true => simp [List.dropWhile, hp] at h; exact ih c h
    | false => simp [List.dropWhile, hp] at h; subst h; exact hp

theorem mem_takeWhile {p : Char → Bool} {s : List Char} {c : Char} (h : c ∈ s.takeWhile p) : p c = true := by
  induction s with
  | nil => cases h
  | cons a as ih =>
    cases hp : p a with
    | true =>
      simp [List.takeWhile, hp] at h
      rcases h with rfl | h
      · exact hp
      · exact ih h
    | false => simp [List.takeWhile, hp] at h

theorem trim_decomp (s : List Char) :
    ∃ ws1 ws2, AllSpace ws1 ∧ AllSpace ws2 ∧ s = ws1 ++ trim s ++ ws2 ∧ Tight (trim s) := by
  have h1 : s = s.takeWhile isSpace ++ trimL s := (List.takeWhile_append_dropWhile).symm
  have h2 : trimL s = trim s ++ ((trimL s).reverse.takeWhile isSpace).reverse := by
    have h3 := (List.takeWhile_append_dropWhile (p := isSpace) (l := (trimL s).reverse))
    have h4 := congrArg List.reverse h3
    rw [List.reverse_append, List.reverse_reverse] at h4
    exact h4.symm
  refine ⟨s.takeWhile isSpace, ((trimL s).reverse.takeWhile isSpace).reverse, ?_, ?_, ?_, ?_⟩
  · intro c hc; exact mem_takeWhile hc
  · intro c hc; exact mem_takeWhile (List.mem_reverse.mp hc)
  · rw [List.append_assoc, ← h2, ← h1]
  · constructor
    · intro c h
      have hl : ∀ c, (trimL s).head? = some c → isSpace c = false := dropWhile_head s
      rcases hx : trim s with _ | ⟨a, r⟩
      · rw [hx] at h; cases h
      · rw [hx] at h; simp at h; subst h
        rw [hx] at h2
        exact hl a (by rw [h2]; rfl)
    · intro c h
      have : ((trimL s).reverse.dropWhile isSpace).head? = some c := by
        simpa [trim, trimR, List.getLast?_reverse] using h
      exact dropWhile_head _ c this

end QtVerif.Parse
