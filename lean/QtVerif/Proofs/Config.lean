import QtVerif.Model.Config
/-! Helper lemmas for C07 (configuration save/load round-trip). -/
namespace QtVerif.Config

/-- C03's `print_fixpoint` as a hypothesis on the parameter: printing a parsed text gives a text that parses to itself -/
def CanonOK (cfg : Cfg) : Prop := ∀ k t c, cfg.canon k t = some c → cfg.canon k c = some c

/-- `v` is what attribute `n` reads back after being set to `v` (canonical form) -/
def Stable (cfg : Cfg) (n : String) (v : AVal) : Prop := ∀ old, setVal cfg (some old) n v = (some v, true)

def DefWF (cfg : Cfg) (d : PortDef) : Prop :=
  (names d.defaults).Nodup ∧ ∀ n v, lookupF n d.defaults = some v → Stable cfg n v

structure WF (cfg : Cfg) (p : Port) : Prop where
  def_wf : DefWF cfg p.pdef
  support : ∀ n, (p.attrs n).isSome = (lookupF n p.pdef.defaults).isSome
  stable : ∀ n v, p.attrs n = some v → Stable cfg n v

/-! ### lookupF -/

theorem lookupF_none_of_not_mem {n : String} {fs : Fields} (h : n ∉ names fs) : lookupF n fs = none := by
  induction fs with
  | nil => rfl
  | cons a r ih =>
    obtain ⟨m, v⟩ := a
    simp only [names, List.map_cons, List.mem_cons, not_or] at h
    simp only [lookupF]
    rw [if_neg (fun e => h.1 e.symm)]
    exact ih h.2

theorem lookupF_isSome_iff {n : String} {fs : Fields} : (lookupF n fs).isSome = true ↔ n ∈ names fs := by
  induction fs with
  | nil => simp [lookupF, names]
  | cons a r ih =>
    obtain ⟨m, v⟩ := a
    simp only [names] at ih
    simp only [lookupF, names, List.map_cons, List.mem_cons]
    by_cases e : m = n
    · simp [e]
    · rw [if_neg e]
      constructor
      · intro h; exact Or.inr (ih.mp h)
      · intro h
        rcases h with h | h
        · exact absurd h.symm e
        · exact ih.mpr h

theorem lookupF_eq_some_iff {n : String} {v : AVal} {fs : Fields} (nd : (names fs).Nodup) :
    lookupF n fs = some v ↔ (n, v) ∈ fs := by
  induction fs with
  | nil => simp [lookupF]
  | cons a r ih =>
    obtain ⟨m, w⟩ := a
    simp only [names, List.map_cons, List.nodup_cons] at nd
    simp only [lookupF, List.mem_cons, Prod.mk.injEq]
    by_cases e : m = n
    · subst e
      simp only [if_true, Option.some.injEq]
      constructor
      · intro h; exact Or.inl ⟨trivial, h.symm⟩
      · intro h
        rcases h with h | h
        · exact h.2.symm
        · exact absurd (List.mem_map_of_mem (f := (·.1)) h) nd.1
    · rw [if_neg e]
      rw [ih nd.2]
      constructor
      · intro h; exact Or.inr h
      · intro h
        rcases h with h | h
        · exact absurd h.1.symm e
        · exact h

theorem lookupF_congr_mem {n : String} {fs gs : Fields} (nf : (names fs).Nodup) (ng : (names gs).Nodup)
    (h : ∀ v, (n, v) ∈ fs ↔ (n, v) ∈ gs) : lookupF n fs = lookupF n gs := by
  apply Option.ext
  intro v
  rw [lookupF_eq_some_iff nf, lookupF_eq_some_iff ng]
  exact h v

/-! ### applyFields -/

/-- the value of attribute `n` after a list of `set_attr` calls: only the calls naming `n` matter -/
def foldAttr (cfg : Cfg) (n : String) (cur : Option AVal) (fs : Fields) : Option AVal :=
  fs.foldl (fun c a => if a.1 = n then (setVal cfg c n a.2).1 else c) cur

theorem setAttr_attrs (cfg : Cfg) (p : Port) (m : String) (v : AVal) (n : String) :
    (setAttr cfg p m v).1.attrs n = if m = n then (setVal cfg (p.attrs n) n v).1 else p.attrs n := by
  simp only [setAttr, upd]
  by_cases e : m = n
  · subst e; simp
  · rw [if_neg e, if_neg (fun h => e h.symm)]

theorem applyFields_attrs (cfg : Cfg) (p : Port) (fs : Fields) (n : String) :
    (applyFields cfg p fs).1.attrs n = foldAttr cfg n (p.attrs n) fs := by
  induction fs generalizing p with
  | nil => rfl
  | cons a r ih =>
    obtain ⟨m, v⟩ := a
    simp only [applyFields, foldAttr, List.foldl_cons]
    rw [ih]
    rw [setAttr_attrs]
    rfl

theorem applyFields_rest (cfg : Cfg) (p : Port) (fs : Fields) :
    (applyFields cfg p fs).1.pdef = p.pdef ∧ (applyFields cfg p fs).1.value = p.value ∧
    (applyFields cfg p fs).1.pendingSave = p.pendingSave := by
  induction fs generalizing p with
  | nil => exact ⟨rfl, rfl, rfl⟩
  | cons a r ih =>
    obtain ⟨m, v⟩ := a
    simp only [applyFields]
    have := ih (setAttr cfg p m v).1
    simpa [setAttr] using this

theorem foldAttr_not_mem (cfg : Cfg) (n : String) (cur : Option AVal) (fs : Fields) (h : n ∉ names fs) :
    foldAttr cfg n cur fs = cur := by
  induction fs generalizing cur with
  | nil => rfl
  | cons a r ih =>
    obtain ⟨m, v⟩ := a
    simp only [names, List.map_cons, List.mem_cons, not_or] at h
    simp only [foldAttr, List.foldl_cons]
    rw [if_neg (fun e => h.1 e.symm)]
    exact ih cur h.2

theorem foldAttr_nodup (cfg : Cfg) (n : String) (cur : Option AVal) (fs : Fields) (nd : (names fs).Nodup) :
    foldAttr cfg n cur fs = match lookupF n fs with
      | some v => (setVal cfg cur n v).1
      | none => cur := by
  induction fs generalizing cur with
  | nil => rfl
  | cons a r ih =>
    obtain ⟨m, v⟩ := a
    simp only [names, List.map_cons, List.nodup_cons] at nd
    simp only [foldAttr, List.foldl_cons, lookupF]
    by_cases e : m = n
    · subst e
      simp only [if_true]
      exact foldAttr_not_mem cfg m _ r nd.1
    · rw [if_neg e, if_neg e]
      exact ih cur nd.2

/-! ### stability is kept by `set_attr` -/

theorem setVal_some (cfg : Cfg) (old : AVal) (n : String) (v : AVal) :
    ∃ w, (setVal cfg (some old) n v).1 = some w := by
  simp only [setVal]
  by_cases hk : kindOf n = .plain
  · rw [if_pos hk]; exact ⟨_, rfl⟩
  · rw [if_neg hk]
    cases v with
    | str t =>
      simp only [setText]
      by_cases e : t = ""
      · rw [if_pos e]; exact ⟨_, rfl⟩
      · rw [if_neg e]
        cases cfg.canon (kindOf n) t <;> exact ⟨_, rfl⟩
    | bool b => exact ⟨_, rfl⟩
    | int i => exact ⟨_, rfl⟩

theorem setVal_none (cfg : Cfg) (n : String) (v : AVal) : setVal cfg none n v = (none, true) := rfl

theorem stable_plain (cfg : Cfg) (n : String) (v : AVal) (hk : kindOf n = .plain) : Stable cfg n v := by
  intro o; simp [setVal, hk]

theorem stable_empty (cfg : Cfg) (n : String) : Stable cfg n (.str "") := by
  intro o
  simp only [setVal]
  by_cases hk : kindOf n = .plain
  · rw [if_pos hk]
  · rw [if_neg hk]; simp [setText]

theorem stable_canon (cfg : Cfg) (n : String) (c : String) (h : cfg.canon (kindOf n) c = some c) :
    Stable cfg n (.str c) := by
  intro o
  simp only [setVal]
  by_cases hk : kindOf n = .plain
  · rw [if_pos hk]
  · rw [if_neg hk]
    simp only [setText]
    by_cases e : c = ""
    · subst e; simp
    · rw [if_neg e, h]

theorem stable_of_setVal (cfg : Cfg) (hc : CanonOK cfg) (old : AVal) (n : String) (v w : AVal)
    (hold : Stable cfg n old) (h : (setVal cfg (some old) n v).1 = some w) : Stable cfg n w := by
  simp only [setVal] at h
  by_cases hk : kindOf n = .plain
  · exact stable_plain cfg n w hk
  · rw [if_neg hk] at h
    cases v with
    | str t =>
      simp only [setText] at h
      by_cases e : t = ""
      · rw [if_pos e] at h
        simp only [Option.some.injEq] at h
        subst h; exact stable_empty cfg n
      · rw [if_neg e] at h
        cases hcan : cfg.canon (kindOf n) t with
        | some c =>
          rw [hcan] at h
          simp only [Option.some.injEq] at h
          subst h
          exact stable_canon cfg n c (hc _ _ _ hcan)
        | none =>
          rw [hcan] at h
          simp only [Option.some.injEq] at h
          subst h; exact hold
    | bool b =>
      simp only [setText, Option.some.injEq] at h
      subst h; exact hold
    | int i =>
      simp only [setText, Option.some.injEq] at h
      subst h; exact hold

theorem setAttr_wf (cfg : Cfg) (hc : CanonOK cfg) (p : Port) (m : String) (v : AVal) (h : WF cfg p) :
    WF cfg (setAttr cfg p m v).1 := by
  refine ⟨h.def_wf, ?_, ?_⟩
  · intro n
    rw [setAttr_attrs]
    by_cases e : m = n
    · subst e
      simp only [if_true]
      cases hp : p.attrs m with
      | none =>
        rw [setVal_none]
        have := h.support m
        rw [hp] at this
        exact this
      | some old =>
        obtain ⟨w, hw⟩ := setVal_some cfg old m v
        rw [hw]
        have := h.support m
        rw [hp] at this
        exact this
    · rw [if_neg e]; exact h.support n
  · intro n w hw
    rw [setAttr_attrs] at hw
    by_cases e : m = n
    · subst e
      simp only [if_true] at hw
      cases hp : p.attrs m with
      | none => rw [hp, setVal_none] at hw; cases hw
      | some old =>
        rw [hp] at hw
        exact stable_of_setVal cfg hc old m v w (h.stable m old hp) hw
    · rw [if_neg e] at hw; exact h.stable n w hw

theorem applyFields_wf (cfg : Cfg) (hc : CanonOK cfg) (p : Port) (fs : Fields) (h : WF cfg p) :
    WF cfg (applyFields cfg p fs).1 := by
  induction fs generalizing p with
  | nil => exact h
  | cons a r ih =>
    obtain ⟨m, v⟩ := a
    simp only [applyFields]
    exact ih _ (setAttr_wf cfg hc p m v h)

theorem fresh_wf (cfg : Cfg) (d : PortDef) (h : DefWF cfg d) : WF cfg (fresh d) :=
  ⟨h, fun _ => rfl, fun n v hv => h.2 n v hv⟩

/-! ### load order -/

theorem names_entryOf_subset (k n : String) (fs : Fields) (h : n ∈ names (entryOf k fs)) : n = k := by
  unfold entryOf at h
  cases hk : lookupF k fs with
  | none => rw [hk] at h; simp [names] at h
  | some v => rw [hk] at h; simpa [names] using h

theorem foldAttr_append (cfg : Cfg) (n : String) (cur : Option AVal) (a b : Fields) :
    foldAttr cfg n cur (a ++ b) = foldAttr cfg n (foldAttr cfg n cur a) b := by
  simp only [foldAttr, List.foldl_append]

theorem foldAttr_entryOf_self (cfg : Cfg) (n : String) (cur : Option AVal) (fs : Fields) :
    foldAttr cfg n cur (entryOf n fs) = match lookupF n fs with
      | some v => (setVal cfg cur n v).1
      | none => cur := by
  unfold entryOf
  cases lookupF n fs with
  | none => rfl
  | some v => simp [foldAttr]

theorem foldAttr_entryOf_other (cfg : Cfg) (n k : String) (cur : Option AVal) (fs : Fields) (h : n ≠ k) :
    foldAttr cfg n cur (entryOf k fs) = cur :=
  foldAttr_not_mem cfg n cur _ (fun hm => h (names_entryOf_subset k n fs hm))

def midFilter (a : String × AVal) : Bool := decide (a.1 ≠ "enabled" ∧ a.1 ≠ "expression")

def sortedMid (fs : Fields) : Fields :=
  (fs.filter (fun a => a.1 ≠ "enabled" ∧ a.1 ≠ "expression")).mergeSort (fun a b => decide (a.1 ≤ b.1))

theorem loadOrder_eq (fs : Fields) :
    loadOrder fs = entryOf "enabled" fs ++ sortedMid fs ++ entryOf "expression" fs := rfl

theorem nodup_sortedMid (fs : Fields) (nd : (names fs).Nodup) : (names (sortedMid fs)).Nodup := by
  unfold sortedMid names
  have hp := (List.mergeSort_perm (fs.filter (fun a => a.1 ≠ "enabled" ∧ a.1 ≠ "expression"))
    (fun a b => decide (a.1 ≤ b.1))).map (·.1)
  rw [hp.nodup_iff]
  have nd' : (fs.map (fun a : String × AVal => a.1)).Nodup := nd
  exact (List.Sublist.map (fun a : String × AVal => a.1) List.filter_sublist).nodup nd'

theorem mem_sortedMid (fs : Fields) (n : String) (v : AVal) :
    (n, v) ∈ sortedMid fs ↔ (n, v) ∈ fs ∧ n ≠ "enabled" ∧ n ≠ "expression" := by
  unfold sortedMid
  rw [List.mem_mergeSort, List.mem_filter]
  simp

theorem not_mem_names_sortedMid (fs : Fields) (n : String) (h : n = "enabled" ∨ n = "expression") :
    n ∉ names (sortedMid fs) := by
  intro hm
  simp only [names, List.mem_map] at hm
  obtain ⟨⟨m, v⟩, hmem, rfl⟩ := hm
  have := (mem_sortedMid fs m v).mp hmem
  rcases h with h | h
  · exact this.2.1 h
  · exact this.2.2 h

theorem lookupF_sortedMid (fs : Fields) (nd : (names fs).Nodup) (n : String)
    (h1 : n ≠ "enabled") (h2 : n ≠ "expression") : lookupF n (sortedMid fs) = lookupF n fs := by
  apply lookupF_congr_mem (nodup_sortedMid fs nd) nd
  intro v
  rw [mem_sortedMid]
  exact ⟨fun h => h.1, fun h => ⟨h, h1, h2⟩⟩

/-- applying the stored attributes in load order gives, for every attribute, the single `set_attr` with the stored
value: the order is immaterial because every name occurs once -/
theorem foldAttr_loadOrder (cfg : Cfg) (n : String) (cur : Option AVal) (fs : Fields) (nd : (names fs).Nodup) :
    foldAttr cfg n cur (loadOrder fs) = match lookupF n fs with
      | some v => (setVal cfg cur n v).1
      | none => cur := by
  rw [loadOrder_eq, foldAttr_append, foldAttr_append]
  by_cases h1 : n = "enabled"
  · subst h1
    rw [foldAttr_entryOf_other cfg "enabled" "expression" _ fs (by decide)]
    rw [foldAttr_not_mem cfg "enabled" _ (sortedMid fs) (not_mem_names_sortedMid fs _ (Or.inl rfl))]
    exact foldAttr_entryOf_self cfg "enabled" cur fs
  · by_cases h2 : n = "expression"
    · subst h2
      rw [foldAttr_entryOf_other cfg "expression" "enabled" cur fs (by decide)]
      rw [foldAttr_not_mem cfg "expression" _ (sortedMid fs) (not_mem_names_sortedMid fs _ (Or.inr rfl))]
      exact foldAttr_entryOf_self cfg "expression" cur fs
    · rw [foldAttr_entryOf_other cfg n "enabled" cur fs h1, foldAttr_entryOf_other cfg n "expression" _ fs h2]
      rw [foldAttr_nodup cfg n cur (sortedMid fs) (nodup_sortedMid fs nd), lookupF_sortedMid fs nd n h1 h2]

/-! ### what `prepare_for_save` stores -/

def savedFields (attrs : String → Option AVal) (ns : List String) : Fields :=
  ns.filterMap (fun n => (attrs n).map (fun v => (n, v)))

theorem names_savedFields (attrs : String → Option AVal) (ns : List String) :
    names (savedFields attrs ns) = ns.filter (fun n => (attrs n).isSome) := by
  induction ns with
  | nil => rfl
  | cons m r ih =>
    simp only [savedFields, names] at ih
    cases h : attrs m with
    | none => simp [savedFields, names, h, ih]
    | some v => simp [savedFields, names, h, ih]

theorem nodup_savedFields (attrs : String → Option AVal) (ns : List String) (nd : ns.Nodup) :
    (names (savedFields attrs ns)).Nodup := by
  rw [names_savedFields]; exact List.filter_sublist.nodup nd

theorem lookupF_savedFields (attrs : String → Option AVal) (ns : List String) (n : String) :
    lookupF n (savedFields attrs ns) = if n ∈ ns then attrs n else none := by
  induction ns with
  | nil => rfl
  | cons m r ih =>
    simp only [savedFields] at ih
    cases h : attrs m with
    | none =>
      simp only [savedFields, List.filterMap_cons, h, Option.map_none, List.mem_cons]
      rw [ih]
      by_cases e : n = m
      · subst e; simp [h]
      · simp [e]
    | some v =>
      simp only [savedFields, List.filterMap_cons, h, Option.map_some, lookupF, List.mem_cons]
      by_cases e : m = n
      · subst e; simp [h]
      · rw [if_neg e, ih]
        have : ¬ n = m := fun x => e x.symm
        simp [this]

theorem prepareForSave_fields (p : Port) :
    (prepareForSave p).fields = savedFields p.attrs (names p.pdef.defaults) := rfl

/-! ### the round-trip of one port -/

def expectedWrites (cfg : Cfg) (p : Port) : List (Option PVal) :=
  match persistedOf p, p.value with
  | true, some v => loadWrites cfg p v
  | _, _ => []

/-- loading record `r` into a fresh instance of `p`'s driver reproduces `p` as far as the property goes -/
structure Restores (cfg : Cfg) (p : Port) (r : PortRec) : Prop where
  pdef : (loadFromData cfg (fresh p.pdef) r).1.pdef = p.pdef
  attrs : (loadFromData cfg (fresh p.pdef) r).1.attrs = p.attrs
  value : persistedOf p = true → ∀ v, p.value = some v → (loadFromData cfg (fresh p.pdef) r).1.value = some v
  writes : (loadFromData cfg (fresh p.pdef) r).2 = expectedWrites cfg p

theorem finishLoad_pdef (cfg : Cfg) (p1 : Port) (rv : Option PVal) : (finishLoad cfg p1 rv).1.pdef = p1.pdef := by
  unfold finishLoad
  split
  · rfl
  · split <;> rfl

theorem finishLoad_attrs (cfg : Cfg) (p1 : Port) (rv : Option PVal) : (finishLoad cfg p1 rv).1.attrs = p1.attrs := by
  unfold finishLoad
  split
  · rfl
  · split <;> rfl

theorem loadFromData_pdef (cfg : Cfg) (p : Port) (r : PortRec) : (loadFromData cfg p r).1.pdef = p.pdef := by
  unfold loadFromData
  rw [finishLoad_pdef]
  exact (applyFields_rest cfg p (loadOrder r.fields)).1

theorem loadFromData_attrs (cfg : Cfg) (p : Port) (r : PortRec) :
    (loadFromData cfg p r).1.attrs = (applyFields cfg p (loadOrder r.fields)).1.attrs := by
  unfold loadFromData
  rw [finishLoad_attrs]

theorem loaded_attrs (cfg : Cfg) (p : Port) (h : WF cfg p) :
    (applyFields cfg (fresh p.pdef) (loadOrder (prepareForSave p).fields)).1.attrs = p.attrs := by
  funext n
  rw [applyFields_attrs, prepareForSave_fields,
    foldAttr_loadOrder cfg n _ _ (nodup_savedFields _ _ h.def_wf.1), lookupF_savedFields]
  have hs := h.support n
  by_cases hm : n ∈ names p.pdef.defaults
  · rw [if_pos hm]
    cases hp : p.attrs n with
    | none =>
      rw [hp] at hs
      simp only [fresh]
      cases hl : lookupF n p.pdef.defaults with
      | none => rfl
      | some w => rw [hl] at hs; cases hs
    | some v =>
      rw [hp] at hs
      simp only [fresh]
      cases hl : lookupF n p.pdef.defaults with
      | none => rw [hl] at hs; cases hs
      | some w => rw [h.stable n v hp w]
  · rw [if_neg hm]
    simp only [fresh]
    have hl := lookupF_none_of_not_mem hm
    rw [hl] at hs
    rw [hl]
    cases hp : p.attrs n with
    | none => rfl
    | some v => rw [hp] at hs; cases hs

theorem writeXform_congr (cfg : Cfg) (p q : Port) (h : p.attrs = q.attrs) (v : PVal) :
    writeXform cfg p v = writeXform cfg q v := by
  simp only [writeXform, h]

theorem loadWrites_congr (cfg : Cfg) (p q : Port) (h : p.attrs = q.attrs) (hd : p.pdef = q.pdef) (v : PVal) :
    loadWrites cfg p v = loadWrites cfg q v := by
  unfold loadWrites writeXform enabledOf boolAttr
  rw [h, hd]

theorem persistedOf_congr (p q : Port) (h : p.attrs = q.attrs) : persistedOf p = persistedOf q := by
  simp only [persistedOf, boolAttr, h]

/-- the core round-trip: what `prepare_for_save` writes, `load_from_data` reads back -/
theorem restores_prepare (cfg : Cfg) (p : Port) (h : WF cfg p) : Restores cfg p (prepareForSave p) := by
  have ha := loaded_attrs cfg p h
  have hr := applyFields_rest cfg (fresh p.pdef) (loadOrder (prepareForSave p).fields)
  have hper : persistedOf (applyFields cfg (fresh p.pdef) (loadOrder (prepareForSave p).fields)).1 = persistedOf p :=
    persistedOf_congr _ _ ha
  refine ⟨loadFromData_pdef cfg _ _, ?_, ?_, ?_⟩
  · rw [loadFromData_attrs]; exact ha
  · intro hp v hv
    unfold loadFromData finishLoad
    simp only [hper, hp]
    have : (prepareForSave p).value = some v := by simp [prepareForSave, hp, hv]
    rw [this]
  · unfold loadFromData finishLoad expectedWrites
    simp only [hper]
    cases hp : persistedOf p with
    | false =>
      have : (prepareForSave p).value = none := by simp [prepareForSave, hp]
      rw [this]
      simp only
      split <;> rfl
    | true =>
      have : (prepareForSave p).value = p.value := by simp [prepareForSave, hp]
      rw [this]
      cases hv : p.value with
      | none => simp only; split <;> rfl
      | some v =>
        simp only
        exact loadWrites_congr cfg _ p ha hr.1 v

/-! ### invariant of the hub/store pair -/

theorem WF_congr (cfg : Cfg) (p q : Port) (hd : q.pdef = p.pdef) (ha : q.attrs = p.attrs) (h : WF cfg p) : WF cfg q :=
  ⟨hd ▸ h.def_wf, fun n => by rw [hd, ha]; exact h.support n, fun n v hv => h.stable n v (ha ▸ hv)⟩

theorem loadFromData_wf (cfg : Cfg) (hc : CanonOK cfg) (p : Port) (r : PortRec) (h : WF cfg p) :
    WF cfg (loadFromData cfg p r).1 :=
  WF_congr cfg _ _ ((loadFromData_pdef cfg p r).trans (applyFields_rest cfg p _).1.symm)
    (loadFromData_attrs cfg p r) (applyFields_wf cfg hc p _ h)

theorem readXform_none (cfg : Cfg) (p : Port) : readXform cfg p none = none := by
  unfold readXform
  split
  · split <;> rfl
  · rfl

theorem finishLoad_writes (cfg : Cfg) (p1 : Port) (rv : Option PVal) (hv : p1.value = none)
    (hd : p1.pdef.writable = true → p1.pdef.initial = none) :
    (finishLoad cfg p1 rv).2 = expectedWrites cfg (finishLoad cfg p1 rv).1 := by
  have key : ∀ q : Port, q.attrs = p1.attrs → q.pdef = p1.pdef →
      (q.value = none ∨ (p1.pdef.writable = true → q.value = none)) → persistedOf p1 = false ∨ rv = none →
      ([] : List (Option PVal)) = expectedWrites cfg q := by
    intro q ha hpd hval hcase
    unfold expectedWrites
    rw [persistedOf_congr q p1 ha]
    cases hper : persistedOf p1 with
    | false => rfl
    | true =>
      cases hq : q.value with
      | none => rfl
      | some w =>
        simp only [loadWrites, hpd]
        by_cases hw : p1.pdef.writable = true
        · rcases hval with h | h
          · rw [h] at hq; cases hq
          · rw [h hw] at hq; cases hq
        · simp [hw]
  unfold finishLoad
  cases hper : persistedOf p1 with
  | true =>
    cases rv with
    | some v =>
      simp only [expectedWrites]
      have : persistedOf { p1 with value := some v } = true := hper
      rw [this]
      rfl
    | none =>
      simp only
      split
      · exact key _ rfl rfl (Or.inr (fun hw => by simp only; rw [hd hw, readXform_none])) (Or.inr rfl)
      · exact key _ rfl rfl (Or.inl hv) (Or.inr rfl)
  | false =>
    simp only
    split
    · exact key _ rfl rfl (Or.inr (fun hw => by simp only; rw [hd hw, readXform_none])) (Or.inl hper)
    · exact key _ rfl rfl (Or.inl hv) (Or.inl hper)

theorem restores_boot (cfg : Cfg) (d : PortDef) (r : PortRec) (hd : d.writable = true → d.initial = none) :
    Restores cfg (loadFromData cfg (fresh d) r).1 r := by
  have e : (loadFromData cfg (fresh d) r).1.pdef = d := loadFromData_pdef cfg (fresh d) r
  refine ⟨?_, ?_, ?_, ?_⟩
  · rw [e]; exact e
  · rw [e]
  · rw [e]; intro _ v hv; exact hv
  · rw [e]
    have hr := applyFields_rest cfg (fresh d) (loadOrder r.fields)
    unfold loadFromData
    apply finishLoad_writes
    · exact hr.2.1
    · rw [hr.1]; exact hd

def DefOK (cfg : Cfg) (s : Store) (id : String) (p : Port) : Prop :=
  (cfg.statics id = some p.pdef ∧ p.pdef.virtual = false) ∨
  (cfg.statics id = none ∧ p.pdef.virtual = true ∧ ∃ vd, s.vports id = some vd ∧ p.pdef = vportDef cfg.hist vd)

structure PortInv (cfg : Cfg) (s : Store) (id : String) (p : Port) : Prop where
  wf : WF cfg p
  defOK : DefOK cfg s id p
  noInit : p.pdef.writable = true → p.pdef.initial = none
  synced : p.pendingSave = false → Restores cfg p ((s.ports id).getD emptyRec)

def PortsInv (cfg : Cfg) (st : State) : Prop :=
  ∀ id, match st.hub.ports id with
    | none => cfg.statics id = none ∧ st.store.vports id = none ∧ st.store.ports id = none
    | some p => PortInv cfg st.store id p

def DevWF (d : Device) : Prop := d.adminHash ≠ "" ∧ d.normalHash ≠ "" ∧ d.viewonlyHash ≠ ""

structure Inv (cfg : Cfg) (st : State) : Prop where
  ports : PortsInv cfg st
  device : bootDevice cfg st.store.device = st.hub.device
  devWF : DevWF st.hub.device
  slaves : st.store.slaves = st.hub.slaves

structure CfgOK (cfg : Cfg) : Prop where
  canon : CanonOK cfg
  repaired : cfg.saveOnError = true
  statics : ∀ id d, cfg.statics id = some d → DefWF cfg d ∧ d.virtual = false ∧ (d.writable = true → d.initial = none)
  emptyNe : cfg.emptyHash ≠ ""
  hashNe : ∀ s, cfg.hash s ≠ ""

theorem PortInv_congr (cfg : Cfg) (s s' : Store) (id : String) (p : Port)
    (h1 : s'.ports id = s.ports id) (h2 : s'.vports id = s.vports id) (h : PortInv cfg s id p) :
    PortInv cfg s' id p := by
  refine ⟨h.wf, ?_, h.noInit, ?_⟩
  · rcases h.defOK with l | ⟨a, b, vd, c, e⟩
    · exact Or.inl l
    · exact Or.inr ⟨a, b, vd, by rw [h2]; exact c, e⟩
  · rw [h1]; exact h.synced

/-- update of one id: the other ids keep their invariant when the three maps are unchanged there -/
theorem portsInv_of_local (cfg : Cfg) (st st' : State) (id : String) (h : PortsInv cfg st)
    (hother : ∀ j, j ≠ id → st'.hub.ports j = st.hub.ports j ∧ st'.store.ports j = st.store.ports j ∧
      st'.store.vports j = st.store.vports j)
    (hid : match st'.hub.ports id with
      | none => cfg.statics id = none ∧ st'.store.vports id = none ∧ st'.store.ports id = none
      | some p => PortInv cfg st'.store id p) : PortsInv cfg st' := by
  intro j
  by_cases e : j = id
  · subst e; exact hid
  · obtain ⟨a, b, c⟩ := hother j e
    have hj := h j
    rw [a]
    cases hp : st.hub.ports j with
    | none => rw [hp] at hj; simp only at hj ⊢; rw [b, c]; exact hj
    | some p => rw [hp] at hj; simp only at hj ⊢; exact PortInv_congr cfg _ _ j p b c hj

theorem portsInv_of_eq (cfg : Cfg) (st st' : State) (hp : st'.hub.ports = st.hub.ports)
    (h1 : st'.store.ports = st.store.ports) (h2 : st'.store.vports = st.store.vports) (h : PortsInv cfg st) :
    PortsInv cfg st' := by
  intro j
  have hj := h j
  rw [hp]
  cases hq : st.hub.ports j with
  | none => rw [hq] at hj; simp only at hj ⊢; rw [h1, h2]; exact hj
  | some p =>
    rw [hq] at hj; simp only at hj ⊢
    exact PortInv_congr cfg _ _ j p (by rw [h1]) (by rw [h2]) hj

theorem upd_self {α : Type} (f : String → Option α) (n : String) (v : Option α) : upd f n v n = v := by
  simp [upd]

theorem upd_other {α : Type} (f : String → Option α) (n m : String) (v : Option α) (h : m ≠ n) :
    upd f n v m = f m := by
  simp [upd, h]

theorem nodup_vportDefaults (hist b : Bool) : (names (vportDefaults hist b)).Nodup := by
  cases hist <;> cases b <;> decide

theorem vportDefaults_stable (hist b : Bool) :
    ∀ a ∈ vportDefaults hist b, kindOf a.1 = .plain ∨ a.2 = .str "" := by
  cases hist <;> cases b <;> decide

theorem vportDef_wf (cfg : Cfg) (hist : Bool) (vd : VDef) : DefWF cfg (vportDef hist vd) := by
  refine ⟨nodup_vportDefaults hist vd.isNumber, ?_⟩
  intro n v hl
  have hm := (lookupF_eq_some_iff (nodup_vportDefaults hist vd.isNumber)).mp hl
  rcases vportDefaults_stable hist vd.isNumber (n, v) hm with h | h
  · exact stable_plain cfg n v h
  · simp only at h; subst h; exact stable_empty cfg n

/-! ### boot establishes the invariant -/

theorem orEmpty_ne (cfg : Cfg) (hne : cfg.emptyHash ≠ "") (h : Option String) :
    (match h with
      | some s => if s = "" then cfg.emptyHash else s
      | none => cfg.emptyHash) ≠ "" := by
  cases h with
  | none => exact hne
  | some s =>
    simp only
    by_cases e : s = ""
    · rw [if_pos e]; exact hne
    · rw [if_neg e]; exact e

theorem bootDevice_wf (cfg : Cfg) (hne : cfg.emptyHash ≠ "") (r : Option DeviceRec) : DevWF (bootDevice cfg r) := by
  cases r with
  | none => exact ⟨hne, hne, hne⟩
  | some d => exact ⟨orEmpty_ne cfg hne _, orEmpty_ne cfg hne _, orEmpty_ne cfg hne _⟩

theorem bootPort_inv (cfg : Cfg) (ok : CfgOK cfg) (s : Store) (id : String)
    (orphan : cfg.statics id = none → s.vports id = none → s.ports id = none) :
    match (bootPort cfg s id).map (·.1) with
    | none => cfg.statics id = none ∧ s.vports id = none ∧ s.ports id = none
    | some p => PortInv cfg s id p := by
  unfold bootPort
  cases hs : cfg.statics id with
  | some d =>
    obtain ⟨dwf, dv, dn⟩ := ok.statics id d hs
    simp only [Option.map_some]
    have e : (loadFromData cfg (fresh d) ((s.ports id).getD emptyRec)).1.pdef = d := loadFromData_pdef _ _ _
    refine ⟨loadFromData_wf cfg ok.canon _ _ (fresh_wf cfg d dwf), Or.inl ⟨by rw [e]; exact hs, by rw [e]; exact dv⟩,
      by rw [e]; exact dn, fun _ => restores_boot cfg d _ dn⟩
  | none =>
    cases hv : s.vports id with
    | some vd =>
      simp only [Option.map_some]
      have e : (loadFromData cfg (fresh (vportDef cfg.hist vd)) ((s.ports id).getD emptyRec)).1.pdef
          = vportDef cfg.hist vd := loadFromData_pdef _ _ _
      refine ⟨loadFromData_wf cfg ok.canon _ _ (fresh_wf cfg _ (vportDef_wf cfg cfg.hist vd)),
        Or.inr ⟨hs, by rw [e]; rfl, vd, hv, e⟩, by rw [e]; intro _; rfl,
        fun _ => restores_boot cfg _ _ (fun _ => rfl)⟩
    | none =>
      simp only [Option.map_none]
      refine ⟨?_, ?_, orphan hs hv⟩ <;> first | exact hs | exact hv | trivial

theorem inv_boot (cfg : Cfg) (ok : CfgOK cfg) (s : Store)
    (orphan : ∀ id, cfg.statics id = none → s.vports id = none → s.ports id = none) : Inv cfg (boot cfg s) :=
  ⟨fun id => bootPort_inv cfg ok s id (orphan id), rfl, bootDevice_wf cfg ok.emptyNe _, rfl⟩

theorem inv_init (cfg : Cfg) (ok : CfgOK cfg) : Inv cfg (init cfg) :=
  inv_boot cfg ok Store.empty (fun _ _ _ => rfl)

/-- a store reached together with a hub satisfying the invariant has no orphan port records -/
theorem no_orphans (cfg : Cfg) (st : State) (h : PortsInv cfg st) (id : String)
    (h1 : cfg.statics id = none) (h2 : st.store.vports id = none) : st.store.ports id = none := by
  have hi := h id
  cases hp : st.hub.ports id with
  | none => rw [hp] at hi; exact hi.2.2
  | some p =>
    rw [hp] at hi
    rcases hi.defOK with ⟨a, _⟩ | ⟨_, _, vd, c, _⟩
    · rw [h1] at a; cases a
    · rw [h2] at c; cases c

/-! ### every operation keeps the invariant -/

theorem restores_of_eq (cfg : Cfg) (p q : Port) (r : PortRec) (hd : q.pdef = p.pdef) (ha : q.attrs = p.attrs)
    (hv : q.value = p.value) (h : Restores cfg p r) : Restores cfg q r := by
  have he : expectedWrites cfg q = expectedWrites cfg p := by
    unfold expectedWrites
    rw [persistedOf_congr q p ha, hv]
    cases persistedOf p <;> cases p.value <;> simp only
    exact loadWrites_congr cfg q p ha hd _
  refine ⟨?_, ?_, ?_, ?_⟩
  · rw [hd]; exact h.pdef
  · rw [hd, ha]; exact h.attrs
  · rw [hd, persistedOf_congr q p ha, hv]; exact h.value
  · rw [hd, he]; exact h.writes

theorem savePort_portInv (cfg : Cfg) (s : Store) (id : String) (p : Port) (h : WF cfg p) (hd : DefOK cfg s id p)
    (hn : p.pdef.writable = true → p.pdef.initial = none)
    (hs : s.ports id = some (prepareForSave { p with pendingSave := false })) :
    PortInv cfg s id { p with pendingSave := false } := by
  refine ⟨WF_congr cfg p _ rfl rfl h, hd, hn, fun _ => ?_⟩
  rw [hs]
  exact restores_prepare cfg _ (WF_congr cfg p _ rfl rfl h)

theorem inv_step (cfg : Cfg) (ok : CfgOK cfg) (st : State) (op : Op) (h : Inv cfg st) :
    Inv cfg (step cfg st op).1 := by
  cases op with
  | addV id vd =>
    have hi := h.ports id
    simp only [step]
    cases hp : st.hub.ports id with
    | some p => exact h
    | none =>
      rw [hp] at hi
      obtain ⟨h1, h2, h3⟩ := hi
      simp only
      refine ⟨?_, h.device, h.devWF, h.slaves⟩
      apply portsInv_of_local cfg st _ id h.ports
      · intro j hj
        simp only [savePort, upd_other _ id j _ hj]
        exact ⟨trivial, trivial, trivial⟩
      · simp only [savePort, upd_self]
        have wf0 : WF cfg (loadFromData cfg (fresh (vportDef cfg.hist vd)) ((st.store.ports id).getD emptyRec)).1 :=
          loadFromData_wf cfg ok.canon _ _ (fresh_wf cfg _ (vportDef_wf cfg cfg.hist vd))
        have e0 : (loadFromData cfg (fresh (vportDef cfg.hist vd)) ((st.store.ports id).getD emptyRec)).1.pdef
            = vportDef cfg.hist vd := loadFromData_pdef _ _ _
        have e1 : (setAttr cfg (loadFromData cfg (fresh (vportDef cfg.hist vd))
            ((st.store.ports id).getD emptyRec)).1 "enabled" (.bool true)).1.pdef = vportDef cfg.hist vd := e0
        apply savePort_portInv
        · exact setAttr_wf cfg ok.canon _ _ _ wf0
        · exact Or.inr ⟨h1, by rw [e1]; rfl, vd, upd_self _ _ _, e1⟩
        · rw [e1]; intro _; rfl
        · exact upd_self _ _ _
  | patch id attrs =>
    have hi := h.ports id
    simp only [step]
    cases hp : st.hub.ports id with
    | none => exact h
    | some p =>
      rw [hp] at hi
      simp only
      by_cases hv : validPatch p attrs = true
      · simp only [hv, not_true_eq_false, if_false]
        have key : Inv cfg (savePort st id (applyFields cfg p attrs).1) := by
          refine ⟨?_, h.device, h.devWF, h.slaves⟩
          apply portsInv_of_local cfg st _ id h.ports
          · intro j hj
            simp only [savePort, upd_other _ id j _ hj]
            exact ⟨trivial, trivial, trivial⟩
          · simp only [savePort, upd_self]
            have e := (applyFields_rest cfg p attrs).1
            apply savePort_portInv
            · exact applyFields_wf cfg ok.canon p attrs hi.wf
            · rcases hi.defOK with ⟨a, b⟩ | ⟨a, b, vd, c, d⟩
              · exact Or.inl ⟨by rw [e]; exact a, by rw [e]; exact b⟩
              · exact Or.inr ⟨a, by rw [e]; exact b, vd, c, by rw [e]; exact d⟩
            · rw [e]; exact hi.noInit
            · exact upd_self _ _ _
        cases hok : (applyFields cfg p attrs).2 with
        | true => simp only [if_true]; exact key
        | false => simp only [ok.repaired, if_true]; exact key
      · simp only [hv]; exact h
  | del id =>
    have hi := h.ports id
    simp only [step]
    cases hp : st.hub.ports id with
    | none => exact h
    | some p =>
      rw [hp] at hi
      simp only
      by_cases hv : p.pdef.virtual = true
      · simp only [hv, not_true_eq_false, if_false]
        refine ⟨?_, h.device, h.devWF, h.slaves⟩
        apply portsInv_of_local cfg st _ id h.ports
        · intro j hj
          simp only [upd_other _ id j _ hj]
          exact ⟨trivial, trivial, trivial⟩
        · simp only [upd_self]
          rcases hi.defOK with ⟨_, b⟩ | ⟨a, _⟩
          · rw [hv] at b; cases b
          · exact ⟨a, trivial, trivial⟩
      · simp only [hv]; exact h
  | valueChange id v =>
    have hi := h.ports id
    simp only [step]
    cases hp : st.hub.ports id with
    | none => exact h
    | some p =>
      rw [hp] at hi
      simp only
      refine ⟨?_, h.device, h.devWF, h.slaves⟩
      apply portsInv_of_local cfg st _ id h.ports
      · intro j hj
        simp only [upd_other _ id j _ hj]
        exact ⟨trivial, trivial, trivial⟩
      · simp only [upd_self]
        refine ⟨WF_congr cfg p _ rfl rfl hi.wf, hi.defOK, hi.noInit, ?_⟩
        intro hps
        simp only [Bool.or_eq_false_iff] at hps
        have hr := hi.synced hps.1
        have hnp : persistedOf { p with value := v, pendingSave := p.pendingSave || persistedOf p } = false := hps.2
        have he : expectedWrites cfg { p with value := v, pendingSave := p.pendingSave || persistedOf p }
            = expectedWrites cfg p := by
          unfold expectedWrites
          rw [hnp, hps.2]
        refine ⟨hr.pdef, hr.attrs, ?_, ?_⟩
        · intro hper; rw [hnp] at hper; cases hper
        · rw [he]; exact hr.writes
  | saveTick =>
    simp only [step]
    refine ⟨?_, h.device, h.devWF, h.slaves⟩
    intro id
    have hi := h.ports id
    simp only
    cases hp : st.hub.ports id with
    | none => rw [hp] at hi; simpa using hi
    | some p =>
      rw [hp] at hi
      simp only [Option.map_some]
      cases hps : p.pendingSave with
      | true =>
        exact savePort_portInv cfg _ id p hi.wf hi.defOK hi.noInit (by simp only [hp, hps, if_true])
      | false =>
        have hr := hi.synced hps
        have base : PortInv cfg st.store id { p with pendingSave := false } :=
          ⟨WF_congr cfg p _ rfl rfl hi.wf, hi.defOK, hi.noInit, fun _ => restores_of_eq cfg p _ _ rfl rfl rfl hr⟩
        refine PortInv_congr cfg st.store _ id _ ?_ rfl base
        simp only [hp, hps, Bool.false_eq_true, if_false]
  | patchDev d =>
    simp only [step]
    refine ⟨portsInv_of_eq cfg st _ rfl rfl rfl h.ports, ?_, ?_, h.slaves⟩
    · obtain ⟨a, b, c⟩ := h.devWF
      have ha : ((d.adminPw.map cfg.hash).getD st.hub.device.adminHash) ≠ "" := by
        cases d.adminPw with
        | none => exact a
        | some s => exact ok.hashNe s
      have hb : ((d.normalPw.map cfg.hash).getD st.hub.device.normalHash) ≠ "" := by
        cases d.normalPw with
        | none => exact b
        | some s => exact ok.hashNe s
      have hc : ((d.viewonlyPw.map cfg.hash).getD st.hub.device.viewonlyHash) ≠ "" := by
        cases d.viewonlyPw with
        | none => exact c
        | some s => exact ok.hashNe s
      simp only [bootDevice, saveDevice, Option.getD_some, if_neg ha, if_neg hb, if_neg hc]
    · obtain ⟨a, b, c⟩ := h.devWF
      refine ⟨?_, ?_, ?_⟩
      · cases d.adminPw with
        | none => exact a
        | some s => exact ok.hashNe s
      · cases d.normalPw with
        | none => exact b
        | some s => exact ok.hashNe s
      · cases d.viewonlyPw with
        | none => exact c
        | some s => exact ok.hashNe s
  | putDev name dn =>
    simp only [step]
    have ne : ∀ x, orEmptyHash cfg x ≠ "" := by
      intro x
      unfold orEmptyHash
      split
      · exact ok.emptyNe
      · assumption
    refine ⟨portsInv_of_eq cfg st _ rfl rfl rfl h.ports, ?_, ?_, h.slaves⟩
    · simp only [bootDevice, saveDevice, resetDevice, Option.getD_some, if_neg (ne _)]
    · exact ⟨ne _, ne _, ne _⟩
  | putSlaves l =>
    simp only [step]
    exact ⟨portsInv_of_eq cfg st _ rfl rfl rfl h.ports, h.device, h.devWF, rfl⟩
  | delSlave n =>
    simp only [step]
    cases st.hub.slaves n with
    | none => exact h
    | some s => exact ⟨portsInv_of_eq cfg st _ rfl rfl rfl h.ports, h.device, h.devWF, by simp only; rw [h.slaves]⟩
  | patchSlave n poll listen =>
    simp only [step]
    cases st.hub.slaves n with
    | none => exact h
    | some s => exact ⟨portsInv_of_eq cfg st _ rfl rfl rfl h.ports, h.device, h.devWF, by simp only; rw [h.slaves]⟩
  | fwdSlave n attrs =>
    simp only [step]
    cases st.hub.slaves n with
    | none => exact h
    | some s => exact ⟨portsInv_of_eq cfg st _ rfl rfl rfl h.ports, h.device, h.devWF, by simp only; rw [h.slaves]⟩
  | restart =>
    simp only [step]
    exact inv_boot cfg ok st.store (no_orphans cfg st h.ports)

theorem inv_run (cfg : Cfg) (ok : CfgOK cfg) (st : State) (ops : List Op) (h : Inv cfg st) : Inv cfg (run cfg st ops) := by
  induction ops generalizing st with
  | nil => exact h
  | cons o r ih => exact ih _ (inv_step cfg ok st o h)

theorem run_append (cfg : Cfg) (st : State) (a b : List Op) : run cfg st (a ++ b) = run cfg (run cfg st a) b := by
  induction a generalizing st with
  | nil => rfl
  | cons o r ih => exact ih _

/-! ### consequences used by the property theorems -/

theorem bootPort_of_inv (cfg : Cfg) (s : Store) (id : String) (p : Port) (h : PortInv cfg s id p) :
    bootPort cfg s id = some (loadFromData cfg (fresh p.pdef) ((s.ports id).getD emptyRec)) := by
  unfold bootPort
  rcases h.defOK with ⟨a, _⟩ | ⟨a, _, vd, c, e⟩
  · rw [a]
  · rw [a, c, e]

theorem saveTick_clean (cfg : Cfg) (st : State) (id : String) (p : Port)
    (h : (step cfg st .saveTick).1.hub.ports id = some p) : p.pendingSave = false := by
  simp only [step] at h
  cases hq : st.hub.ports id with
  | none => rw [hq] at h; cases h
  | some q =>
    rw [hq] at h
    simp only [Option.map_some, Option.some.injEq] at h
    rw [← h]

/-- attribute `n` of a virtual port after a boot, computed from its stored record -/
theorem boot_vport_attr (cfg : Cfg) (s : Store) (id : String) (vd : VDef) (r : PortRec)
    (hs : cfg.statics id = none) (hv : s.vports id = some vd) (hr : s.ports id = some r)
    (nd : (names r.fields).Nodup) (n : String) :
    ((boot cfg s).hub.ports id).bind (fun p => p.attrs n) =
      match lookupF n r.fields with
      | some v => (setVal cfg (lookupF n (vportDefaults cfg.hist vd.isNumber)) n v).1
      | none => lookupF n (vportDefaults cfg.hist vd.isNumber) := by
  simp only [boot, bootPort, hs, hv, hr, Option.getD_some, Option.map_some, Option.bind_some]
  rw [loadFromData_attrs, applyFields_attrs, foldAttr_loadOrder cfg n _ _ nd]
  rfl

/-! ### the first read after a load -/

theorem readXform_congr (cfg : Cfg) (p q : Port) (h : p.attrs = q.attrs) (v : Option PVal) :
    readXform cfg p v = readXform cfg q v := by
  simp only [readXform, h]

/-- `firstRead` looks at the driver definition, the attributes and the value only -/
theorem firstRead_congr (cfg : Cfg) (p q : Port) (hd : p.pdef = q.pdef) (ha : p.attrs = q.attrs)
    (hv : p.value = q.value) : firstRead cfg p = firstRead cfg q := by
  unfold firstRead
  rw [hv]
  cases q.value with
  | none => rfl
  | some v =>
    simp only [persistedOf_congr p q ha, show enabledOf p = enabledOf q by simp only [enabledOf, boolAttr, ha], hd,
      loadWrites_congr cfg p q ha hd v]
    split
    · split <;> simp_all [readXform_congr cfg p q ha]
    · rfl

/-- the read transform of `p` undoes its write transform on `v` -/
def InverseOn (cfg : Cfg) (p : Port) (v : PVal) : Prop :=
  ∀ w, writeXform cfg p v = some w → readXform cfg p (some w) = some v

theorem firstRead_of_inverse (cfg : Cfg) (p : Port) (v : PVal) (hv : p.value = some v) (hi : InverseOn cfg p v) :
    firstRead cfg p = some v := by
  unfold firstRead
  rw [hv]
  simp only
  split
  · split
    · rename_i w heq
      unfold loadWrites at heq
      split at heq
      · split at heq
        · cases heq
        · simp only [List.cons.injEq, and_true] at heq
          exact hi w heq
      · cases heq
    · rfl
  · rfl

end QtVerif.Config
