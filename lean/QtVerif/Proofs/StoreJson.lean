import QtVerif.Proofs.StoreSort
import QtVerif.Proofs.StoreCodec
/-!
Helper lemmas for C06, part 3: the JSON driver model (`Json.step`) is a forward simulation of the reference
store (`Ref.step`), for every operation and every sequence of operations.
-/
namespace QtVerif.Store

/-! ### dict and table lemmas -/

theorem dget_dset_self {β : Type} (k : Str) (v : β) (d : List (Str × β)) : dget k (dset k v d) = some v := by
  induction d with
  | nil => simp [dset, dget]
  | cons a t ih =>
    obtain ⟨k', v'⟩ := a
    by_cases h : k' = k
    · simp [dset, dget, h]
    · simp [dset, dget, h, ih]

theorem dget_dset_ne {β : Type} (k k' : Str) (v : β) (d : List (Str × β)) (h : k ≠ k') :
    dget k (dset k' v d) = dget k d := by
  have hn : ¬ k' = k := fun e => h e.symm
  induction d with
  | nil => simp [dset, dget, hn]
  | cons a t ih =>
    obtain ⟨k'', v''⟩ := a
    by_cases h1 : k'' = k'
    · subst h1
      simp [dset, dget, hn]
    · by_cases h2 : k'' = k
      · subst h2; simp [dset, dget, h1]
      · simp [dset, dget, h1, h2, ih]

theorem dset_same {β : Type} (k : Str) (v : β) (d : List (Str × β)) (h : dget k d = some v) : dset k v d = d := by
  induction d with
  | nil => simp [dget] at h
  | cons a t ih =>
    obtain ⟨k', v'⟩ := a
    by_cases h1 : k' = k
    · subst h1; simp [dget] at h; simp [dset, h]
    · simp [dget, h1] at h; simp [dset, h1, ih h]

theorem dget_none_iff {β : Type} (k : Str) (d : List (Str × β)) : dget k d = none ↔ k ∉ dkeys d := by
  induction d with
  | nil => simp [dget, dkeys]
  | cons a t ih =>
    obtain ⟨k', v'⟩ := a
    by_cases h1 : k' = k
    · simp [dget, dkeys, h1]
    · simp only [dget, h1, if_false, ih, dkeys, List.map_cons, List.mem_cons, not_or]
      constructor
      · intro h; exact ⟨fun e => h1 e.symm, h⟩
      · intro h; exact h.2

theorem dget_isSome_iff {β : Type} (k : Str) (d : List (Str × β)) : (dget k d).isSome = true ↔ k ∈ dkeys d := by
  have := dget_none_iff k d
  cases h : dget k d with
  | none => simp [this.mp h]
  | some v =>
    simp only [Option.isSome_some, true_iff]
    apply Classical.byContradiction
    intro hn
    rw [this.mpr hn] at h; cases h

theorem dget_mem {β : Type} (k : Str) (v : β) (d : List (Str × β)) (h : dget k d = some v) : (k, v) ∈ d := by
  induction d with
  | nil => simp [dget] at h
  | cons a t ih =>
    obtain ⟨k', v'⟩ := a
    by_cases h1 : k' = k
    · subst h1; simp [dget] at h; simp [h]
    · simp [dget, h1] at h; simp [ih h]

theorem dget_of_mem_nodup {β : Type} (k : Str) (v : β) (d : List (Str × β)) (nd : (dkeys d).Nodup) (h : (k, v) ∈ d) :
    dget k d = some v := by
  induction d with
  | nil => cases h
  | cons a t ih =>
    obtain ⟨k', v'⟩ := a
    simp only [dkeys, List.map_cons, List.nodup_cons] at nd
    rcases List.mem_cons.mp h with e | e
    · injection e with e1 e2; subst e1; subst e2; simp [dget]
    · have : k' ≠ k := by
        intro e1; subst e1
        exact nd.1 (List.mem_map_of_mem (f := Prod.fst) e)
      simp [dget, this, ih nd.2 e]

theorem dget_dupdate_of_none {β : Type} (k : Str) (d part : List (Str × β)) (h : dget k part = none) :
    dget k (dupdate d part) = dget k d := by
  induction part generalizing d with
  | nil => rfl
  | cons a t ih =>
    obtain ⟨k', v'⟩ := a
    have hne : k' ≠ k := by
      intro e; subst e; simp [dget] at h
    have ht : dget k t = none := by simpa [dget, hne] using h
    show dget k (dupdate (dset k' v' d) t) = dget k d
    rw [ih _ ht, dget_dset_ne k k' v' d (fun e => hne e.symm)]

theorem aget_aset {β : Type} (dflt : β) (k k' : Str) (v : β) (s : List (Str × β)) :
    aget dflt k (aset k' v s) = if k = k' then v else aget dflt k s := by
  induction s with
  | nil =>
    by_cases h : k = k'
    · subst h; simp [aset, aget]
    · have hn : ¬ k' = k := fun e => h e.symm
      simp [aset, aget, h, hn]
  | cons a t ih =>
    obtain ⟨k'', v''⟩ := a
    by_cases h1 : k'' = k'
    · subst h1
      by_cases h2 : k = k''
      · subst h2; simp [aset, aget]
      · have hn : ¬ k'' = k := fun e => h2 e.symm
        simp [aset, aget, h2, hn]
    · by_cases h2 : k'' = k
      · subst h2; simp [aset, aget, h1]
      · simp [aset, aget, h1, h2, ih]



/-! ### the JSON driver refines the reference store -/

/-- invariant of a JSON-driver collection: distinct keys, every record holds its own id -/
def JCollOK (c : JColl) : Prop := (dkeys c).Nodup ∧ ∀ p ∈ c, dget kId p.2 = some (.str p.1)

/-- the reference-store collection a JSON-driver collection stands for -/
def absColl (c : JColl) : Coll := c.map Prod.snd

def RelJ (js : JState) (rs : RefState) : Prop :=
  ∀ coll, JCollOK (aget [] coll js) ∧ absColl (aget [] coll js) = aget [] coll rs

theorem recId_of (d : Fields) (i : Str) (h : dget kId d = some (.str i)) : recId d = i := by
  simp [recId, h]

theorem absColl_ids (c : JColl) (h : JCollOK c) : (absColl c).ids = dkeys c := by
  unfold absColl Coll.ids dkeys
  rw [List.map_map]
  apply List.map_congr_left
  intro p hp
  exact recId_of _ _ (h.2 p hp)

theorem foldMax_ge (c : JColl) (a : Int) :
    a ≤ c.foldl (fun acc kv => match parseInt kv.1 with | some i => max acc i | none => acc) a ∧
    ∀ k ∈ dkeys c, ∀ i, parseInt k = some i →
      i ≤ c.foldl (fun acc kv => match parseInt kv.1 with | some i => max acc i | none => acc) a := by
  induction c generalizing a with
  | nil => exact ⟨Int.le_refl _, fun k hk => by simp [dkeys] at hk⟩
  | cons p t ih =>
    obtain ⟨k0, d0⟩ := p
    simp only [List.foldl_cons]
    constructor
    · cases h : parseInt k0 with
      | none => exact (ih a).1
      | some i => exact Int.le_trans (Int.le_max_left a i) (ih _).1
    · intro k hk i hi
      simp only [dkeys, List.map_cons, List.mem_cons] at hk
      rcases hk with e | e
      · subst e
        rw [hi]
        exact Int.le_trans (Int.le_max_right a i) (ih _).1
      · exact (ih _).2 k e i hi

theorem findNextId_fresh (c : JColl) : Json.findNextId c ∉ dkeys c := by
  intro hmem
  unfold Json.findNextId at hmem
  have h := foldMax_ge c 0
  generalize c.foldl (fun acc kv => match parseInt kv.1 with | some i => max acc i | none => acc) (0 : Int) = m at h hmem
  have hm : (0 : Int) ≤ m := h.1
  have := h.2 _ hmem _ (parseInt_toDec (m + 1).toNat)
  omega



theorem contains_iff {l : List Str} {a : Str} : l.contains a = true ↔ a ∈ l := List.contains_iff_mem

theorem contains_false_iff {l : List Str} {a : Str} : l.contains a = false ↔ a ∉ l := by
  rw [← contains_iff]; cases l.contains a <;> simp

theorem RelJ.aset {js : JState} {rs : RefState} (h : RelJ js rs) (coll : Str) (c' : JColl) (rc' : Coll)
    (h1 : JCollOK c') (h2 : absColl c' = rc') : RelJ (aset coll c' js) (aset coll rc' rs) := by
  intro k
  rw [aget_aset, aget_aset]
  by_cases e : k = coll
  · simp [e, h1, h2]
  · simp [e, h k]

theorem RelJ.aset_left {js : JState} {rs : RefState} (h : RelJ js rs) (coll : Str) :
    RelJ (Store.aset coll (aget [] coll js) js) rs := by
  intro k
  rw [aget_aset]
  by_cases e : k = coll
  · subst e; simp [h k]
  · simp [e, h k]

theorem JCollOK.append {c : JColl} (h : JCollOK c) (i : Str) (d : Fields) (hi : i ∉ dkeys c)
    (hd : dget kId d = some (.str i)) : JCollOK (c ++ [(i, d)]) := by
  constructor
  · simp only [dkeys, List.map_append, List.map_cons, List.map_nil]
    rw [List.nodup_append]
    refine ⟨h.1, by simp, ?_⟩
    intro a ha b hb
    simp only [List.mem_singleton] at hb
    subst hb
    intro e; subst e; exact hi ha
  · intro p hp
    rcases List.mem_append.mp hp with e | e
    · exact h.2 p e
    · simp only [List.mem_singleton] at e; subst e; exact hd

/-- insert, strong form: the reference store run with the driver's generated name never answers `notFresh`, the
driver gives the SAME answer in every case — the id, or the in-contract errors `Err.dup` (explicit id in use) and
`Err.badId` ("id" neither absent / None nor a string) — and the states stay related (unchanged on an error). -/
theorem json_insert_refines_strong (fx : Fix) (ft : FloatText) (js : JState) (rs : RefState) (hrel : RelJ js rs)
    (coll : Str) (rec : Fields) :
    let jr := Json.step fx ft js (.insert coll rec)
    let name := match jr.2 with | .id n => n | _ => []
    let rr := Ref.step rs name (.insert coll rec)
    rr.2 ≠ .err .notFresh ∧ jr.2 = rr.2 ∧ RelJ jr.1 rr.1 := by
  have hc := hrel coll
  have hids := absColl_ids _ hc.1
  have auto : ∀ i, i = Json.findNextId (aget [] coll js) →
      ((aget [] coll rs : Coll).ids.contains i = false) ∧
      RelJ (aset coll (dset i (dset kId (.str i) rec) (aget [] coll js)) js)
        (aset coll ((aget [] coll rs : Coll) ++ [dset kId (.str i) rec]) rs) := by
    intro i hi
    subst hi
    have hf := findNextId_fresh (aget [] coll js)
    rw [← hc.2]
    refine ⟨by rw [contains_false_iff, hids]; exact hf, ?_⟩
    rw [dset_of_not_mem _ _ _ hf]
    exact hrel.aset coll _ _ (hc.1.append _ _ hf (dget_dset_self _ _ _)) (by simp [absColl])
  cases hid : dget kId rec with
  | none =>
    obtain ⟨h1, h2⟩ := auto _ rfl
    simp only [Json.step, Ref.step, hid, h1]
    exact ⟨by simp, by simp, h2⟩
  | some v =>
    cases v with
    | null =>
      obtain ⟨h1, h2⟩ := auto _ rfl
      simp only [Json.step, Ref.step, hid, h1]
      exact ⟨by simp, by simp, h2⟩
    | str i =>
      by_cases hm : i ∈ dkeys (aget [] coll js)
      · have h1 : (dget i (aget [] coll js)).isSome = true := (dget_isSome_iff _ _).mpr hm
        have h2 : (aget [] coll rs : Coll).ids.contains i = true := by rw [← hc.2, contains_iff, hids]; exact hm
        simp only [Json.step, Ref.step, hid, h1, h2, if_true]
        exact ⟨by simp, trivial, hrel⟩
      · have h1 : (dget i (aget [] coll js)).isSome = false := by
          rw [(dget_none_iff _ _).mpr hm]; rfl
        have h2 : (aget [] coll rs : Coll).ids.contains i = false := by rw [← hc.2, contains_false_iff, hids]; exact hm
        simp only [Json.step, Ref.step, hid, h1, h2, Bool.false_eq_true, if_false]
        refine ⟨by simp, by simp, ?_⟩
        rw [dset_of_not_mem _ _ _ hm, ← hc.2]
        exact hrel.aset coll _ _ (hc.1.append _ _ hm hid) (by simp [absColl])
    | bool b => simp only [Json.step, Ref.step, hid]; exact ⟨by simp, trivial, hrel⟩
    | int b => simp only [Json.step, Ref.step, hid]; exact ⟨by simp, trivial, hrel⟩
    | num b => simp only [Json.step, Ref.step, hid]; exact ⟨by simp, trivial, hrel⟩
    | date a b => simp only [Json.step, Ref.step, hid]; exact ⟨by simp, trivial, hrel⟩
    | arr b => simp only [Json.step, Ref.step, hid]; exact ⟨by simp, trivial, hrel⟩
    | obj b => simp only [Json.step, Ref.step, hid]; exact ⟨by simp, trivial, hrel⟩

theorem json_insert_refines (fx : Fix) (ft : FloatText) (js : JState) (rs : RefState) (hrel : RelJ js rs)
    (coll : Str) (rec : Fields) :
    let jr := Json.step fx ft js (.insert coll rec)
    let name := match jr.2 with | .id n => n | _ => []
    let rr := Ref.step rs name (.insert coll rec)
    rr.2 ≠ .err .notFresh ∧ ((∃ e, rr.2 = .err e) ∨ (jr.2 = rr.2 ∧ RelJ jr.1 rr.1)) :=
  have h := json_insert_refines_strong fx ft js rs hrel coll rec
  ⟨h.1, Or.inr h.2⟩



theorem dkeys_dset_of_mem {β : Type} (k : Str) (v : β) (d : List (Str × β)) (h : k ∈ dkeys d) :
    dkeys (dset k v d) = dkeys d := by
  induction d with
  | nil => simp [dkeys] at h
  | cons a t ih =>
    obtain ⟨k', v'⟩ := a
    by_cases h1 : k' = k
    · subst h1; simp [dset, dkeys]
    · have : k ∈ dkeys t := by
        simp only [dkeys, List.map_cons, List.mem_cons] at h
        rcases h with e | e
        · exact absurd e.symm h1
        · exact e
      simp only [dset, h1, if_false, dkeys, List.map_cons]
      have := ih this
      simp only [dkeys] at this
      rw [this]

theorem mem_dset {β : Type} (k : Str) (v : β) (d : List (Str × β)) (p : Str × β) (h : p ∈ dset k v d) :
    p = (k, v) ∨ p ∈ d := by
  induction d with
  | nil => simp [dset] at h; exact Or.inl h
  | cons a t ih =>
    obtain ⟨k', v'⟩ := a
    by_cases h1 : k' = k
    · subst h1
      simp only [dset, if_true, List.mem_cons] at h
      rcases h with e | e
      · exact Or.inl e
      · exact Or.inr (by simp [e])
    · simp only [dset, h1, if_false, List.mem_cons] at h
      rcases h with e | e
      · exact Or.inr (by simp [e])
      · rcases ih e with e' | e'
        · exact Or.inl e'
        · exact Or.inr (by simp [e'])

/-- overwriting the record stored under a key that exists -/
theorem JCollOK.dset_mem {c : JColl} (h : JCollOK c) (i : Str) (new : Fields) (hi : i ∈ dkeys c)
    (hn : dget kId new = some (.str i)) :
    JCollOK (dset i new c) ∧ absColl (dset i new c) = Ref.replaceRec i new (absColl c) := by
  refine ⟨⟨by rw [dkeys_dset_of_mem i new c hi]; exact h.1, ?_⟩, ?_⟩
  · intro p hp
    rcases mem_dset i new c p hp with e | e
    · subst e; exact hn
    · exact h.2 p e
  · induction c with
    | nil => simp [dkeys] at hi
    | cons a t ih =>
      obtain ⟨k', d'⟩ := a
      have hk : recId d' = k' := recId_of _ _ (h.2 (k', d') (by simp))
      have ht : JCollOK t := ⟨by have := h.1; simp only [dkeys, List.map_cons, List.nodup_cons] at this; exact this.2,
        fun p hp => h.2 p (by simp [hp])⟩
      by_cases h1 : k' = i
      · subst h1
        simp [dset, absColl, Ref.replaceRec, hk]
      · have hit : i ∈ dkeys t := by
          simp only [dkeys, List.map_cons, List.mem_cons] at hi
          rcases hi with e | e
          · exact absurd e.symm h1
          · exact e
        simp only [dset, h1, if_false, absColl, List.map_cons, Ref.replaceRec, hk]
        have := ih ht hit
        simp only [absColl] at this
        rw [this]

theorem json_replace_refines (fx : Fix) (ft : FloatText) (js : JState) (rs : RefState) (hrel : RelJ js rs)
    (coll id : Str) (rec : Fields) :
    let jr := Json.step fx ft js (.replace coll id rec)
    let rr := Ref.step rs [] (.replace coll id rec)
    jr.2 = rr.2 ∧ RelJ jr.1 rr.1 := by
  have hc := hrel coll
  have hids := absColl_ids _ hc.1
  by_cases hm : id ∈ dkeys (aget [] coll js)
  · obtain ⟨d, hd⟩ : ∃ d, dget id (aget [] coll js) = some d := by
      have := (dget_isSome_iff id (aget [] coll js)).mpr hm
      cases h : dget id (aget [] coll js) with
      | none => rw [h] at this; cases this
      | some d => exact ⟨d, rfl⟩
    have h2 : (aget [] coll rs : Coll).ids.contains id = true := by rw [← hc.2, contains_iff, hids]; exact hm
    obtain ⟨k1, k2⟩ := hc.1.dset_mem id (dset kId (.str id) rec) hm (dget_dset_self _ _ _)
    simp only [Json.step, Ref.step, hd, h2, if_true]
    refine ⟨trivial, ?_⟩
    rw [← hc.2]
    exact hrel.aset coll _ _ k1 k2
  · have h1 : dget id (aget [] coll js) = none := (dget_none_iff _ _).mpr hm
    have h2 : (aget [] coll rs : Coll).ids.contains id = false := by rw [← hc.2, contains_false_iff, hids]; exact hm
    simp only [Json.step, Ref.step, h1, h2, Bool.false_eq_true, if_false]
    exact ⟨trivial, hrel.aset_left coll⟩



/-! #### filters and the id fast path -/

theorem jeq_str_self (i : Str) : jeq (.str i) (.str i) = true := by
  simp [jeq]

theorem jeq_str_ne (i j : Str) (h : j ≠ i) : jeq (.str j) (.str i) = false := by
  simp [jeq, h]

theorem idOf_eq_some {filt : Fields} {i : Str} : Json.idOf filt = some i ↔ dget kId filt = some (.str i) := by
  unfold Json.idOf
  cases h : dget kId filt with
  | none => simp
  | some v => cases v <;> simp

/-- with the record's own id as the "id" condition, that condition can be dropped (the fast path) -/
theorem recMatches_pop_id (d filt : Fields) (i : Str) (hd : dget kId d = some (.str i))
    (hf : dget kId filt = some (.str i)) : recMatches d (dpop kId filt) = recMatches d filt := by
  induction filt with
  | nil => simp [dget] at hf
  | cons a t ih =>
    obtain ⟨k, c⟩ := a
    by_cases h1 : k = kId
    · subst h1
      simp only [dget, if_true, Option.some.injEq] at hf
      subst hf
      simp [dpop, recMatches, hd, condMatches, jeq_str_self]
    · simp only [dget, h1, if_false] at hf
      simp only [dpop, h1, if_false, recMatches]
      cases dget k d with
      | none => rfl
      | some v =>
        simp only
        cases condMatches v c with
        | none => rfl
        | some b => cases b <;> simp [ih hf]

/-- a record with another id does not match a filter that names an id -/
theorem recMatches_other_id (d filt : Fields) (i j : Str) (hd : dget kId d = some (.str j)) (hne : j ≠ i)
    (hf : dget kId filt = some (.str i)) (b : Bool) (hm : recMatches d filt = some b) : b = false := by
  induction filt with
  | nil => simp [dget] at hf
  | cons a t ih =>
    obtain ⟨k, c⟩ := a
    by_cases h1 : k = kId
    · subst h1
      simp only [dget, if_true, Option.some.injEq] at hf
      subst hf
      simp [recMatches, hd, condMatches, jeq_str_ne i j hne] at hm
      exact hm
    · simp only [dget, h1, if_false] at hf
      simp only [recMatches] at hm
      cases hk : dget k d with
      | none => rw [hk] at hm; simp at hm; exact hm
      | some v =>
        rw [hk] at hm
        simp only at hm
        cases hc : condMatches v c with
        | none => rw [hc] at hm; simp at hm
        | some b' =>
          rw [hc] at hm
          cases b' with
          | false => simp at hm; exact hm
          | true => exact ih hf hm

theorem matchAll_cons {filt d : Fields} {t : List Fields} {bs : List Bool} (h : matchAll filt (d :: t) = some bs) :
    ∃ b bs', bs = b :: bs' ∧ recMatches d filt = some b ∧ matchAll filt t = some bs' := by
  simp only [matchAll] at h
  cases h1 : recMatches d filt with
  | none => rw [h1] at h; simp at h
  | some b =>
    cases h2 : matchAll filt t with
    | none => rw [h1, h2] at h; simp at h
    | some bs' =>
      rw [h1, h2] at h
      simp only [Option.some.injEq] at h
      exact ⟨b, bs', h.symm, rfl, rfl⟩

theorem JCollOK.tail {a : Str × Fields} {t : JColl} (h : JCollOK (a :: t)) : JCollOK t :=
  ⟨by have := h.1; simp only [dkeys, List.map_cons, List.nodup_cons] at this; exact this.2,
   fun p hp => h.2 p (by simp [hp])⟩

theorem JCollOK.head_not_mem {k : Str} {d : Fields} {t : JColl} (h : JCollOK ((k, d) :: t)) : k ∉ dkeys t := by
  have := h.1; simp only [dkeys, List.map_cons, List.nodup_cons] at this; exact this.1

/-- update addressed by id -/
theorem upd_by_id (part filt : Fields) (i : Str) (hf : dget kId filt = some (.str i)) :
    ∀ (c : JColl) (bs : List Bool), JCollOK c → matchAll filt (absColl c) = some bs →
    match dget i c with
    | none => countTrue bs = 0 ∧ Ref.updRecs part (absColl c) bs = absColl c
    | some d => ∃ b, recMatches d (dpop kId filt) = some b ∧ countTrue bs = (if b then 1 else 0) ∧
        Ref.updRecs part (absColl c) bs = absColl (if b then dset i (dupdate d part) c else c) := by
  intro c
  induction c with
  | nil =>
    intro bs _ hm
    simp only [absColl, List.map_nil, matchAll, Option.some.injEq] at hm
    subst hm
    simp [dget, countTrue, Ref.updRecs, absColl]
  | cons a t ih =>
    obtain ⟨k, d0⟩ := a
    intro bs hok hm
    obtain ⟨b0, bs', rfl, hb0, hm'⟩ := matchAll_cons (by simpa [absColl] using hm)
    have hd0 : dget kId d0 = some (.str k) := hok.2 (k, d0) (by simp)
    have iht := ih bs' hok.tail (by simpa [absColl] using hm')
    by_cases hk : k = i
    · subst hk
      have hnt : dget k t = none := (dget_none_iff _ _).mpr hok.head_not_mem
      rw [hnt] at iht
      simp only [dget, if_true]
      refine ⟨b0, by rw [recMatches_pop_id d0 filt k hd0 hf]; exact hb0, ?_, ?_⟩
      · simp only [countTrue, iht.1]; cases b0 <;> rfl
      · cases b0
        · simp only [Bool.false_eq_true, if_false, absColl, List.map_cons, Ref.updRecs]
          have := iht.2; simp only [absColl] at this; rw [this]
        · simp only [if_true, dset, absColl, List.map_cons, Ref.updRecs]
          have := iht.2; simp only [absColl] at this; rw [this]
    · have hb0f : b0 = false := recMatches_other_id d0 filt i k hd0 hk hf b0 hb0
      subst hb0f
      simp only [dget, hk, if_false]
      cases hdi : dget i t with
      | none =>
        rw [hdi] at iht
        simp only [countTrue, iht.1, absColl, List.map_cons, Ref.updRecs, Bool.false_eq_true, if_false]
        have := iht.2; simp only [absColl] at this; rw [this]; simp
      | some d =>
        rw [hdi] at iht
        obtain ⟨b, h1, h2, h3⟩ := iht
        refine ⟨b, h1, by simp [countTrue, h2], ?_⟩
        simp only [absColl, List.map_cons, Ref.updRecs, Bool.false_eq_true, if_false]
        simp only [absColl] at h3
        rw [h3]
        cases b <;> simp [dset, hk]



theorem recMatches_view (k : Str) (d filt : Fields) (hd : dget kId d = some (.str k)) :
    recMatches (dset kId (.str k) d) filt = recMatches d filt := by
  rw [dset_same kId (.str k) d hd]

/-- generic path of update -/
theorem updLoop_spec (part filt : Fields) (hp : dget kId part = none) :
    ∀ (c : JColl) (bs : List Bool), JCollOK c → matchAll filt (absColl c) = some bs →
    ∃ c', Json.updLoop part filt c = (c', countTrue bs, false) ∧ dkeys c' = dkeys c ∧
      (∀ p ∈ c', dget kId p.2 = some (.str p.1)) ∧ absColl c' = Ref.updRecs part (absColl c) bs := by
  intro c
  induction c with
  | nil =>
    intro bs _ hm
    simp only [absColl, List.map_nil, matchAll, Option.some.injEq] at hm
    subst hm
    exact ⟨[], rfl, rfl, by simp, rfl⟩
  | cons a t ih =>
    obtain ⟨k, d0⟩ := a
    intro bs hok hm
    obtain ⟨b0, bs', rfl, hb0, hm'⟩ := matchAll_cons (by simpa [absColl] using hm)
    have hd0 : dget kId d0 = some (.str k) := hok.2 (k, d0) (by simp)
    obtain ⟨t', h1, h2, h3, h4⟩ := ih bs' hok.tail (by simpa [absColl] using hm')
    cases b0 with
    | false =>
      refine ⟨(k, d0) :: t', ?_, by simp [dkeys] at h2 ⊢; exact h2, ?_, ?_⟩
      · simp [Json.updLoop, recMatches_view k d0 filt hd0, hb0, h1, countTrue]
      · intro p hp'
        rcases List.mem_cons.mp hp' with e | e
        · subst e; exact hd0
        · exact h3 p e
      · simp only [absColl, List.map_cons, Ref.updRecs, Bool.false_eq_true, if_false]
        simp only [absColl] at h4; rw [h4]
    | true =>
      refine ⟨(k, dupdate d0 part) :: t', ?_, by simp [dkeys] at h2 ⊢; exact h2, ?_, ?_⟩
      · simp [Json.updLoop, recMatches_view k d0 filt hd0, hb0, h1, countTrue]; omega
      · intro p hp'
        rcases List.mem_cons.mp hp' with e | e
        · subst e; simp only; rw [dget_dupdate_of_none kId d0 part hp]; exact hd0
        · exact h3 p e
      · simp only [absColl, List.map_cons, Ref.updRecs, if_true]
        simp only [absColl] at h4; rw [h4]

theorem json_update_refines (fx : Fix) (hfx : fx.jsonUpdFilt = true) (ft : FloatText) (js : JState) (rs : RefState)
    (hrel : RelJ js rs) (coll : Str) (part filt : Fields) :
    let jr := Json.step fx ft js (.update coll part filt)
    let rr := Ref.step rs [] (.update coll part filt)
    (∃ e, rr.2 = .err e) ∨ (jr.2 = rr.2 ∧ RelJ jr.1 rr.1) := by
  have hc := hrel coll
  by_cases hp : (dget kId part).isSome = true
  · left; simp [Ref.step, hp]
  have hp' : dget kId part = none := by
    cases h : dget kId part with
    | none => rfl
    | some v => rw [h] at hp; simp at hp
  by_cases hfo' : ¬ filtOk filt = true
  · left; simp [Ref.step, hp', hfo']
  have hfo : filtOk filt = true := by simpa using hfo'
  cases hmR : matchAll filt (aget [] coll rs : Coll) with
  | none => left; simp [Ref.step, hp', hfo, hmR]
  | some bs =>
    right
    have hm : matchAll filt (absColl (aget [] coll js)) = some bs := by rw [hc.2]; exact hmR
    cases hid : Json.idOf filt with
    | some i =>
      have hf := idOf_eq_some.mp hid
      have key := upd_by_id part filt i hf (aget [] coll js) bs hc.1 hm
      cases hd : dget i (aget [] coll js) with
      | none =>
        rw [hd] at key
        simp only [Json.step, Ref.step, hid, hd, hp', hfo, hmR, Option.isSome_none, Bool.false_eq_true, if_false,
          Bool.not_true]
        rw [← hc.2, key.1, key.2]
        exact ⟨rfl, hrel.aset coll _ _ hc.1 rfl⟩
      | some d =>
        rw [hd] at key
        obtain ⟨b, k1, k2, k3⟩ := key
        have hmem : i ∈ dkeys (aget [] coll js) := (dget_isSome_iff _ _).mp (by rw [hd]; rfl)
        have hdi : dget kId d = some (.str i) := hc.1.2 (i, d) (dget_mem i d _ hd)
        cases b with
        | false =>
          simp only [Json.step, Ref.step, hid, hd, hp', hfo, hmR, hfx, k1, Option.isSome_none, Bool.false_eq_true,
            if_false, if_true, Bool.not_true]
          rw [← hc.2, k2, k3]
          exact ⟨rfl, hrel.aset coll _ _ hc.1 rfl⟩
        | true =>
          simp only [Json.step, Ref.step, hid, hd, hp', hfo, hmR, hfx, k1, Option.isSome_none, Bool.false_eq_true,
            if_false, if_true, Bool.not_true]
          rw [← hc.2, k2, k3]
          refine ⟨rfl, hrel.aset coll _ _ ?_ rfl⟩
          exact (hc.1.dset_mem i _ hmem (by rw [dget_dupdate_of_none kId d part hp']; exact hdi)).1
    | none =>
      obtain ⟨c', h1, h2, h3, h4⟩ := updLoop_spec part filt hp' (aget [] coll js) bs hc.1 hm
      simp only [Json.step, Ref.step, hid, h1, hp', hfo, hmR, Option.isSome_none, Bool.false_eq_true, if_false,
        Bool.not_true]
      rw [← hc.2]
      exact ⟨trivial, hrel.aset coll _ _ ⟨by rw [h2]; exact hc.1.1, h3⟩ h4⟩



theorem dpop_mem {β : Type} (k : Str) (d : List (Str × β)) (p : Str × β) (h : p ∈ dpop k d) : p ∈ d := by
  induction d with
  | nil => simp [dpop] at h
  | cons a t ih =>
    obtain ⟨k', v'⟩ := a
    by_cases h1 : k' = k
    · simp only [dpop, h1, if_true] at h; simp [h]
    · simp only [dpop, h1, if_false, List.mem_cons] at h
      rcases h with e | e
      · simp [e]
      · simp [ih e]

theorem dkeys_dpop_sublist {β : Type} (k : Str) (d : List (Str × β)) : (dkeys (dpop k d)).Sublist (dkeys d) := by
  induction d with
  | nil => simp [dpop, dkeys]
  | cons a t ih =>
    obtain ⟨k', v'⟩ := a
    by_cases h1 : k' = k
    · simp only [dpop, h1, if_true, dkeys, List.map_cons]; exact List.sublist_cons_self _ _
    · simp only [dpop, h1, if_false, dkeys, List.map_cons]
      exact List.Sublist.cons_cons _ ih

theorem JCollOK.dpop {c : JColl} (h : JCollOK c) (i : Str) : JCollOK (Store.dpop i c) :=
  ⟨h.1.sublist (dkeys_dpop_sublist i c), fun p hp => h.2 p (dpop_mem i c p hp)⟩

/-- remove addressed by id -/
theorem rem_by_id (filt : Fields) (i : Str) (hf : dget kId filt = some (.str i)) :
    ∀ (c : JColl) (bs : List Bool), JCollOK c → matchAll filt (absColl c) = some bs →
    match dget i c with
    | none => countTrue bs = 0 ∧ selectBy (absColl c) (bs.map not) = absColl c
    | some d => ∃ b, recMatches d (dpop kId filt) = some b ∧ countTrue bs = (if b then 1 else 0) ∧
        selectBy (absColl c) (bs.map not) = absColl (if b then dpop i c else c) := by
  intro c
  induction c with
  | nil =>
    intro bs _ hm
    simp only [absColl, List.map_nil, matchAll, Option.some.injEq] at hm
    subst hm
    simp [dget, countTrue, selectBy, absColl]
  | cons a t ih =>
    obtain ⟨k, d0⟩ := a
    intro bs hok hm
    obtain ⟨b0, bs', rfl, hb0, hm'⟩ := matchAll_cons (by simpa [absColl] using hm)
    have hd0 : dget kId d0 = some (.str k) := hok.2 (k, d0) (by simp)
    have iht := ih bs' hok.tail (by simpa [absColl] using hm')
    by_cases hk : k = i
    · subst hk
      have hnt : dget k t = none := (dget_none_iff _ _).mpr hok.head_not_mem
      rw [hnt] at iht
      simp only [dget, if_true]
      refine ⟨b0, by rw [recMatches_pop_id d0 filt k hd0 hf]; exact hb0, ?_, ?_⟩
      · simp only [countTrue, iht.1]; cases b0 <;> rfl
      · cases b0
        · simp only [Bool.false_eq_true, if_false, absColl, List.map_cons, selectBy, Bool.not_false, if_true]
          have := iht.2; simp only [absColl] at this; rw [this]
        · simp only [if_true, Store.dpop, absColl, List.map_cons, selectBy, Bool.not_true, Bool.false_eq_true, if_false]
          have := iht.2; simp only [absColl] at this; rw [this]
    · have hb0f : b0 = false := recMatches_other_id d0 filt i k hd0 hk hf b0 hb0
      subst hb0f
      simp only [dget, hk, if_false]
      cases hdi : dget i t with
      | none =>
        rw [hdi] at iht
        simp only [countTrue, iht.1, absColl, List.map_cons, selectBy, Bool.not_false, if_true]
        have := iht.2; simp only [absColl] at this; rw [this]; simp
      | some d =>
        rw [hdi] at iht
        obtain ⟨b, h1, h2, h3⟩ := iht
        refine ⟨b, h1, by simp [countTrue, h2], ?_⟩
        simp only [absColl, List.map_cons, selectBy, Bool.not_false, if_true]
        simp only [absColl] at h3
        rw [h3]
        cases b <;> simp [Store.dpop, hk]

/-- generic path of remove -/
theorem remLoop_spec (filt : Fields) :
    ∀ (c : JColl) (bs : List Bool), JCollOK c → matchAll filt (absColl c) = some bs →
    ∃ c', Json.remLoop filt c = (c', countTrue bs, false) ∧ JCollOK c' ∧ (∀ p ∈ c', p ∈ c) ∧
      absColl c' = selectBy (absColl c) (bs.map not) := by
  intro c
  induction c with
  | nil =>
    intro bs _ hm
    simp only [absColl, List.map_nil, matchAll, Option.some.injEq] at hm
    subst hm
    exact ⟨[], rfl, ⟨by simp [dkeys], by simp⟩, by simp, rfl⟩
  | cons a t ih =>
    obtain ⟨k, d0⟩ := a
    intro bs hok hm
    obtain ⟨b0, bs', rfl, hb0, hm'⟩ := matchAll_cons (by simpa [absColl] using hm)
    have hd0 : dget kId d0 = some (.str k) := hok.2 (k, d0) (by simp)
    obtain ⟨t', h1, h2, h3, h4⟩ := ih bs' hok.tail (by simpa [absColl] using hm')
    cases b0 with
    | false =>
      refine ⟨(k, d0) :: t', ?_, ?_, ?_, ?_⟩
      · simp [Json.remLoop, recMatches_view k d0 filt hd0, hb0, h1, countTrue]
      · constructor
        · simp only [dkeys, List.map_cons, List.nodup_cons]
          refine ⟨?_, h2.1⟩
          intro hmem
          obtain ⟨p, hp, hpk⟩ := List.mem_map.mp hmem
          have := h3 p hp
          exact hok.head_not_mem (by rw [← hpk]; exact List.mem_map_of_mem (f := Prod.fst) this)
        · intro p hp
          rcases List.mem_cons.mp hp with e | e
          · subst e; exact hd0
          · exact h2.2 p e
      · intro p hp
        rcases List.mem_cons.mp hp with e | e
        · simp [e]
        · simp [h3 p e]
      · simp only [absColl, List.map_cons, selectBy, Bool.not_false, if_true]
        simp only [absColl] at h4; rw [h4]
    | true =>
      refine ⟨t', ?_, h2, fun p hp => by simp [h3 p hp], ?_⟩
      · simp [Json.remLoop, recMatches_view k d0 filt hd0, hb0, h1, countTrue]; omega
      · simp only [absColl, List.map_cons, selectBy, Bool.not_true, Bool.false_eq_true, if_false]
        simp only [absColl] at h4; rw [h4]

theorem json_remove_refines (fx : Fix) (ft : FloatText) (js : JState) (rs : RefState)
    (hrel : RelJ js rs) (coll : Str) (filt : Fields) :
    let jr := Json.step fx ft js (.remove coll filt)
    let rr := Ref.step rs [] (.remove coll filt)
    (∃ e, rr.2 = .err e) ∨ (jr.2 = rr.2 ∧ RelJ jr.1 rr.1) := by
  have hc := hrel coll
  by_cases hfo' : ¬ filtOk filt = true
  · left; simp [Ref.step, hfo']
  have hfo : filtOk filt = true := by simpa using hfo'
  cases hmR : matchAll filt (aget [] coll rs : Coll) with
  | none => left; simp [Ref.step, hfo, hmR]
  | some bs =>
    right
    have hm : matchAll filt (absColl (aget [] coll js)) = some bs := by rw [hc.2]; exact hmR
    cases hid : Json.idOf filt with
    | some i =>
      have hf := idOf_eq_some.mp hid
      have key := rem_by_id filt i hf (aget [] coll js) bs hc.1 hm
      cases hd : dget i (aget [] coll js) with
      | none =>
        rw [hd] at key
        simp only [Json.step, Ref.step, hid, hd, hfo, hmR, Bool.false_eq_true, if_false, Bool.not_true]
        rw [← hc.2, key.1, key.2]
        exact ⟨rfl, hrel.aset coll _ _ hc.1 rfl⟩
      | some d =>
        rw [hd] at key
        obtain ⟨b, k1, k2, k3⟩ := key
        cases b with
        | false =>
          simp only [Json.step, Ref.step, hid, hd, hfo, hmR, k1, Bool.false_eq_true, if_false, Bool.not_true]
          rw [← hc.2, k2, k3]
          exact ⟨rfl, hrel.aset coll _ _ hc.1 rfl⟩
        | true =>
          simp only [Json.step, Ref.step, hid, hd, hfo, hmR, k1, Bool.false_eq_true, if_false, Bool.not_true]
          rw [← hc.2, k2, k3]
          exact ⟨rfl, hrel.aset coll _ _ (hc.1.dpop i) rfl⟩
    | none =>
      obtain ⟨c', h1, h2, _, h4⟩ := remLoop_spec filt (aget [] coll js) bs hc.1 hm
      simp only [Json.step, Ref.step, hid, h1, hfo, hmR, Bool.false_eq_true, if_false, Bool.not_true]
      rw [← hc.2]
      exact ⟨trivial, hrel.aset coll _ _ h2 h4⟩



theorem selectBy_sublist {α : Type} (l : List α) (bs : List Bool) : (selectBy l bs).Sublist l := by
  induction l generalizing bs with
  | nil => cases bs <;> simp [selectBy]
  | cons x t ih =>
    cases bs with
    | nil => simp [selectBy]
    | cons b bs' =>
      cases b
      · simp only [selectBy, Bool.false_eq_true, if_false]; exact (ih bs').cons x
      · simp only [selectBy, if_true]; exact (ih bs').cons_cons x

theorem absColl_nodup (c : JColl) (h : JCollOK c) : (absColl c).Nodup := by
  have := absColl_ids c h
  unfold Coll.ids at this
  have hn : (List.map recId (absColl c)).Nodup := by rw [this]; exact h.1
  exact List.Pairwise.of_map recId (fun a b hab e => hab (by rw [e])) hn

/-- query addressed by id -/
theorem qry_by_id (filt : Fields) (i : Str) (hf : dget kId filt = some (.str i)) :
    ∀ (c : JColl) (bs : List Bool), JCollOK c → matchAll filt (absColl c) = some bs →
    match dget i c with
    | none => selectBy (absColl c) bs = []
    | some d => ∃ b, recMatches d (dpop kId filt) = some b ∧ selectBy (absColl c) bs = if b then [d] else [] := by
  intro c
  induction c with
  | nil =>
    intro bs _ hm
    simp only [absColl, List.map_nil, matchAll, Option.some.injEq] at hm
    subst hm
    simp [dget, selectBy, absColl]
  | cons a t ih =>
    obtain ⟨k, d0⟩ := a
    intro bs hok hm
    obtain ⟨b0, bs', rfl, hb0, hm'⟩ := matchAll_cons (by simpa [absColl] using hm)
    have hd0 : dget kId d0 = some (.str k) := hok.2 (k, d0) (by simp)
    have iht := ih bs' hok.tail (by simpa [absColl] using hm')
    by_cases hk : k = i
    · subst hk
      have hnt : dget k t = none := (dget_none_iff _ _).mpr hok.head_not_mem
      rw [hnt] at iht
      simp only [dget, if_true]
      refine ⟨b0, by rw [recMatches_pop_id d0 filt k hd0 hf]; exact hb0, ?_⟩
      simp only [absColl] at iht
      cases b0 <;> simp [absColl, selectBy, iht]
    · have hb0f : b0 = false := recMatches_other_id d0 filt i k hd0 hk hf b0 hb0
      subst hb0f
      simp only [dget, hk, if_false]
      cases hdi : dget i t with
      | none =>
        rw [hdi] at iht
        simp only [absColl] at iht
        simp [absColl, selectBy, iht]
      | some d =>
        rw [hdi] at iht
        obtain ⟨b, h1, h3⟩ := iht
        refine ⟨b, h1, ?_⟩
        simp only [absColl] at h3
        simp [absColl, selectBy, h3]

/-- generic path of query -/
theorem scan_spec (filt : Fields) :
    ∀ (c : JColl) (bs : List Bool), JCollOK c → matchAll filt (absColl c) = some bs →
    Json.scan filt c = some (selectBy (absColl c) bs) := by
  intro c
  induction c with
  | nil =>
    intro bs _ hm
    simp only [absColl, List.map_nil, matchAll, Option.some.injEq] at hm
    subst hm
    rfl
  | cons a t ih =>
    obtain ⟨k, d0⟩ := a
    intro bs hok hm
    obtain ⟨b0, bs', rfl, hb0, hm'⟩ := matchAll_cons (by simpa [absColl] using hm)
    have hd0 : dget kId d0 = some (.str k) := hok.2 (k, d0) (by simp)
    have iht := ih bs' hok.tail (by simpa [absColl] using hm')
    simp only [absColl] at iht
    cases b0 <;> simp [Json.scan, recMatches_view k d0 filt hd0, hb0, iht, absColl, selectBy]



theorem sortKeyJ_eq_R (f : Str) (r : Fields) (h : (sortKeyR f r).isSome = true) : sortKeyJ f r = sortKeyR f r := by
  unfold sortKeyJ sortKeyR at *
  by_cases hf : f = kId
  · simp [hf]
  · simp only [hf, if_false] at h ⊢
    cases hd : dget f r with
    | none => rw [hd] at h; cases h
    | some v => rfl

/-- the JSON driver's sort passes give the reference store's lexicographic stable sort -/
theorem json_sort (sort : List (Str × Bool)) (sel sorted : List Fields) (nd : sel.Nodup)
    (h : lexSort sort sel = some sorted) : multiSort sortKeyJ sort sel = some sorted := by
  unfold lexSort at h
  by_cases hd : sortDomain sortKeyR sort sel = true
  · rw [if_pos hd] at h
    have hok := sortDomain_spec sortKeyR sort sel hd
    rw [multiSort_congr sortKeyJ sortKeyR sort sel
      (fun fr hfr r hr => sortKeyJ_eq_R fr.1 r ((hok fr hfr).1.1 r hr))]
    rw [multiSort_eq_lex sortKeyR sort sel nd hok]
    exact h
  · rw [if_neg hd] at h; cases h

theorem json_query_refines (fx : Fix) (ft : FloatText) (js : JState) (rs : RefState)
    (hrel : RelJ js rs) (coll : Str) (fields : Option (List Str)) (filt : Fields) (sort : List (Str × Bool))
    (limit : Option Nat) :
    let jr := Json.step fx ft js (.query coll fields filt sort limit)
    let rr := Ref.step rs [] (.query coll fields filt sort limit)
    (∃ e, rr.2 = .err e) ∨ (jr.2 = rr.2 ∧ RelJ jr.1 rr.1) := by
  have hc := hrel coll
  by_cases hfo' : ¬ filtOk filt = true
  · left; simp [Ref.step, hfo']
  have hfo : filtOk filt = true := by simpa using hfo'
  cases hmR : matchAll filt (aget [] coll rs : Coll) with
  | none => left; simp [Ref.step, hfo, hmR]
  | some bs =>
    cases hs : lexSort sort (selectBy (aget [] coll rs : Coll) bs) with
    | none => left; simp [Ref.step, hfo, hmR, hs]
    | some sorted =>
      right
      have hm : matchAll filt (absColl (aget [] coll js)) = some bs := by rw [hc.2]; exact hmR
      have hs' : lexSort sort (selectBy (absColl (aget [] coll js)) bs) = some sorted := by rw [hc.2]; exact hs
      have nd : (selectBy (absColl (aget [] coll js)) bs).Nodup :=
        (absColl_nodup _ hc.1).sublist (selectBy_sublist _ _)
      have hsort := json_sort sort _ sorted nd hs'
      have found : Json.find filt (aget [] coll js) = some (selectBy (absColl (aget [] coll js)) bs) := by
        unfold Json.find
        cases hid : Json.idOf filt with
        | some i =>
          have hf := idOf_eq_some.mp hid
          have key := qry_by_id filt i hf (aget [] coll js) bs hc.1 hm
          cases hd : dget i (aget [] coll js) with
          | none => rw [hd] at key; simp only [hd]; rw [key]
          | some d =>
            rw [hd] at key
            obtain ⟨b, k1, k2⟩ := key
            cases b <;> simp [hd, k1, k2]
        | none => exact scan_spec filt _ bs hc.1 hm
      simp only [Json.step, Ref.step, hfo, hmR, hs, Bool.not_true, Bool.false_eq_true, if_false]
      rw [found]
      simp only [hsort]
      exact ⟨trivial, hrel⟩



/-- lock-step run of a driver model and the reference store: the reference store is offered, for every
auto-generated id, the name the driver chose -/
def runWith {σ : Type} (drv : σ → Op → σ × Res) : σ → RefState → List Op → List (Res × Res)
  | _, _, [] => []
  | s, rs, op :: ops =>
    let jr := drv s op
    let rr := Ref.step rs (match jr.2 with | .id n => n | _ => []) op
    (jr.2, rr.2) :: runWith drv jr.1 rr.1 ops

/-- The driver agrees with the reference store: the names it generates are never in use, and every result is the
reference store's result — up to the first operation the reference store rejects as outside its contract
(after which the contract says nothing). -/
def Agree : List (Res × Res) → Prop
  | [] => True
  | (j, r) :: t => r ≠ .err .notFresh ∧ ((∃ e, r = .err e) ∨ (j = r ∧ Agree t))

theorem json_step_refines (fx : Fix) (hfx : fx.jsonUpdFilt = true) (ft : FloatText) (js : JState) (rs : RefState)
    (hrel : RelJ js rs) (op : Op) (hop : op ≠ .reload) :
    let jr := Json.step fx ft js op
    let rr := Ref.step rs (match jr.2 with | .id n => n | _ => []) op
    rr.2 ≠ .err .notFresh ∧ ((∃ e, rr.2 = .err e) ∨ (jr.2 = rr.2 ∧ RelJ jr.1 rr.1)) := by
  cases op with
  | insert coll rec => exact json_insert_refines fx ft js rs hrel coll rec
  | update coll part filt =>
    have h := json_update_refines fx hfx ft js rs hrel coll part filt
    refine ⟨?_, h⟩
    rcases h with ⟨e, he⟩ | ⟨h1, _⟩
    · intro hh
      have : (Ref.step rs [] (.update coll part filt)).2 ≠ .err .notFresh := by
        simp only [Ref.step]
        repeat' split
        all_goals simp
      exact this hh
    · intro hh
      have : (Ref.step rs [] (.update coll part filt)).2 ≠ .err .notFresh := by
        simp only [Ref.step]
        repeat' split
        all_goals simp
      exact this hh
  | replace coll id rec =>
    have h := json_replace_refines fx ft js rs hrel coll id rec
    refine ⟨?_, Or.inr h⟩
    show (Ref.step rs [] (.replace coll id rec)).2 ≠ .err .notFresh
    simp only [Ref.step]
    split <;> simp
  | remove coll filt =>
    have h := json_remove_refines fx ft js rs hrel coll filt
    refine ⟨?_, h⟩
    show (Ref.step rs [] (.remove coll filt)).2 ≠ .err .notFresh
    simp only [Ref.step]
    repeat' split
    all_goals simp
  | query coll fields filt sort limit =>
    have h := json_query_refines fx ft js rs hrel coll fields filt sort limit
    refine ⟨?_, h⟩
    show (Ref.step rs [] (.query coll fields filt sort limit)).2 ≠ .err .notFresh
    simp only [Ref.step]
    repeat' split
    all_goals simp
  | reload => exact absurd rfl hop

theorem RelJ.init : RelJ [] [] := by
  intro coll
  exact ⟨⟨by simp [aget, dkeys], by simp [aget]⟩, rfl⟩

theorem json_run_agrees (fx : Fix) (hfx : fx.jsonUpdFilt = true) (ft : FloatText) :
    ∀ (ops : List Op) (js : JState) (rs : RefState), RelJ js rs → (∀ op ∈ ops, op ≠ .reload) →
      Agree (runWith (Json.step fx ft) js rs ops) := by
  intro ops
  induction ops with
  | nil => intro _ _ _ _; trivial
  | cons op t ih =>
    intro js rs hrel hops
    have h := json_step_refines fx hfx ft js rs hrel op (hops op (by simp))
    simp only [runWith, Agree]
    refine ⟨h.1, ?_⟩
    rcases h.2 with he | ⟨h1, h2⟩
    · exact Or.inl he
    · exact Or.inr ⟨h1, ih _ _ h2 (fun o ho => hops o (by simp [ho]))⟩

end QtVerif.Store
