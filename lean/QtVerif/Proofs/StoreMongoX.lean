import QtVerif.Proofs.StoreMongo
/-!
Helper lemmas for C06, part 7: what `drivers/persist/mongo.py` itself does (filter / sort / projection
translation, record ↔ document, the shapes of update / replace / remove / insert), run on the declarative SPEC of
the document engine (`Mongo.eFind`, …), refines the reference store.
-/
namespace QtVerif.Store
open Mongo

/-! ### conditions: Python's evaluation vs the engine's -/

/-- `recMatches` answers `true` exactly when every condition holds … -/
theorem recMatches_true (d : Fields) : ∀ (filt : Fields), recMatches d filt = some true →
    ∀ kc ∈ filt, ∃ v, dget kc.1 d = some v ∧ condMatches v kc.2 = some true := by
  intro filt
  induction filt with
  | nil => intro _ kc h; cases h
  | cons a t ih =>
    obtain ⟨k, c⟩ := a
    intro h kc hkc
    simp only [recMatches] at h
    cases hv : dget k d with
    | none => rw [hv] at h; simp at h
    | some v =>
      rw [hv] at h
      simp only at h
      cases hc : condMatches v c with
      | none => rw [hc] at h; simp at h
      | some b =>
        rw [hc] at h
        cases b with
        | false => simp at h
        | true =>
          rcases List.mem_cons.mp hkc with e | e
          · rw [e]; exact ⟨v, hv, hc⟩
          · exact ih h kc e

/-- … and `false` only when some condition is definitely false (missing field or a `false` comparison) -/
theorem recMatches_false (d : Fields) : ∀ (filt : Fields), recMatches d filt = some false →
    ∃ kc ∈ filt, dget kc.1 d = none ∨ ∃ v, dget kc.1 d = some v ∧ condMatches v kc.2 = some false := by
  intro filt
  induction filt with
  | nil => intro h; simp [recMatches] at h
  | cons a t ih =>
    obtain ⟨k, c⟩ := a
    intro h
    simp only [recMatches] at h
    cases hv : dget k d with
    | none => exact ⟨(k, c), by simp, Or.inl hv⟩
    | some v =>
      rw [hv] at h
      simp only at h
      cases hc : condMatches v c with
      | none => rw [hc] at h; simp at h
      | some b =>
        rw [hc] at h
        cases b with
        | false => exact ⟨(k, c), by simp, Or.inr ⟨v, hv, hc⟩⟩
        | true =>
          obtain ⟨kc, hkc, hh⟩ := ih h
          exact ⟨kc, by simp [hkc], hh⟩

theorem opsMatch_true (v : JVal) : ∀ ops, opsMatch v ops = some true → ∀ ow ∈ ops, opEval ow.1 v ow.2 = some true := by
  intro ops
  induction ops with
  | nil => intro _ ow h; cases h
  | cons a t ih =>
    obtain ⟨op, w⟩ := a
    intro h ow how
    simp only [opsMatch] at h
    cases he : opEval op v w with
    | none => rw [he] at h; simp at h
    | some b =>
      rw [he] at h
      cases b with
      | false => simp at h
      | true =>
        rcases List.mem_cons.mp how with e | e
        · rw [e]; exact he
        · exact ih h ow e

theorem opsMatch_false (v : JVal) : ∀ ops, opsMatch v ops = some false → ∃ ow ∈ ops, opEval ow.1 v ow.2 = some false := by
  intro ops
  induction ops with
  | nil => intro h; simp [opsMatch] at h
  | cons a t ih =>
    obtain ⟨op, w⟩ := a
    intro h
    simp only [opsMatch] at h
    cases he : opEval op v w with
    | none => rw [he] at h; simp at h
    | some b =>
      rw [he] at h
      cases b with
      | false => exact ⟨(op, w), by simp, he⟩
      | true =>
        obtain ⟨ow, how, hh⟩ := ih h
        exact ⟨ow, by simp [how], hh⟩

theorem opTable_cases (op name : Str) (h : opTable op = some name) :
    (op = opGt ∧ name = dGt) ∨ (op = opGe ∧ name = dGte) ∨ (op = opLt ∧ name = dLt) ∨ (op = opLe ∧ name = dLte) ∨
    (op = opIn ∧ name = dIn) := by
  unfold opTable at h
  split at h
  · injection h with h; exact Or.inl ⟨by assumption, h.symm⟩
  split at h
  · injection h with h; exact Or.inr (Or.inl ⟨by assumption, h.symm⟩)
  split at h
  · injection h with h; exact Or.inr (Or.inr (Or.inl ⟨by assumption, h.symm⟩))
  split at h
  · injection h with h; exact Or.inr (Or.inr (Or.inr (Or.inl ⟨by assumption, h.symm⟩)))
  split at h
  · injection h with h; exact Or.inr (Or.inr (Or.inr (Or.inr ⟨by assumption, h.symm⟩)))
  · cases h

/-- one operator on a plain field: whenever Python's operator gives an answer, the engine's gives the same -/
theorem eOp_plain (op name : Str) (v w : JVal) (b : Bool) (hn : opTable op = some name) (h : opEval op v w = some b) :
    eOpHolds name (.j v) (.one (.j w)) = b := by
  rcases opTable_cases op name hn with ⟨rfl, rfl⟩ | ⟨rfl, rfl⟩ | ⟨rfl, rfl⟩ | ⟨rfl, rfl⟩ | ⟨rfl, rfl⟩
  all_goals
    simp only [opEval, eOpHolds, ecmp] at h ⊢
  · cases hc : jcmp v w with
    | none => rw [hc] at h; simp [opGt, opGe, opLt, opLe, opIn] at h
    | some o => rw [hc] at h; simpa [opGt, opGe, opLt, opLe, opIn, dGt] using h
  · cases hc : jcmp v w with
    | none => rw [hc] at h; simp [opGt, opGe, opLt, opLe, opIn] at h
    | some o => rw [hc] at h; simpa [opGt, opGe, opLt, opLe, opIn, dGt, dGte] using h
  · cases hc : jcmp v w with
    | none => rw [hc] at h; simp [opGt, opGe, opLt, opLe, opIn] at h
    | some o => rw [hc] at h; simpa [opGt, opGe, opLt, opLe, opIn, dGt, dGte, dLt] using h
  · cases hc : jcmp v w with
    | none => rw [hc] at h; simp [opGt, opGe, opLt, opLe, opIn] at h
    | some o => rw [hc] at h; simpa [opGt, opGe, opLt, opLe, opIn, dGt, dGte, dLt, dLte] using h
  · cases w <;> simp [opGt, opGe, opLt, opLe, opIn, dGt, dGte, dLt, dLte, dIn, deq] at h ⊢
    exact h


theorem plainOps_spec : ∀ (ops : List (Str × JVal)) (l : List (Str × EOperand)), plainOps ops = some l →
    (∀ ow ∈ ops, ∃ name, opTable ow.1 = some name ∧ (name, EOperand.one (.j ow.2)) ∈ l) ∧
    (∀ no ∈ l, ∃ ow ∈ ops, opTable ow.1 = some no.1 ∧ no.2 = EOperand.one (.j ow.2)) := by
  intro ops
  induction ops with
  | nil => intro l h; simp only [plainOps, Option.some.injEq] at h; subst h; simp
  | cons a t ih =>
    obtain ⟨op, w⟩ := a
    intro l h
    simp only [plainOps] at h
    cases hn : opTable op with
    | none => rw [hn] at h; simp at h
    | some name =>
      cases hr : plainOps t with
      | none => rw [hn, hr] at h; simp at h
      | some r =>
        rw [hn, hr] at h
        simp only [Option.some.injEq] at h
        subst h
        obtain ⟨h1, h2⟩ := ih r hr
        constructor
        · intro ow how
          rcases List.mem_cons.mp how with e | e
          · rw [e]; exact ⟨name, hn, by simp⟩
          · obtain ⟨n, hn', hm⟩ := h1 ow e; exact ⟨n, hn', by simp [hm]⟩
        · intro no hno
          rcases List.mem_cons.mp hno with e | e
          · rw [e]; exact ⟨(op, w), by simp, hn, rfl⟩
          · obtain ⟨ow, how, hh⟩ := h2 no e; exact ⟨ow, by simp [how], hh⟩

/-- a condition on a plain field -/
theorem eCond_plain (v c : JVal) (e : ECond) (b : Bool) (he : plainCond c = some e) (h : condMatches v c = some b) :
    eCondHolds (some (.j v)) e = b := by
  cases c with
  | obj ops =>
    simp only [plainCond] at he
    cases hl : plainOps ops with
    | none => rw [hl] at he; simp at he
    | some l =>
      rw [hl] at he
      simp only [Option.map_some, Option.some.injEq] at he
      subst he
      obtain ⟨h1, h2⟩ := plainOps_spec ops l hl
      simp only [condMatches] at h
      simp only [eCondHolds]
      cases b with
      | true =>
        rw [List.all_eq_true]
        intro no hno
        obtain ⟨ow, how, hn, ho⟩ := h2 no hno
        rw [ho]
        exact eOp_plain ow.1 no.1 v ow.2 true hn (opsMatch_true v ops h ow how)
      | false =>
        obtain ⟨ow, how, hf⟩ := opsMatch_false v ops h
        obtain ⟨name, hn, hm⟩ := h1 ow how
        have := eOp_plain ow.1 name v ow.2 false hn hf
        apply Bool.eq_false_iff.mpr
        intro hall
        rw [List.all_eq_true] at hall
        have := hall _ hm
        simp_all
  | null => simp only [plainCond, Option.some.injEq] at he; subst he; simpa [condMatches, eCondHolds, deq] using h
  | bool x => simp only [plainCond, Option.some.injEq] at he; subst he; simpa [condMatches, eCondHolds, deq] using h
  | int x => simp only [plainCond, Option.some.injEq] at he; subst he; simpa [condMatches, eCondHolds, deq] using h
  | num x => simp only [plainCond, Option.some.injEq] at he; subst he; simpa [condMatches, eCondHolds, deq] using h
  | str x => simp only [plainCond, Option.some.injEq] at he; subst he; simpa [condMatches, eCondHolds, deq] using h
  | date x y => simp only [plainCond, Option.some.injEq] at he; subst he; simpa [condMatches, eCondHolds, deq] using h
  | arr x => simp only [plainCond, Option.some.injEq] at he; subst he; simpa [condMatches, eCondHolds, deq] using h

/-! ### the "id" condition -/

/-- the id mapping of the repaired driver, on values -/
theorem idV_str (s : Str) : ∃ e, idV Fix.repaired (.str s) = some e ∧ eToJ e = .str s := by
  obtain ⟨d, hd, hb⟩ := idToDb_roundtrip s
  simp only [idV, hd, Option.map_some]
  cases d with
  | str t => exact ⟨_, rfl, by simp only [idFromDb] at hb; simp [eToJ, hb]⟩
  | oid b => exact ⟨_, rfl, by simp only [idFromDb] at hb; simp [eToJ, hb]⟩

theorem eToJ_inj_on_ids (a b : EVal) (s t : Str) (ha : idV Fix.repaired (.str s) = some a) (hb : idV Fix.repaired (.str t) = some b) :
    deq a b = (s == t) := by
  simp only [idV] at ha hb
  cases hs : idToDb Fix.repaired s with
  | none => rw [hs] at ha; simp at ha
  | some ds =>
    cases ht : idToDb Fix.repaired t with
    | none => rw [ht] at hb; simp at hb
    | some dt =>
      rw [hs] at ha; rw [ht] at hb
      simp only [Option.map_some, Option.some.injEq] at ha hb
      by_cases hst : s = t
      · subst hst
        rw [hs] at ht; injection ht with ht; subst ht
        subst ha; subst hb
        cases ds <;> simp [deq, jeq]
      · have hne : ds ≠ dt := fun e => hst (idToDb_injective s t ds hs (e ▸ ht))
        subst ha; subst hb
        have hf : (s == t) = false := by simpa using hst
        rw [hf]
        cases ds with
        | str a =>
          cases dt with
          | str b =>
            have : a ≠ b := fun e => hne (by rw [e])
            simp [deq, jeq, this]
          | oid b => simp [deq]
        | oid a =>
          cases dt with
          | str b => simp [deq]
          | oid b =>
            have : a ≠ b := fun e => hne (by rw [e])
            simp [deq, this]


theorem jeq_str_nonstr (i : Str) (c : JVal) (h : ∀ s, c ≠ .str s) : jeq (.str i) c = false ∧ jeq c (.str i) = false := by
  cases c with
  | str s => exact absurd rfl (h s)
  | null => simp [jeq, numOf]
  | bool b => simp [jeq, numOf]
  | int b => simp [jeq, numOf]
  | num b => simp [jeq, numOf]
  | date a b => simp [jeq, numOf]
  | arr l => simp [jeq, numOf]
  | obj l => simp [jeq, numOf]

/-- comparing the mapped id of a record with a mapped operand is comparing the id string with the operand -/
theorem deq_id (i : Str) (a : EVal) (ha : idV Fix.repaired (.str i) = some a) (c : JVal) (b : EVal)
    (hb : idV Fix.repaired c = some b) : deq a b = jeq (.str i) c ∧ deq b a = jeq c (.str i) := by
  by_cases hs : ∃ s, c = .str s
  · obtain ⟨s, rfl⟩ := hs
    rw [eToJ_inj_on_ids a b i s ha hb, eToJ_inj_on_ids b a s i hb ha]
    simp [jeq]
  · have hns : ∀ s, c ≠ .str s := fun s e => hs ⟨s, e⟩
    have hbj : b = .j c := by
      cases c with
      | str s => exact absurd rfl (hns s)
      | _ => simp only [idV, Option.some.injEq] at hb; exact hb.symm
    subst hbj
    obtain ⟨e, he, hej⟩ := idV_str i
    rw [ha] at he; injection he with he; subst he
    obtain ⟨h1, h2⟩ := jeq_str_nonstr i c hns
    cases a with
    | j v => simp only [eToJ] at hej; subst hej; exact ⟨by simp [deq], by simp [deq]⟩
    | oid bts => simp [deq, h1, h2]

/-- the conditions on "id" the contract lets a caller write: an exact value, or `in` lists -/
def IdCondOK : JVal → Prop
  | .obj ops => ∀ ow ∈ ops, ow.1 = opIn ∧ ∃ l, ow.2 = .arr l
  | .arr _ => False
  | _ => True

theorem idVs_any (i : Str) (a : EVal) (ha : idV Fix.repaired (.str i) = some a) :
    ∀ (l : List JVal) (l' : List EVal), idVs Fix.repaired l = some l' →
      l'.any (fun x => deq x a) = l.any (fun x => jeq x (.str i)) := by
  intro l
  induction l with
  | nil => intro l' h; simp only [idVs, Option.some.injEq] at h; subst h; rfl
  | cons x t ih =>
    intro l' h
    simp only [idVs] at h
    cases hx : idV Fix.repaired x with
    | none => rw [hx] at h; simp at h
    | some e =>
      cases hr : idVs Fix.repaired t with
      | none => rw [hx, hr] at h; simp at h
      | some r =>
        rw [hx, hr] at h
        simp only [Option.some.injEq] at h
        subst h
        simp only [List.any_cons, ih r hr, (deq_id i a ha x e hx).2]

theorem idOps_in (i : Str) (a : EVal) (ha : idV Fix.repaired (.str i) = some a) :
    ∀ (ops : List (Str × JVal)) (l : List (Str × EOperand)), (∀ ow ∈ ops, ow.1 = opIn ∧ ∃ l, ow.2 = .arr l) →
      idOps Fix.repaired ops = some l → ∀ b, opsMatch (.str i) ops = some b → l.all (fun ow => eOpHolds ow.1 a ow.2) = b := by
  intro ops
  induction ops with
  | nil => intro l _ h b hb; simp only [idOps, Option.some.injEq] at h; subst h; simp [opsMatch] at hb; simp [hb]
  | cons x t ih =>
    obtain ⟨op, w⟩ := x
    intro l hok h b hb
    obtain ⟨hop, lw, hw⟩ := hok (op, w) (by simp)
    simp only at hop hw
    subst hop; subst hw
    simp only [idOps] at h
    cases hl : idVs Fix.repaired lw with
    | none => rw [hl] at h; simp at h
    | some lw' =>
      cases hr : idOps Fix.repaired t with
      | none => rw [hl, hr] at h; simp [opTable] at h
      | some r =>
        rw [hl, hr] at h
        have hname : opTable opIn = some dIn := by decide
        simp only [Option.map_some, hname, Option.some.injEq] at h
        subst h
        have hev : opEval opIn (.str i) (.arr lw) = some (lw.any (fun x => jeq x (.str i))) := by
          simp [opEval, opIn, opGt, opGe, opLt, opLe]
        simp only [opsMatch, hev] at hb
        have hhead : eOpHolds dIn a (.many lw') = lw.any (fun x => jeq x (.str i)) := by
          simp only [eOpHolds, if_true]
          exact idVs_any i a ha lw lw' hl
        simp only [List.all_cons, hhead]
        cases hany : lw.any (fun x => jeq x (.str i)) with
        | false => rw [hany] at hb; simp at hb; simp [hb]
        | true =>
          rw [hany] at hb
          simp only at hb
          rw [ih r (fun ow how => hok ow (by simp [how])) hr b hb]
          simp

/-- the condition on "id" -/
theorem eCond_id (i : Str) (a : EVal) (ha : idV Fix.repaired (.str i) = some a) (c : JVal) (hok : IdCondOK c) (e : ECond)
    (he : idCond Fix.repaired c = some e) (b : Bool) (h : condMatches (.str i) c = some b) :
    eCondHolds (some a) e = b := by
  cases c with
  | obj ops =>
    simp only [idCond] at he
    cases hl : idOps Fix.repaired ops with
    | none => rw [hl] at he; simp at he
    | some l =>
      rw [hl] at he
      simp only [Option.map_some, Option.some.injEq] at he
      subst he
      exact idOps_in i a ha ops l hok hl b h
  | arr l => exact absurd hok (by simp [IdCondOK])
  | null => simp only [idCond] at he; cases hb : idV Fix.repaired .null with
    | none => rw [hb] at he; simp at he
    | some x => rw [hb] at he; simp only [Option.map_some, Option.some.injEq] at he; subst he
                simp only [condMatches, Option.some.injEq] at h; simp only [eCondHolds, (deq_id i a ha _ x hb).1, h]
  | bool v => simp only [idCond] at he; cases hb : idV Fix.repaired (.bool v) with
    | none => rw [hb] at he; simp at he
    | some x => rw [hb] at he; simp only [Option.map_some, Option.some.injEq] at he; subst he
                simp only [condMatches, Option.some.injEq] at h; simp only [eCondHolds, (deq_id i a ha _ x hb).1, h]
  | int v => simp only [idCond] at he; cases hb : idV Fix.repaired (.int v) with
    | none => rw [hb] at he; simp at he
    | some x => rw [hb] at he; simp only [Option.map_some, Option.some.injEq] at he; subst he
                simp only [condMatches, Option.some.injEq] at h; simp only [eCondHolds, (deq_id i a ha _ x hb).1, h]
  | num v => simp only [idCond] at he; cases hb : idV Fix.repaired (.num v) with
    | none => rw [hb] at he; simp at he
    | some x => rw [hb] at he; simp only [Option.map_some, Option.some.injEq] at he; subst he
                simp only [condMatches, Option.some.injEq] at h; simp only [eCondHolds, (deq_id i a ha _ x hb).1, h]
  | str v => simp only [idCond] at he; cases hb : idV Fix.repaired (.str v) with
    | none => rw [hb] at he; simp at he
    | some x => rw [hb] at he; simp only [Option.map_some, Option.some.injEq] at he; subst he
                simp only [condMatches, Option.some.injEq] at h; simp only [eCondHolds, (deq_id i a ha _ x hb).1, h]
  | date v w => simp only [idCond] at he; cases hb : idV Fix.repaired (.date v w) with
    | none => rw [hb] at he; simp at he
    | some x => rw [hb] at he; simp only [Option.map_some, Option.some.injEq] at he; subst he
                simp only [condMatches, Option.some.injEq] at h; simp only [eCondHolds, (deq_id i a ha _ x hb).1, h]


/-! ### records and documents -/

/-- Python's verdict on one condition of a filter -/
def pyCond (d : Fields) (kc : Str × JVal) : Option Bool :=
  match dget kc.1 d with
  | none => some false
  | some v => condMatches v kc.2

/-- if every condition of the filter has a translated condition on which the engine agrees with Python, and vice
versa, the engine's conjunction is Python's verdict on the record -/
theorem eMatches_of_agree (d : Fields) (doc : EDoc) (filt : Fields) (ef : EFilt) (b : Bool)
    (hA : ∀ kc ∈ filt, ∃ ke ∈ ef, ∀ r, pyCond d kc = some r → eCondHolds (dget ke.1 doc) ke.2 = r)
    (hB : ∀ ke ∈ ef, ∃ kc ∈ filt, ∀ r, pyCond d kc = some r → eCondHolds (dget ke.1 doc) ke.2 = r)
    (h : recMatches d filt = some b) : eMatches doc ef = b := by
  cases b with
  | true =>
    have ht := recMatches_true d filt h
    simp only [eMatches, List.all_eq_true]
    intro ke hke
    obtain ⟨kc, hkc, hag⟩ := hB ke hke
    obtain ⟨v, hv, hc⟩ := ht kc hkc
    exact hag true (by simp [pyCond, hv, hc])
  | false =>
    obtain ⟨kc, hkc, hf⟩ := recMatches_false d filt h
    obtain ⟨ke, hke, hag⟩ := hA kc hkc
    have : eCondHolds (dget ke.1 doc) ke.2 = false := by
      apply hag false
      rcases hf with hn | ⟨v, hv, hc⟩
      · simp [pyCond, hn]
      · simp [pyCond, hv, hc]
    apply Bool.eq_false_iff.mpr
    intro hall
    simp only [eMatches, List.all_eq_true] at hall
    rw [hall ke hke] at this
    cases this

theorem plainConds_spec : ∀ (filt : Fields) (ef : EFilt), plainConds filt = some ef →
    (∀ kc ∈ filt, ∃ e, plainCond kc.2 = some e ∧ (kc.1, e) ∈ ef) ∧
    (∀ ke ∈ ef, ∃ kc ∈ filt, kc.1 = ke.1 ∧ plainCond kc.2 = some ke.2) := by
  intro filt
  induction filt with
  | nil => intro ef h; simp only [plainConds, Option.some.injEq] at h; subst h; simp
  | cons a t ih =>
    obtain ⟨k, c⟩ := a
    intro ef h
    simp only [plainConds] at h
    cases he : plainCond c with
    | none => rw [he] at h; simp at h
    | some e =>
      cases hr : plainConds t with
      | none => rw [he, hr] at h; simp at h
      | some r =>
        rw [he, hr] at h
        simp only [Option.some.injEq] at h
        subst h
        obtain ⟨h1, h2⟩ := ih r hr
        constructor
        · intro kc hkc
          rcases List.mem_cons.mp hkc with e' | e'
          · rw [e']; exact ⟨e, he, by simp⟩
          · obtain ⟨x, hx, hm⟩ := h1 kc e'; exact ⟨x, hx, by simp [hm]⟩
        · intro ke hke
          rcases List.mem_cons.mp hke with e' | e'
          · rw [e']; exact ⟨(k, c), by simp, rfl, he⟩
          · obtain ⟨kc, hkc, hh⟩ := h2 ke e'; exact ⟨kc, by simp [hkc], hh⟩

/-- the document the engine holds for a record of the reference store: "_id" first, then the other fields -/
def docOf (d : Fields) : EDoc :=
  (kUid, (idV Fix.repaired (.str (recId d))).getD (.j .null)) :: toE (dpop kId d)

/-- a record the Mongo driver can hold faithfully: a string id, distinct keys, no field called "_id" -/
structure MRecOK (d : Fields) : Prop where
  id : dget kId d = some (.str (recId d))
  nd : (dkeys d).Nodup
  nouid : kUid ∉ dkeys d

theorem dget_toE (k : Str) (d : Fields) : dget k (toE d) = (dget k d).map EVal.j := by
  induction d with
  | nil => rfl
  | cons a t ih =>
    obtain ⟨k', v'⟩ := a
    by_cases h1 : k' = k
    · simp [toE, dget, h1]
    · simp only [toE, List.map_cons, dget, h1, if_false]; exact ih

theorem kUid_ne_kId : kUid ≠ kId := by decide

theorem dget_docOf_uid (d : Fields) : ∃ a, idV Fix.repaired (.str (recId d)) = some a ∧ dget kUid (docOf d) = some a := by
  obtain ⟨a, ha, _⟩ := idV_str (recId d)
  exact ⟨a, ha, by simp [docOf, dget, ha]⟩

theorem dget_docOf_plain (d : Fields) (k : Str) (h1 : k ≠ kUid) (h2 : k ≠ kId) :
    dget k (docOf d) = (dget k d).map EVal.j := by
  have : ¬ kUid = k := fun e => h1 e.symm
  simp only [docOf, dget, this, if_false]
  rw [dget_toE, dget_dpop_ne k kId d h2]

/-- the filters the contract lets a caller write against the Mongo driver -/
structure MFiltOK (filt : Fields) : Prop where
  nd : (dkeys filt).Nodup
  nouid : kUid ∉ dkeys filt
  idc : ∀ c, dget kId filt = some c → IdCondOK c

theorem mem_split_dpop (k : Str) (c : JVal) (filt : Fields) (nd : (dkeys filt).Nodup) (hc : dget k filt = some c) :
    (∀ kc ∈ filt, kc = (k, c) ∨ (kc ∈ dpop k filt ∧ kc.1 ≠ k)) ∧ (∀ kc ∈ dpop k filt, kc ∈ filt ∧ kc.1 ≠ k) := by
  induction filt with
  | nil => simp [dget] at hc
  | cons a t ih =>
    obtain ⟨k', c'⟩ := a
    simp only [dkeys, List.map_cons, List.nodup_cons] at nd
    by_cases h1 : k' = k
    · subst h1
      simp only [dget, if_true, Option.some.injEq] at hc
      subst hc
      simp only [dpop, if_true]
      have hne : ∀ kc ∈ t, kc.1 ≠ k' := fun kc hkc e => nd.1 (by rw [← e]; exact List.mem_map_of_mem (f := Prod.fst) hkc)
      constructor
      · intro kc hkc
        rcases List.mem_cons.mp hkc with e | e
        · exact Or.inl e
        · exact Or.inr ⟨e, hne kc e⟩
      · intro kc hkc; exact ⟨by simp [hkc], hne kc hkc⟩
    · simp only [dget, h1, if_false] at hc
      obtain ⟨i1, i2⟩ := ih nd.2 hc
      simp only [dpop, h1, if_false]
      constructor
      · intro kc hkc
        rcases List.mem_cons.mp hkc with e | e
        · rw [e]; exact Or.inr ⟨by simp, h1⟩
        · rcases i1 kc e with e' | e'
          · exact Or.inl e'
          · exact Or.inr ⟨by simp [e'.1], e'.2⟩
      · intro kc hkc
        rcases List.mem_cons.mp hkc with e | e
        · rw [e]; exact ⟨by simp, h1⟩
        · exact ⟨by simp [(i2 kc e).1], (i2 kc e).2⟩

/-- **A translated filter selects, on the engine, exactly the records Python's filter selects.** -/
theorem xlate_matches (d : Fields) (hd : MRecOK d) (filt : Fields) (hf : MFiltOK filt) (ef : EFilt)
    (he : filtToDb Fix.repaired filt = some ef) (b : Bool) (h : recMatches d filt = some b) :
    eMatches (docOf d) ef = b := by
  -- agreement on a plain (non-id) condition
  have plain : ∀ (kc : Str × JVal) (e : ECond), kc.1 ≠ kUid → kc.1 ≠ kId → plainCond kc.2 = some e →
      ∀ r, pyCond d kc = some r → eCondHolds (dget kc.1 (docOf d)) e = r := by
    intro kc e h1 h2 hpe r hr
    rw [dget_docOf_plain d kc.1 h1 h2]
    simp only [pyCond] at hr
    cases hv : dget kc.1 d with
    | none => rw [hv] at hr; simp only [Option.some.injEq] at hr; subst hr; rfl
    | some v => rw [hv] at hr; exact eCond_plain v kc.2 e r hpe hr
  have nouid : ∀ kc ∈ filt, kc.1 ≠ kUid := fun kc hkc e => hf.nouid (by rw [← e]; exact List.mem_map_of_mem (f := Prod.fst) hkc)
  unfold filtToDb at he
  cases hid : dget kId filt with
  | none =>
    rw [hid] at he
    simp only at he
    have noid : ∀ kc ∈ filt, kc.1 ≠ kId := by
      intro kc hkc e
      exact (dget_none_iff kId filt).mp hid (by rw [← e]; exact List.mem_map_of_mem (f := Prod.fst) hkc)
    obtain ⟨s1, s2⟩ := plainConds_spec filt ef he
    apply eMatches_of_agree d (docOf d) filt ef b _ _ h
    · intro kc hkc
      obtain ⟨e, hpe, hm⟩ := s1 kc hkc
      exact ⟨(kc.1, e), hm, plain kc e (nouid kc hkc) (noid kc hkc) hpe⟩
    · intro ke hke
      obtain ⟨kc, hkc, hk, hpe⟩ := s2 ke hke
      refine ⟨kc, hkc, ?_⟩
      rw [← hk]
      exact plain kc ke.2 (nouid kc hkc) (noid kc hkc) hpe
  | some c =>
    rw [hid] at he
    simp only at he
    cases hic : idCond Fix.repaired c with
    | none => rw [hic] at he; simp at he
    | some ec =>
      cases hpr : plainConds (dpop kId filt) with
      | none => rw [hic, hpr] at he; simp at he
      | some r =>
        rw [hic, hpr] at he
        simp only [Option.some.injEq] at he
        subst he
        obtain ⟨m1, m2⟩ := mem_split_dpop kId c filt hf.nd hid
        obtain ⟨s1, s2⟩ := plainConds_spec (dpop kId filt) r hpr
        obtain ⟨a, ha, hda⟩ := dget_docOf_uid d
        have idag : ∀ rr, pyCond d (kId, c) = some rr → eCondHolds (dget kUid (docOf d)) ec = rr := by
          intro rr hr
          rw [hda]
          simp only [pyCond, hd.id] at hr
          exact eCond_id (recId d) a ha c (hf.idc c hid) ec hic rr hr
        apply eMatches_of_agree d (docOf d) filt _ b _ _ h
        · intro kc hkc
          rcases m1 kc hkc with e | ⟨hin, hne⟩
          · rw [e]; exact ⟨(kUid, ec), by simp, idag⟩
          · obtain ⟨e, hpe, hm⟩ := s1 kc hin
            exact ⟨(kc.1, e), by simp [hm], plain kc e (nouid kc hkc) hne hpe⟩
        · intro ke hke
          rcases List.mem_append.mp hke with e | e
          · obtain ⟨kc, hkc, hk, hpe⟩ := s2 ke e
            refine ⟨kc, (m2 kc hkc).1, ?_⟩
            rw [← hk]
            exact plain kc ke.2 (nouid kc (m2 kc hkc).1) (m2 kc hkc).2 hpe
          · simp only [List.mem_singleton] at e
            subst e
            exact ⟨(kId, c), dget_mem kId c filt hid, idag⟩


/-! ### queries -/

theorem filter_docs (filt : Fields) (hf : MFiltOK filt) (ef : EFilt) (he : filtToDb Fix.repaired filt = some ef) :
    ∀ (c : Coll) (bs : List Bool), (∀ d ∈ c, MRecOK d) → matchAll filt c = some bs →
      (c.map docOf).filter (eMatches · ef) = (selectBy c bs).map docOf ∧
      (c.map docOf).filter (fun x => !eMatches x ef) = (selectBy c (bs.map not)).map docOf := by
  intro c
  induction c with
  | nil => intro bs _ h; simp only [matchAll, Option.some.injEq] at h; subst h; simp [selectBy]
  | cons d t ih =>
    intro bs hok hm
    obtain ⟨b, bs', rfl, hb, hm'⟩ := matchAll_cons hm
    have := xlate_matches d (hok d (by simp)) filt hf ef he b hb
    obtain ⟨i1, i2⟩ := ih bs' (fun x hx => hok x (by simp [hx])) hm'
    cases b <;> simp [List.filter_cons, this, selectBy, i1, i2]

theorem eKey_docOf (d : Fields) (f : Str) (h1 : f ≠ kUid) (h2 : f ≠ kId) : eKey f (docOf d) = sortKeyR f d := by
  simp only [eKey, sortKeyR, h2, if_false, dget_docOf_plain d f h1 h2]
  cases dget f d <;> rfl

theorem lexLt_congr {α β : Type} (g : α → β) (kf : Str → α → Option JVal) (kf' : Str → β → Option JVal)
    (sort : List (Str × Bool)) (a b : α) (h : ∀ fr ∈ sort, kf' fr.1 (g a) = kf fr.1 a ∧ kf' fr.1 (g b) = kf fr.1 b) :
    lexLt kf' sort (g a) (g b) = lexLt kf sort a b := by
  induction sort with
  | nil => rfl
  | cons fr t ih =>
    obtain ⟨f, rev⟩ := fr
    obtain ⟨ha, hb⟩ := h (f, rev) (by simp)
    simp only at ha hb
    have iht := ih (fun x hx => h x (by simp [hx]))
    have p1 : passLt (kf' f) rev (g a) (g b) = passLt (kf f) rev a b := by simp only [passLt, ha, hb]
    have p2 : passLt (kf' f) rev (g b) (g a) = passLt (kf f) rev b a := by simp only [passLt, ha, hb]
    simp only [lexLt]
    rw [p1, p2, iht]

theorem sortToDb_back (sort : List (Str × Bool)) :
    (sortToDb sort).map (fun fd => (fd.1, decide (fd.2 < 0))) = sort := by
  induction sort with
  | nil => rfl
  | cons fr t ih =>
    obtain ⟨f, r⟩ := fr
    simp only [sortToDb, List.map_cons] at ih ⊢
    rw [ih]
    cases r <;> simp

theorem eSort_docs (sort : List (Str × Bool)) (hs : ∀ fr ∈ sort, fr.1 ≠ kUid ∧ fr.1 ≠ kId) (l : List Fields) :
    eSort (sortToDb sort) (l.map docOf) = (isort (lexLt sortKeyR sort) l).map docOf := by
  unfold eSort
  rw [sortToDb_back]
  apply isort_map
  intro a _ b _
  apply lexLt_congr
  intro fr hfr
  exact ⟨eKey_docOf a fr.1 (hs fr hfr).1 (hs fr hfr).2, eKey_docOf b fr.1 (hs fr hfr).1 (hs fr hfr).2⟩

theorem dget_foldl_dset (k : Str) (fs : List Str) (acc : List (Str × Nat)) :
    dget k (fs.foldl (fun acc f => dset f 1 acc) acc) = if k ∈ fs then some 1 else dget k acc := by
  induction fs generalizing acc with
  | nil => simp
  | cons f t ih =>
    simp only [List.foldl_cons, ih, List.mem_cons]
    by_cases h1 : k ∈ t
    · simp [h1]
    · by_cases h2 : k = f
      · subst h2; simp [h1, dget_dset_self]
      · simp [h1, h2, dget_dset_ne k f _ _ h2]

theorem toE_back (d : Fields) : (toE d).map (fun kv => (kv.1, eToJ kv.2)) = d := by
  induction d with
  | nil => rfl
  | cons a t ih => obtain ⟨k, v⟩ := a; simp only [toE, List.map_cons, eToJ] at ih ⊢; rw [ih]

theorem toE_keys_ne (d : Fields) (k : Str) (h : k ∉ dkeys d) : ∀ kv ∈ toE d, kv.1 ≠ k := by
  intro kv hkv e
  obtain ⟨p, hp, rfl⟩ := List.mem_map.mp hkv
  exact h (by rw [← e]; exact List.mem_map_of_mem (f := Prod.fst) hp)

theorem dpop_absent {β : Type} (k : Str) (l : List (Str × β)) (h : k ∉ dkeys l) : dpop k l = l := by
  induction l with
  | nil => rfl
  | cons x t ih =>
    obtain ⟨k', v⟩ := x
    have hk : ¬ k' = k := fun e => h (by simp [dkeys, e])
    simp only [dpop, hk, if_false, ih (fun hm => h (by simp only [dkeys, List.map_cons, List.mem_cons]; exact Or.inr hm))]

theorem dkeys_toE (d : Fields) : dkeys (toE d) = dkeys d := by
  simp [dkeys, toE, List.map_map, Function.comp_def]

theorem recordFromDoc_with_id (a : EVal) (b : Fields) (hU : kUid ∉ dkeys b) (hI : kId ∉ dkeys b) :
    recordFromDoc ((kUid, a) :: toE b) = b ++ [(kId, eToJ a)] := by
  simp only [recordFromDoc, dget, if_true, dpop]
  rw [toE_back, dset_of_not_mem kId _ _ hI]

theorem recordFromDoc_no_id (b : Fields) (hU : kUid ∉ dkeys b) : recordFromDoc (toE b) = b := by
  have : dget kUid (toE b) = none := by rw [dget_none_iff, dkeys_toE]; exact hU
  simp only [recordFromDoc, this]
  exact toE_back b

theorem eProject_spec (p : List (Str × Nat)) (flag : Bool) (pred : Str → Bool)
    (hU : (dget kUid p != some 0) = flag) (hK : ∀ k, k ≠ kUid → (dget k p == some 1) = pred k)
    (a : EVal) (body : Fields) (hb : kUid ∉ dkeys body) :
    eProject (some p) ((kUid, a) :: toE body) =
      (if flag then [(kUid, a)] else []) ++ toE (body.filter (fun kv => pred kv.1)) := by
  have htail : ∀ l : Fields, kUid ∉ dkeys l →
      (toE l).filter (fun kv => if kv.1 = kUid then dget kUid p != some 0 else dget kv.1 p == some 1)
        = toE (l.filter (fun kv => pred kv.1)) := by
    intro l hl
    induction l with
    | nil => rfl
    | cons x t ih =>
      obtain ⟨k, v⟩ := x
      have hk : k ≠ kUid := fun e => hl (by simp [dkeys, e])
      have iht := ih (fun hm => hl (by simp only [dkeys, List.map_cons, List.mem_cons]; exact Or.inr hm))
      simp only [toE, List.map_cons, List.filter_cons, hk, if_false, hK k hk] at iht ⊢
      cases pred k <;> simp [iht]
  have hhead : (if (kUid, a).1 = kUid then dget kUid p != some 0 else dget (kUid, a).1 p == some 1) = flag := by
    simp only [if_true]; exact hU
  unfold eProject
  simp only
  rw [List.filter_cons, htail body hb, hhead]
  cases flag <;> rfl

/-- projection on the engine, then `_query_gen_wrapper`, is the reference projection (with the id last) -/
theorem project_docs (fields : Option (List Str)) (hne : fields ≠ some []) (hu : ∀ fs, fields = some fs → kUid ∉ fs)
    (d : Fields) (hd : MRecOK d) :
    recordFromDoc (eProject (projToDb fields) (docOf d)) = normRec (project fields d) := by
  obtain ⟨a, ha, hja⟩ := idV_str (recId d)
  have hbodyU : kUid ∉ dkeys (dpop kId d) := fun h => hd.nouid ((dkeys_dpop_sublist kId d).subset h)
  have hbodyI : kId ∉ dkeys (dpop kId d) := not_mem_dkeys_dpop kId d hd.nd
  have hdoc : docOf d = (kUid, a) :: toE (dpop kId d) := by simp [docOf, ha]
  have hnorm : normRec d = dpop kId d ++ [(kId, .str (recId d))] := by simp [normRec, hd.id]
  cases fields with
  | none =>
    simp only [projToDb, eProject, project]
    rw [hdoc, recordFromDoc_with_id a _ hbodyU hbodyI, hnorm, hja]
  | some fs =>
    have hUfs : kUid ∉ fs := hu fs rfl
    have hproj : projToDb (some fs) =
        some (dset kUid (if fs.contains kId then 1 else 0) (fs.foldl (fun acc f => dset f 1 acc) [])) := by
      cases fs with
      | nil => exact absurd rfl hne
      | cons f0 ft => rfl
    have hpU : (dget kUid (dset kUid (if fs.contains kId then 1 else 0) (fs.foldl (fun acc f => dset f 1 acc) []))
        != some 0) = fs.contains kId := by
      rw [dget_dset_self]
      cases fs.contains kId <;> decide
    have hpK : ∀ k, k ≠ kUid →
        (dget k (dset kUid (if fs.contains kId then 1 else 0) (fs.foldl (fun acc f => dset f 1 acc) [])) == some 1)
          = fs.contains k := by
      intro k hk
      rw [dget_dset_ne k kUid _ _ hk, dget_foldl_dset]
      by_cases hm : k ∈ fs
      · simp [hm]
      · simp [hm, dget]
    have hb'U : kUid ∉ dkeys ((dpop kId d).filter (fun kv => fs.contains kv.1)) :=
      fun h => hbodyU ((List.filter_sublist.map Prod.fst).subset h)
    have hb'I : kId ∉ dkeys ((dpop kId d).filter (fun kv => fs.contains kv.1)) :=
      fun h => hbodyI ((List.filter_sublist.map Prod.fst).subset h)
    have hrhs : normRec (project (some fs) d) = (dpop kId d).filter (fun kv => fs.contains kv.1) ++
        (if fs.contains kId then [(kId, JVal.str (recId d))] else []) := by
      rw [← project_normRec, hnorm]
      simp only [project, List.filter_append, List.filter_cons, List.filter_nil]
    rw [hrhs, hdoc, hproj, eProject_spec _ (fs.contains kId) (fun k => fs.contains k) hpU hpK a _ hbodyU]
    cases hc : fs.contains kId with
    | true =>
      show recordFromDoc ((kUid, a) :: toE _) = _ ++ [(kId, JVal.str (recId d))]
      rw [recordFromDoc_with_id a _ hb'U hb'I, hja]
    | false =>
      show recordFromDoc (toE _) = _ ++ []
      rw [recordFromDoc_no_id _ hb'U, List.append_nil]


/-! ### the driver over the engine refines the reference store -/

def MCollOK (c : Coll) : Prop := c.ids.Nodup ∧ ∀ d ∈ c, MRecOK d

/-- the engine holds, for every collection, the documents of the reference store's records, in order -/
def RelM (ms : MState) (rs : RefState) : Prop :=
  ∀ coll, (aget [] coll ms : List EDoc) = (aget [] coll rs : Coll).map docOf ∧ MCollOK (aget [] coll rs)

theorem idV_total (v : JVal) : ∃ e, idV Fix.repaired v = some e := by
  cases v with
  | str s => obtain ⟨e, he, _⟩ := idV_str s; exact ⟨e, he⟩
  | _ => exact ⟨_, rfl⟩

theorem idVs_total (l : List JVal) : ∃ r, idVs Fix.repaired l = some r := by
  induction l with
  | nil => exact ⟨[], rfl⟩
  | cons x t ih =>
    obtain ⟨e, he⟩ := idV_total x
    obtain ⟨r, hr⟩ := ih
    exact ⟨e :: r, by simp [idVs, he, hr]⟩

theorem plainConds_total (filt : Fields) (h : filtOk filt = true) : ∃ ef, plainConds filt = some ef := by
  induction filt with
  | nil => exact ⟨[], rfl⟩
  | cons a t ih =>
    obtain ⟨k, c⟩ := a
    simp only [filtOk, List.all_cons, Bool.and_eq_true] at h
    obtain ⟨r, hr⟩ := ih (by simpa [filtOk] using h.2)
    have hc : ∃ e, plainCond c = some e := by
      cases c with
      | obj ops =>
        have hops : ∃ l, plainOps ops = some l := by
          have hco := h.1
          simp only [condOk] at hco
          clear h hr ih
          induction ops with
          | nil => exact ⟨[], rfl⟩
          | cons x u ihu =>
            obtain ⟨op, w⟩ := x
            simp only [List.all_cons, Bool.and_eq_true] at hco
            obtain ⟨l, hl⟩ := ihu hco.2
            have hn : ∃ name, opTable op = some name := by
              have h1 := hco.1
              by_cases e1 : op = opIn
              · subst e1; exact ⟨dIn, by decide⟩
              · simp only [e1, if_false, Bool.or_eq_true, decide_eq_true_eq] at h1
                rcases h1 with ((e | e) | e) | e
                · subst e; exact ⟨dGt, by decide⟩
                · subst e; exact ⟨dGte, by decide⟩
                · subst e; exact ⟨dLt, by decide⟩
                · subst e; exact ⟨dLte, by decide⟩
            obtain ⟨name, hname⟩ := hn
            exact ⟨(name, .one (.j w)) :: l, by simp [plainOps, hname, hl]⟩
        obtain ⟨l, hl⟩ := hops
        exact ⟨.ops l, by simp [plainCond, hl]⟩
      | _ => exact ⟨_, rfl⟩
    obtain ⟨e, he⟩ := hc
    exact ⟨(k, e) :: r, by simp [plainConds, he, hr]⟩

theorem filtOk_dpop (k : Str) (filt : Fields) (h : filtOk filt = true) : filtOk (dpop k filt) = true := by
  simp only [filtOk, List.all_eq_true] at h ⊢
  intro kc hkc
  exact h kc (dpop_mem k filt kc hkc)

theorem filtToDb_total (filt : Fields) (h : filtOk filt = true) (hf : MFiltOK filt) :
    ∃ ef, filtToDb Fix.repaired filt = some ef := by
  unfold filtToDb
  cases hid : dget kId filt with
  | none => exact plainConds_total filt h
  | some c =>
    obtain ⟨r, hr⟩ := plainConds_total (dpop kId filt) (filtOk_dpop kId filt h)
    have hic : ∃ e, idCond Fix.repaired c = some e := by
      have hok := hf.idc c hid
      cases c with
      | obj ops =>
        have : ∃ l, idOps Fix.repaired ops = some l := by
          simp only [IdCondOK] at hok
          clear hid
          induction ops with
          | nil => exact ⟨[], rfl⟩
          | cons x u ihu =>
            obtain ⟨op, w⟩ := x
            obtain ⟨hop, lw, hw⟩ := hok (op, w) (by simp)
            simp only at hop hw
            subst hop; subst hw
            obtain ⟨l, hl⟩ := ihu (fun ow how => hok ow (by simp [how]))
            obtain ⟨lw', hlw⟩ := idVs_total lw
            exact ⟨(dIn, .many lw') :: l, by simp [idOps, hlw, hl, show opTable opIn = some dIn by decide]⟩
        obtain ⟨l, hl⟩ := this
        exact ⟨.ops l, by simp [idCond, hl]⟩
      | arr l => exact absurd hok (by simp [IdCondOK])
      | null => obtain ⟨e, he⟩ := idV_total .null; exact ⟨.eq e, by simp [idCond, he]⟩
      | bool v => obtain ⟨e, he⟩ := idV_total (.bool v); exact ⟨.eq e, by simp [idCond, he]⟩
      | int v => obtain ⟨e, he⟩ := idV_total (.int v); exact ⟨.eq e, by simp [idCond, he]⟩
      | num v => obtain ⟨e, he⟩ := idV_total (.num v); exact ⟨.eq e, by simp [idCond, he]⟩
      | str v => obtain ⟨e, he⟩ := idV_total (.str v); exact ⟨.eq e, by simp [idCond, he]⟩
      | date v w => obtain ⟨e, he⟩ := idV_total (.date v w); exact ⟨.eq e, by simp [idCond, he]⟩
    obtain ⟨e, he⟩ := hic
    exact ⟨r ++ [(kUid, e)], by simp [he, hr]⟩

/-- the queries the contract lets a caller put to the Mongo driver (outside the recorded engine classes) -/
structure MQueryOK (fields : Option (List Str)) (filt : Fields) (sort : List (Str × Bool)) (limit : Option Nat) : Prop where
  filt : MFiltOK filt
  sort : ∀ fr ∈ sort, fr.1 ≠ kUid ∧ fr.1 ≠ kId
  limit : limit ≠ some 0
  fields : fields ≠ some [] ∧ ∀ fs, fields = some fs → kUid ∉ fs

theorem sortToDb_isEmpty (sort : List (Str × Bool)) : (sortToDb sort).isEmpty = sort.isEmpty := by
  cases sort <;> rfl

theorem eLimit_map (limit : Option Nat) (h : limit ≠ some 0) (l : List Fields) :
    eLimit limit (l.map docOf) = (applyLimit limit l).map docOf := by
  cases limit with
  | none => rfl
  | some n =>
    cases n with
    | zero => exact absurd rfl h
    | succ m => simp [eLimit, applyLimit, List.map_take]

/-- **`mongo_xlate_sound` for queries**: the translated query on the engine answers what the reference store
answers (same records, same order, the id last in every record). -/
theorem mongo_query_sound (ms : MState) (rs : RefState) (hrel : RelM ms rs) (gen : List Nat) (coll : Str)
    (fields : Option (List Str)) (filt : Fields) (sort : List (Str × Bool)) (limit : Option Nat)
    (hq : MQueryOK fields filt sort limit) :
    let mr := Mongo.step Fix.repaired ms gen (.query coll fields filt sort limit)
    let rr := Ref.step rs [] (.query coll fields filt sort limit)
    (∃ e, rr.2 = .err e) ∨ (mr.2 = normRes rr.2 ∧ RelM mr.1 rr.1) := by
  obtain ⟨hdocs, hcok⟩ := hrel coll
  by_cases hfo' : ¬ filtOk filt = true
  · left; simp [Ref.step, hfo']
  have hfo : filtOk filt = true := by simpa using hfo'
  cases hmR : matchAll filt (aget [] coll rs : Coll) with
  | none => left; simp [Ref.step, hfo, hmR]
  | some bs =>
    cases hs : lexSort sort (selectBy (aget [] coll rs : Coll) bs) with
    | none => left; simp [Ref.step, hfo, hmR, hs]
    | some sorted =>
      right
      obtain ⟨ef, hef⟩ := filtToDb_total filt hfo hq.filt
      have hsorted : sorted = isort (lexLt sortKeyR sort) (selectBy (aget [] coll rs : Coll) bs) := by
        unfold lexSort at hs
        split at hs
        · injection hs with hs; exact hs.symm
        · cases hs
      have hfilt := (filter_docs filt hq.filt ef hef (aget [] coll rs) bs hcok.2 hmR).1
      have hX : (if (sortToDb sort).isEmpty then ((aget [] coll rs : Coll).map docOf).filter (eMatches · ef)
          else eSort (sortToDb sort) (((aget [] coll rs : Coll).map docOf).filter (eMatches · ef))) = sorted.map docOf := by
        rw [hfilt, sortToDb_isEmpty, hsorted]
        cases sort with
        | nil => simp [lexLt_nil, isort_false]
        | cons x t =>
          simp only [List.isEmpty_cons, Bool.false_eq_true, if_false]
          exact eSort_docs _ hq.sort _
      have hmem : ∀ d ∈ applyLimit limit sorted, MRecOK d := by
        intro d hd
        have h1 : d ∈ sorted := by
          cases limit with
          | none => exact hd
          | some n => exact List.mem_of_mem_take hd
        rw [hsorted] at h1
        exact hcok.2 d ((selectBy_sublist _ _).subset ((isort_perm _ _).mem_iff.mp h1))
      simp only [Mongo.step, Ref.step, hfo, hmR, hs, hef, hdocs, eFind, hX, eLimit_map limit hq.limit, Bool.not_true,
        Bool.false_eq_true, if_false, normRes, List.map_map]
      refine ⟨?_, hrel⟩
      congr 1
      apply List.map_congr_left
      intro d hd
      exact project_docs fields hq.fields.1 hq.fields.2 d (hmem d hd)


/-! ### remove, update, replace, insert -/

theorem RelM.aset {ms : MState} {rs : RefState} (h : RelM ms rs) (coll : Str) (c : Coll) (hc : MCollOK c) :
    RelM (Store.aset coll (c.map docOf) ms) (Store.aset coll c rs) := by
  intro k
  rw [aget_aset, aget_aset]
  by_cases e : k = coll
  · simp [e, hc]
  · simp [e, h k]

theorem MCollOK.sub {c c' : Coll} (h : MCollOK c) (hs : c'.Sublist c) : MCollOK c' :=
  ⟨h.1.sublist (hs.map recId), fun d hd => h.2 d (hs.subset hd)⟩

theorem mongo_remove_sound (ms : MState) (rs : RefState) (hrel : RelM ms rs) (gen : List Nat) (coll : Str) (filt : Fields)
    (hf : MFiltOK filt) :
    let mr := Mongo.step Fix.repaired ms gen (.remove coll filt)
    let rr := Ref.step rs [] (.remove coll filt)
    (∃ e, rr.2 = .err e) ∨ (mr.2 = rr.2 ∧ RelM mr.1 rr.1) := by
  obtain ⟨hdocs, hcok⟩ := hrel coll
  by_cases hfo' : ¬ filtOk filt = true
  · left; simp [Ref.step, hfo']
  have hfo : filtOk filt = true := by simpa using hfo'
  cases hmR : matchAll filt (aget [] coll rs : Coll) with
  | none => left; simp [Ref.step, hfo, hmR]
  | some bs =>
    right
    obtain ⟨ef, hef⟩ := filtToDb_total filt hfo hf
    obtain ⟨h1, h2⟩ := filter_docs filt hf ef hef (aget [] coll rs) bs hcok.2 hmR
    have hlen := selectBy_length (aget [] coll rs : Coll) bs (matchAll_length filt _ bs hmR)
    simp only [Mongo.step, Ref.step, hfo, hmR, hef, hdocs, h1, h2, List.length_map, hlen, Bool.not_true,
      Bool.false_eq_true, if_false]
    exact ⟨trivial, hrel.aset coll _ (hcok.sub (selectBy_sublist _ _))⟩

theorem toE_eq_mapVals (d : Fields) : toE d = mapVals EVal.j d := rfl

theorem dupdate_cons_head {β : Type} (k : Str) (v : β) (t set : List (Str × β)) (h : k ∉ dkeys set) :
    dupdate ((k, v) :: t) set = (k, v) :: dupdate t set := by
  induction set generalizing t with
  | nil => rfl
  | cons x u ih =>
    obtain ⟨k', v'⟩ := x
    have hk : ¬ k = k' := fun e => h (by simp [dkeys, e])
    show dupdate (dset k' v' ((k, v) :: t)) u = (k, v) :: dupdate (dset k' v' t) u
    simp only [dset, hk, if_false]
    exact ih _ (fun hm => h (by simp only [dkeys, List.map_cons, List.mem_cons]; exact Or.inr hm))

theorem dkeys_dupdate_subset {β : Type} (d set : List (Str × β)) (k : Str) (h : k ∈ dkeys (dupdate d set)) :
    k ∈ dkeys d ∨ k ∈ dkeys set := by
  obtain ⟨p, hp, hk⟩ := List.mem_map.mp h
  rcases mem_dupdate d set p hp with e | e
  · exact Or.inl (by rw [← hk]; exact List.mem_map_of_mem (f := Prod.fst) e)
  · exact Or.inr (by rw [← hk]; exact List.mem_map_of_mem (f := Prod.fst) e)

/-- `$set` of the translated part on the document of a record is the document of the updated record -/
theorem docOf_dupdate (d part : Fields) (hd : MRecOK d) (hp : dget kId part = none) (hu : kUid ∉ dkeys part) :
    dupdate (docOf d) (toE part) = docOf (dupdate d part) ∧ MRecOK (dupdate d part) ∧ recId (dupdate d part) = recId d := by
  have hid : dget kId (dupdate d part) = some (.str (recId d)) := by rw [dget_dupdate_of_none kId d part hp]; exact hd.id
  have hr : recId (dupdate d part) = recId d := recId_of _ _ hid
  refine ⟨?_, ⟨by rw [hr]; exact hid, nodup_dkeys_dupdate d part hd.nd, ?_⟩, hr⟩
  · simp only [docOf, hr]
    rw [dupdate_cons_head kUid _ _ _ (by rw [dkeys_toE]; exact hu), dpop_dupdate kId d part hp,
      toE_eq_mapVals, toE_eq_mapVals, toE_eq_mapVals, dupdate_mapVals]
  · intro h
    rcases dkeys_dupdate_subset d part kUid h with e | e
    · exact hd.nouid e
    · exact hu e

theorem updRecs_docs (part : Fields) (hp : dget kId part = none) (hu : kUid ∉ dkeys part) (ef : EFilt) (filt : Fields)
    (hf : MFiltOK filt) (he : filtToDb Fix.repaired filt = some ef) :
    ∀ (c : Coll) (bs : List Bool), (∀ d ∈ c, MRecOK d) → matchAll filt c = some bs →
      (c.map docOf).map (fun d => if eMatches d ef then dupdate d (toE part) else d) = (Ref.updRecs part c bs).map docOf ∧
      (∀ d ∈ Ref.updRecs part c bs, MRecOK d) ∧ (Ref.updRecs part c bs).map recId = c.map recId := by
  intro c
  induction c with
  | nil => intro bs _ h; simp only [matchAll, Option.some.injEq] at h; subst h; simp [Ref.updRecs]
  | cons d t ih =>
    intro bs hok hm
    obtain ⟨b, bs', rfl, hb, hm'⟩ := matchAll_cons hm
    have hdok := hok d (by simp)
    have hx := xlate_matches d hdok filt hf ef he b hb
    obtain ⟨i1, i2, i3⟩ := ih bs' (fun x hx => hok x (by simp [hx])) hm'
    obtain ⟨u1, u2, u3⟩ := docOf_dupdate d part hdok hp hu
    cases b with
    | false =>
      simp only [List.map_cons, hx, Bool.false_eq_true, if_false, Ref.updRecs, i1, i3]
      refine ⟨trivial, ?_, trivial⟩
      intro x hxm
      rcases List.mem_cons.mp hxm with e | e
      · rw [e]; exact hdok
      · exact i2 x e
    | true =>
      simp only [List.map_cons, hx, if_true, Ref.updRecs, i1, i3, u1, u3]
      refine ⟨trivial, ?_, trivial⟩
      intro x hxm
      rcases List.mem_cons.mp hxm with e | e
      · rw [e]; exact u2
      · exact i2 x e

/-- update: the engine ends in the state of the reference store; the driver reports the engine's
`modified_count`, which never exceeds the number of matching records the reference store reports
(recorded finding C06-mongo-update-modified-count) -/
theorem mongo_update_sound (ms : MState) (rs : RefState) (hrel : RelM ms rs) (gen : List Nat) (coll : Str)
    (part filt : Fields) (hf : MFiltOK filt) (hu : kUid ∉ dkeys part) :
    let mr := Mongo.step Fix.repaired ms gen (.update coll part filt)
    let rr := Ref.step rs [] (.update coll part filt)
    (∃ e, rr.2 = .err e) ∨ ((∃ m n, mr.2 = .count m ∧ rr.2 = .count n ∧ m ≤ n) ∧ RelM mr.1 rr.1) := by
  obtain ⟨hdocs, hcok⟩ := hrel coll
  by_cases hp : (dget kId part).isSome = true
  · left; simp [Ref.step, hp]
  have hp' : dget kId part = none := by
    cases h : dget kId part with
    | none => rfl
    | some v => rw [h] at hp; simp at hp
  by_cases hfo' : ¬ filtOk filt = true
  · left; simp [Ref.step, hp', hfo']
  have hfo : filtOk filt = true := by simpa using hfo'
  cases hmR : matchAll filt (aget [] coll rs : Coll) with
  | none => left; simp [Ref.step, hp', hfo, hmR]
  | some bs =>
    right
    obtain ⟨ef, hef⟩ := filtToDb_total filt hfo hf
    obtain ⟨h1, h2, h3⟩ := updRecs_docs part hp' hu ef filt hf hef (aget [] coll rs) bs hcok.2 hmR
    have hset : recordToDoc Fix.repaired part = some (toE part) := by simp [recordToDoc, hp']
    simp only [Mongo.step, Ref.step, hset, hef, hdocs, h1, hp', hfo, hmR, Option.isSome_none, Bool.false_eq_true,
      if_false, Bool.not_true]
    refine ⟨⟨_, _, rfl, rfl, ?_⟩, hrel.aset coll _ ⟨by show (List.map recId _).Nodup; rw [h3]; exact hcok.1, h2⟩⟩
    have hfl := (filter_docs filt hf ef hef (aget [] coll rs) bs hcok.2 hmR).1
    have hlen := selectBy_length (aget [] coll rs : Coll) bs (matchAll_length filt _ bs hmR)
    calc _ ≤ (((aget [] coll rs : Coll).map docOf).filter (eMatches · ef)).length := by
            rw [← List.filter_filter]
            exact (List.Sublist.filter _ List.filter_sublist).length_le
      _ = countTrue bs := by rw [hfl, List.length_map, hlen]


theorem RelM.aset_left {ms : MState} {rs : RefState} (h : RelM ms rs) (coll : Str) :
    RelM (Store.aset coll ((aget [] coll rs : Coll).map docOf) ms) rs := by
  intro k
  rw [aget_aset]
  by_cases e : k = coll
  · subst e; simp [(h k).2]
  · simp [e, h k]

/-- on the engine, `{"_id": <mapped id>}` selects the record with that id -/
theorem eMatches_uid (d : Fields) (id : Str) (e : EVal) (he : idV Fix.repaired (.str id) = some e) :
    eMatches (docOf d) [(kUid, .eq e)] = (recId d == id) := by
  obtain ⟨a, ha, hda⟩ := dget_docOf_uid d
  simp only [eMatches, List.all_cons, List.all_nil, Bool.and_true, hda, eCondHolds]
  exact eToJ_inj_on_ids a e (recId d) id ha he

theorem replace_docs (id : Str) (e : EVal) (he : idV Fix.repaired (.str id) = some e) (dnew : Fields) :
    ∀ (c : Coll), (c.map recId).Nodup →
      (c.map docOf).map (fun x => if eMatches x [(kUid, .eq e)] then docOf dnew else x) = (Ref.replaceRec id dnew c).map docOf ∧
      (c.map docOf).any (fun x => eMatches x [(kUid, .eq e)]) = (c.map recId).contains id := by
  intro c
  induction c with
  | nil => intro _; simp [Ref.replaceRec]
  | cons d t ih =>
    intro nd
    simp only [List.map_cons, List.nodup_cons] at nd
    obtain ⟨i1, i2⟩ := ih nd.2
    by_cases hd : recId d = id
    · have hm : eMatches (docOf d) [(kUid, .eq e)] = true := by rw [eMatches_uid d id e he]; simp [hd]
      have hnone : ∀ x ∈ t, eMatches (docOf x) [(kUid, .eq e)] = false := by
        intro x hx
        rw [eMatches_uid x id e he]
        have : recId x ≠ id := fun e' => nd.1 (by rw [hd, ← e']; exact List.mem_map_of_mem (f := recId) hx)
        simpa using this
      have htail : (t.map docOf).map (fun x => if eMatches x [(kUid, .eq e)] then docOf dnew else x) = t.map docOf := by
        rw [List.map_map]
        apply List.map_congr_left
        intro x hx
        simp [hnone x hx]
      simp only [List.map_cons, hm, if_true, Ref.replaceRec, hd, htail, List.any_cons, Bool.true_or,
        List.contains_cons, beq_self_eq_true]
      exact ⟨trivial, by simp⟩
    · have hm : eMatches (docOf d) [(kUid, .eq e)] = false := by rw [eMatches_uid d id e he]; simpa using hd
      have hne : (id == recId d) = false := by simpa using fun e' : id = recId d => hd e'.symm
      simp only [List.map_cons, hm, Bool.false_eq_true, if_false, Ref.replaceRec, hd, i1, List.any_cons, Bool.false_or, i2,
        List.contains_cons, hne]
      exact ⟨trivial, trivial⟩

/-- the records the contract lets a caller hand to the Mongo driver: distinct keys, no "_id" field -/
structure MRecIn (rec : Fields) : Prop where
  nd : (dkeys rec).Nodup
  nouid : kUid ∉ dkeys rec

theorem docOf_new (rec : Fields) (i : Str) (hr : MRecIn rec) (e : EVal) (he : idV Fix.repaired (.str i) = some e) :
    docOf (dset kId (.str i) rec) = (kUid, e) :: toE (dpop kId rec) ∧ MRecOK (dset kId (.str i) rec) ∧
      recId (dset kId (.str i) rec) = i := by
  have hid : dget kId (dset kId (.str i) rec) = some (.str i) := dget_dset_self _ _ _
  have hri : recId (dset kId (.str i) rec) = i := recId_of _ _ hid
  refine ⟨by simp [docOf, hri, he, dpop_dset_self], ⟨by rw [hri]; exact hid, nodup_dkeys_dset _ _ _ hr.nd, ?_⟩, hri⟩
  rw [dkeys_dset]
  split
  · exact hr.nouid
  · intro h
    simp only [List.mem_append, List.mem_singleton] at h
    rcases h with h | h
    · exact hr.nouid h
    · exact kUid_ne_kId h

theorem mongo_replace_sound (ms : MState) (rs : RefState) (hrel : RelM ms rs) (gen : List Nat) (coll id : Str)
    (rec : Fields) (hr : MRecIn rec) (hnoid : kId ∉ dkeys rec) :
    let mr := Mongo.step Fix.repaired ms gen (.replace coll id rec)
    let rr := Ref.step rs [] (.replace coll id rec)
    mr.2 = rr.2 ∧ RelM mr.1 rr.1 := by
  obtain ⟨hdocs, hcok⟩ := hrel coll
  obtain ⟨e, he, _⟩ := idV_str id
  obtain ⟨hdoc, hok, hid⟩ := docOf_new rec id hr e he
  have hdoc' : (kUid, e) :: toE (dpop kUid rec) = docOf (dset kId (.str id) rec) := by
    rw [hdoc, dpop_absent kUid rec hr.nouid, dpop_absent kId rec hnoid]
  obtain ⟨r1, r2⟩ := replace_docs id e he (dset kId (.str id) rec) (aget [] coll rs) hcok.1
  by_cases hm : id ∈ (aget [] coll rs : Coll).ids
  · have hc : (aget [] coll rs : Coll).ids.contains id = true := contains_iff.mpr hm
    have hc' : (List.map recId (aget [] coll rs)).contains id = true := hc
    simp only [Mongo.step, Ref.step, he, hdocs, hdoc', r1, r2, hc, hc', if_true]
    refine ⟨trivial, hrel.aset coll _ ⟨?_, ?_⟩⟩
    · rw [replaceRec_ids id _ _ hid]; exact hcok.1
    · intro d hd
      rcases mem_replaceRec id _ _ hcok.1 d hd with e' | e'
      · rw [e']; exact hok
      · exact hcok.2 d e'.1
  · have hc : (aget [] coll rs : Coll).ids.contains id = false := contains_false_iff.mpr hm
    have hc' : (List.map recId (aget [] coll rs)).contains id = false := hc
    have hsame : Ref.replaceRec id (dset kId (.str id) rec) (aget [] coll rs) = aget [] coll rs := by
      clear r1 r2 hdocs hc hc'
      generalize (aget [] coll rs : Coll) = c at hm
      induction c with
      | nil => rfl
      | cons d t ih =>
        simp only [Coll.ids, List.map_cons, List.mem_cons, not_or] at hm
        have : ¬ recId d = id := fun e' => hm.1 e'.symm
        simp only [Ref.replaceRec, this, if_false]
        rw [ih hm.2]
    simp only [Mongo.step, Ref.step, he, hdocs, hdoc', r1, r2, hc, hc', hsame, Bool.false_eq_true, if_false]
    exact ⟨trivial, hrel.aset_left coll⟩


/-! ### insert -/

theorem isLowerHex_hexDigit (d : Nat) (h : d < 16) : isLowerHex (hexDigit d) = true := by
  unfold isLowerHex hexDigit
  split <;> simp <;> omega

theorem bytesHex_spec : ∀ (b : List Nat), (bytesHex b).all isLowerHex = true ∧ (bytesHex b).length = 2 * b.length ∧
    ((∀ x ∈ b, x < 256) → hexBytes (bytesHex b) = some b) := by
  intro b
  induction b with
  | nil => exact ⟨rfl, rfl, fun _ => rfl⟩
  | cons x t ih =>
    obtain ⟨h1, h2, h3⟩ := ih
    refine ⟨?_, ?_, ?_⟩
    · simp only [bytesHex, List.all_cons, h1, isLowerHex_hexDigit _ (Nat.mod_lt _ (by decide : 0 < 16)), Bool.and_true]
    · simp only [bytesHex, List.length_cons, h2]; omega
    · intro hb
      have hx := hb x (by simp)
      simp only [bytesHex, hexBytes, hexVal_hexDigit _ (Nat.mod_lt _ (by decide : 0 < 16)),
        h3 (fun y hy => hb y (by simp [hy]))]
      have : x / 16 % 16 * 16 + x % 16 = x := by omega
      rw [this]

/-- an ObjectId as the engine generates them: twelve bytes -/
def GenOK (gen : List Nat) : Prop := gen.length = 12 ∧ ∀ x ∈ gen, x < 256

theorem idV_gen (gen : List Nat) (h : GenOK gen) : idV Fix.repaired (.str (bytesHex gen)) = some (.oid gen) := by
  obtain ⟨h1, h2, h3⟩ := bytesHex_spec gen
  have hlen : (bytesHex gen).length = 24 := by rw [h2, h.1]
  have ho : isOidText Fix.repaired (bytesHex gen) = true := by simp [isOidText, hlen, h1]
  simp [idV, idToDb, ho, hlen, h3 h.2]

theorem any_uid_docs (e : EVal) (c : Coll) :
    hasUid e (c.map docOf) =
      c.any (fun d => match idV Fix.repaired (.str (recId d)) with | some a => deq a e | none => false) := by
  unfold hasUid
  induction c with
  | nil => rfl
  | cons d t ih =>
    obtain ⟨a, ha, hda⟩ := dget_docOf_uid d
    simp only [List.map_cons, List.any_cons, hda, ha, ih]

/-- what `insert` may be given: a record for the driver, whose "id" is absent or a string -/
structure MInsertOK (rec : Fields) : Prop where
  ok : MRecIn rec
  idok : dget kId rec = none ∨ ∃ i, dget kId rec = some (.str i)

theorem mongo_insert_sound (ms : MState) (rs : RefState) (hrel : RelM ms rs) (gen : List Nat) (coll : Str) (rec : Fields)
    (hin : MInsertOK rec) (hgen : GenOK gen)
    (hfresh : ∀ d ∈ (aget [] coll rs : Coll), idV Fix.repaired (.str (recId d)) ≠ some (.oid gen)) :
    let mr := Mongo.step Fix.repaired ms gen (.insert coll rec)
    let rr := Ref.step rs (match mr.2 with | .id n => n | _ => []) (.insert coll rec)
    rr.2 ≠ .err .notFresh ∧ ((∃ e, rr.2 = .err e) ∨ (mr.2 = rr.2 ∧ RelM mr.1 rr.1)) := by
  obtain ⟨hdocs, hcok⟩ := hrel coll
  have hUtoE : ∀ l : Fields, kUid ∉ dkeys l → dget kUid (toE l) = none := by
    intro l hl; rw [dget_none_iff, dkeys_toE]; exact hl
  rcases hin.idok with hnone | ⟨i, hsome⟩
  · -- the engine names the document
    have hdoc : recordToDoc Fix.repaired rec = some (toE rec) := by simp [recordToDoc, hnone]
    have hgv := idV_gen gen hgen
    have hnodup : hasUid (.oid gen) ((aget [] coll rs : Coll).map docOf) = false := by
      rw [any_uid_docs, List.any_eq_false]
      intro d hd
      obtain ⟨a, ha, _⟩ := idV_str (recId d)
      rw [ha]
      have hne : a ≠ .oid gen := fun e => hfresh d hd (by rw [ha, e])
      cases a with
      | j v => simp [deq]
      | oid b => simp only [deq, beq_iff_eq, Bool.not_eq_true]; exact fun e => hne (by rw [e])
    have hname : bytesHex gen ∉ (aget [] coll rs : Coll).ids := by
      intro hm
      obtain ⟨d, hd, hrd⟩ := List.mem_map.mp hm
      exact hfresh d hd (by rw [hrd]; exact hgv)
    have hcf : (aget [] coll rs : Coll).ids.contains (bytesHex gen) = false := contains_false_iff.mpr hname
    obtain ⟨hnew, hok, hid⟩ := docOf_new rec (bytesHex gen) hin.ok (.oid gen) hgv
    have hbody : dpop kId rec = rec := dpop_absent kId rec ((dget_none_iff kId rec).mp hnone)
    simp only [Mongo.step, Ref.step, hdoc, hUtoE rec hin.ok.nouid, hdocs, dget, if_true, hnodup, Bool.false_eq_true,
      if_false, idOfE, eToJ, hnone, hcf]
    refine ⟨by simp, Or.inr ⟨trivial, ?_⟩⟩
    have : (aget [] coll rs : Coll).map docOf ++ [(kUid, EVal.oid gen) :: toE rec]
        = ((aget [] coll rs : Coll) ++ [dset kId (.str (bytesHex gen)) rec]).map docOf := by
      rw [List.map_append, List.map_cons, List.map_nil, hnew, hbody]
    rw [this]
    refine hrel.aset coll _ ⟨?_, ?_⟩
    · simp only [Coll.ids, List.map_append, List.map_cons, List.map_nil, hid]
      rw [List.nodup_append]
      refine ⟨hcok.1, by simp, ?_⟩
      intro a ha b hb
      simp only [List.mem_singleton] at hb
      subst hb
      intro e; subst e; exact hname ha
    · intro d hd
      rcases List.mem_append.mp hd with e | e
      · exact hcok.2 d e
      · simp only [List.mem_singleton] at e; rw [e]; exact hok
  · -- an explicit id
    obtain ⟨e, he, hje⟩ := idV_str i
    have hbodyU : kUid ∉ dkeys (dpop kId rec) := fun h => hin.ok.nouid ((dkeys_dpop_sublist kId rec).subset h)
    have hdoc : recordToDoc Fix.repaired rec = some (toE (dpop kId rec) ++ [(kUid, e)]) := by
      simp only [recordToDoc, hsome, he, Option.map_some]
      rw [dset_of_not_mem kUid e _ (by rw [dkeys_toE]; exact hbodyU)]
    have hget : dget kUid (toE (dpop kId rec) ++ [(kUid, e)]) = some e := by
      rw [← dset_of_not_mem kUid e _ (by rw [dkeys_toE]; exact hbodyU)]; exact dget_dset_self _ _ _
    have hnorm : eNormDoc (toE (dpop kId rec) ++ [(kUid, e)]) = (kUid, e) :: toE (dpop kId rec) := by
      simp only [eNormDoc, hget]
      rw [← dset_of_not_mem kUid e _ (by rw [dkeys_toE]; exact hbodyU), dpop_dset_self,
        dpop_absent kUid _ (by rw [dkeys_toE]; exact hbodyU)]
    have hrec : dset kId (.str i) rec = rec := dset_same kId (.str i) rec hsome
    obtain ⟨hnew, hok, hid⟩ := docOf_new rec i hin.ok e he
    rw [hrec] at hnew hok hid
    have hany : hasUid e ((aget [] coll rs : Coll).map docOf) = (aget [] coll rs : Coll).ids.contains i := by
      rw [any_uid_docs]
      generalize (aget [] coll rs : Coll) = c
      induction c with
      | nil => rfl
      | cons d t ih =>
        obtain ⟨a, ha, _⟩ := idV_str (recId d)
        simp only [List.any_cons, ha, ih, Coll.ids, List.map_cons, List.contains_cons, eToJ_inj_on_ids a e (recId d) i ha he]
        rw [Bool.beq_comm]
    by_cases hm : i ∈ (aget [] coll rs : Coll).ids
    · have hc : (aget [] coll rs : Coll).ids.contains i = true := contains_iff.mpr hm
      simp only [Ref.step, hsome, hc, if_true]
      exact ⟨by simp, Or.inl ⟨_, rfl⟩⟩
    · have hc : (aget [] coll rs : Coll).ids.contains i = false := contains_false_iff.mpr hm
      simp only [Mongo.step, Ref.step, hdoc, hget, hnorm, dget, if_true, hdocs, hany, hc, Bool.false_eq_true, if_false,
        hsome, idOfE, hje]
      refine ⟨by simp, Or.inr ⟨trivial, ?_⟩⟩
      have : (aget [] coll rs : Coll).map docOf ++ [(kUid, e) :: toE (dpop kId rec)]
          = ((aget [] coll rs : Coll) ++ [rec]).map docOf := by
        rw [List.map_append, List.map_cons, List.map_nil, hnew]
      rw [this]
      refine hrel.aset coll _ ⟨?_, ?_⟩
      · simp only [Coll.ids, List.map_append, List.map_cons, List.map_nil, hid]
        rw [List.nodup_append]
        refine ⟨hcok.1, by simp, ?_⟩
        intro a ha b hb
        simp only [List.mem_singleton] at hb
        subst hb
        intro e'; subst e'; exact hm ha
      · intro d hd
        rcases List.mem_append.mp hd with e' | e'
        · exact hcok.2 d e'
        · simp only [List.mem_singleton] at e'; rw [e']; exact hok

end QtVerif.Store
