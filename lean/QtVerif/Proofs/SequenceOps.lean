import QtVerif.Proofs.SequenceCancel
/-! Operations of C19: which requests are refused (and that a refusal touches nothing), which ones reach the cancelling
part, what the operation leaves behind; concrete witnesses for the two defects of the code as found. -/
namespace QtVerif.Sequence

/-- The operation is one that stops the running sequence in state `s`. -/
def Stops (s : St) : Op → Prop
  | .patchSeq vs ds _ => validate s.maxItems s.port vs ds = none
  | .setExpr _ => s.port.writable = true
  | .setEnabled on => on = false ∧ s.port.enabled = true
  | .malformed => False

theorem startOp_stops (fix : Fix) (s : St) (opId : Nat) (op : Op) (hw : s.cancelling = false) (h : Stops s op) :
    startOp fix s opId op = cancelThen fix s opId op := by
  cases op with
  | patchSeq vs ds r => simp [Stops] at h; simp [startOp, hw, h]
  | setExpr b => simp [Stops] at h; simp [startOp, hw, h]
  | setEnabled on => simp [Stops] at h; simp [startOp, hw, h.1, h.2]
  | malformed => exact h.elim

theorem startOp_refused (fix : Fix) (s : St) (opId : Nat) (vs : List Val) (ds : List Int) (r : Int) (e : Err)
    (hw : s.cancelling = false) (hv : validate s.maxItems s.port vs ds = some e) :
    startOp fix s opId (.patchSeq vs ds r) = s.emit (.ret s.now opId (.refused e)) := by
  simp [startOp, hw, hv]

theorem validate_table (maxItems : Nat) (p : Port) (vs : List Val) (ds : List Int)
    (h1 : vs.length ≤ maxItems) (h2 : ds.length ≤ maxItems) :
    (vs.length ≠ ds.length → validate maxItems p vs ds = some .invalidDelays) ∧
    (vs.length = ds.length → (∃ v ∈ vs, inDomain p v = false) → validate maxItems p vs ds = some .invalidValues) ∧
    (vs.length = ds.length → (∀ v ∈ vs, inDomain p v = true) →
      (p.enabled = false → validate maxItems p vs ds = some .portDisabled) ∧
      (p.enabled = true → p.writable = false → validate maxItems p vs ds = some .readOnly) ∧
      (p.enabled = true → p.writable = true → p.hasExpr = true → validate maxItems p vs ds = some .withExpression) ∧
      (p.enabled = true → p.writable = true → p.hasExpr = false → validate maxItems p vs ds = none)) := by
  have n1 : ¬ vs.length > maxItems := by omega
  have n2 : ¬ ds.length > maxItems := by omega
  refine ⟨?_, ?_, ?_⟩
  · intro h; simp [validate, n1, n2, h]
  · intro h ⟨v, hv, hd⟩
    have : vs.any (fun v => !inDomain p v) = true := List.any_eq_true.mpr ⟨v, hv, by simp [hd]⟩
    simp [validate, n1, n2, h, this]
  · intro h hall
    have : vs.any (fun v => !inDomain p v) = false := by
      rw [List.any_eq_false]; intro v hv; simp [hall v hv]
    refine ⟨?_, ?_, ?_, ?_⟩
    · intro he; simp [validate, n1, n2, h, this, he]
    · intro he hw; simp [validate, n1, n2, h, this, he, hw]
    · intro he hw hx; simp [validate, n1, n2, h, this, he, hw, hx]
    · intro he hw hx; simp [validate, n1, n2, h, this, he, hw, hx]

/-- What the operation leaves behind once the old sequence is out of the way. -/
theorem finishOp_effect (s : St) (opId : Nat) :
    (∀ vs ds r, vs ≠ [] → (finishOp s opId (.patchSeq vs ds r)).port.seq
        = some ⟨s.nextId, vs, ds, r, 0, .pending .start false⟩) ∧
    (∀ ds r, (finishOp s opId (.patchSeq [] ds r)).port.seq = none) ∧
    (∀ b, (finishOp s opId (.setExpr b)).port.seq = none ∧ (finishOp s opId (.setExpr b)).port.hasExpr = b) ∧
    ((finishOp s opId (.setEnabled false)).port.seq = none ∧
      ((s.disLat = 0 ∧ s.disRaise = true) ∨ (finishOp s opId (.setEnabled false)).port.enabled = false)) := by
  refine ⟨?_, ?_, ?_, ?_⟩
  · intro vs ds r h
    have : vs.isEmpty = false := by cases vs with | nil => exact absurd rfl h | cons _ _ => rfl
    simp [finishOp, install, this, St.setSeq, St.emit, St.push]
  · intro ds r; simp [finishOp, install, St.setSeq, St.emit]
  · intro b; simp [finishOp, St.setSeq, St.emit]
  · by_cases h1 : s.disLat = 0 <;> by_cases h2 : s.disRaise = true <;>
      simp [finishOp, setEnabledThenHook, hookDone, St.setSeq, St.emit, St.addTimer, h1, h2]

/-- The driver's `handle_disable()` comes after the stop: whatever it does (await, raise), the sequence is gone and
stays gone; if it raises, the port is enabled again and the call fails. -/
theorem hookDone_effect (s : St) (opId : Nat) :
    (hookDone s opId false).port.seq = s.port.seq ∧
    (s.disRaise = true → (hookDone s opId false).port.enabled = true) ∧
    (s.disRaise = false → (hookDone s opId false).port.enabled = s.port.enabled) := by
  by_cases h2 : s.disRaise = true <;> simp [hookDone, St.emit, h2]

/-! ### witnesses (the same cases are in the corpus of the harness and are replayed on the real code) -/

/-- [1, 2] every 100 ms for ever; at 200 ms — between the step that re-arms the playback task and the first step of the
re-armed task — a request for the sequence [9]. -/
def witnessArmed : St :=
  (((St.init Port.default 40 256).addTimer 0 1 (.hop 0 0 (.patchSeq [.num 2, .num 4] [100, 100] 0))).addTimer 200 (-1)
    (.hop 1 1 (.patchSeq [.num 18] [50] 1))).addTimer 1000 2 .stop

/-- [1, 2] once; the port is disabled in the loop iteration in which value 2 is handed to fire-and-forget. -/
def witnessFinish : St :=
  (((St.init Port.default 40 256).addTimer 0 1 (.hop 0 0 (.patchSeq [.num 2, .num 4] [100, 100] 1))).addTimer 100 (-1)
    (.hop 1 1 (.setEnabled false))).addTimer 1000 2 .stop

end QtVerif.Sequence
