import QtVerif.Proofs.EvalRat
/-!
Arithmetic of `TIME` over the exact rational carrier: `int(now_ms / 1000)` is the truncated (toward zero) integer
quotient. Core Lean only.
-/
namespace QtVerif.Num

/-- the floor of an exact quotient of integers with a positive divisor is the floor (Euclidean) integer quotient -/
theorem rat_floor_intDiv (a b : Int) (hb : 0 < b) : ((a : Rat) / (b : Rat)).floor = a / b := by
  have hbR : (0 : Rat) < (b : Rat) := Rat.intCast_pos.mpr hb
  have h1 : a / b ≤ ((a : Rat) / (b : Rat)).floor := by
    rw [Rat.le_floor_iff]
    apply Rat.not_lt.mp
    rw [Rat.div_lt_iff hbR, ← Rat.intCast_mul, Rat.intCast_lt_intCast]
    have := Int.ediv_mul_le a (Int.ne_of_gt hb)
    omega
  have h2 : ((a : Rat) / (b : Rat)).floor < a / b + 1 := by
    rw [Rat.floor_lt_iff, Rat.div_lt_iff hbR, ← Rat.intCast_mul, Rat.intCast_lt_intCast]
    exact Int.lt_ediv_add_one_mul_self a hb
  omega

/-- `int(a / b)` on the exact carrier is the quotient truncated toward zero -/
theorem ratTrunc_intDiv (a b : Int) (hb : 0 < b) : ratTrunc ((a : Rat) / (b : Rat)) = Int.tdiv a b := by
  unfold ratTrunc
  have hbR : (0 : Rat) < (b : Rat) := Rat.intCast_pos.mpr hb
  by_cases ha : 0 ≤ a
  · have : (0 : Rat) ≤ (a : Rat) / (b : Rat) := by
      apply Rat.not_lt.mp
      rw [Rat.div_lt_iff hbR, Rat.zero_mul]
      exact Rat.not_lt.mpr (Rat.intCast_nonneg.mpr ha)
    rw [if_pos this, rat_floor_intDiv a b hb, Int.tdiv_eq_ediv_of_nonneg ha]
  · have hlt : (a : Rat) / (b : Rat) < 0 := by
      rw [Rat.div_lt_iff hbR, Rat.zero_mul]
      exact Rat.intCast_neg_iff.mpr (by omega)
    rw [if_neg (Rat.not_le.mpr hlt)]
    have : -((a : Rat) / (b : Rat)) = ((-a : Int) : Rat) / (b : Rat) := by
      rw [Rat.intCast_neg, Rat.div_def, Rat.div_def, Rat.neg_mul]
    rw [this, rat_floor_intDiv (-a) b hb]
    have h0 : 0 ≤ -a := by omega
    rw [← Int.tdiv_eq_ediv_of_nonneg h0, Int.neg_tdiv, Int.neg_neg]

/-- truncated division by 1000, characterised by inequalities -/
theorem tdiv_1000_bounds (n : Int) :
    (0 ≤ n → Int.tdiv n 1000 * 1000 ≤ n ∧ n < (Int.tdiv n 1000 + 1) * 1000) ∧
    (n < 0 → (Int.tdiv n 1000 - 1) * 1000 < n ∧ n ≤ Int.tdiv n 1000 * 1000 ∧ Int.tdiv n 1000 ≤ 0) := by
  constructor
  · intro h
    rw [Int.tdiv_eq_ediv_of_nonneg h]
    omega
  · intro h
    have h0 : 0 ≤ -n := by omega
    have e : Int.tdiv n 1000 = -((-n) / 1000) := by
      rw [← Int.tdiv_eq_ediv_of_nonneg h0, Int.neg_tdiv, Int.neg_neg]
    rw [e]
    omega

end QtVerif.Num
