import QtVerif.Model.Faults
import QtVerif.Proofs.FaultsC
namespace QtVerif.Faults

/-- Two environments that give the ports of `H` the same outcomes, the same handlers' behaviour on their events and
the same expressions. -/
def AgreeOn (H : PortId → Bool) (E1 E2 : Env) : Prop :=
  ∀ p, H p = true → E1.rd p = E2.rd p ∧ E1.hb p = E2.hb p ∧ E1.wr p = E2.wr p ∧
    (∀ j, E1.hd j p = E2.hd j p) ∧ E1.deps p = E2.deps p ∧ E1.evalE p = E2.evalE p

def AllIn (H : PortId → Bool) (ps : List Port) : Prop := ∀ q ∈ ps, H q.id = true

theorem pollPort_congr (H : PortId → Bool) (P : Params) (E1 E2 : Env) (h : AgreeOn H E1 E2) (now : Nat) (sec : Bool)
    (a : Acc) (p : Port) (hp : H p.id = true) : pollPort P E1 now sec a p = pollPort P E2 now sec a p := by
  obtain ⟨h1, h2, _, _, _, _⟩ := h p.id hp
  have hb : hbStep E1 sec a p = hbStep E2 sec a p := by unfold hbStep; rw [h2]
  unfold pollPort
  rw [hb]
  have hid : (hbStep E2 sec a p).2.id = p.id := by unfold hbStep; cases sec <;> rfl
  have : ∀ a' (p' : Port), p'.id = p.id → readStep P E1 now a' p' = readStep P E2 now a' p' := by
    intro a' p' e; unfold readStep; rw [e, h1]
  rw [this _ _ hid]

theorem pollAll_congr (H : PortId → Bool) (P : Params) (E1 E2 : Env) (h : AgreeOn H E1 E2) (now : Nat) (sec : Bool) :
    ∀ (ps : List Port) (a : Acc), AllIn H ps → pollAll P E1 now sec a ps = pollAll P E2 now sec a ps := by
  intro ps
  induction ps with
  | nil => intro a _; rfl
  | cons p ps ih =>
    intro a hall
    have hp : H p.id = true := hall p (by simp)
    simp only [pollAll, pollPort_congr H P E1 E2 h now sec a p hp]
    rw [ih _ (fun q hq => hall q (by simp [hq]))]

theorem adopt_changed (a : Acc) (p : Port) (v : Val) :
    ∀ c ∈ (adopt a p v).1.changed, c ∈ a.changed ∨ c.1 = p.id := by
  intro c
  unfold adopt
  split
  · intro h
    simp only [List.mem_append, List.mem_singleton] at h
    rcases h with h | h
    · exact Or.inl h
    · right; rw [h]
  · intro h; exact Or.inl h

theorem pollPort_changed (P : Params) (E : Env) (now : Nat) (sec : Bool) (a : Acc) (p : Port) :
    ∀ c ∈ (pollPort P E now sec a p).1.changed, c ∈ a.changed ∨ c.1 = p.id := by
  intro c
  unfold pollPort
  split
  · intro h; exact Or.inl h
  · have hch : (hbStep E sec a p).1.changed = a.changed := by unfold hbStep; cases sec <;> rfl
    have hid : (hbStep E sec a p).2.id = p.id := by unfold hbStep; cases sec <;> rfl
    split
    · rw [hch]; intro h; exact Or.inl h
    · rw [← hch, ← hid]
      generalize (hbStep E sec a p).1 = a'
      generalize (hbStep E sec a p).2 = p'
      unfold readStep
      split
      · intro h; exact Or.inl h
      · cases E.rd p'.id p'.nrd with
        | ok => exact adopt_changed _ _ _ c
        | val v => exact adopt_changed _ _ _ c
        | skip => intro h; exact Or.inl h
        | raise => intro h; exact Or.inl h
        | escape => intro h; exact Or.inl h

theorem pollAll_changed (P : Params) (E : Env) (now : Nat) (sec : Bool) :
    ∀ (ps : List Port) (a : Acc), ∀ c ∈ (pollAll P E now sec a ps).1.changed,
      c ∈ a.changed ∨ ∃ p ∈ ps, c.1 = p.id := by
  intro ps
  induction ps with
  | nil => intro a c h; exact Or.inl h
  | cons p ps ih =>
    intro a c hc
    simp only [pollAll] at hc
    rcases ih _ c hc with h | ⟨q, hq, e⟩
    · rcases pollPort_changed P E now sec a p c h with h | h
      · exact Or.inl h
      · exact Or.inr ⟨p, by simp, h⟩
    · exact Or.inr ⟨q, by simp [hq], e⟩

theorem pollAll_ids (P : Params) (E : Env) (now : Nat) (sec : Bool) :
    ∀ (ps : List Port) (a : Acc), (pollAll P E now sec a ps).2.map (fun q => q.id) = ps.map (fun q => q.id) := by
  intro ps
  induction ps with
  | nil => intro a; rfl
  | cons p ps ih => intro a; simp only [pollAll, List.map_cons, pollPort_id, ih]

theorem deliver_congr (H : PortId → Bool) (E1 E2 : Env) (h : AgreeOn H E1 E2) (now nh : Nat) :
    ∀ (cs : List (PortId × Val × Val)) (st : List Obs × Bool), (∀ c ∈ cs, H c.1 = true) →
      deliver E1 now nh st cs = deliver E2 now nh st cs := by
  intro cs
  induction cs with
  | nil => intro st _; rfl
  | cons c cs ih =>
    intro st hall
    have hc : H c.1 = true := hall c (by simp)
    obtain ⟨_, _, _, h4, _, _⟩ := h c.1 hc
    have : deliverTo E1 now c = deliverTo E2 now c := by
      funext st j; unfold deliverTo; rw [h4 j]
    simp only [deliver, List.foldl_cons, this]
    exact ih _ (fun x hx => hall x (by simp [hx]))

theorem AllIn_of_ids (H : PortId → Bool) (ps ps' : List Port)
    (e : ps'.map (fun q => q.id) = ps.map (fun q => q.id)) (h : AllIn H ps) : AllIn H ps' := by
  intro q hq
  have : q.id ∈ ps'.map (fun q => q.id) := List.mem_map.mpr ⟨q, hq, rfl⟩
  rw [e] at this
  obtain ⟨q', hq', e'⟩ := List.mem_map.mp this
  rw [← e']; exact h q' hq'

theorem pushEvals_congr (H : PortId → Bool) (E1 E2 : Env) (h : AgreeOn H E1 E2) (full : Bool) (ch : List PortId)
    (sn : Snap) (ps : List Port) (hall : AllIn H ps) : pushEvals E1 full ch sn ps = pushEvals E2 full ch sn ps := by
  unfold pushEvals
  apply List.map_congr_left
  intro q hq
  obtain ⟨_, _, _, _, h5, _⟩ := h q.id (hall q hq)
  unfold pushOne; rw [h5]

theorem pass_congr (H : PortId → Bool) (P : Params) (E1 E2 : Env) (h : AgreeOn H E1 E2) (k : PassKind) (now : Nat)
    (s : State) (hall : AllIn H s.ports) : pass P E1 k now s = pass P E2 k now s := by
  unfold pass
  rw [pollAll_congr H P E1 E2 h now _ s.ports _ hall]
  have hch := pollAll_changed P E2 now (now / P.ups != s.lastSec) s.ports ⟨s.errs, s.trace, [], false⟩
  have hids := pollAll_ids P E2 now (now / P.ups != s.lastSec) s.ports ⟨s.errs, s.trace, [], false⟩
  generalize pollAll P E2 now (now / P.ups != s.lastSec) ⟨s.errs, s.trace, [], false⟩ s.ports = r at *
  have hcs : ∀ c ∈ r.1.changed, H c.1 = true := by
    intro c hc
    rcases hch c hc with h' | ⟨p, hp, e⟩
    · cases h'
    · rw [e]; exact hall p hp
  simp only [deliver_congr H E1 E2 h now P.nh r.1.changed (r.1.trace, false) hcs,
    pushEvals_congr H E1 E2 h s.fullEval _ _ r.2 (AllIn_of_ids H s.ports r.2 hids hall)]

theorem modPort_ids (p : PortId) (f : Port → Port) (hf : ∀ q, (f q).id = q.id) (ps : List Port) :
    (modPort p f ps).map (fun q => q.id) = ps.map (fun q => q.id) := by
  unfold modPort
  simp only [List.map_map]
  apply List.map_congr_left
  intro q _
  simp only [Function.comp]; split <;> simp [hf]

theorem pushEvals_ids (E : Env) (full : Bool) (ch : List PortId) (sn : Snap) (ps : List Port) :
    (pushEvals E full ch sn ps).map (fun q => q.id) = ps.map (fun q => q.id) := by
  unfold pushEvals
  simp only [List.map_map]
  apply List.map_congr_left
  intro q _
  simp [Function.comp, pushOne_id]

theorem pass_ids (P : Params) (E : Env) (k : PassKind) (now : Nat) (s : State) :
    (pass P E k now s).ports.map (fun q => q.id) = s.ports.map (fun q => q.id) := by
  unfold pass
  have hids := pollAll_ids P E now (now / P.ups != s.lastSec) s.ports ⟨s.errs, s.trace, [], false⟩
  generalize pollAll P E now (now / P.ups != s.lastSec) ⟨s.errs, s.trace, [], false⟩ s.ports = r at *
  split
  · rfl
  · simp only []
    split
    · unfold kill; split <;> exact hids
    · split
      · unfold kill; split <;> exact hids
      · simp only [pushEvals_ids]; exact hids

theorem step_ids (P : Params) (E : Env) (s : State) (a : Action) :
    (step P E s a).ports.map (fun q => q.id) = s.ports.map (fun q => q.id) := by
  cases a with
  | pass k now => exact pass_ids P E k now s
  | setSrc p v => exact modPort_ids p (setReg v) (fun _ => rfl) _
  | apiWrite p v k => exact modPort_ids p (enqApi v k) (fun _ => rfl) _
  | eval p => exact modPort_ids p _ (evalPort_id E) _
  | write p => exact modPort_ids p _ (writePort_id E) _
  | create p => exact modPort_ids p (setEnabled true) (fun _ => rfl) _
  | remove p => exact modPort_ids p (setEnabled false) (fun _ => rfl) _
  | forceEval => rfl

theorem step_congr (H : PortId → Bool) (P : Params) (E1 E2 : Env) (h : AgreeOn H E1 E2) (s : State)
    (hall : AllIn H s.ports) (a : Action) : step P E1 s a = step P E2 s a := by
  cases a with
  | pass k now => exact pass_congr H P E1 E2 h k now s hall
  | setSrc p v => rfl
  | apiWrite p v k => rfl
  | create p => rfl
  | remove p => rfl
  | forceEval => rfl
  | eval p =>
    simp only [step]
    congr 1
    unfold modPort
    apply List.map_congr_left
    intro q hq
    obtain ⟨_, _, _, _, _, h6⟩ := h q.id (hall q hq)
    split
    · unfold evalPort; rw [h6]
    · rfl
  | write p =>
    simp only [step]
    have e1 : modPort p (writePort E1) s.ports = modPort p (writePort E2) s.ports := by
      unfold modPort
      apply List.map_congr_left
      intro q hq
      obtain ⟨_, _, h3, _, _, _⟩ := h q.id (hall q hq)
      split
      · unfold writePort; rw [h3]
      · rfl
    rw [e1]
    congr 2
    cases hf : s.ports.find? (fun q => q.id == p) with
    | none => rfl
    | some q =>
      obtain ⟨_, _, h3, _, _, _⟩ := h q.id (hall q (List.mem_of_find?_eq_some hf))
      simp only []; unfold writeObs; rw [h3]

theorem run_congr (H : PortId → Bool) (P : Params) (E1 E2 : Env) (h : AgreeOn H E1 E2) :
    ∀ (σ : List Action) (s : State), AllIn H s.ports → run P E1 s σ = run P E2 s σ := by
  intro σ
  induction σ with
  | nil => intro s _; rfl
  | cons a σ ih =>
    intro s hall
    simp only [run, List.foldl_cons] at ih ⊢
    rw [step_congr H P E1 E2 h s hall a]
    exact ih _ (AllIn_of_ids H s.ports _ (step_ids P E2 s a) hall)

theorem proj_allIn (H : PortId → Bool) (s : State) : AllIn H (proj H s).ports := by
  intro q hq
  simp only [proj, List.mem_map, List.mem_filter] at hq
  obtain ⟨q', ⟨_, h⟩, e⟩ := hq
  rw [← e]; exact h
end QtVerif.Faults
