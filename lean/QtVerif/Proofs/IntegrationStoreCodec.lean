import QtVerif.Proofs.IntegrationStoreBase
/-!
Integration C07 × C06 — concrete record codecs (Config records ↦ C06 `Fields`) and their lawfulness. Core Lean only.
The encodings are kept simple (fixed key set, `none` ↦ `null`, attribute lists as arrays of `[name, value]` pairs);
what matters is `Codec.Lawful`, not byte-faithfulness to the hub.
-/
namespace QtVerif.IntegrationStore
open QtVerif.Store QtVerif.Config

/-! ## strings -/

def ofStr (l : Str) : String := String.ofList (l.map Char.ofNat)

theorem ofStr_strOf (s : String) : ofStr (strOf s) = s := by
  unfold ofStr strOf
  rw [List.map_map]
  have : (Char.ofNat ∘ Char.toNat) = id := by
    funext c; simp
  rw [this, List.map_id]
  simp

theorem strOf_injective (a b : String) (h : strOf a = strOf b) : a = b := by
  rw [← ofStr_strOf a, ← ofStr_strOf b, h]

theorem strOf_scalar (s : String) : ∀ c ∈ strOf s, Scalar c := by
  intro c hc
  unfold strOf at hc
  rw [List.mem_map] at hc
  obtain ⟨ch, _, rfl⟩ := hc
  exact ch.valid

/-! ## value encoders / decoders -/

def encAVal : AVal → JVal
  | .str s => .str (strOf s)
  | .bool b => .bool b
  | .int n => .int n

def decAVal : JVal → Option AVal
  | .str s => some (.str (ofStr s))
  | .bool b => some (.bool b)
  | .int n => some (.int n)
  | _ => none

def encPVal : PVal → JVal
  | .num n => .int n
  | .bool b => .bool b

def decPVal : JVal → Option PVal
  | .int n => some (.num n)
  | .bool b => some (.bool b)
  | _ => none

def encStr (s : String) : JVal := .str (strOf s)
def decStr : JVal → Option String
  | .str s => some (ofStr s)
  | _ => none

def encBool (b : Bool) : JVal := .bool b
def decBool : JVal → Option Bool
  | .bool b => some b
  | _ => none

def encInt (n : Int) : JVal := .int n
def decInt : JVal → Option Int
  | .int n => some n
  | _ => none

def encNat (n : Nat) : JVal := .int (n : Int)
def decNat : JVal → Option Nat
  | .int n => some n.toNat
  | _ => none

def encOpt {α : Type} (f : α → JVal) : Option α → JVal
  | none => .null
  | some a => f a

def decOpt {α : Type} (g : JVal → Option α) : JVal → Option (Option α)
  | .null => some none
  | v => (g v).map some

def decList {α : Type} (g : JVal → Option α) : List JVal → Option (List α)
  | [] => some []
  | x :: t =>
    match g x, decList g t with
    | some a, some l => some (a :: l)
    | _, _ => none

def encArr {α : Type} (f : α → JVal) (l : List α) : JVal := .arr (l.map f)
def decArr {α : Type} (g : JVal → Option α) : JVal → Option (List α)
  | .arr l => decList g l
  | _ => none

def encPair (p : String × AVal) : JVal := .arr [.str (strOf p.1), encAVal p.2]
def decPair : JVal → Option (String × AVal)
  | .arr [.str s, v] => (decAVal v).map (fun a => (ofStr s, a))
  | _ => none

def encFields (fs : Config.Fields) : JVal := encArr encPair fs
def decFields : JVal → Option Config.Fields := decArr decPair

/-! ### round trips -/

@[simp] theorem decAVal_enc (v : AVal) : decAVal (encAVal v) = some v := by
  cases v <;> simp [encAVal, decAVal, ofStr_strOf]

@[simp] theorem decPVal_enc (v : PVal) : decPVal (encPVal v) = some v := by
  cases v <;> simp [encPVal, decPVal]

@[simp] theorem decStr_enc (s : String) : decStr (encStr s) = some s := by
  simp [encStr, decStr, ofStr_strOf]

@[simp] theorem decBool_enc (b : Bool) : decBool (encBool b) = some b := rfl
@[simp] theorem decInt_enc (n : Int) : decInt (encInt n) = some n := rfl
@[simp] theorem decNat_enc (n : Nat) : decNat (encNat n) = some n := by
  simp [encNat, decNat]

theorem decOpt_enc {α : Type} (f : α → JVal) (g : JVal → Option α) (h : ∀ a, g (f a) = some a)
    (hn : ∀ a, f a ≠ .null) (o : Option α) : decOpt g (encOpt f o) = some o := by
  cases o with
  | none => rfl
  | some a =>
    have h1 := h a
    have h2 := hn a
    simp only [encOpt]
    generalize f a = v at h1 h2
    cases v <;> simp_all [decOpt]

theorem decList_map {α : Type} (f : α → JVal) (g : JVal → Option α) (h : ∀ a, g (f a) = some a) :
    ∀ l : List α, decList g (l.map f) = some l
  | [] => rfl
  | a :: t => by
    simp [decList, h a, decList_map f g h t]

theorem decArr_enc {α : Type} (f : α → JVal) (g : JVal → Option α) (h : ∀ a, g (f a) = some a)
    (l : List α) : decArr g (encArr f l) = some l := by
  simp [decArr, encArr, decList_map f g h l]

@[simp] theorem decPair_enc (p : String × AVal) : decPair (encPair p) = some p := by
  simp [encPair, decPair, ofStr_strOf]

@[simp] theorem decFields_enc (fs : Config.Fields) : decFields (encFields fs) = some fs :=
  decArr_enc encPair decPair decPair_enc fs

theorem encAVal_ne_null (v : AVal) : encAVal v ≠ .null := by cases v <;> simp [encAVal]
theorem encPVal_ne_null (v : PVal) : encPVal v ≠ .null := by cases v <;> simp [encPVal]

@[simp] theorem decOptPVal_enc (o : Option PVal) : decOpt decPVal (encOpt encPVal o) = some o :=
  decOpt_enc _ _ decPVal_enc encPVal_ne_null o
@[simp] theorem decOptStr_enc (o : Option String) : decOpt decStr (encOpt encStr o) = some o :=
  decOpt_enc _ _ decStr_enc (by intro a; simp [encStr]) o
@[simp] theorem decOptInt_enc (o : Option Int) : decOpt decInt (encOpt encInt o) = some o :=
  decOpt_enc _ _ decInt_enc (by intro a; simp [encInt]) o
@[simp] theorem decOptBool_enc (o : Option Bool) : decOpt decBool (encOpt encBool o) = some o :=
  decOpt_enc _ _ decBool_enc (by intro a; simp [encBool]) o
@[simp] theorem decIntList_enc (l : List Int) : decArr decInt (encArr encInt l) = some l :=
  decArr_enc _ _ decInt_enc l
@[simp] theorem decStrList_enc (l : List String) : decArr decStr (encArr encStr l) = some l :=
  decArr_enc _ _ decStr_enc l
@[simp] theorem decOptIntList_enc (o : Option (List Int)) :
    decOpt (decArr decInt) (encOpt (encArr encInt) o) = some o :=
  decOpt_enc _ _ decIntList_enc (by intro a; simp [encArr]) o

/-! ### well-formedness -/

@[simp] theorem wf_encAVal (ft : FloatText) (v : AVal) : WF ft (encAVal v) := by
  cases v <;> simp [encAVal, WF]
  exact strOf_scalar _

@[simp] theorem wf_encPVal (ft : FloatText) (v : PVal) : WF ft (encPVal v) := by
  cases v <;> simp [encPVal, WF]

@[simp] theorem wf_encStr (ft : FloatText) (s : String) : WF ft (encStr s) := by
  simp only [encStr, WF]; exact strOf_scalar s
@[simp] theorem wf_encBool (ft : FloatText) (b : Bool) : WF ft (encBool b) := by simp [encBool, WF]
@[simp] theorem wf_encInt (ft : FloatText) (n : Int) : WF ft (encInt n) := by simp [encInt, WF]
@[simp] theorem wf_encNat (ft : FloatText) (n : Nat) : WF ft (encNat n) := by simp [encNat, WF]

theorem wf_encOpt {α : Type} (ft : FloatText) (f : α → JVal) (h : ∀ a, WF ft (f a)) (o : Option α) :
    WF ft (encOpt f o) := by
  cases o with
  | none => simp [encOpt, WF]
  | some a => exact h a

theorem wfList_map {α : Type} (ft : FloatText) (f : α → JVal) (h : ∀ a, WF ft (f a)) :
    ∀ l : List α, WFList ft (l.map f)
  | [] => by simp [WFList]
  | a :: t => by
    simp only [List.map_cons, WFList]
    exact ⟨h a, wfList_map ft f h t⟩

theorem wf_encArr {α : Type} (ft : FloatText) (f : α → JVal) (h : ∀ a, WF ft (f a)) (l : List α) :
    WF ft (encArr f l) := by
  simp only [encArr, WF]; exact wfList_map ft f h l

@[simp] theorem wf_encPair (ft : FloatText) (p : String × AVal) : WF ft (encPair p) := by
  simp only [encPair, WF, WFList, and_true]
  exact ⟨strOf_scalar _, wf_encAVal ft _⟩

@[simp] theorem wf_encFields (ft : FloatText) (fs : Config.Fields) : WF ft (encFields fs) :=
  wf_encArr ft _ (wf_encPair ft) fs

@[simp] theorem wf_encOptPVal (ft : FloatText) (o : Option PVal) : WF ft (encOpt encPVal o) :=
  wf_encOpt ft _ (wf_encPVal ft) o
@[simp] theorem wf_encOptStr (ft : FloatText) (o : Option String) : WF ft (encOpt encStr o) :=
  wf_encOpt ft _ (wf_encStr ft) o
@[simp] theorem wf_encOptInt (ft : FloatText) (o : Option Int) : WF ft (encOpt encInt o) :=
  wf_encOpt ft _ (wf_encInt ft) o
@[simp] theorem wf_encOptBool (ft : FloatText) (o : Option Bool) : WF ft (encOpt encBool o) :=
  wf_encOpt ft _ (wf_encBool ft) o
@[simp] theorem wf_encIntList (ft : FloatText) (l : List Int) : WF ft (encArr encInt l) :=
  wf_encArr ft _ (wf_encInt ft) l
@[simp] theorem wf_encStrList (ft : FloatText) (l : List String) : WF ft (encArr encStr l) :=
  wf_encArr ft _ (wf_encStr ft) l
@[simp] theorem wf_encOptIntList (ft : FloatText) (o : Option (List Int)) : WF ft (encOpt (encArr encInt) o) :=
  wf_encOpt ft _ (wf_encIntList ft) o

/-! ## keys -/

def kValue : Str := [118, 97, 108, 117, 101]          -- "value"
def kAttrs : Str := [97, 116, 116, 114, 115]          -- "attrs"

/-! ## ports -/

def portCodec : Codec PortRec where
  enc r := [(kValue, encOpt encPVal r.value), (kAttrs, encFields r.fields)]
  dec d :=
    (dget kValue d).bind fun v => (decOpt decPVal v).bind fun value =>
    (dget kAttrs d).bind fun a => (decFields a).bind fun fields =>
    some { value := value, fields := fields }

theorem portCodec_lawful : portCodec.Lawful where
  dec_front i r := by
    simp [portCodec, dget, kId, kValue, kAttrs]
  dec_back i r := by
    simp [portCodec, dget, kId, kValue, kAttrs]
  nodup r := by simp [portCodec, dkeys, kValue, kAttrs]
  noId r := by simp [portCodec, dkeys, kId, kValue, kAttrs]
  wf ft r := by simp [portCodec]

/-! ## virtual port definitions -/

def kIsNumber : Str := [116, 121, 112, 101]           -- "type"
def kMin : Str := [109, 105, 110]                     -- "min"
def kMax : Str := [109, 97, 120]                      -- "max"
def kStep : Str := [115, 116, 101, 112]               -- "step"
def kInteger : Str := [105, 110, 116, 101, 103, 101, 114]   -- "integer"
def kChoices : Str := [99, 104, 111, 105, 99, 101, 115]     -- "choices"

def vdefCodec : Codec VDef where
  enc r := [(kIsNumber, encBool r.isNumber), (kMin, encOpt encInt r.min), (kMax, encOpt encInt r.max),
            (kStep, encOpt encInt r.step), (kInteger, encOpt encBool r.integer),
            (kChoices, encOpt (encArr encInt) r.choices)]
  dec d :=
    (dget kIsNumber d).bind fun v => (decBool v).bind fun isNumber =>
    (dget kMin d).bind fun v => (decOpt decInt v).bind fun min =>
    (dget kMax d).bind fun v => (decOpt decInt v).bind fun max =>
    (dget kStep d).bind fun v => (decOpt decInt v).bind fun step =>
    (dget kInteger d).bind fun v => (decOpt decBool v).bind fun integer =>
    (dget kChoices d).bind fun v => (decOpt (decArr decInt) v).bind fun choices =>
    some { isNumber := isNumber, min := min, max := max, step := step, integer := integer, choices := choices }

theorem vdefCodec_lawful : vdefCodec.Lawful where
  dec_front i r := by
    simp [vdefCodec, dget, kId, kIsNumber, kMin, kMax, kStep, kInteger, kChoices]
  dec_back i r := by
    simp [vdefCodec, dget, kId, kIsNumber, kMin, kMax, kStep, kInteger, kChoices]
  nodup r := by simp [vdefCodec, dkeys, kIsNumber, kMin, kMax, kStep, kInteger, kChoices]
  noId r := by simp [vdefCodec, dkeys, kId, kIsNumber, kMin, kMax, kStep, kInteger, kChoices]
  wf ft r := by simp [vdefCodec]

/-! ## device -/

def kName : Str := [110, 97, 109, 101]                                     -- "name"
def kDisplayName : Str := [100, 105, 115, 112, 108, 97, 121, 95, 110, 97, 109, 101]   -- "display_name"
def kAdminHash : Str := [97, 100, 109, 105, 110]                           -- "admin"
def kNormalHash : Str := [110, 111, 114, 109, 97, 108]                     -- "normal"
def kViewonlyHash : Str := [118, 105, 101, 119, 111, 110, 108, 121]        -- "viewonly"

def deviceCodec : Codec DeviceRec where
  enc r := [(kName, encOpt encStr r.name), (kDisplayName, encOpt encStr r.displayName),
            (kAdminHash, encOpt encStr r.adminHash), (kNormalHash, encOpt encStr r.normalHash),
            (kViewonlyHash, encOpt encStr r.viewonlyHash)]
  dec d :=
    (dget kName d).bind fun v => (decOpt decStr v).bind fun name =>
    (dget kDisplayName d).bind fun v => (decOpt decStr v).bind fun displayName =>
    (dget kAdminHash d).bind fun v => (decOpt decStr v).bind fun adminHash =>
    (dget kNormalHash d).bind fun v => (decOpt decStr v).bind fun normalHash =>
    (dget kViewonlyHash d).bind fun v => (decOpt decStr v).bind fun viewonlyHash =>
    some { name := name, displayName := displayName, adminHash := adminHash, normalHash := normalHash,
           viewonlyHash := viewonlyHash }

theorem deviceCodec_lawful : deviceCodec.Lawful where
  dec_front i r := by
    simp [deviceCodec, dget, kId, kName, kDisplayName, kAdminHash, kNormalHash, kViewonlyHash]
  dec_back i r := by
    simp [deviceCodec, dget, kId, kName, kDisplayName, kAdminHash, kNormalHash, kViewonlyHash]
  nodup r := by simp [deviceCodec, dkeys, kName, kDisplayName, kAdminHash, kNormalHash, kViewonlyHash]
  noId r := by simp [deviceCodec, dkeys, kId, kName, kDisplayName, kAdminHash, kNormalHash, kViewonlyHash]
  wf ft r := by simp [deviceCodec]

/-! ## slaves -/

def kEnabled : Str := [101, 110, 97, 98, 108, 101, 100]                    -- "enabled"
def kScheme : Str := [115, 99, 104, 101, 109, 101]                         -- "scheme"
def kHost : Str := [104, 111, 115, 116]                                    -- "host"
def kPort : Str := [112, 111, 114, 116]                                    -- "port"
def kPath : Str := [112, 97, 116, 104]                                     -- "path"
def kPwHash : Str := [112, 119]                                            -- "pw"
def kPollInterval : Str := [112, 111, 108, 108]                            -- "poll"
def kListenEnabled : Str := [108, 105, 115, 116, 101, 110]                 -- "listen"
def kLastSync : Str := [115, 121, 110, 99]                                 -- "sync"
def kProvAttrs : Str := [112, 114, 111, 118]                               -- "prov"

def slaveCodec : Codec Slave where
  enc r := [(kEnabled, encBool r.enabled), (kScheme, encStr r.scheme), (kHost, encStr r.host),
            (kPort, encNat r.port), (kPath, encStr r.path), (kPwHash, encStr r.pwHash),
            (kPollInterval, encNat r.pollInterval), (kListenEnabled, encBool r.listenEnabled),
            (kLastSync, encInt r.lastSync), (kAttrs, encFields r.attrs),
            (kProvAttrs, encArr encStr r.provAttrs)]
  dec d :=
    (dget kEnabled d).bind fun v => (decBool v).bind fun enabled =>
    (dget kScheme d).bind fun v => (decStr v).bind fun scheme =>
    (dget kHost d).bind fun v => (decStr v).bind fun host =>
    (dget kPort d).bind fun v => (decNat v).bind fun port =>
    (dget kPath d).bind fun v => (decStr v).bind fun path =>
    (dget kPwHash d).bind fun v => (decStr v).bind fun pwHash =>
    (dget kPollInterval d).bind fun v => (decNat v).bind fun pollInterval =>
    (dget kListenEnabled d).bind fun v => (decBool v).bind fun listenEnabled =>
    (dget kLastSync d).bind fun v => (decInt v).bind fun lastSync =>
    (dget kAttrs d).bind fun v => (decFields v).bind fun attrs =>
    (dget kProvAttrs d).bind fun v => (decArr decStr v).bind fun provAttrs =>
    some { enabled := enabled, scheme := scheme, host := host, port := port, path := path, pwHash := pwHash,
           pollInterval := pollInterval, listenEnabled := listenEnabled, lastSync := lastSync, attrs := attrs,
           provAttrs := provAttrs }

theorem slaveCodec_lawful : slaveCodec.Lawful where
  dec_front i r := by
    simp [slaveCodec, dget, kId, kEnabled, kScheme, kHost, kPort, kPath, kPwHash, kPollInterval, kListenEnabled,
      kLastSync, kAttrs, kProvAttrs]
  dec_back i r := by
    simp [slaveCodec, dget, kId, kEnabled, kScheme, kHost, kPort, kPath, kPwHash, kPollInterval, kListenEnabled,
      kLastSync, kAttrs, kProvAttrs]
  nodup r := by
    simp [slaveCodec, dkeys, kEnabled, kScheme, kHost, kPort, kPath, kPwHash, kPollInterval, kListenEnabled,
      kLastSync, kAttrs, kProvAttrs]
  noId r := by
    simp [slaveCodec, dkeys, kId, kEnabled, kScheme, kHost, kPort, kPath, kPwHash, kPollInterval, kListenEnabled,
      kLastSync, kAttrs, kProvAttrs]
  wf ft r := by simp [slaveCodec]

end QtVerif.IntegrationStore
