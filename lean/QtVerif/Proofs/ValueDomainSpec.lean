import QtVerif.Model.ValueDomain
/-!
C05 — declarative specification ("what the property says"), definitions only.

Property text: *A value write request is accepted iff the port exists, is enabled and writable, and the value is of the
port's type and lies in its declared domain: inside [min, max], integral if the port is integer, on the grid
min + k*step if a step is declared, or one of the choices.  A rejected request never reaches the port driver and changes
nothing; an accepted one delivers to the driver exactly the value after the port's write transform, coerced to the port
type.*

SpecChoices (where the text is silent, the unchanged code's choice is recorded, see DESIGN §5):
* `choices`, when declared, are the whole domain (min/max/integer/step are not consulted) — as `get_value_schema` does;
* a grid needs an origin: a step without a min constrains nothing; step = 0 is "no step" (the attribute's falsy value);
* JSON does not distinguish `5` from `5.0`: a number is the rational it denotes, whatever the token looked like.
-/
namespace QtVerif.ValueDomain

deriving instance DecidableEq for Except

/-- Top-level JSON value proper: not one of the `NaN` / `Infinity` pseudo-numbers, and a token without fraction and
exponent denotes an integer. -/
def JVal.isJson : JVal → Prop
  | .nonfin _ => False
  | .num q true => ∃ n : Int, q = (n : Rat)
  | _ => True

/-- "the value is of the port's type" -/
def OfPortType (d : PortDef) : JVal → Prop
  | .bool _ => d.type = .boolean
  | .num _ _ => d.type = .number
  | _ => False

/-- "one of the choices": the same JSON value (booleans and numbers are different things; 1 and 1.0 are not). -/
def Matches : Choice → JVal → Prop
  | .cbool b, .bool b' => b = b'
  | .cnum q, .num q' _ => q = q'
  | _, _ => False

/-- "inside [min, max], integral if the port is integer, on the grid min + k*step if a step is declared" -/
def InRangeGrid (d : PortDef) (q : Rat) : Prop :=
  (∀ m, d.min = some m → m ≤ q) ∧
  (∀ m, d.max = some m → q ≤ m) ∧
  (d.integer = true → ∃ n : Int, q = (n : Rat)) ∧
  (∀ m s, d.min = some m → d.step = some s → s ≠ 0 → ∃ k : Int, q = m + (k : Rat) * s)

/-- The value is of the port's type and lies in its declared domain. -/
def InDomain (d : PortDef) (v : JVal) : Prop :=
  OfPortType d v ∧
  match d.choices with
  | some cs => ∃ c, c ∈ cs ∧ Matches c v
  | none =>
    match v with
    | .num q _ => InRangeGrid d q
    | _ => True        -- a boolean on a boolean port: nothing more to ask

/-- Well-formed port definition: range/integer/step are attributes of number ports, choices are values of the port's
type (what `POST /ports` and the attribute definitions in core/ports.py describe). -/
def ChoiceOfType (d : PortDef) : Choice → Prop
  | .cbool _ => d.type = .boolean
  | .cnum q => d.type = .number ∧ (d.integer = true → ∃ n : Int, q = (n : Rat))

def WF (d : PortDef) : Prop :=
  (d.type = .boolean → d.integer = false ∧ d.min = none ∧ d.max = none ∧ d.step = none) ∧
  (∀ cs, d.choices = some cs → ∀ c, c ∈ cs → ChoiceOfType d c)

/-- Same JSON value (the int/float look of a number token is not part of the value). -/
def JVal.same : JVal → JVal → Prop
  | .num q _, .num q' _ => q = q'
  | a, b => a = b

def TOut.same : TOut → TOut → Prop
  | .val a, .val b => a.same b
  | a, b => a = b

/-- The write transform is a function of the JSON value. -/
def TwRespectsJson (d : PortDef) : Prop :=
  ∀ f, d.tw = some f → ∀ a b, JVal.same a b → TOut.same (f a) (f b)

/-- "the value after the port's write transform, coerced to the port type"; `none` when the transform (or the coercion
of its result) fails to evaluate. -/
def specDelivery (d : PortDef) (v : JVal) : Option JVal :=
  match d.tw with
  | none => coerce d v
  | some f =>
    match f v with
    | .val r => coerce d r
    | .unavailable => some .null
    | .error => none

/-- No emission of the installed sequence is due: the state the port is in between two requests. -/
def Settled (st : PState) : Prop := ∀ p, p ∈ st.pend → st.now < p.1

/-- A request whose values are all JSON values proper. -/
def Req.isJson : Req → Prop
  | .value _ v => v.isJson
  | .sequence _ values _ _ => ∀ v, v ∈ values → v.isJson
  | _ => True

/-- A request that leaves the port's definition in force (anything but a redefinition). -/
def Req.keepsDef : Req → Prop
  | .redefine _ => False
  | _ => True

end QtVerif.ValueDomain

namespace QtVerif.ValueDomain

/-- What the driver may legitimately be handed: the write-path image of an in-domain JSON value. -/
def LegitCall (d : PortDef) (x : JVal) : Prop :=
  ∃ v, v.isJson ∧ InDomain d v ∧ ∃ y, specDelivery d v = some y ∧ x.same y

end QtVerif.ValueDomain
