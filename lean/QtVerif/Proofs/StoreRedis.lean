import QtVerif.Proofs.StoreJson
/-!
Helper lemmas for C06, part 4: the Redis driver model (`Redis.step`, repaired code) over the abstract key–value
server is a forward simulation of the reference store, for values that survive the per-field codec.
-/
namespace QtVerif.Store

/-! ### more dict lemmas -/

theorem dget_dpop_self {β : Type} (k : Str) (d : List (Str × β)) (nd : (dkeys d).Nodup) : dget k (dpop k d) = none := by
  induction d with
  | nil => rfl
  | cons a t ih =>
    obtain ⟨k', v'⟩ := a
    simp only [dkeys, List.map_cons, List.nodup_cons] at nd
    by_cases h1 : k' = k
    · subst h1
      simp only [dpop, if_true]
      exact (dget_none_iff _ _).mpr nd.1
    · simp [dpop, dget, h1, ih nd.2]

theorem dget_dpop_ne {β : Type} (k k' : Str) (d : List (Str × β)) (h : k ≠ k') : dget k (dpop k' d) = dget k d := by
  induction d with
  | nil => rfl
  | cons a t ih =>
    obtain ⟨k'', v''⟩ := a
    by_cases h1 : k'' = k'
    · subst h1
      have : ¬ k'' = k := fun e => h e.symm
      simp [dpop, dget, this]
    · by_cases h2 : k'' = k
      · subst h2; simp [dpop, dget, h1]
      · simp [dpop, dget, h1, h2, ih]

theorem dkeys_dset {β : Type} (k : Str) (v : β) (d : List (Str × β)) :
    dkeys (dset k v d) = if k ∈ dkeys d then dkeys d else dkeys d ++ [k] := by
  by_cases h : k ∈ dkeys d
  · rw [if_pos h, dkeys_dset_of_mem k v d h]
  · rw [if_neg h, dset_of_not_mem k v d h]; simp [dkeys]

theorem nodup_dkeys_dset {β : Type} (k : Str) (v : β) (d : List (Str × β)) (nd : (dkeys d).Nodup) :
    (dkeys (dset k v d)).Nodup := by
  rw [dkeys_dset]
  split
  · exact nd
  · rename_i h
    rw [List.nodup_append]
    refine ⟨nd, by simp, ?_⟩
    intro a ha b hb
    simp only [List.mem_singleton] at hb
    subst hb
    intro e; subst e; exact h ha

theorem nodup_dkeys_dupdate {β : Type} (d part : List (Str × β)) (nd : (dkeys d).Nodup) :
    (dkeys (dupdate d part)).Nodup := by
  induction part generalizing d with
  | nil => exact nd
  | cons a t ih =>
    obtain ⟨k, v⟩ := a
    exact ih _ (nodup_dkeys_dset k v d nd)

theorem nodup_dkeys_dpop {β : Type} (k : Str) (d : List (Str × β)) (nd : (dkeys d).Nodup) : (dkeys (dpop k d)).Nodup :=
  nd.sublist (dkeys_dpop_sublist k d)

/-- popping `k` commutes with setting another key -/
theorem dpop_dset_ne {β : Type} (k k' : Str) (v : β) (d : List (Str × β)) (h : k ≠ k') :
    dpop k (dset k' v d) = dset k' v (dpop k d) := by
  induction d with
  | nil =>
    have : ¬ k' = k := fun e => h e.symm
    simp [dset, dpop, this]
  | cons a t ih =>
    obtain ⟨k'', v''⟩ := a
    by_cases h1 : k'' = k'
    · subst h1
      have : ¬ k'' = k := fun e => h e.symm
      simp [dset, dpop, this]
    · by_cases h2 : k'' = k
      · subst h2
        simp [dset, dpop, h1]
      · simp [dset, dpop, h1, h2, ih]

theorem dpop_dupdate {β : Type} (k : Str) (d part : List (Str × β)) (h : dget k part = none) :
    dpop k (dupdate d part) = dupdate (dpop k d) part := by
  induction part generalizing d with
  | nil => rfl
  | cons a t ih =>
    obtain ⟨k', v'⟩ := a
    have hne : k' ≠ k := by intro e; subst e; simp [dget] at h
    have ht : dget k t = none := by simpa [dget, hne] using h
    show dpop k (dupdate (dset k' v' d) t) = dupdate (dset k' v' (dpop k d)) t
    rw [ih _ ht, dpop_dset_ne k k' v' d (fun e => hne e.symm)]

/-! ### mapping the values of a dict -/

def mapVals {β γ : Type} (f : β → γ) (d : List (Str × β)) : List (Str × γ) := d.map (fun kv => (kv.1, f kv.2))

theorem dget_mapVals {β γ : Type} (f : β → γ) (k : Str) (d : List (Str × β)) :
    dget k (mapVals f d) = (dget k d).map f := by
  induction d with
  | nil => rfl
  | cons a t ih =>
    obtain ⟨k', v'⟩ := a
    by_cases h1 : k' = k
    · simp [mapVals, dget, h1]
    · simp only [mapVals, List.map_cons, dget, h1, if_false]
      exact ih

theorem dset_mapVals {β γ : Type} (f : β → γ) (k : Str) (v : β) (d : List (Str × β)) :
    dset k (f v) (mapVals f d) = mapVals f (dset k v d) := by
  induction d with
  | nil => rfl
  | cons a t ih =>
    obtain ⟨k', v'⟩ := a
    by_cases h1 : k' = k
    · simp [mapVals, dset, h1]
    · simp only [mapVals, List.map_cons, dset, h1, if_false, List.cons.injEq, true_and]
      exact ih

theorem dupdate_mapVals {β γ : Type} (f : β → γ) (d part : List (Str × β)) :
    dupdate (mapVals f d) (mapVals f part) = mapVals f (dupdate d part) := by
  induction part generalizing d with
  | nil => rfl
  | cons a t ih =>
    obtain ⟨k, v⟩ := a
    show dupdate (dset k (f v) (mapVals f d)) (mapVals f t) = mapVals f (dupdate (dset k v d) t)
    rw [dset_mapVals, ih]

theorem dupdate_append_of_nodup {β : Type} (l acc : List (Str × β)) (nd : (dkeys (acc ++ l)).Nodup) :
    dupdate acc l = acc ++ l := by
  induction l generalizing acc with
  | nil => simp [dupdate]
  | cons a t ih =>
    obtain ⟨k, v⟩ := a
    have hk : k ∉ dkeys acc := by
      simp only [dkeys, List.map_append, List.map_cons] at nd
      rw [List.nodup_append] at nd
      intro hmem
      exact nd.2.2 k hmem k (by simp) rfl
    show dupdate (dset k v acc) t = acc ++ (k, v) :: t
    rw [dset_of_not_mem k v acc hk, ih (acc ++ [(k, v)]) (by simpa using nd)]
    simp

theorem dupdate_nil_of_nodup {β : Type} (l : List (Str × β)) (nd : (dkeys l).Nodup) : dupdate [] l = l := by
  have := dupdate_append_of_nodup l [] (by simpa using nd)
  simpa using this



/-! ### the Redis driver refines the reference store (repaired code, values that survive the codec) -/

section redis
variable (ft : FloatText) (Good : JVal → Prop)

/-- the hash the driver keeps for the fields (without "id") of a record -/
def encH (d : Fields) : Hash := mapVals (encodeVal Fix.repaired ft) d

/-- the record as the Redis driver hands it out: its fields, then its id -/
def normRec (d : Fields) : Fields :=
  match dget kId d with
  | some v => dpop kId d ++ [(kId, v)]
  | none => d

structure RecOK (d : Fields) : Prop where
  id : dget kId d = some (.str (recId d))
  nd : (dkeys d).Nodup
  good : ∀ kv ∈ dpop kId d, Good kv.2

/-- the Redis keys of a collection stand for the reference-store collection `c` -/
structure RelRC (rc : RColl) (c : Coll) : Prop where
  ids : rc.ids = c.ids
  nodup : c.ids.Nodup
  recs : ∀ d ∈ c, RecOK Good d
  hashes : ∀ d ∈ c, Redis.hgetall (recId d) rc = encH ft (dpop kId d)
  stale : ∀ j, j ∉ rc.ids → Redis.hgetall j rc = []
  hnd : (dkeys rc.hashes).Nodup

theorem hgetall_hsetMap (i j : Str) (m : Hash) (c : RColl) :
    Redis.hgetall j (Redis.hsetMap i m c) = if j = i then dupdate (Redis.hgetall i c) m else Redis.hgetall j c := by
  simp only [Redis.hgetall, Redis.hsetMap]
  by_cases h : j = i
  · subst h; simp [dget_dset_self]
  · simp [h, dget_dset_ne j i _ _ h]

theorem hgetall_delKey (i j : Str) (c : RColl) (nd : (dkeys c.hashes).Nodup) :
    Redis.hgetall j (Redis.delKey i c) = if j = i then [] else Redis.hgetall j c := by
  simp only [Redis.hgetall, Redis.delKey]
  by_cases h : j = i
  · subst h; simp [dget_dpop_self j c.hashes nd]
  · simp [h, dget_dpop_ne j i _ h]

theorem dget_encH (k : Str) (d : Fields) : dget k (encH ft d) = (dget k d).map (encodeVal Fix.repaired ft) :=
  dget_mapVals _ k d

theorem body_no_id (d : Fields) (nd : (dkeys d).Nodup) : dget kId (dpop kId d) = none := dget_dpop_self kId d nd

theorem dset_id_encH (d : Fields) (i : Str) (nd : (dkeys d).Nodup) :
    dset kId i (encH ft (dpop kId d)) = encH ft (dpop kId d) ++ [(kId, i)] := by
  apply dset_of_not_mem
  rw [← dget_none_iff, dget_encH, body_no_id d nd]; rfl

variable (hrt : ∀ v, Good v → decodeVal ft (encodeVal Fix.repaired ft v) = some v)
include hrt

/-- `_filter_matches` on the stored hash (with the id added) is the filter on the record -/
theorem hmatches_rec (d : Fields) (hd : RecOK Good d) (filt : Fields) :
    Redis.hmatches ft (dset kId (recId d) (encH ft (dpop kId d))) filt = recMatches d filt := by
  induction filt with
  | nil => rfl
  | cons a t ih =>
    obtain ⟨k, c⟩ := a
    simp only [Redis.hmatches, recMatches]
    by_cases hk : k = kId
    · subst hk
      rw [dget_dset_self, hd.id]
      simp only [if_true]
      cases condMatches (JVal.str (recId d)) c with
      | none => rfl
      | some b => cases b <;> simp [ih]
    · rw [dget_dset_ne k kId _ _ hk, dget_encH, dget_dpop_ne k kId d hk]
      cases hv : dget k d with
      | none => rfl
      | some v =>
        have hg : Good v := by
          have hm : (k, v) ∈ dpop kId d := by
            have := dget_mem k v (dpop kId d) (by rw [dget_dpop_ne k kId d hk]; exact hv)
            exact this
          exact hd.good (k, v) hm
        simp only [Option.map_some, hk, if_false, hrt v hg]
        cases condMatches v c with
        | none => rfl
        | some b => cases b <;> simp [ih]

/-- the by-id path: the hash without id against the rest of the filter -/
theorem hmatches_body (d : Fields) (hd : RecOK Good d) (filt : Fields) (hf : kId ∉ dkeys filt) :
    Redis.hmatches ft (encH ft (dpop kId d)) filt = recMatches d filt := by
  induction filt with
  | nil => rfl
  | cons a t ih =>
    obtain ⟨k, c⟩ := a
    simp only [dkeys, List.map_cons, List.mem_cons, not_or] at hf
    have hk : k ≠ kId := fun e => hf.1 e.symm
    have iht := ih (by simpa [dkeys] using hf.2)
    simp only [Redis.hmatches, recMatches]
    rw [dget_encH, dget_dpop_ne k kId d hk]
    cases hv : dget k d with
    | none => rfl
    | some v =>
      have hg : Good v := hd.good (k, v) (dget_mem k v (dpop kId d) (by rw [dget_dpop_ne k kId d hk]; exact hv))
      simp only [Option.map_some, hk, if_false, hrt v hg]
      cases condMatches v c with
      | none => rfl
      | some b => cases b <;> simp [iht]

theorem sortKeyDb_rec (d : Fields) (hd : RecOK Good d) (f : Str) :
    Redis.sortKeyDb ft f (dset kId (recId d) (encH ft (dpop kId d))) = sortKeyR f d := by
  unfold Redis.sortKeyDb sortKeyR
  by_cases hf : f = kId
  · subst hf
    simp [dget_dset_self, hd.id]
  · simp only [hf, if_false]
    rw [dget_dset_ne f kId _ _ hf, dget_encH, dget_dpop_ne f kId d hf]
    cases hv : dget f d with
    | none => rfl
    | some v =>
      have hg : Good v := hd.good (f, v) (dget_mem f v (dpop kId d) (by rw [dget_dpop_ne f kId d hf]; exact hv))
      simp [hrt v hg]

theorem recordFromDb_enc (fields : Option (List Str)) (l : Fields) (hl : ∀ kv ∈ l, kv.1 ≠ kId ∧ Good kv.2) (i : Str) :
    Redis.recordFromDb ft fields (encH ft l ++ [(kId, i)]) = some (project fields (l ++ [(kId, .str i)])) := by
  induction l with
  | nil =>
    cases fields with
    | none => simp [encH, mapVals, Redis.recordFromDb, project]
    | some fs =>
      by_cases h : kId ∈ fs
      · simp [encH, mapVals, Redis.recordFromDb, project, h]
      · simp [encH, mapVals, Redis.recordFromDb, project, h]
  | cons a t ih =>
    obtain ⟨k, v⟩ := a
    have hk := (hl (k, v) (by simp)).1
    have hg := (hl (k, v) (by simp)).2
    have iht := ih (fun kv hkv => hl kv (by simp [hkv]))
    simp only [encH, mapVals, List.map_cons, List.cons_append] at iht ⊢
    cases fields with
    | none =>
      simp only [Redis.recordFromDb, project, hk, if_false, hrt v hg] at iht ⊢
      simp [iht]
    | some fs =>
      by_cases h : fs.contains k = true
      · simp only [Redis.recordFromDb, project, h, if_true, hk, if_false, hrt v hg, List.filter_cons] at iht ⊢
        simp [iht]
      · have h' : fs.contains k = false := by simpa using h
        simp only [Redis.recordFromDb, project, h', Bool.false_eq_true, if_false, List.filter_cons] at iht ⊢
        exact iht

theorem recordFromDb_rec (fields : Option (List Str)) (d : Fields) (hd : RecOK Good d) :
    Redis.recordFromDb ft fields (dset kId (recId d) (encH ft (dpop kId d))) = some (project fields (normRec d)) := by
  rw [dset_id_encH ft d _ hd.nd]
  have hbody : ∀ kv ∈ dpop kId d, kv.1 ≠ kId ∧ Good kv.2 := by
    intro kv hkv
    refine ⟨?_, hd.good kv hkv⟩
    intro e
    have h1 := body_no_id d hd.nd
    rw [dget_none_iff] at h1
    have : kv.1 ∈ dkeys (dpop kId d) := List.mem_map_of_mem (f := Prod.fst) hkv
    rw [e] at this
    exact h1 this
  rw [recordFromDb_enc ft Good hrt fields (dpop kId d) hbody]
  simp [normRec, hd.id]

end redis



/-! #### fresh ids: the counter loop of the repaired `_get_next_id` -/

/-- `x` is the numeral of a number beyond `seq` (a candidate the loop may still meet) -/
def beyond (seq : Nat) (x : Str) : Bool :=
  match parseDec x with
  | some n => decide (seq < n) && x == toDec n
  | none => false

theorem beyond_toDec (seq n : Nat) (h : seq < n) : beyond seq (toDec n) = true := by
  simp [beyond, parseDec_toDec, h]

theorem beyond_mono (seq : Nat) (x : Str) (h : beyond (seq + 1) x = true) : beyond seq x = true := by
  unfold beyond at *
  cases hp : parseDec x with
  | none => rw [hp] at h; exact h
  | some n =>
    rw [hp] at h
    simp only [Bool.and_eq_true, decide_eq_true_eq] at h ⊢
    exact ⟨by omega, h.2⟩

theorem not_beyond_succ (seq : Nat) : beyond (seq + 1) (toDec (seq + 1)) = false := by
  simp [beyond, parseDec_toDec]

theorem countP_lt {α : Type} (p q : α → Bool) (l : List α) (hpq : ∀ x, q x = true → p x = true)
    (x : α) (hx : x ∈ l) (hp : p x = true) (hq : q x = false) : l.countP q < l.countP p := by
  induction l with
  | nil => cases hx
  | cons a t ih =>
    have hle : t.countP q ≤ t.countP p := by
      clear ih hx
      induction t with
      | nil => simp
      | cons b u ihu =>
        simp only [List.countP_cons]
        have := hpq b
        cases hb : q b <;> cases hb' : p b <;> simp_all <;> omega
    simp only [List.countP_cons]
    rcases List.mem_cons.mp hx with e | e
    · subst e
      simp [hp, hq]; omega
    · have := ih e
      have := hpq a
      cases ha : q a <;> cases ha' : p a <;> simp_all <;> omega

theorem nextId_fresh : ∀ (fuel : Nat) (c : RColl), c.ids.countP (beyond c.seq) ≤ fuel →
    (Redis.nextId Fix.repaired c fuel).1 ∉ c.ids := by
  intro fuel
  induction fuel with
  | zero =>
    intro c h
    simp only [Redis.nextId]
    intro hmem
    have : 0 < c.ids.countP (beyond c.seq) :=
      List.countP_pos_iff.mpr ⟨_, hmem, beyond_toDec c.seq (c.seq + 1) (by omega)⟩
    omega
  | succ f ih =>
    intro c h
    simp only [Redis.nextId]
    by_cases hm : c.ids.contains (toDec (c.seq + 1)) = true
    · simp only [Fix.repaired, hm, Bool.and_self, if_true]
      have hmem := contains_iff.mp hm
      have hlt := countP_lt (beyond c.seq) (beyond (c.seq + 1)) c.ids (beyond_mono c.seq) _ hmem
        (beyond_toDec c.seq (c.seq + 1) (by omega)) (not_beyond_succ c.seq)
      exact ih { c with seq := c.seq + 1 } (by simp only; omega)
    · have hm' : c.ids.contains (toDec (c.seq + 1)) = false := by simpa using hm
      simp only [Fix.repaired, hm', Bool.and_false, Bool.false_eq_true, if_false]
      exact contains_false_iff.mp hm'

theorem nextId_fresh' (c : RColl) : (Redis.nextId Fix.repaired c (c.ids.length + 1)).1 ∉ c.ids :=
  nextId_fresh _ c (by have := List.countP_le_length (p := beyond c.seq) (l := c.ids); omega)



section redis2
variable (ft : FloatText) (Good : JVal → Prop)

/-- a reference-store collection seen as a JSON-driver collection (to reuse the by-id lemmas) -/
def emb (c : Coll) : JColl := c.map (fun d => (recId d, d))

theorem absColl_emb (c : Coll) : absColl (emb c) = c := by
  simp [absColl, emb, List.map_map, Function.comp_def]

theorem dkeys_emb (c : Coll) : dkeys (emb c) = c.ids := by
  simp [dkeys, emb, Coll.ids, List.map_map, Function.comp_def]

theorem RelRC.embOK {rc : RColl} {c : Coll} (h : RelRC ft Good rc c) : JCollOK (emb c) := by
  refine ⟨by rw [dkeys_emb]; exact h.nodup, ?_⟩
  intro p hp
  obtain ⟨d, hd, rfl⟩ := List.mem_map.mp hp
  exact (h.recs d hd).id

theorem dget_emb {c : Coll} {i : Str} {d : Fields} (h : dget i (emb c) = some d) : d ∈ c ∧ recId d = i := by
  have := dget_mem i d _ h
  obtain ⟨d', hd', e⟩ := List.mem_map.mp this
  injection e with e1 e2
  subst e2
  exact ⟨hd', e1⟩

theorem RelRC.lookup {rc : RColl} {c : Coll} (h : RelRC ft Good rc c) {i : Str} {d : Fields}
    (hd : dget i (emb c) = some d) : Redis.hgetall i rc = encH ft (dpop kId d) := by
  obtain ⟨h1, h2⟩ := dget_emb hd
  rw [← h2]; exact h.hashes d h1

theorem RelRC.seq {rc : RColl} {c : Coll} (h : RelRC ft Good rc c) (n : Nat) : RelRC ft Good { rc with seq := n } c :=
  ⟨h.ids, h.nodup, h.recs, h.hashes, h.stale, h.hnd⟩

theorem dpop_dset_self {β : Type} (k : Str) (v : β) (d : List (Str × β)) : dpop k (dset k v d) = dpop k d := by
  induction d with
  | nil => simp [dset, dpop]
  | cons a t ih =>
    obtain ⟨k', v'⟩ := a
    by_cases h1 : k' = k
    · simp [dset, dpop, h1]
    · simp [dset, dpop, h1, ih]

theorem recordToDb_noid (d : Fields) (h : dget kId d = none) : Redis.recordToDb Fix.repaired ft d = encH ft d := by
  induction d with
  | nil => rfl
  | cons a t ih =>
    obtain ⟨k, v⟩ := a
    have hk : k ≠ kId := by intro e; subst e; simp [dget] at h
    have ht : dget kId t = none := by simpa [dget, hk] using h
    simp only [Redis.recordToDb, encH, mapVals, List.map_cons, hk, if_false] at ih ⊢
    rw [ih ht]

theorem dpop_recordToDb (d : Fields) (nd : (dkeys d).Nodup) :
    dpop kId (Redis.recordToDb Fix.repaired ft d) = encH ft (dpop kId d) := by
  induction d with
  | nil => rfl
  | cons a t ih =>
    obtain ⟨k, v⟩ := a
    simp only [dkeys, List.map_cons, List.nodup_cons] at nd
    by_cases hk : k = kId
    · subst hk
      have ht : dget kId t = none := (dget_none_iff _ _).mpr nd.1
      simp only [Redis.recordToDb, List.map_cons, dpop, if_true]
      exact recordToDb_noid ft t ht
    · simp only [Redis.recordToDb, List.map_cons, hk, if_false, dpop, encH, mapVals] at ih ⊢
      rw [ih nd.2]

theorem encH_isEmpty (d : Fields) : (encH ft d).isEmpty = d.isEmpty := by
  cases d <;> rfl

theorem encH_nodup (d : Fields) (nd : (dkeys d).Nodup) : (dkeys (encH ft d)).Nodup := by
  have : dkeys (encH ft d) = dkeys d := by simp [dkeys, encH, mapVals, List.map_map, Function.comp_def]
  rw [this]; exact nd

theorem sadd_ids (i : Str) (rc : RColl) (h : i ∉ rc.ids) : (Redis.sadd i rc).ids = rc.ids ++ [i] := by
  unfold Redis.sadd
  rw [if_neg (by rw [contains_iff]; exact h)]

theorem sadd_of_mem (i : Str) (rc : RColl) (h : i ∈ rc.ids) : Redis.sadd i rc = rc := by
  unfold Redis.sadd
  rw [if_pos (contains_iff.mpr h)]

theorem sadd_hashes (i : Str) (rc : RColl) : (Redis.sadd i rc).hashes = rc.hashes := by
  unfold Redis.sadd; split <;> rfl

theorem hgetall_sadd (i j : Str) (rc : RColl) : Redis.hgetall j (Redis.sadd i rc) = Redis.hgetall j rc := by
  unfold Redis.hgetall; rw [sadd_hashes]

/-- storing a new record -/
theorem RelRC.insert {rc : RColl} {c : Coll} (h : RelRC ft Good rc c) (i : Str) (dnew : Fields) (hi : i ∉ c.ids)
    (hok : RecOK Good dnew) (hid : recId dnew = i) :
    RelRC ft Good
      (Redis.sadd i (if !(encH ft (dpop kId dnew)).isEmpty then Redis.hsetMap i (encH ft (dpop kId dnew)) rc else rc))
      (c ++ [dnew]) := by
  have hi' : i ∉ rc.ids := by rw [h.ids]; exact hi
  have hbody : (dkeys (encH ft (dpop kId dnew))).Nodup := encH_nodup ft _ (nodup_dkeys_dpop kId dnew hok.nd)
  -- the hash under the new id after the optional hset
  have hnew : Redis.hgetall i (if !(encH ft (dpop kId dnew)).isEmpty then Redis.hsetMap i (encH ft (dpop kId dnew)) rc else rc)
      = encH ft (dpop kId dnew) := by
    by_cases he : (encH ft (dpop kId dnew)).isEmpty = true
    · simp only [he, Bool.not_true, Bool.false_eq_true, if_false]
      rw [h.stale i hi']
      cases hx : encH ft (dpop kId dnew) with
      | nil => rfl
      | cons a t => rw [hx] at he; cases he
    · have he' : (encH ft (dpop kId dnew)).isEmpty = false := by simpa using he
      simp only [he', Bool.not_false, if_true]
      rw [hgetall_hsetMap, if_pos rfl, h.stale i hi', dupdate_nil_of_nodup _ hbody]
  have hother : ∀ j, j ≠ i → Redis.hgetall j (if !(encH ft (dpop kId dnew)).isEmpty then Redis.hsetMap i (encH ft (dpop kId dnew)) rc else rc)
      = Redis.hgetall j rc := by
    intro j hj
    split
    · rw [hgetall_hsetMap, if_neg hj]
    · rfl
  have hids : (if !(encH ft (dpop kId dnew)).isEmpty then Redis.hsetMap i (encH ft (dpop kId dnew)) rc else rc).ids = rc.ids := by
    split <;> rfl
  refine ⟨?_, ?_, ?_, ?_, ?_, ?_⟩
  · rw [sadd_ids _ _ (by rw [hids]; exact hi'), hids, h.ids]
    simp [Coll.ids, hid]
  · simp only [Coll.ids, List.map_append, List.map_cons, List.map_nil, hid]
    rw [List.nodup_append]
    refine ⟨h.nodup, by simp, ?_⟩
    intro a ha b hb
    simp only [List.mem_singleton] at hb
    subst hb
    intro e; subst e; exact hi ha
  · intro d hd
    rcases List.mem_append.mp hd with e | e
    · exact h.recs d e
    · simp only [List.mem_singleton] at e; subst e; exact hok
  · intro d hd
    rw [hgetall_sadd]
    rcases List.mem_append.mp hd with e | e
    · have hne : recId d ≠ i := by
        intro e'; apply hi; rw [← e']; exact List.mem_map_of_mem (f := recId) e
      rw [hother _ hne]; exact h.hashes d e
    · simp only [List.mem_singleton] at e; subst e; rw [hid]; exact hnew
  · intro j hj
    rw [hgetall_sadd]
    rw [sadd_ids _ _ (by rw [hids]; exact hi'), hids] at hj
    simp only [List.mem_append, List.mem_singleton, not_or] at hj
    rw [hother j hj.2]; exact h.stale j hj.1
  · rw [sadd_hashes]
    split
    · exact nodup_dkeys_dset _ _ _ h.hnd
    · exact h.hnd

end redis2



section redis3
variable (ft : FloatText) (Good : JVal → Prop)

def RelR (ks : RState) (rs : RefState) : Prop := ∀ coll, RelRC ft Good (aget {} coll ks) (aget [] coll rs)

theorem RelR.aset {ks : RState} {rs : RefState} (h : RelR ft Good ks rs) (coll : Str) (rc : RColl) (c : Coll)
    (h1 : RelRC ft Good rc c) : RelR ft Good (aset coll rc ks) (aset coll c rs) := by
  intro k
  rw [aget_aset, aget_aset]
  by_cases e : k = coll
  · simp [e, h1]
  · simp [e, h k]

theorem RelR.aset_left {ks : RState} {rs : RefState} (h : RelR ft Good ks rs) (coll : Str) (rc : RColl)
    (h1 : RelRC ft Good rc (aget [] coll rs)) : RelR ft Good (Store.aset coll rc ks) rs := by
  intro k
  rw [aget_aset]
  by_cases e : k = coll
  · subst e; simp [h1]
  · simp [e, h k]

/-- what the contract lets a caller pass: dicts have distinct keys, values survive the codec -/
def OpOK : Op → Prop
  | .insert _ rec => (dkeys rec).Nodup ∧ ∀ kv ∈ dpop kId rec, Good kv.2
  | .update _ part filt => (dkeys filt).Nodup ∧ ∀ kv ∈ part, Good kv.2
  | .replace _ _ rec => (dkeys rec).Nodup ∧ ∀ kv ∈ dpop kId rec, Good kv.2
  | .remove _ filt => (dkeys filt).Nodup
  | .query _ _ filt _ _ => (dkeys filt).Nodup
  | .reload => True

/-- results of the Redis driver carry the id last -/
def normRes : Res → Res
  | .recs l => .recs (l.map normRec)
  | r => r

theorem recOK_insert_auto (rec : Fields) (i : Str) (nd : (dkeys rec).Nodup) (hg : ∀ kv ∈ dpop kId rec, Good kv.2) :
    RecOK Good (dset kId (.str i) rec) ∧ recId (dset kId (.str i) rec) = i := by
  have hid : dget kId (dset kId (.str i) rec) = some (.str i) := dget_dset_self _ _ _
  have hr : recId (dset kId (.str i) rec) = i := recId_of _ _ hid
  refine ⟨⟨by rw [hr]; exact hid, nodup_dkeys_dset _ _ _ nd, ?_⟩, hr⟩
  rw [dpop_dset_self]; exact hg

/-- insert, strong form: the same answer in every case — the id, or the in-contract errors `Err.dup` and
`Err.badId` — and related states (the reference state is unchanged on an error, the server at most re-writes the
same collection entry). -/
theorem redis_insert_refines_strong (ks : RState) (rs : RefState) (hrel : RelR ft Good ks rs) (coll : Str) (rec : Fields)
    (hop : OpOK Good (.insert coll rec)) :
    let kr := Redis.step Fix.repaired ft ks (.insert coll rec)
    let rr := Ref.step rs (match kr.2 with | .id n => n | _ => []) (.insert coll rec)
    rr.2 ≠ .err .notFresh ∧ kr.2 = normRes rr.2 ∧ RelR ft Good kr.1 rr.1 := by
  have hc := hrel coll
  obtain ⟨hnd, hgood⟩ := hop
  have hbody : dget kId (dpop kId rec) = none := body_no_id rec hnd
  have hdb : Redis.recordToDb Fix.repaired ft (dpop kId rec) = encH ft (dpop kId rec) := recordToDb_noid ft _ hbody
  -- common tail: storing `dnew` under a free id `i`
  have store : ∀ (rc1 : RColl) (i : Str) (dnew : Fields), RelRC ft Good rc1 (aget [] coll rs) → i ∉ (aget [] coll rs : Coll).ids →
      RecOK Good dnew → recId dnew = i → dpop kId dnew = dpop kId rec →
      RelR ft Good
        (aset coll (Redis.sadd i (if !(encH ft (dpop kId rec)).isEmpty then Redis.hsetMap i (encH ft (dpop kId rec)) rc1 else rc1)) ks)
        (aset coll ((aget [] coll rs : Coll) ++ [dnew]) rs) := by
    intro rc1 i dnew h1 hi hok hid hb
    apply RelR.aset ft Good hrel coll
    have := RelRC.insert ft Good h1 i dnew hi hok hid
    rw [hb] at this
    exact this
  cases hidv : dget kId rec with
  | none =>
    have h0 := nextId_fresh' (aget {} coll ks)
    generalize hnx : Redis.nextId Fix.repaired (aget {} coll ks) ((aget {} coll ks).ids.length + 1) = nx at h0
    have hfresh : nx.1 ∉ (aget [] coll rs : Coll).ids := by rw [← hc.ids]; exact h0
    have hcf : (aget [] coll rs : Coll).ids.contains nx.1 = false := contains_false_iff.mpr hfresh
    have hcf' : (aget {} coll ks : RColl).ids.contains nx.1 = false := contains_false_iff.mpr h0
    obtain ⟨hok, hid⟩ := recOK_insert_auto Good rec nx.1 hnd hgood
    simp only [Redis.step, Ref.step, hidv, hnx, hcf, hcf', hdb, Bool.false_eq_true, if_false]
    refine ⟨by simp, by simp [normRes], ?_⟩
    exact store _ _ _ (RelRC.seq ft Good hc _) hfresh hok hid (dpop_dset_self _ _ _)
  | some v =>
    cases v with
    | null =>
      have h0 := nextId_fresh' (aget {} coll ks)
      generalize hnx : Redis.nextId Fix.repaired (aget {} coll ks) ((aget {} coll ks).ids.length + 1) = nx at h0
      have hfresh : nx.1 ∉ (aget [] coll rs : Coll).ids := by rw [← hc.ids]; exact h0
      have hcf : (aget [] coll rs : Coll).ids.contains nx.1 = false := contains_false_iff.mpr hfresh
      have hcf' : (aget {} coll ks : RColl).ids.contains nx.1 = false := contains_false_iff.mpr h0
      obtain ⟨hok, hid⟩ := recOK_insert_auto Good rec nx.1 hnd hgood
      simp only [Redis.step, Ref.step, hidv, hnx, hcf, hcf', hdb, Bool.false_eq_true, if_false]
      refine ⟨by simp, by simp [normRes], ?_⟩
      exact store _ _ _ (RelRC.seq ft Good hc _) hfresh hok hid (dpop_dset_self _ _ _)
    | str i =>
      by_cases hm : i ∈ (aget [] coll rs : Coll).ids
      · have h2 : (aget [] coll rs : Coll).ids.contains i = true := contains_iff.mpr hm
        have h2' : (aget {} coll ks : RColl).ids.contains i = true := by rw [hc.ids]; exact h2
        simp only [Redis.step, Ref.step, hidv, h2, h2', if_true]
        exact ⟨by simp, by simp [normRes], RelR.aset_left ft Good hrel coll _ hc⟩
      · have h2 : (aget [] coll rs : Coll).ids.contains i = false := contains_false_iff.mpr hm
        have h2' : (aget {} coll ks : RColl).ids.contains i = false := by rw [hc.ids]; exact h2
        have hok : RecOK Good rec := ⟨by rw [recId_of _ _ hidv]; exact hidv, hnd, hgood⟩
        simp only [Redis.step, Ref.step, hidv, h2, h2', hdb, Bool.false_eq_true, if_false]
        refine ⟨by simp, by simp [normRes], ?_⟩
        exact store _ _ _ hc hm hok (recId_of _ _ hidv) rfl
    | bool b => simp only [Redis.step, Ref.step, hidv]; exact ⟨by simp, by simp [normRes], hrel⟩
    | int b => simp only [Redis.step, Ref.step, hidv]; exact ⟨by simp, by simp [normRes], hrel⟩
    | num b => simp only [Redis.step, Ref.step, hidv]; exact ⟨by simp, by simp [normRes], hrel⟩
    | date a b => simp only [Redis.step, Ref.step, hidv]; exact ⟨by simp, by simp [normRes], hrel⟩
    | arr b => simp only [Redis.step, Ref.step, hidv]; exact ⟨by simp, by simp [normRes], hrel⟩
    | obj b => simp only [Redis.step, Ref.step, hidv]; exact ⟨by simp, by simp [normRes], hrel⟩

theorem redis_insert_refines (ks : RState) (rs : RefState) (hrel : RelR ft Good ks rs) (coll : Str) (rec : Fields)
    (hop : OpOK Good (.insert coll rec)) :
    let kr := Redis.step Fix.repaired ft ks (.insert coll rec)
    let rr := Ref.step rs (match kr.2 with | .id n => n | _ => []) (.insert coll rec)
    rr.2 ≠ .err .notFresh ∧ ((∃ e, rr.2 = .err e) ∨ (kr.2 = normRes rr.2 ∧ RelR ft Good kr.1 rr.1)) :=
  have h := redis_insert_refines_strong ft Good ks rs hrel coll rec hop
  ⟨h.1, Or.inr h.2⟩

end redis3



section redis4
variable (ft : FloatText) (Good : JVal → Prop)

theorem replaceRec_ids (i : Str) (dnew : Fields) (c : Coll) (hid : recId dnew = i) :
    (Ref.replaceRec i dnew c).ids = c.ids := by
  induction c with
  | nil => rfl
  | cons d t ih =>
    simp only [Ref.replaceRec]
    split
    · rename_i h; simp [Coll.ids, hid, h]
    · simp only [Coll.ids, List.map_cons] at ih ⊢; rw [ih]

theorem mem_replaceRec (i : Str) (dnew : Fields) (c : Coll) (nd : c.ids.Nodup) (d' : Fields)
    (h : d' ∈ Ref.replaceRec i dnew c) : d' = dnew ∨ (d' ∈ c ∧ recId d' ≠ i) := by
  induction c with
  | nil => cases h
  | cons d t ih =>
    simp only [Coll.ids, List.map_cons, List.nodup_cons] at nd
    simp only [Ref.replaceRec] at h
    split at h
    · rename_i hd
      rcases List.mem_cons.mp h with e | e
      · exact Or.inl e
      · refine Or.inr ⟨by simp [e], ?_⟩
        intro e'
        apply nd.1
        rw [hd, ← e']
        exact List.mem_map_of_mem (f := recId) e
    · rename_i hne
      rcases List.mem_cons.mp h with e | e
      · exact Or.inr ⟨by simp [e], by rw [e]; exact hne⟩
      · rcases ih nd.2 e with e' | e'
        · exact Or.inl e'
        · exact Or.inr ⟨by simp [e'.1], e'.2⟩

theorem mem_replaceRec_self (i : Str) (dnew : Fields) (c : Coll) (hid : recId dnew = i)
    (h : dnew ∈ Ref.replaceRec i dnew c) : i ∈ c.ids := by
  induction c with
  | nil => cases h
  | cons d0 t ih =>
    simp only [Ref.replaceRec] at h
    split at h
    · rename_i h0; simp [Coll.ids, h0]
    · rename_i h0
      rcases List.mem_cons.mp h with e | e
      · rw [← e] at h0; exact absurd hid h0
      · have := ih e
        simp only [Coll.ids, List.map_cons, List.mem_cons] at this ⊢
        exact Or.inr this

/-- overwriting the hash of one existing record -/
theorem RelRC.setRec {rc rc' : RColl} {c : Coll} (h : RelRC ft Good rc c) (i : Str) (dnew : Fields)
    (hok : RecOK Good dnew) (hid : recId dnew = i)
    (hids : rc'.ids = rc.ids) (hnd : (dkeys rc'.hashes).Nodup)
    (hi : i ∈ c.ids → Redis.hgetall i rc' = encH ft (dpop kId dnew))
    (hother : ∀ j, j ≠ i → Redis.hgetall j rc' = Redis.hgetall j rc)
    (hstale : i ∉ c.ids → Redis.hgetall i rc' = []) :
    RelRC ft Good rc' (Ref.replaceRec i dnew c) := by
  refine ⟨by rw [hids, h.ids, replaceRec_ids i dnew c hid], by rw [replaceRec_ids i dnew c hid]; exact h.nodup, ?_, ?_, ?_, hnd⟩
  · intro d hd
    rcases mem_replaceRec i dnew c h.nodup d hd with e | e
    · rw [e]; exact hok
    · exact h.recs d e.1
  · intro d hd
    rcases mem_replaceRec i dnew c h.nodup d hd with e | e
    · rw [e, hid]
      apply hi
      rw [e] at hd
      exact mem_replaceRec_self i dnew c hid hd
    · rw [hother _ e.2]; exact h.hashes d e.1
  · intro j hj
    rw [hids] at hj
    by_cases e : j = i
    · subst e; exact hstale (by rw [← h.ids]; exact hj)
    · rw [hother j e]; exact h.stale j hj

end redis4



section redis5
variable (ft : FloatText) (Good : JVal → Prop)

theorem redis_replace_refines (ks : RState) (rs : RefState) (hrel : RelR ft Good ks rs) (coll id : Str) (rec : Fields)
    (hop : OpOK Good (.replace coll id rec)) :
    let kr := Redis.step Fix.repaired ft ks (.replace coll id rec)
    let rr := Ref.step rs [] (.replace coll id rec)
    kr.2 = normRes rr.2 ∧ RelR ft Good kr.1 rr.1 := by
  have hc := hrel coll
  obtain ⟨hnd, hgood⟩ := hop
  have hdb : dpop kId (Redis.recordToDb Fix.repaired ft rec) = encH ft (dpop kId rec) := dpop_recordToDb ft rec hnd
  by_cases hm : id ∈ (aget [] coll rs : Coll).ids
  · have h2 : (aget [] coll rs : Coll).ids.contains id = true := contains_iff.mpr hm
    have h2' : (aget {} coll ks : RColl).ids.contains id = true := by rw [hc.ids]; exact h2
    have hm' : id ∈ (aget {} coll ks : RColl).ids := by rw [hc.ids]; exact hm
    obtain ⟨hok, hid⟩ := recOK_insert_auto Good rec id hnd hgood
    simp only [Redis.step, Ref.step, h2, h2', hdb, if_true]
    refine ⟨rfl, RelR.aset ft Good hrel coll _ _ ?_⟩
    have hbody : (dkeys (encH ft (dpop kId rec))).Nodup := encH_nodup ft _ (nodup_dkeys_dpop kId rec hnd)
    have hids2 : (if !(encH ft (dpop kId rec)).isEmpty then Redis.hsetMap id (encH ft (dpop kId rec)) (Redis.delKey id (aget {} coll ks))
        else Redis.delKey id (aget {} coll ks)).ids = (aget {} coll ks : RColl).ids := by split <;> rfl
    rw [sadd_of_mem _ _ (by rw [hids2]; exact hm')]
    apply RelRC.setRec ft Good hc id _ hok hid hids2
    · split
      · exact nodup_dkeys_dset _ _ _ (nodup_dkeys_dpop _ _ hc.hnd)
      · exact nodup_dkeys_dpop _ _ hc.hnd
    · intro _
      rw [dpop_dset_self]
      by_cases he : (encH ft (dpop kId rec)).isEmpty = true
      · simp only [he, Bool.not_true, Bool.false_eq_true, if_false]
        rw [hgetall_delKey _ _ _ hc.hnd, if_pos rfl]
        cases hx : encH ft (dpop kId rec) with
        | nil => rfl
        | cons a t => rw [hx] at he; cases he
      · have he' : (encH ft (dpop kId rec)).isEmpty = false := by simpa using he
        simp only [he', Bool.not_false, if_true]
        rw [hgetall_hsetMap, if_pos rfl, hgetall_delKey _ _ _ hc.hnd, if_pos rfl, dupdate_nil_of_nodup _ hbody]
    · intro j hj
      split
      · rw [hgetall_hsetMap, if_neg hj, hgetall_delKey _ _ _ hc.hnd, if_neg hj]
      · rw [hgetall_delKey _ _ _ hc.hnd, if_neg hj]
    · intro hn; exact absurd hm hn
  · have h2 : (aget [] coll rs : Coll).ids.contains id = false := contains_false_iff.mpr hm
    have h2' : (aget {} coll ks : RColl).ids.contains id = false := by rw [hc.ids]; exact h2
    simp only [Redis.step, Ref.step, h2, h2', Bool.false_eq_true, if_false]
    exact ⟨rfl, hrel⟩

end redis5



section redis6
variable (ft : FloatText) (Good : JVal → Prop)

theorem RelR.aset_right {ks : RState} {rs : RefState} (h : RelR ft Good ks rs) (coll : Str) (c : Coll)
    (h1 : RelRC ft Good (aget {} coll ks) c) : RelR ft Good ks (Store.aset coll c rs) := by
  intro k
  rw [aget_aset]
  by_cases e : k = coll
  · subst e; simp [h1]
  · simp [e, h k]

theorem mem_dset' {β : Type} (k : Str) (v : β) (d : List (Str × β)) (p : Str × β) (h : p ∈ dset k v d) :
    p = (k, v) ∨ p ∈ d := mem_dset k v d p h

theorem mem_dupdate {β : Type} (d part : List (Str × β)) (p : Str × β) (h : p ∈ dupdate d part) : p ∈ d ∨ p ∈ part := by
  induction part generalizing d with
  | nil => exact Or.inl h
  | cons a t ih =>
    obtain ⟨k, v⟩ := a
    rcases ih (dset k v d) h with e | e
    · rcases mem_dset k v d p e with e' | e'
      · exact Or.inr (by simp [e'])
      · exact Or.inl e'
    · exact Or.inr (by simp [e])

theorem recOK_dupdate (d part : Fields) (hd : RecOK Good d) (hp : dget kId part = none) (hg : ∀ kv ∈ part, Good kv.2) :
    RecOK Good (dupdate d part) ∧ recId (dupdate d part) = recId d := by
  have hid : dget kId (dupdate d part) = some (.str (recId d)) := by rw [dget_dupdate_of_none kId d part hp]; exact hd.id
  have hr : recId (dupdate d part) = recId d := recId_of _ _ hid
  refine ⟨⟨by rw [hr]; exact hid, nodup_dkeys_dupdate d part hd.nd, ?_⟩, hr⟩
  intro kv hkv
  rw [dpop_dupdate kId d part hp] at hkv
  rcases mem_dupdate _ _ kv hkv with e | e
  · exact hd.good kv e
  · exact hg kv e

theorem encH_body_dupdate (d part : Fields) (hp : dget kId part = none) :
    dupdate (encH ft (dpop kId d)) (encH ft part) = encH ft (dpop kId (dupdate d part)) := by
  rw [dpop_dupdate kId d part hp]
  exact dupdate_mapVals _ _ _

theorem updRecs_nil_part (c : Coll) (bs : List Bool) : Ref.updRecs [] c bs = c := by
  induction c generalizing bs with
  | nil => cases bs <;> rfl
  | cons d t ih =>
    cases bs with
    | nil => rfl
    | cons b bs' => cases b <;> simp [Ref.updRecs, dupdate, ih]

theorem not_mem_dkeys_dpop {β : Type} (k : Str) (d : List (Str × β)) (nd : (dkeys d).Nodup) : k ∉ dkeys (dpop k d) := by
  rw [← dget_none_iff]; exact dget_dpop_self k d nd

variable (hrt : ∀ v, Good v → decodeVal ft (encodeVal Fix.repaired ft v) = some v)
include hrt

/-- generic path of update on the Redis keys -/
theorem updLoop_spec_r (part filt : Fields) (hp : dget kId part = none) (hg : ∀ kv ∈ part, Good kv.2) :
    ∀ (ds : List Fields) (bs : List Bool) (rc : RColl), (∀ d ∈ ds, RecOK Good d) → (ds.map recId).Nodup →
      (∀ d ∈ ds, Redis.hgetall (recId d) rc = encH ft (dpop kId d)) → (dkeys rc.hashes).Nodup →
      matchAll filt ds = some bs →
      ∃ rc', Redis.updLoop Fix.repaired ft (encH ft part) filt rc (ds.map recId) = (rc', countTrue bs, false) ∧
        rc'.ids = rc.ids ∧ (dkeys rc'.hashes).Nodup ∧
        (∀ d' ∈ Ref.updRecs part ds bs, Redis.hgetall (recId d') rc' = encH ft (dpop kId d')) ∧
        (∀ j, j ∉ ds.map recId → Redis.hgetall j rc' = Redis.hgetall j rc) ∧
        (Ref.updRecs part ds bs).map recId = ds.map recId ∧
        (∀ d' ∈ Ref.updRecs part ds bs, RecOK Good d') := by
  intro ds
  induction ds with
  | nil =>
    intro bs rc _ _ _ hnd hm
    simp only [matchAll, Option.some.injEq] at hm
    subst hm
    exact ⟨rc, rfl, rfl, hnd, by simp [Ref.updRecs], fun _ _ => rfl, rfl, by simp [Ref.updRecs]⟩
  | cons d t ih =>
    intro bs rc hok hnodup hh hnd hm
    obtain ⟨b, bs', rfl, hb, hm'⟩ := matchAll_cons hm
    have hdok := hok d (by simp)
    simp only [List.map_cons, List.nodup_cons] at hnodup
    have hmatch : Redis.hmatches ft (dset kId (recId d) (Redis.hgetall (recId d) rc)) filt = some b := by
      rw [hh d (by simp), hmatches_rec ft Good hrt d hdok filt]; exact hb
    -- state after treating the head
    let rc1 : RColl := if b then (if !(encH ft part).isEmpty then Redis.hsetMap (recId d) (encH ft part) rc else rc) else rc
    have hids1 : rc1.ids = rc.ids := by simp only [rc1]; split <;> (try split) <;> rfl
    have hnd1 : (dkeys rc1.hashes).Nodup := by
      simp only [rc1]; split
      · split
        · exact nodup_dkeys_dset _ _ _ hnd
        · exact hnd
      · exact hnd
    have hoth1 : ∀ j, j ≠ recId d → Redis.hgetall j rc1 = Redis.hgetall j rc := by
      intro j hj
      simp only [rc1]; split
      · split
        · rw [hgetall_hsetMap, if_neg hj]
        · rfl
      · rfl
    obtain ⟨rc', h1, h2, h3, h4, h5, h6, h7⟩ := ih bs' rc1 (fun x hx => hok x (by simp [hx])) hnodup.2
      (fun x hx => by
        rw [hoth1 _ (fun e => hnodup.1 (by rw [← e]; exact List.mem_map_of_mem (f := recId) hx))]
        exact hh x (by simp [hx])) hnd1 hm'
    have hcf : countTrue (false :: bs') = countTrue bs' := by simp [countTrue]
    have hct : countTrue (true :: bs') = countTrue bs' + 1 := by simp [countTrue]; omega
    have hloop : Redis.updLoop Fix.repaired ft (encH ft part) filt rc (recId d :: t.map recId)
        = (rc', countTrue (b :: bs'), false) := by
      cases b with
      | false =>
        have h1' : Redis.updLoop Fix.repaired ft (encH ft part) filt rc (t.map recId) = (rc', countTrue bs', false) := by
          simpa only [rc1, Bool.false_eq_true, if_false] using h1
        simp only [Redis.updLoop, hmatch, hcf]
        exact h1'
      | true =>
        simp only [Redis.updLoop, hmatch, Fix.repaired, hct]
        by_cases he : (encH ft part).isEmpty = true
        · have h1' : Redis.updLoop Fix.repaired ft (encH ft part) filt rc (t.map recId) = (rc', countTrue bs', false) := by
            simpa only [rc1, he, Bool.not_true, Bool.false_eq_true, if_false, if_true] using h1
          simp only [he, Bool.not_true, Bool.false_eq_true, if_false, if_true]
          rw [show (Fix.repaired : Fix) = { } from rfl] at h1'
          rw [h1']
        · have he' : (encH ft part).isEmpty = false := by simpa using he
          have h1' : Redis.updLoop Fix.repaired ft (encH ft part) filt (Redis.hsetMap (recId d) (encH ft part) rc) (t.map recId)
              = (rc', countTrue bs', false) := by
            simpa only [rc1, he', Bool.not_false, if_true] using h1
          simp only [he', Bool.not_false, if_true]
          rw [show (Fix.repaired : Fix) = { } from rfl] at h1'
          rw [h1']
    -- the head record after the update
    have hhead : Redis.hgetall (recId d) rc' = encH ft (dpop kId (if b then dupdate d part else d)) := by
      rw [h5 _ hnodup.1]
      cases b with
      | false => simp only [rc1, Bool.false_eq_true, if_false]; exact hh d (by simp)
      | true =>
        simp only [rc1, if_true]
        by_cases he : (encH ft part).isEmpty = true
        · simp only [he, Bool.not_true, Bool.false_eq_true, if_false]
          have : part = [] := by cases part with | nil => rfl | cons a t => simp [encH, mapVals] at he
          subst this
          exact hh d (by simp)
        · have he' : (encH ft part).isEmpty = false := by simpa using he
          simp only [he', Bool.not_false, if_true]
          rw [hgetall_hsetMap, if_pos rfl, hh d (by simp), encH_body_dupdate ft d part hp]
    have hidhead : recId (if b then dupdate d part else d) = recId d := by
      cases b
      · rfl
      · exact (recOK_dupdate Good d part hdok hp hg).2
    refine ⟨rc', hloop, by rw [h2, hids1], h3, ?_, ?_, ?_, ?_⟩
    · intro d' hd'
      simp only [Ref.updRecs] at hd'
      rcases List.mem_cons.mp hd' with e | e
      · rw [e, hidhead]; exact hhead
      · exact h4 d' e
    · intro j hj
      simp only [List.map_cons, List.mem_cons, not_or] at hj
      rw [h5 j hj.2, hoth1 j hj.1]
    · simp only [Ref.updRecs, List.map_cons, hidhead, h6]
    · intro d' hd'
      simp only [Ref.updRecs] at hd'
      rcases List.mem_cons.mp hd' with e | e
      · rw [e]
        cases b
        · exact hdok
        · exact (recOK_dupdate Good d part hdok hp hg).1
      · exact h7 d' e

end redis6



section redis7
variable (ft : FloatText) (Good : JVal → Prop)
variable (hrt : ∀ v, Good v → decodeVal ft (encodeVal Fix.repaired ft v) = some v)
include hrt

omit hrt in
theorem repaired_emptyPart : Fix.repaired.redisEmptyPart = true := rfl

theorem redis_update_refines (ks : RState) (rs : RefState) (hrel : RelR ft Good ks rs) (coll : Str) (part filt : Fields)
    (hop : OpOK Good (.update coll part filt)) :
    let kr := Redis.step Fix.repaired ft ks (.update coll part filt)
    let rr := Ref.step rs [] (.update coll part filt)
    (∃ e, rr.2 = .err e) ∨ (kr.2 = normRes rr.2 ∧ RelR ft Good kr.1 rr.1) := by
  have hc := hrel coll
  obtain ⟨hfnd, hgood⟩ := hop
  by_cases hp : (dget kId part).isSome = true
  · left; simp [Ref.step, hp]
  have hp' : dget kId part = none := by
    cases h : dget kId part with
    | none => rfl
    | some v => rw [h] at hp; simp at hp
  by_cases hfo' : ¬ filtOk filt = true
  · left; simp [Ref.step, hp', hfo']
  have hfo : filtOk filt = true := by simpa using hfo'
  have hdb : Redis.recordToDb Fix.repaired ft part = encH ft part := recordToDb_noid ft part hp'
  cases hmR : matchAll filt (aget [] coll rs : Coll) with
  | none => left; simp [Ref.step, hp', hfo, hmR]
  | some bs =>
    right
    cases hid : Json.idOf filt with
    | some i =>
      have hf := idOf_eq_some.mp hid
      have hemb := RelRC.embOK ft Good hc
      have key := upd_by_id part filt i hf (emb (aget [] coll rs)) bs hemb (by rw [absColl_emb]; exact hmR)
      rw [absColl_emb] at key
      cases hd : dget i (emb (aget [] coll rs)) with
      | none =>
        rw [hd] at key
        have hni : i ∉ (aget [] coll rs : Coll).ids := by rw [← dkeys_emb, ← dget_none_iff]; exact hd
        have hex : Redis.existsById Fix.repaired i (aget {} coll ks) = false := by
          simp only [Redis.existsById, Fix.repaired, if_true]; rw [hc.ids]; exact contains_false_iff.mpr hni
        simp only [Redis.step, Ref.step, hid, hex, hp', hfo, hmR, Option.isSome_none, Bool.false_eq_true, if_false,
          Bool.not_true, key.1, key.2]
        exact ⟨rfl, RelR.aset_right ft Good hrel coll _ hc⟩
      | some d =>
        rw [hd] at key
        obtain ⟨b, k1, k2, k3⟩ := key
        obtain ⟨hdc, hdi⟩ := dget_emb hd
        have hdok := hc.recs d hdc
        have hmi : i ∈ (aget [] coll rs : Coll).ids := by rw [← hdi]; exact List.mem_map_of_mem (f := recId) hdc
        have hex : Redis.existsById Fix.repaired i (aget {} coll ks) = true := by
          simp only [Redis.existsById, Fix.repaired, if_true]; rw [hc.ids]; exact contains_iff.mpr hmi
        have hhm : Redis.hmatches ft (Redis.hgetall i (aget {} coll ks)) (dpop kId filt) = some b := by
          rw [RelRC.lookup ft Good hc hd, hmatches_body ft Good hrt d hdok _ (not_mem_dkeys_dpop kId filt hfnd)]; exact k1
        cases b with
        | false =>
          simp only [Redis.step, Ref.step, hid, hex, hhm, hp', hfo, hmR, Option.isSome_none, Bool.false_eq_true, if_false,
            if_true, Bool.not_true, k2, k3]
          rw [absColl_emb]
          exact ⟨rfl, RelR.aset_right ft Good hrel coll _ hc⟩
        | true =>
          have hk3 : Ref.updRecs part (aget [] coll rs) bs = Ref.replaceRec i (dupdate d part) (aget [] coll rs) := by
            rw [k3]
            simp only [if_true]
            have := (hemb.dset_mem i (dupdate d part) (by rw [dkeys_emb]; exact hmi)
              (by rw [dget_dupdate_of_none kId d part hp', ← hdi]; exact hdok.id)).2
            rw [this, absColl_emb]
          obtain ⟨hnewok, hnewid⟩ := recOK_dupdate Good d part hdok hp' hgood
          by_cases he : (encH ft part).isEmpty = true
          · have hpe : part = [] := by cases part with | nil => rfl | cons a t => simp [encH, mapVals] at he
            simp only [Redis.step, Ref.step, hid, hex, hhm, hdb, he, hp', hfo, hmR, Option.isSome_none, Bool.false_eq_true,
              if_false, if_true, Bool.not_true, k2, repaired_emptyPart]
            refine ⟨rfl, RelR.aset_right ft Good hrel coll _ ?_⟩
            rw [hpe, updRecs_nil_part]; exact hc
          · have he' : (encH ft part).isEmpty = false := by simpa using he
            simp only [Redis.step, Ref.step, hid, hex, hhm, hdb, he', hp', hfo, hmR, Option.isSome_none, Bool.false_eq_true,
              if_false, if_true, Bool.not_true, Bool.not_false, k2]
            refine ⟨rfl, RelR.aset ft Good hrel coll _ _ ?_⟩
            rw [hk3]
            apply RelRC.setRec (rc' := Redis.hsetMap i (encH ft part) (aget {} coll ks)) ft Good hc i _ hnewok
              (by rw [hnewid, hdi]) rfl (nodup_dkeys_dset _ _ _ hc.hnd)
            · intro _
              rw [hgetall_hsetMap, if_pos rfl, RelRC.lookup ft Good hc hd, encH_body_dupdate ft d part hp']
            · intro j hj; rw [hgetall_hsetMap, if_neg hj]
            · intro hn; exact absurd hmi hn
    | none =>
      obtain ⟨rc', h1, h2, h3, h4, h5, h6, h7⟩ := updLoop_spec_r ft Good hrt part filt hp' hgood
        (aget [] coll rs) bs (aget {} coll ks) hc.recs hc.nodup hc.hashes hc.hnd hmR
      have hids : (aget {} coll ks : RColl).ids = List.map recId (aget [] coll rs) := hc.ids
      simp only [Redis.step, Ref.step, hid, hdb, hids, h1, hp', hfo, hmR, Option.isSome_none, Bool.false_eq_true, if_false,
        Bool.not_true]
      refine ⟨rfl, RelR.aset ft Good hrel coll _ _ ?_⟩
      refine ⟨by rw [h2, hc.ids]; exact h6.symm, by rw [show Coll.ids _ = List.map recId _ from rfl, h6]; exact hc.nodup, h7, h4, ?_, h3⟩
      intro j hj
      rw [h2] at hj
      rw [h5 j (by show j ∉ (aget [] coll rs : Coll).ids; rw [← hc.ids]; exact hj)]
      exact hc.stale j hj

end redis7



section redis8
variable (ft : FloatText) (Good : JVal → Prop)

/-- restriction to a sub-collection whose hashes are kept and whose other hashes are gone -/
theorem RelRC.sub {rc rc' : RColl} {c c' : Coll} (h : RelRC ft Good rc c) (hsub : c'.Sublist c)
    (hids : rc'.ids = c'.ids) (hnd : (dkeys rc'.hashes).Nodup)
    (hkeep : ∀ d ∈ c', Redis.hgetall (recId d) rc' = Redis.hgetall (recId d) rc)
    (hgone : ∀ j, j ∉ c'.ids → Redis.hgetall j rc' = []) : RelRC ft Good rc' c' :=
  ⟨hids, h.nodup.sublist (hsub.map recId), fun d hd => h.recs d (hsub.subset hd),
   fun d hd => by rw [hkeep d hd]; exact h.hashes d (hsub.subset hd),
   fun j hj => hgone j (by rw [← hids]; exact hj), hnd⟩

theorem srem_ids (i : Str) (rc : RColl) : (Redis.srem i rc).ids = rc.ids.filter (· ≠ i) := rfl

theorem hgetall_srem (i j : Str) (rc : RColl) : Redis.hgetall j (Redis.srem i rc) = Redis.hgetall j rc := rfl

theorem foldl_srem_ids (rm : List Str) (rc : RColl) :
    (rm.foldl (fun acc i => Redis.srem i acc) rc).ids = rc.ids.filter (fun j => !rm.contains j) := by
  induction rm generalizing rc with
  | nil =>
    simp only [List.foldl_nil, List.contains_nil, Bool.not_false]
    exact (List.filter_eq_self.mpr (fun _ _ => rfl)).symm
  | cons i t ih =>
    simp only [List.foldl_cons]
    rw [ih, srem_ids, List.filter_filter]
    apply List.filter_congr
    intro j _
    by_cases e : j = i
    · subst e; simp
    · have : ¬ i = j := fun e' => e e'.symm
      simp [e, this, List.contains_cons]

theorem foldl_srem_hashes (rm : List Str) (rc : RColl) :
    (rm.foldl (fun acc i => Redis.srem i acc) rc).hashes = rc.hashes := by
  induction rm generalizing rc with
  | nil => rfl
  | cons i t ih => simp only [List.foldl_cons]; rw [ih]; rfl

theorem selectBy_map {α β : Type} (f : α → β) (l : List α) (bs : List Bool) :
    (selectBy l bs).map f = selectBy (l.map f) bs := by
  induction l generalizing bs with
  | nil => cases bs <;> rfl
  | cons x t ih =>
    cases bs with
    | nil => rfl
    | cons b bs' => cases b <;> simp [selectBy, ih]

theorem matchAll_length (filt : Fields) (l : List Fields) (bs : List Bool) (h : matchAll filt l = some bs) :
    bs.length = l.length := by
  induction l generalizing bs with
  | nil => simp only [matchAll, Option.some.injEq] at h; subst h; rfl
  | cons d t ih =>
    obtain ⟨b, bs', rfl, _, hm'⟩ := matchAll_cons h
    simp [ih bs' hm']

/-- what is left of a duplicate-free list after removing the selected elements -/
theorem selectBy_not_eq_filter (l : List Str) (bs : List Bool) (nd : l.Nodup) (hlen : bs.length = l.length) :
    selectBy l (bs.map not) = l.filter (fun j => !(selectBy l bs).contains j) := by
  induction l generalizing bs with
  | nil => cases bs <;> rfl
  | cons x t ih =>
    cases bs with
    | nil => simp at hlen
    | cons b bs' =>
      simp only [List.nodup_cons] at nd
      have hlen' : bs'.length = t.length := by simpa using hlen
      have hsub : ∀ j ∈ selectBy t bs', j ∈ t := fun j hj => (selectBy_sublist t bs').subset hj
      cases b with
      | true =>
        simp only [List.map_cons, Bool.not_true, selectBy, Bool.false_eq_true, if_false, if_true, List.filter_cons,
          List.contains_cons, beq_self_eq_true, Bool.true_or, Bool.not_true]
        rw [ih bs' nd.2 hlen']
        apply List.filter_congr
        intro j hj
        have : ¬ j = x := fun e => nd.1 (e ▸ hj)
        simp [this]
      | false =>
        have hx : (selectBy t bs').contains x = false := contains_false_iff.mpr (fun hm => nd.1 (hsub x hm))
        simp only [List.map_cons, Bool.not_false, selectBy, if_true, Bool.false_eq_true, if_false, List.filter_cons, hx,
          Bool.not_false]
        rw [ih bs' nd.2 hlen']

end redis8



section redis9
variable (ft : FloatText) (Good : JVal → Prop)
variable (hrt : ∀ v, Good v → decodeVal ft (encodeVal Fix.repaired ft v) = some v)
include hrt

omit hrt in
theorem selectBy_length {α : Type} (l : List α) (bs : List Bool) (h : bs.length = l.length) :
    (selectBy l bs).length = countTrue bs := by
  induction l generalizing bs with
  | nil => cases bs with
    | nil => rfl
    | cons b t => simp at h
  | cons x t ih =>
    cases bs with
    | nil => simp at h
    | cons b bs' =>
      have := ih bs' (by simpa using h)
      cases b <;> simp [selectBy, countTrue, this] <;> omega

omit hrt in
theorem keep_ids_eq (c : Coll) (bs : List Bool) (nd : (c.map recId).Nodup) (hlen : bs.length = c.length) :
    (c.map recId).filter (fun j => !((selectBy c bs).map recId).contains j) = (selectBy c (bs.map not)).map recId := by
  rw [selectBy_map, selectBy_map]
  exact (selectBy_not_eq_filter _ bs nd (by rw [hlen]; simp)).symm

omit hrt in
theorem mem_keep_iff (c : Coll) (bs : List Bool) (nd : (c.map recId).Nodup) (hlen : bs.length = c.length) (j : Str) :
    j ∈ (selectBy c (bs.map not)).map recId ↔ (j ∈ c.map recId ∧ j ∉ (selectBy c bs).map recId) := by
  rw [← keep_ids_eq c bs nd hlen, List.mem_filter]
  simp

/-- first loop of the generic remove -/
theorem remLoop_spec_r (filt : Fields) :
    ∀ (ds : List Fields) (bs : List Bool) (rc : RColl), (∀ d ∈ ds, RecOK Good d) → (ds.map recId).Nodup →
      (∀ d ∈ ds, Redis.hgetall (recId d) rc = encH ft (dpop kId d)) → (dkeys rc.hashes).Nodup →
      matchAll filt ds = some bs →
      ∃ rc', Redis.remLoop ft filt rc (ds.map recId) = (rc', (selectBy ds bs).map recId, false) ∧
        rc'.ids = rc.ids ∧ (dkeys rc'.hashes).Nodup ∧
        (∀ j, Redis.hgetall j rc' = if j ∈ (selectBy ds bs).map recId then [] else Redis.hgetall j rc) := by
  intro ds
  induction ds with
  | nil =>
    intro bs rc _ _ _ hnd hm
    simp only [matchAll, Option.some.injEq] at hm
    subst hm
    exact ⟨rc, rfl, rfl, hnd, by simp [selectBy]⟩
  | cons d t ih =>
    intro bs rc hok hnodup hh hnd hm
    obtain ⟨b, bs', rfl, hb, hm'⟩ := matchAll_cons hm
    have hdok := hok d (by simp)
    simp only [List.map_cons, List.nodup_cons] at hnodup
    have hmatch : Redis.hmatches ft (dset kId (recId d) (Redis.hgetall (recId d) rc)) filt = some b := by
      rw [hh d (by simp), hmatches_rec ft Good hrt d hdok filt]; exact hb
    have hnotin : ∀ x ∈ t, recId x ≠ recId d :=
      fun x hx e => hnodup.1 (by rw [← e]; exact List.mem_map_of_mem (f := recId) hx)
    cases b with
    | false =>
      obtain ⟨rc', h1, h2, h3, h4⟩ := ih bs' rc (fun x hx => hok x (by simp [hx])) hnodup.2
        (fun x hx => hh x (by simp [hx])) hnd hm'
      refine ⟨rc', ?_, h2, h3, ?_⟩
      · simp only [List.map_cons, Redis.remLoop, hmatch, selectBy, Bool.false_eq_true, if_false]; exact h1
      · simp only [selectBy, Bool.false_eq_true, if_false]; exact h4
    | true =>
      obtain ⟨rc', h1, h2, h3, h4⟩ := ih bs' (Redis.delKey (recId d) rc) (fun x hx => hok x (by simp [hx])) hnodup.2
        (fun x hx => by rw [hgetall_delKey _ _ _ hnd, if_neg (hnotin x hx)]; exact hh x (by simp [hx]))
        (nodup_dkeys_dpop _ _ hnd) hm'
      refine ⟨rc', ?_, h2, h3, ?_⟩
      · simp only [List.map_cons, Redis.remLoop, hmatch, selectBy, if_true, h1]
      · intro j
        rw [h4 j]
        simp only [selectBy, if_true, List.map_cons, List.mem_cons]
        by_cases hj : j = recId d
        · subst hj
          simp only [true_or, if_true]
          split
          · rfl
          · rw [hgetall_delKey _ _ _ hnd, if_pos rfl]
        · simp only [hj, false_or]
          split
          · rfl
          · rw [hgetall_delKey _ _ _ hnd, if_neg hj]

theorem redis_remove_refines (ks : RState) (rs : RefState) (hrel : RelR ft Good ks rs) (coll : Str) (filt : Fields)
    (hop : OpOK Good (.remove coll filt)) :
    let kr := Redis.step Fix.repaired ft ks (.remove coll filt)
    let rr := Ref.step rs [] (.remove coll filt)
    (∃ e, rr.2 = .err e) ∨ (kr.2 = normRes rr.2 ∧ RelR ft Good kr.1 rr.1) := by
  have hc := hrel coll
  have hfnd : (dkeys filt).Nodup := hop
  by_cases hfo' : ¬ filtOk filt = true
  · left; simp [Ref.step, hfo']
  have hfo : filtOk filt = true := by simpa using hfo'
  cases hmR : matchAll filt (aget [] coll rs : Coll) with
  | none => left; simp [Ref.step, hfo, hmR]
  | some bs =>
    right
    have hlen := matchAll_length filt _ bs hmR
    -- the general shape of the result: the loop + the srem pass
    have generic : ∀ (rc' : RColl), rc'.ids = (aget {} coll ks : RColl).ids → (dkeys rc'.hashes).Nodup →
        (∀ j, Redis.hgetall j rc' = if j ∈ (selectBy (aget [] coll rs : Coll) bs).map recId then [] else Redis.hgetall j (aget {} coll ks)) →
        RelRC ft Good (((selectBy (aget [] coll rs : Coll) bs).map recId).foldl (fun acc i => Redis.srem i acc) rc')
          (selectBy (aget [] coll rs : Coll) (bs.map not)) := by
      intro rc' h2 h3 h4
      have hnd' : ((aget [] coll rs : Coll).map recId).Nodup := hc.nodup
      have hidsEq : (((selectBy (aget [] coll rs : Coll) bs).map recId).foldl (fun acc i => Redis.srem i acc) rc').ids
          = (selectBy (aget [] coll rs : Coll) (bs.map not)).map recId := by
        rw [foldl_srem_ids, h2, hc.ids]
        exact keep_ids_eq _ bs hnd' hlen
      have hga : ∀ j, Redis.hgetall j (((selectBy (aget [] coll rs : Coll) bs).map recId).foldl (fun acc i => Redis.srem i acc) rc')
          = Redis.hgetall j rc' := by
        intro j; unfold Redis.hgetall; rw [foldl_srem_hashes]
      have hfilt := mem_keep_iff (aget [] coll rs) bs hnd' hlen
      apply RelRC.sub ft Good hc (selectBy_sublist _ _) hidsEq (by rw [foldl_srem_hashes]; exact h3)
      · intro d hd
        rw [hga, h4]
        have := (hfilt (recId d)).mp (List.mem_map_of_mem (f := recId) hd)
        rw [if_neg this.2]
      · intro j hj
        rw [hga, h4]
        split
        · rfl
        · rename_i hnr
          apply hc.stale
          rw [hc.ids]
          intro hmem
          exact hj ((hfilt j).mpr ⟨hmem, hnr⟩)
    cases hid : Json.idOf filt with
    | some i =>
      have hf := idOf_eq_some.mp hid
      have hemb := RelRC.embOK ft Good hc
      have key := rem_by_id filt i hf (emb (aget [] coll rs)) bs hemb (by rw [absColl_emb]; exact hmR)
      have keyq := qry_by_id filt i hf (emb (aget [] coll rs)) bs hemb (by rw [absColl_emb]; exact hmR)
      rw [absColl_emb] at key keyq
      cases hd : dget i (emb (aget [] coll rs)) with
      | none =>
        rw [hd] at key
        have hni : i ∉ (aget [] coll rs : Coll).ids := by rw [← dkeys_emb, ← dget_none_iff]; exact hd
        have hex : Redis.existsById Fix.repaired i (aget {} coll ks) = false := by
          simp only [Redis.existsById, Fix.repaired, if_true]; rw [hc.ids]; exact contains_false_iff.mpr hni
        simp only [Redis.step, Ref.step, hid, hex, hfo, hmR, Bool.false_eq_true, if_false, Bool.not_true, key.1, key.2,
          show Fix.repaired.redisSrem = true from rfl, if_true]
        exact ⟨rfl, RelR.aset_right ft Good hrel coll _ hc⟩
      | some d =>
        rw [hd] at key keyq
        obtain ⟨b, k1, k2, k3⟩ := key
        obtain ⟨b', q1, q2⟩ := keyq
        have hbb : b' = b := by rw [k1] at q1; injection q1 with e; exact e.symm
        subst hbb
        obtain ⟨hdc, hdi⟩ := dget_emb hd
        have hdok := hc.recs d hdc
        have hmi : i ∈ (aget [] coll rs : Coll).ids := by rw [← hdi]; exact List.mem_map_of_mem (f := recId) hdc
        have hex : Redis.existsById Fix.repaired i (aget {} coll ks) = true := by
          simp only [Redis.existsById, Fix.repaired, if_true]; rw [hc.ids]; exact contains_iff.mpr hmi
        have hhm : Redis.hmatches ft (Redis.hgetall i (aget {} coll ks)) (dpop kId filt) = some b' := by
          rw [RelRC.lookup ft Good hc hd, hmatches_body ft Good hrt d hdok _ (not_mem_dkeys_dpop kId filt hfnd)]; exact k1
        cases b' with
        | false =>
          simp only [Redis.step, Ref.step, hid, hex, hhm, hfo, hmR, Bool.false_eq_true, if_false, if_true, Bool.not_true,
            k2, show Fix.repaired.redisSrem = true from rfl]
          refine ⟨rfl, RelR.aset_right ft Good hrel coll _ ?_⟩
          rw [k3]; simp only [Bool.false_eq_true, if_false]; rw [absColl_emb]; exact hc
        | true =>
          simp only [Redis.step, Ref.step, hid, hex, hhm, hfo, hmR, Bool.false_eq_true, if_false, if_true, Bool.not_true, k2]
          refine ⟨rfl, RelR.aset ft Good hrel coll _ _ ?_⟩
          -- one record selected: the loop result is `delKey`, the srem pass is one `srem`
          have hsel : (selectBy (aget [] coll rs : Coll) bs).map recId = [i] := by rw [q2]; simp [hdi]
          have := generic (Redis.delKey i (aget {} coll ks)) rfl (nodup_dkeys_dpop _ _ hc.hnd)
            (by
              intro j
              rw [hsel, hgetall_delKey _ _ _ hc.hnd]
              by_cases e : j = i <;> simp [e])
          rw [hsel] at this
          exact this
    | none =>
      obtain ⟨rc', h1, h2, h3, h4⟩ := remLoop_spec_r ft Good hrt filt (aget [] coll rs) bs (aget {} coll ks)
        hc.recs hc.nodup hc.hashes hc.hnd hmR
      have hids : (aget {} coll ks : RColl).ids = List.map recId (aget [] coll rs) := hc.ids
      have hcount : ((selectBy (aget [] coll rs : Coll) bs).map recId).length = countTrue bs := by
        rw [List.length_map]; exact selectBy_length _ bs hlen
      simp only [Redis.step, Ref.step, hid, hids, h1, hfo, hmR, Bool.false_eq_true, if_false, Bool.not_true, hcount]
      exact ⟨rfl, RelR.aset ft Good hrel coll _ _ (generic rc' h2 h3 h4)⟩

end redis9



section redis10
variable (ft : FloatText) (Good : JVal → Prop)

/-- the hash (with the id added) the driver works on for record `d` -/
def hashOf (d : Fields) : Hash := dset kId (recId d) (encH ft (dpop kId d))

theorem dget_filter_key {β : Type} (p : Str → Bool) (k : Str) (d : List (Str × β)) :
    dget k (d.filter (fun kv => p kv.1)) = if p k then dget k d else none := by
  induction d with
  | nil => simp [dget]
  | cons a t ih =>
    obtain ⟨k', v'⟩ := a
    by_cases hp : p k' = true
    · simp only [List.filter_cons, hp, if_true, dget]
      by_cases hk : k' = k
      · subst hk; simp [hp]
      · simp only [hk, if_false]; exact ih
    · have hp' : p k' = false := by simpa using hp
      simp only [List.filter_cons, hp', Bool.false_eq_true, if_false, dget]
      by_cases hk : k' = k
      · subst hk; simp [hp', ih]
      · simp only [hk, if_false]; exact ih

theorem dpop_filter_key {β : Type} (p : Str → Bool) (k : Str) (d : List (Str × β)) :
    dpop k (d.filter (fun kv => p kv.1)) = (dpop k d).filter (fun kv => p kv.1) := by
  induction d with
  | nil => rfl
  | cons a t ih =>
    obtain ⟨k', v'⟩ := a
    by_cases hp : p k' = true
    · by_cases hk : k' = k
      · subst hk; simp [List.filter_cons, hp, dpop]
      · simp [List.filter_cons, hp, dpop, hk, ih]
    · have hp' : p k' = false := by simpa using hp
      by_cases hk : k' = k
      · subst hk
        simp only [List.filter_cons, hp', Bool.false_eq_true, if_false, dpop, if_true]
        -- nothing named k survives the filter
        have : ∀ l : List (Str × β), dpop k' (l.filter (fun kv => p kv.1)) = l.filter (fun kv => p kv.1) := by
          intro l
          induction l with
          | nil => rfl
          | cons b u ihu =>
            obtain ⟨k2, v2⟩ := b
            by_cases hp2 : p k2 = true
            · have : k2 ≠ k' := by intro e; rw [e] at hp2; rw [hp'] at hp2; cases hp2
              simp [List.filter_cons, hp2, dpop, this, ihu]
            · have hp2' : p k2 = false := by simpa using hp2
              simp [List.filter_cons, hp2', ihu]
        exact this t
      · simp [List.filter_cons, hp', dpop, hk, ih]

theorem filter_dpop_of_not {β : Type} (p : Str → Bool) (k : Str) (hp : p k = false) (d : List (Str × β)) :
    (dpop k d).filter (fun kv => p kv.1) = d.filter (fun kv => p kv.1) := by
  induction d with
  | nil => rfl
  | cons a t ih =>
    obtain ⟨k', v'⟩ := a
    by_cases hk : k' = k
    · subst hk; simp only [dpop, if_true, List.filter_cons, hp, Bool.false_eq_true, if_false]
    · simp only [dpop, hk, if_false, List.filter_cons, ih]

theorem filter_normRec (p : Str → Bool) (d : Fields) :
    (normRec d).filter (fun kv => p kv.1) = normRec (d.filter (fun kv => p kv.1)) := by
  unfold normRec
  rw [dget_filter_key p kId d]
  cases hd : dget kId d with
  | none => simp
  | some v =>
    by_cases hf : p kId = true
    · simp only [hf, if_true, List.filter_append, dpop_filter_key p kId d, List.filter_cons, List.filter_nil]
    · have hf' : p kId = false := by simpa using hf
      simp only [hf', Bool.false_eq_true, if_false, List.filter_append, List.filter_cons, List.filter_nil,
        List.append_nil, filter_dpop_of_not p kId hf' d]

theorem project_normRec (fields : Option (List Str)) (d : Fields) :
    project fields (normRec d) = normRec (project fields d) := by
  cases fields with
  | none => rfl
  | some fs => exact filter_normRec (fun k => fs.contains k) d

variable (hrt : ∀ v, Good v → decodeVal ft (encodeVal Fix.repaired ft v) = some v)
include hrt

/-- generic path of query on the Redis keys -/
theorem scan_spec_r (filt : Fields) (rc : RColl) :
    ∀ (ds : List Fields) (bs : List Bool), (∀ d ∈ ds, RecOK Good d) →
      (∀ d ∈ ds, Redis.hgetall (recId d) rc = encH ft (dpop kId d)) → matchAll filt ds = some bs →
      Redis.scan ft filt rc (ds.map recId) = some ((selectBy ds bs).map (hashOf ft)) := by
  intro ds
  induction ds with
  | nil =>
    intro bs _ _ hm
    simp only [matchAll, Option.some.injEq] at hm
    subst hm; rfl
  | cons d t ih =>
    intro bs hok hh hm
    obtain ⟨b, bs', rfl, hb, hm'⟩ := matchAll_cons hm
    have hmatch : Redis.hmatches ft (dset kId (recId d) (Redis.hgetall (recId d) rc)) filt = some b := by
      rw [hh d (by simp), hmatches_rec ft Good hrt d (hok d (by simp)) filt]; exact hb
    have iht := ih bs' (fun x hx => hok x (by simp [hx])) (fun x hx => hh x (by simp [hx])) hm'
    simp only [List.map_cons, Redis.scan, hmatch, iht]
    cases b
    · simp [selectBy]
    · simp [selectBy, hashOf, hh d (by simp)]

theorem fromDbAll_spec (fields : Option (List Str)) (l : List Fields) (hok : ∀ d ∈ l, RecOK Good d) :
    Redis.fromDbAll ft fields (l.map (hashOf ft)) = some (l.map (fun d => project fields (normRec d))) := by
  induction l with
  | nil => rfl
  | cons d t ih =>
    simp only [List.map_cons, Redis.fromDbAll]
    rw [show hashOf ft d = dset kId (recId d) (encH ft (dpop kId d)) from rfl,
      recordFromDb_rec ft Good hrt fields d (hok d (by simp)), ih (fun x hx => hok x (by simp [hx]))]

theorem redis_query_refines (ks : RState) (rs : RefState) (hrel : RelR ft Good ks rs) (coll : Str)
    (fields : Option (List Str)) (filt : Fields) (sort : List (Str × Bool)) (limit : Option Nat)
    (hop : OpOK Good (.query coll fields filt sort limit)) :
    let kr := Redis.step Fix.repaired ft ks (.query coll fields filt sort limit)
    let rr := Ref.step rs [] (.query coll fields filt sort limit)
    (∃ e, rr.2 = .err e) ∨ (kr.2 = normRes rr.2 ∧ RelR ft Good kr.1 rr.1) := by
  have hc := hrel coll
  have hfnd : (dkeys filt).Nodup := hop
  by_cases hfo' : ¬ filtOk filt = true
  · left; simp [Ref.step, hfo']
  have hfo : filtOk filt = true := by simpa using hfo'
  cases hmR : matchAll filt (aget [] coll rs : Coll) with
  | none => left; simp [Ref.step, hfo, hmR]
  | some bs =>
    cases hs : lexSort sort (selectBy (aget [] coll rs : Coll) bs) with
    | none => left; simp [Ref.step, hfo, hmR, hs]
    | some sorted =>
      right
      have hselsub : ∀ d ∈ selectBy (aget [] coll rs : Coll) bs, d ∈ (aget [] coll rs : Coll) :=
        fun d hd => (selectBy_sublist _ _).subset hd
      have hselok : ∀ d ∈ selectBy (aget [] coll rs : Coll) bs, RecOK Good d := fun d hd => hc.recs d (hselsub d hd)
      -- the hashes the driver finds
      have found : Redis.find Fix.repaired ft filt (aget {} coll ks)
          = some ((selectBy (aget [] coll rs : Coll) bs).map (hashOf ft)) := by
        unfold Redis.find
        cases hid : Json.idOf filt with
        | some i =>
          have hf := idOf_eq_some.mp hid
          have hemb := RelRC.embOK ft Good hc
          have key := qry_by_id filt i hf (emb (aget [] coll rs)) bs hemb (by rw [absColl_emb]; exact hmR)
          rw [absColl_emb] at key
          cases hd : dget i (emb (aget [] coll rs)) with
          | none =>
            rw [hd] at key
            have hni : i ∉ (aget [] coll rs : Coll).ids := by rw [← dkeys_emb, ← dget_none_iff]; exact hd
            have hex : Redis.existsById Fix.repaired i (aget {} coll ks) = false := by
              simp only [Redis.existsById, Fix.repaired, if_true]; rw [hc.ids]; exact contains_false_iff.mpr hni
            simp only [hex, Bool.false_eq_true, if_false, key, List.map_nil]
          | some d =>
            rw [hd] at key
            obtain ⟨b, k1, k2⟩ := key
            obtain ⟨hdc, hdi⟩ := dget_emb hd
            have hdok := hc.recs d hdc
            have hmi : i ∈ (aget [] coll rs : Coll).ids := by rw [← hdi]; exact List.mem_map_of_mem (f := recId) hdc
            have hex : Redis.existsById Fix.repaired i (aget {} coll ks) = true := by
              simp only [Redis.existsById, Fix.repaired, if_true]; rw [hc.ids]; exact contains_iff.mpr hmi
            have hhm : Redis.hmatches ft (Redis.hgetall i (aget {} coll ks)) (dpop kId filt) = some b := by
              rw [RelRC.lookup ft Good hc hd, hmatches_body ft Good hrt d hdok _ (not_mem_dkeys_dpop kId filt hfnd)]
              exact k1
            simp only [hex, if_true, hhm, k2]
            cases b
            · simp
            · simp [hashOf, hdi, RelRC.lookup ft Good hc hd]
        | none =>
          simp only
          rw [hc.ids]
          exact scan_spec_r ft Good hrt filt _ _ bs hc.recs hc.hashes hmR
      -- sorting the hashes = sorting the records
      have nd : (selectBy (aget [] coll rs : Coll) bs).Nodup := by
        have : (aget [] coll rs : Coll).Nodup :=
          List.Pairwise.of_map recId (fun a b hab e => hab (by rw [e])) hc.nodup
        exact this.sublist (selectBy_sublist _ _)
      have hsort : multiSort (Redis.sortKeyDb ft) sort ((selectBy (aget [] coll rs : Coll) bs).map (hashOf ft))
          = some (sorted.map (hashOf ft)) := by
        rw [multiSort_map (hashOf ft) sortKeyR (Redis.sortKeyDb ft) sort _
          (fun fr _ r hr => sortKeyDb_rec ft Good hrt r (hselok r hr) fr.1)]
        unfold lexSort at hs
        by_cases hdm : sortDomain sortKeyR sort (selectBy (aget [] coll rs : Coll) bs) = true
        · rw [if_pos hdm] at hs
          rw [multiSort_eq_lex sortKeyR sort _ nd (sortDomain_spec sortKeyR sort _ hdm)]
          injection hs with hs
          rw [hs]; rfl
        · rw [if_neg hdm] at hs; cases hs
      have hsortedok : ∀ d ∈ applyLimit limit sorted, RecOK Good d := by
        intro d hd
        have hperm : sorted.Perm (selectBy (aget [] coll rs : Coll) bs) := by
          unfold lexSort at hs
          split at hs
          · injection hs with hs; rw [← hs]; exact isort_perm _ _
          · cases hs
        have : d ∈ sorted := by
          cases limit with
          | none => exact hd
          | some n => exact List.mem_of_mem_take hd
        exact hselok d (hperm.mem_iff.mp this)
      have hlim : applyLimit limit (sorted.map (hashOf ft)) = (applyLimit limit sorted).map (hashOf ft) := by
        cases limit with
        | none => rfl
        | some n => simp [applyLimit, List.map_take]
      simp only [Redis.step, Ref.step, hfo, hmR, hs, found, hsort, hlim,
        fromDbAll_spec ft Good hrt fields _ hsortedok, Bool.not_true, Bool.false_eq_true, if_false]
      refine ⟨?_, hrel⟩
      simp only [normRes, List.map_map]
      congr 1
      apply List.map_congr_left
      intro d _
      exact project_normRec fields d

end redis10



section redis11
variable (ft : FloatText) (Good : JVal → Prop)

/-- as `Agree`, with the driver's results compared to the reference store's after `norm` -/
def AgreeBy (norm : Res → Res) : List (Res × Res) → Prop
  | [] => True
  | (j, r) :: t => r ≠ .err .notFresh ∧ ((∃ e, r = .err e) ∨ (j = norm r ∧ AgreeBy norm t))

theorem RelR.init : RelR ft Good [] [] := by
  intro coll
  exact ⟨rfl, by simp [aget, Coll.ids], by simp [aget], by simp [aget], fun _ _ => rfl, by simp [aget, dkeys]⟩

variable (hrt : ∀ v, Good v → decodeVal ft (encodeVal Fix.repaired ft v) = some v)
include hrt

theorem redis_step_refines (ks : RState) (rs : RefState) (hrel : RelR ft Good ks rs) (op : Op) (hop : OpOK Good op) :
    let kr := Redis.step Fix.repaired ft ks op
    let rr := Ref.step rs (match kr.2 with | .id n => n | _ => []) op
    rr.2 ≠ .err .notFresh ∧ ((∃ e, rr.2 = .err e) ∨ (kr.2 = normRes rr.2 ∧ RelR ft Good kr.1 rr.1)) := by
  cases op with
  | insert coll rec => exact redis_insert_refines ft Good ks rs hrel coll rec hop
  | update coll part filt =>
    have h := redis_update_refines ft Good hrt ks rs hrel coll part filt hop
    refine ⟨?_, h⟩
    show (Ref.step rs [] (.update coll part filt)).2 ≠ .err .notFresh
    simp only [Ref.step]
    repeat' split
    all_goals simp
  | replace coll id rec =>
    have h := redis_replace_refines ft Good ks rs hrel coll id rec hop
    refine ⟨?_, Or.inr h⟩
    show (Ref.step rs [] (.replace coll id rec)).2 ≠ .err .notFresh
    simp only [Ref.step]
    split <;> simp
  | remove coll filt =>
    have h := redis_remove_refines ft Good hrt ks rs hrel coll filt hop
    refine ⟨?_, h⟩
    show (Ref.step rs [] (.remove coll filt)).2 ≠ .err .notFresh
    simp only [Ref.step]
    repeat' split
    all_goals simp
  | query coll fields filt sort limit =>
    have h := redis_query_refines ft Good hrt ks rs hrel coll fields filt sort limit hop
    refine ⟨?_, h⟩
    show (Ref.step rs [] (.query coll fields filt sort limit)).2 ≠ .err .notFresh
    simp only [Ref.step]
    repeat' split
    all_goals simp
  | reload => exact ⟨by simp [Ref.step], Or.inr ⟨rfl, hrel⟩⟩

theorem redis_run_agrees :
    ∀ (ops : List Op) (ks : RState) (rs : RefState), RelR ft Good ks rs → (∀ op ∈ ops, OpOK Good op) →
      AgreeBy normRes (runWith (Redis.step Fix.repaired ft) ks rs ops) := by
  intro ops
  induction ops with
  | nil => intro _ _ _ _; trivial
  | cons op t ih =>
    intro ks rs hrel hops
    have h := redis_step_refines ft Good hrt ks rs hrel op (hops op (by simp))
    simp only [runWith, AgreeBy]
    refine ⟨h.1, ?_⟩
    rcases h.2 with he | ⟨h1, h2⟩
    · exact Or.inl he
    · exact Or.inr ⟨h1, ih _ _ h2 (fun o ho => hops o (by simp [ho]))⟩

end redis11

end QtVerif.Store
