import QtVerif.Proofs.TimeFns
/-!
C16 — the pause theorem: under the repaired pause rule (`Params.fixed = true`), evaluating an expression tree while it
reports "paused" changes neither any memory nor the result, hence the polling loop's skipping is unobservable.
Carrier `Int`. Structure:
  * per-function no-op lemmas (`delay_noop`, `held_noop`, …, `strict_noop`);
  * `evalNode_erase`: evaluation never reads stored pause deadlines;
  * `node_noop`: a tree evaluated at `now` and still paused at `now'` re-evaluates to itself (same port values);
  * `skip_unobservable`: the loop with the skip rule and the every-tick loop produce the same port values.
-/
namespace QtVerif.TimeFns
open Num

theorem isPaused_int (now p : Int) : isPaused now p = decide (now < p) := rfl
theorem pauseUntil_int (x : Int) : pauseUntil x = if x = 0 then 10000000000000 else x := by
  simp [pauseUntil, forever]
theorem noPause_int : (noPause : Int) = 0 := rfl
theorem forever_int : (forever : Int) = 10000000000000 := rfl

theorem not_paused_noPause (now' : Int) (h : 0 ≤ now') : isPaused now' (noPause : Int) = false := by
  simp [isPaused_int, noPause_int]; omega

/-- After `popDue` the head of the queue (if any) is not due. -/
theorem popDue_head (now d : Int) (q : List (Int × Int)) (c : Int) :
    match (popDue now d q c).1 with
    | (t, _) :: _ => ¬ (d ≤ now - t)
    | [] => True := by
  induction q generalizing c with
  | nil => simp [popDue]
  | cons x rest ih =>
    obtain ⟨t, v⟩ := x
    simp only [popDue, int_le, int_ofInt]
    by_cases h : d ≤ now - t
    · simp only [h, decide_true, if_true]; exact ih v
    · simp [h]

theorem popDue_stable (now d : Int) (q : List (Int × Int)) (c : Int)
    (h : match q with | (t, _) :: _ => ¬ (d ≤ now - t) | [] => True) : popDue now d q c = (q, c) := by
  cases q with
  | nil => simp [popDue]
  | cons x rest => obtain ⟨t, v⟩ := x; simp only at h; simp [popDue, h]

theorem differs_self (v : Int) : differs v (some v) = false := by simp [differs]

theorem delay_noop (P : Params) (m m1 : Mem Int) (now now' v d : Int) (r : Res Int) (p1 : Int)
    (h0 : 0 < now) (h0' : 0 ≤ now')
    (h : delayStep P m now v d = (m1, r, p1)) (hp : isPaused now' p1 = true) :
    ∃ p2, delayStep P m1 now' v d = (m1, r, p2) := by
  unfold delayStep at h
  split at h
  · -- H = 0: no pause requested
    simp only [Prod.mk.injEq] at h
    obtain ⟨_, _, rfl⟩ := h
    rw [not_paused_noPause now' h0'] at hp; cases hp
  · dsimp only at h
    generalize hq1 : (if differs v m.v = true then dropOld P.H m.q ++ [(now, v)] else m.q) = q1 at h
    generalize hv1 : (if differs v m.v = true then some v else m.v) = v1 at h
    have hv1' : v1 = some v := by
      subst hv1
      by_cases hd : differs v m.v = true
      · simp [hd]
      · simp only [hd]
        cases hmv : m.v with
        | none => simp [differs, hmv] at hd
        | some l => simp [differs, hmv] at hd; simp [hd]
    have hhead := popDue_head now d q1 (m.c.getD v)
    generalize popDue now d q1 (m.c.getD v) = pd at h hhead
    obtain ⟨q2, cur⟩ := pd
    simp only [Prod.mk.injEq] at h hhead
    obtain ⟨hm1, hr, hp1⟩ := h
    subst hm1 hr
    have hst : popDue now' d q2 cur = (q2, cur) := by
      apply popDue_stable
      cases q2 with
      | nil => trivial
      | cons x rest =>
        obtain ⟨t, x⟩ := x
        simp only at hhead hp1 ⊢
        subst hp1
        simp only [isPaused_int, pauseUntil_int, int_add, int_ofInt, decide_eq_true_eq] at hp
        split at hp <;> omega
    -- second evaluation
    unfold delayStep
    simp only [hv1', differs_self, Bool.false_and, Bool.false_eq_true, if_false, Option.getD_some, hst]
    exact ⟨_, rfl⟩

theorem held_noop (P : Params) (hP : P.fixed = true) (m m1 : Mem Int) (now now' v f d : Int) (r : Res Int) (p1 : Int)
    (h0 : 0 < now) (h0' : 0 ≤ now')
    (h : heldStep P m now v f d = (m1, r, p1)) (hp : isPaused now' p1 = true) :
    ∃ p2, heldStep P m1 now' v f d = (m1, r, p2) := by
  simp only [heldStep, hP, if_true, int_eq, int_le, int_lt, int_ofInt, int_add, isPaused_int, pauseUntil_int,
    noPause_int, forever_int, decide_eq_true_eq] at h hp ⊢
  by_cases hvf : v = f
  · simp only [hvf, if_true] at h ⊢
    by_cases hs0 : m.s = 0
    · simp only [hs0, beq_self_eq_true, if_true, Prod.mk.injEq] at h
      obtain ⟨rfl, rfl, rfl⟩ := h
      by_cases hd : 0 < d
      · simp only [hd, if_true] at hp
        have : ¬ (d ≤ now' - now) := by split at hp <;> omega
        simp [this]
      · simp only [hd, if_false] at hp; omega
    · by_cases hs1 : m.s = 1
      · simp only [hs1, show ((1 : Nat) == 0) = false from rfl, Bool.false_eq_true, if_false, beq_self_eq_true, if_true] at h
        by_cases hdue : d ≤ now - m.t
        · simp only [hdue, if_true, Prod.mk.injEq] at h
          obtain ⟨rfl, rfl, rfl⟩ := h
          simp
        · simp only [hdue, if_false, Prod.mk.injEq] at h
          obtain ⟨rfl, rfl, rfl⟩ := h
          have : ¬ (d ≤ now' - m.t) := by split at hp <;> omega
          simp [hs1, this]
      · have h0s : (m.s == 0) = false := by simp [hs0]
        have h1s : (m.s == 1) = false := by simp [hs1]
        simp only [h0s, h1s, Bool.false_eq_true, if_false, Prod.mk.injEq] at h
        obtain ⟨rfl, rfl, rfl⟩ := h
        omega
  · simp only [hvf, if_false, Prod.mk.injEq] at h ⊢
    obtain ⟨rfl, rfl, rfl⟩ := h
    simp

theorem deriv_noop (P : Params) (m m1 : Mem Int) (now now' v i : Int) (r : Res Int) (p1 : Int)
    (h0 : 0 < now) (h0' : 0 ≤ now')
    (h : derivStep P m now v i = (m1, r, p1)) (hp : isPaused now' p1 = true) :
    ∃ p2, derivStep P m1 now' v i = (m1, r, p2) := by
  unfold derivStep at h
  have hnp := not_paused_noPause now' h0'
  split at h
  · simp only [Prod.mk.injEq] at h; obtain ⟨_, _, rfl⟩ := h; rw [hnp] at hp; cases hp
  · rename_i l hl
    dsimp only at h
    split at h
    · rename_i hlt
      simp only [Prod.mk.injEq] at h; obtain ⟨rfl, rfl, rfl⟩ := h
      simp only [int_lt, int_ofInt, decide_eq_true_eq, isPaused_int, pauseUntil_int, int_add] at hlt hp
      have : now' - m.t < i := by split at hp <;> omega
      unfold derivStep
      simp only [hl, int_lt, int_ofInt, this, decide_true, if_true]
      exact ⟨_, rfl⟩
    · split at h
      · simp only [Prod.mk.injEq] at h; obtain ⟨_, _, rfl⟩ := h; rw [hnp] at hp; cases hp
      · split at h <;>
        · simp only [Prod.mk.injEq] at h; obtain ⟨_, _, rfl⟩ := h; rw [hnp] at hp; cases hp

theorem integ_noop (P : Params) (m m1 : Mem Int) (now now' v a i : Int) (r : Res Int) (p1 : Int)
    (h0 : 0 < now) (h0' : 0 ≤ now')
    (h : integStep P m now v a i = (m1, r, p1)) (hp : isPaused now' p1 = true) :
    ∃ p2, integStep P m1 now' v a i = (m1, r, p2) := by
  unfold integStep at h
  have hnp := not_paused_noPause now' h0'
  split at h
  · simp only [Prod.mk.injEq] at h; obtain ⟨_, _, rfl⟩ := h; rw [hnp] at hp; cases hp
  · rename_i l hl
    dsimp only at h
    split at h
    · rename_i hlt
      simp only [Prod.mk.injEq] at h; obtain ⟨rfl, rfl, rfl⟩ := h
      simp only [int_lt, int_ofInt, decide_eq_true_eq, isPaused_int, pauseUntil_int, int_add] at hlt hp
      have : now' - m.t < i := by split at hp <;> omega
      unfold integStep
      simp only [hl, int_lt, int_ofInt, this, decide_true, if_true]
      exact ⟨_, rfl⟩
    · split at h <;>
      · simp only [Prod.mk.injEq] at h; obtain ⟨_, _, rfl⟩ := h; rw [hnp] at hp; cases hp

theorem fm_noop (P : Params) (Q : Nat) (agg : List Int → Res Int) (m m1 : Mem Int) (now now' v w i : Int)
    (r : Res Int) (p1 : Int) (h0 : 0 < now) (h0' : 0 ≤ now')
    (h : fmStep P Q agg m now v w i = (m1, r, p1)) (hp : isPaused now' p1 = true) :
    ∃ p2, fmStep P Q agg m1 now' v w i = (m1, r, p2) := by
  unfold fmStep at h
  have hnp := not_paused_noPause now' h0'
  dsimp only at h
  split at h
  · rename_i hlt
    simp only [Prod.mk.injEq] at h; obtain ⟨rfl, rfl, rfl⟩ := h
    simp only [int_lt, int_ofInt, decide_eq_true_eq, isPaused_int, pauseUntil_int, int_add, Bool.and_eq_true] at hlt hp
    have : now' - m.t < i := by split at hp <;> omega
    unfold fmStep
    simp only [int_lt, int_ofInt, this, hlt.1, decide_true, Bool.and_self, if_true]
    exact ⟨_, rfl⟩
  · split at h
    · simp only [Prod.mk.injEq] at h; obtain ⟨_, _, rfl⟩ := h; rw [hnp] at hp; cases hp
    · split at h <;>
      · simp only [Prod.mk.injEq] at h; obtain ⟨_, _, rfl⟩ := h; rw [hnp] at hp; cases hp

theorem sequenceStep_p (m : Mem Int) (now : Int) (vs : List Int) : (sequenceStep m now vs).2.2 = noPause := by
  unfold sequenceStep
  dsimp only
  split
  · rfl
  · split <;> rfl

/-- Re-evaluating a function body while its own pause is active, on the same argument values, changes neither
memory nor result. -/
theorem strict_noop (P : Params) (hP : P.fixed = true) (k : Fn) (m m1 : Mem Int) (now now' : Int) (vs : List Int)
    (r : Res Int) (p1 : Int) (h0 : 0 < now) (h0' : 0 ≤ now')
    (h : stepStrict P k m now vs = (m1, r, p1)) (hp : isPaused now' p1 = true) :
    ∃ p2, stepStrict P k m1 now' vs = (m1, r, p2) := by
  have hnp := not_paused_noPause now' h0'
  have vac : p1 = noPause → False := fun e => by rw [e, hnp] at hp; cases hp
  unfold stepStrict at h
  split at h
  · simp only [stepStrict]; exact delay_noop P _ _ _ _ _ _ _ _ h0 h0' h hp
  · exact (vac (by simp only [sampleTake, Prod.mk.injEq] at h; exact h.2.2.symm)).elim
  · simp only [stepStrict]; exact held_noop P hP _ _ _ _ _ _ _ _ _ h0 h0' h hp
  · simp only [stepStrict]; exact deriv_noop P _ _ _ _ _ _ _ _ h0 h0' h hp
  · simp only [stepStrict]; exact integ_noop P _ _ _ _ _ _ _ _ _ h0 h0' h hp
  · simp only [stepStrict]; exact fm_noop P _ _ _ _ _ _ _ _ _ _ _ h0 h0' h hp
  · simp only [stepStrict]; exact fm_noop P _ _ _ _ _ _ _ _ _ _ _ h0 h0' h hp
  · exact (vac (by simp only [risingStep, Prod.mk.injEq] at h; exact h.2.2.symm)).elim
  · exact (vac (by simp only [fallingStep, Prod.mk.injEq] at h; exact h.2.2.symm)).elim
  · exact (vac (by simp only [accStep, Prod.mk.injEq] at h; exact h.2.2.symm)).elim
  · exact (vac (by simp only [accIncStep, Prod.mk.injEq] at h; exact h.2.2.symm)).elim
  · exact (vac (by simp only [hystStep, Prod.mk.injEq] at h; exact h.2.2.symm)).elim
  · exact (vac (by have := congrArg (·.2.2) h; simp only [sequenceStep_p] at this; exact this.symm)).elim
  all_goals exact (vac (by simp only [Prod.mk.injEq] at h; exact h.2.2.symm)).elim

/-! ## Trees -/

theorem Node.ind {α : Type} {motive : Node α → Prop} (lit : ∀ v, motive (.lit v)) (port : ∀ i, motive (.port i))
    (fn : ∀ k m p args, (∀ a ∈ args, motive a) → motive (.fn k m p args)) : ∀ n, motive n := by
  intro n
  refine Node.rec (motive_1 := motive) (motive_2 := fun l => ∀ a ∈ l, motive a) lit port
    (fun k m p args ih => fn k m p args ih) (by simp) (fun h t ih1 ih2 => ?_) n
  intro a ha
  cases List.mem_cons.mp ha with
  | inl e => exact e ▸ ih1
  | inr h' => exact ih2 a h'

mutual
/-- The tree with every pause deadline forgotten (memories kept). -/
def erase : Node Int → Node Int
  | .fn k m _ args => .fn k m 0 (eraseArgs args)
  | .lit v => .lit v
  | .port i => .port i
def eraseArgs : List (Node Int) → List (Node Int)
  | [] => []
  | a :: r => erase a :: eraseArgs r
end

theorem eraseArgs_length (l : List (Node Int)) : (eraseArgs l).length = l.length := by
  induction l with
  | nil => simp [eraseArgs]
  | cons a r ih => simp [eraseArgs, ih]

theorem evalArgs_length (P : Params) (env : Env Int) (now : Int) (l : List (Node Int)) :
    (evalArgs P env now l).1.length = l.length := by
  induction l with
  | nil => simp [evalArgs]
  | cons a r ih => simp [evalArgs, ih]

theorem evalNode_sample (P : Params) (env : Env Int) (now : Int) (m : Mem Int) (p : Int) (args : List (Node Int)) :
    evalNode P env now (.fn .sample m p args) =
      if sampleHolds m now then
        (.fn .sample m (pauseUntil (add (ofInt m.t) m.dur)) args, lastValue m)
      else evalStrict P .sample m now (evalArgs P env now args).1 (evalArgs P env now args).2 := by
  rw [evalNode.eq_def]

theorem evalNode_generic (P : Params) (env : Env Int) (now : Int) (k : Fn) (m : Mem Int) (p : Int)
    (args : List (Node Int)) (hs : k ≠ .sample) (hf : k = .freeze → args.length ≠ 2) :
    evalNode P env now (.fn k m p args) =
      evalStrict P k (preStep k m now) now (evalArgs P env now args).1 (evalArgs P env now args).2 := by
  rw [evalNode.eq_def]
  dsimp only
  split
  · exact absurd rfl hs
  · exact absurd rfl (hf rfl)
  · rfl

theorem erase_fn (k : Fn) (m : Mem Int) (p : Int) (args : List (Node Int)) :
    erase (.fn k m p args) = .fn k m 0 (eraseArgs args) := by simp [erase]

theorem eraseArgs_idem_of (l : List (Node Int)) (ih : ∀ a ∈ l, erase (erase a) = erase a) :
    eraseArgs (eraseArgs l) = eraseArgs l := by
  induction l with
  | nil => simp [eraseArgs]
  | cons a r ihr =>
    simp only [eraseArgs]
    rw [ih a (by simp), ihr (fun b hb => ih b (by simp [hb]))]

theorem erase_idem : ∀ n : Node Int, erase (erase n) = erase n := by
  apply Node.ind
  · intro v; simp [erase]
  · intro i; simp [erase]
  · intro k m p args ih
    simp only [erase_fn]
    rw [eraseArgs_idem_of args ih]

theorem eraseArgs_idem (l : List (Node Int)) : eraseArgs (eraseArgs l) = eraseArgs l :=
  eraseArgs_idem_of l (fun a _ => erase_idem a)

/-- Evaluation never reads the stored pause deadlines. -/
def EraseOk (P : Params) (env : Env Int) (now : Int) (n : Node Int) : Prop :=
  (evalNode P env now (erase n)).2 = (evalNode P env now n).2 ∧
  erase (evalNode P env now (erase n)).1 = erase (evalNode P env now n).1

theorem evalArgs_erase (P : Params) (env : Env Int) (now : Int) (args : List (Node Int))
    (ih : ∀ a ∈ args, EraseOk P env now a) :
    (evalArgs P env now (eraseArgs args)).2 = (evalArgs P env now args).2 ∧
    eraseArgs (evalArgs P env now (eraseArgs args)).1 = eraseArgs (evalArgs P env now args).1 := by
  induction args with
  | nil => simp [evalArgs, eraseArgs]
  | cons a r ihr =>
    have ha := ih a (by simp)
    have hr := ihr (fun b hb => ih b (by simp [hb]))
    simp only [eraseArgs, evalArgs]
    exact ⟨by rw [ha.1, hr.1], by rw [ha.2, hr.2]⟩

theorem evalStrict_snd (P : Params) (k : Fn) (m : Mem Int) (now : Int) (a1 a2 : List (Node Int)) (rs : List (Res Int)) :
    (evalStrict P k m now a1 rs).2 = (evalStrict P k m now a2 rs).2 := by
  unfold evalStrict; split <;> rfl

theorem evalStrict_erase (P : Params) (k : Fn) (m : Mem Int) (now : Int) (a1 a2 : List (Node Int)) (rs : List (Res Int))
    (h : eraseArgs a1 = eraseArgs a2) :
    erase (evalStrict P k m now a1 rs).1 = erase (evalStrict P k m now a2 rs).1 := by
  unfold evalStrict; split <;> simp [erase_fn, h]

theorem evalNode_erase (P : Params) (env : Env Int) (now : Int) : ∀ n : Node Int, EraseOk P env now n := by
  apply Node.ind
  · intro v; simp [EraseOk, erase]
  · intro i; simp [EraseOk, erase]
  · intro k m p args ih
    have hargs := evalArgs_erase P env now args ih
    unfold EraseOk
    rw [erase_fn]
    by_cases hs : k = .sample
    · subst hs
      rw [evalNode_sample, evalNode_sample]
      by_cases hh : sampleHolds m now = true
      · simp [hh, erase_fn, eraseArgs_idem]
      · simp only [hh, Bool.false_eq_true, if_false]
        rw [hargs.1]
        exact ⟨evalStrict_snd .., evalStrict_erase _ _ _ _ _ _ _ hargs.2⟩
    · by_cases hf : k = .freeze ∧ args.length = 2
      · obtain ⟨rfl, hlen⟩ := hf
        match args, hlen, ih with
        | [a0, a1], _, ih =>
          have h0 := ih a0 (by simp)
          have h1 := ih a1 (by simp)
          unfold EraseOk at h0 h1
          simp only [eraseArgs]
          rw [evalNode.eq_def P env now (.fn .freeze m 0 [erase a0, erase a1]),
            evalNode.eq_def P env now (.fn .freeze m p [a0, a1])]
          dsimp only
          by_cases hact : freezeActive m now = true
          · simp [hact, erase_fn, eraseArgs, erase_idem]
          · simp only [hact, Bool.false_eq_true, if_false]
            rw [h0.1]
            split
            · simp [erase_fn, eraseArgs, h0.2, erase_idem]
            · split
              · rw [h1.1]
                split <;> simp [erase_fn, eraseArgs, h0.2, h1.2]
              · simp [erase_fn, eraseArgs, h0.2, erase_idem]
      · have hf' : k = .freeze → args.length ≠ 2 := fun e hl => hf ⟨e, hl⟩
        rw [evalNode_generic P env now k m 0 (eraseArgs args) hs (by rw [eraseArgs_length]; exact hf'),
          evalNode_generic P env now k m p args hs hf']
        rw [hargs.1]
        exact ⟨evalStrict_snd .., evalStrict_erase _ _ _ _ _ _ _ hargs.2⟩

/-! ## Re-evaluation while paused is a no-op (repaired pause rule) -/

/-- What `Function.is_asap_eval_paused` asks of an argument: functions must be paused, leaves do not count. -/
def okPaused (now' : Int) : Node Int → Bool
  | .fn k m p args => effPaused true now' (.fn k m p args)
  | _ => true

theorem argsPaused_cons (now' : Int) (a : Node Int) (r : List (Node Int)) :
    argsPaused true now' (a :: r) = (okPaused now' a && argsPaused true now' r) := by
  cases a <;> simp [argsPaused, okPaused]

theorem effPaused_fn (now' : Int) (k : Fn) (m : Mem Int) (p : Int) (args : List (Node Int)) :
    effPaused true now' (.fn k m p args) = (isPaused now' p && argsPaused true now' args) := by
  simp [effPaused]

def NoopOk (P : Params) (env : Env Int) (now now' : Int) (n : Node Int) : Prop :=
  okPaused now' (evalNode P env now n).1 = true →
    (evalNode P env now' (evalNode P env now n).1).2 = (evalNode P env now n).2 ∧
    erase (evalNode P env now' (evalNode P env now n).1).1 = erase (evalNode P env now n).1

theorem evalArgs_noop (P : Params) (env : Env Int) (now now' : Int) (args : List (Node Int))
    (ih : ∀ a ∈ args, NoopOk P env now now' a)
    (hp : argsPaused true now' (evalArgs P env now args).1 = true) :
    (evalArgs P env now' (evalArgs P env now args).1).2 = (evalArgs P env now args).2 ∧
    eraseArgs (evalArgs P env now' (evalArgs P env now args).1).1 = eraseArgs (evalArgs P env now args).1 := by
  induction args with
  | nil => simp [evalArgs, eraseArgs]
  | cons a r ihr =>
    simp only [evalArgs] at hp ⊢
    rw [argsPaused_cons, Bool.and_eq_true] at hp
    have ha := ih a (by simp) hp.1
    have hr := ihr (fun b hb => ih b (by simp [hb])) hp.2
    simp only [eraseArgs]
    exact ⟨by rw [ha.1, hr.1], by rw [ha.2, hr.2]⟩

theorem preStep_id (k : Fn) (m : Mem Int) (now : Int) (h : k ≠ .sequence) : preStep k m now = m := by
  cases k <;> simp_all [preStep]

theorem stepStrict_sequence_p (P : Params) (m : Mem Int) (now : Int) (vs : List Int) :
    (stepStrict P .sequence m now vs).2.2 = noPause := by
  simp only [stepStrict]; exact sequenceStep_p m now vs

theorem stepStrict_sample_p (P : Params) (m : Mem Int) (now : Int) (vs : List Int) :
    (stepStrict P .sample m now vs).2.2 = noPause := by
  unfold stepStrict; split <;> simp_all [sampleTake]

/-- The strict path: a node produced by `evalStrict` that is paused at `now'` re-evaluates to itself. -/
theorem strict_node_noop (P : Params) (hP : P.fixed = true) (env : Env Int) (now now' : Int) (h0 : 0 < now)
    (h0' : 0 ≤ now') (k : Fn) (m0 : Mem Int) (args : List (Node Int)) (hs : k ≠ .sample)
    (hf : k = .freeze → args.length ≠ 2)
    (ih : ∀ a ∈ args, NoopOk P env now now' a)
    (hp : okPaused now' (evalStrict P k m0 now (evalArgs P env now args).1 (evalArgs P env now args).2).1 = true) :
    let n1 := evalStrict P k m0 now (evalArgs P env now args).1 (evalArgs P env now args).2
    (evalNode P env now' n1.1).2 = n1.2 ∧ erase (evalNode P env now' n1.1).1 = erase n1.1 := by
  intro n1
  have hnp := not_paused_noPause now' h0'
  simp only [n1] at hp ⊢
  unfold evalStrict at hp ⊢
  cases hc : collect (evalArgs P env now args).2 with
  | error f =>
    simp only [hc, okPaused, effPaused_fn, hnp, Bool.false_and, Bool.false_eq_true] at hp
  | ok vs =>
    simp only [hc, okPaused, effPaused_fn, Bool.and_eq_true] at hp ⊢
    obtain ⟨hpo, hpa⟩ := hp
    have hseq : k ≠ .sequence := by
      intro e; subst e
      rw [stepStrict_sequence_p, hnp] at hpo; cases hpo
    have hargs := evalArgs_noop P env now now' args ih hpa
    rw [evalNode_generic P env now' k _ _ _ hs (by rw [evalArgs_length]; exact hf)]
    rw [preStep_id k _ now' hseq, hargs.1]
    unfold evalStrict
    simp only [hc]
    generalize hst0 : stepStrict P k m0 now vs = st at hpo ⊢
    obtain ⟨m1, r, p1⟩ := st
    obtain ⟨p2, hst⟩ := strict_noop P hP k m0 m1 now now' vs r p1 h0 h0' hst0 hpo
    simp only [hst, erase_fn, hargs.2, and_self]

theorem evalNode_freeze2 (P : Params) (env : Env Int) (now : Int) (m : Mem Int) (p : Int) (a0 a1 : Node Int) :
    evalNode P env now (.fn .freeze m p [a0, a1]) =
      if freezeActive m now then
        (.fn .freeze m (pauseUntil (add (ofInt m.t) m.dur)) [a0, a1], lastValue m)
      else
        match (evalNode P env now a0).2 with
        | .error f => (.fn .freeze { m with t := 0 } noPause [(evalNode P env now a0).1, a1], .error f)
        | .ok value =>
          if differs value m.v then
            match (evalNode P env now a1).2 with
            | .error f => (.fn .freeze { m with t := now } noPause
                [(evalNode P env now a0).1, (evalNode P env now a1).1], .error f)
            | .ok dur => (.fn .freeze { m with t := now, d := some dur, v := some value } noPause
                [(evalNode P env now a0).1, (evalNode P env now a1).1], .ok value)
          else (.fn .freeze { m with t := 0 } forever [(evalNode P env now a0).1, a1], lastValue { m with t := 0 }) := by
  rw [evalNode.eq_def]
  dsimp only
  split
  · rfl
  · split
    · rename_i hv; simp only [hv]
    · rename_i hv; simp only [hv]
      split
      · split
        · rename_i hv1; simp only [hv1]
        · rename_i hv1; simp only [hv1]
      · rfl

theorem node_noop (P : Params) (hP : P.fixed = true) (env : Env Int) (now now' : Int) (h0 : 0 < now)
    (h0' : 0 ≤ now') : ∀ n : Node Int, NoopOk P env now now' n := by
  have hnp := not_paused_noPause now' h0'
  apply Node.ind
  · intro v _; simp [evalNode]
  · intro i _; simp [evalNode]
  · intro k m p args ih
    unfold NoopOk
    by_cases hs : k = .sample
    · subst hs
      rw [evalNode_sample]
      by_cases hh : sampleHolds m now = true
      · simp only [hh, if_true, okPaused, effPaused_fn, Bool.and_eq_true]
        intro hp
        have hh' : sampleHolds m now' = true := by
          simp only [sampleHolds, int_lt, int_ofInt, decide_eq_true_eq, isPaused_int, pauseUntil_int, int_add] at hh hp ⊢
          have := hp.1
          split at this <;> omega
        rw [evalNode_sample]
        simp [hh']
      · simp only [hh, Bool.false_eq_true, if_false]
        intro hp
        exfalso
        unfold evalStrict at hp
        split at hp
        · simp only [okPaused, effPaused_fn, hnp, Bool.false_and, Bool.false_eq_true] at hp
        · simp only [okPaused, effPaused_fn, stepStrict_sample_p, hnp, Bool.false_and, Bool.false_eq_true] at hp
    · by_cases hf : k = .freeze ∧ args.length = 2
      · obtain ⟨rfl, hlen⟩ := hf
        match args, hlen, ih with
        | [a0, a1], _, ih =>
          have ih0 := ih a0 (by simp)
          unfold NoopOk at ih0
          rw [evalNode_freeze2]
          by_cases hact : freezeActive m now = true
          · simp only [hact, if_true, okPaused, effPaused_fn, Bool.and_eq_true]
            intro hp
            have hact' : freezeActive m now' = true := by
              simp only [freezeActive, int_lt, int_ofInt, Bool.and_eq_true, bne_iff_ne, ne_eq, Bool.not_eq_true',
                decide_eq_false_iff_not, isPaused_int, pauseUntil_int, int_add, decide_eq_true_eq] at hact hp ⊢
              have := hp.1
              refine ⟨hact.1, ?_⟩
              split at this <;> omega
            rw [evalNode_freeze2]
            simp [hact']
          · simp only [hact, Bool.false_eq_true, if_false]
            split
            · intro hp; simp only [okPaused, effPaused_fn, hnp, Bool.false_and, Bool.false_eq_true] at hp
            · rename_i value hv
              split
              · split <;>
                · intro hp; simp only [okPaused, effPaused_fn, hnp, Bool.false_and, Bool.false_eq_true] at hp
              · rename_i hdiff
                intro hp
                simp only [okPaused, effPaused_fn, Bool.and_eq_true, argsPaused_cons] at hp
                have h00 := ih0 hp.2.1
                rw [evalNode_freeze2]
                have hidle : freezeActive { m with t := 0 } now' = false := by simp [freezeActive]
                simp only [hidle, Bool.false_eq_true, if_false]
                rw [h00.1, hv]
                simp only [hdiff]
                simp [erase_fn, eraseArgs, h00.2]
      · have hf' : k = .freeze → args.length ≠ 2 := fun e hl => hf ⟨e, hl⟩
        rw [evalNode_generic P env now k m p args hs hf']
        intro hp
        exact strict_node_noop P hP env now now' h0 h0' k _ args hs hf' ih hp

/-! ## The polling loop: skipping while paused is unobservable -/

theorem hasAsap_erase_of (l : List (Node Int)) (ih : ∀ a ∈ l, hasAsap (erase a) = hasAsap a) :
    argsAsap (eraseArgs l) = argsAsap l := by
  induction l with
  | nil => simp [eraseArgs]
  | cons a r ihr => simp only [eraseArgs, argsAsap]; rw [ih a (by simp), ihr (fun b hb => ih b (by simp [hb]))]

theorem hasAsap_erase : ∀ n : Node Int, hasAsap (erase n) = hasAsap n := by
  apply Node.ind
  · intro v; simp [erase]
  · intro i; simp [erase]
  · intro k m p args ih; simp only [erase_fn, hasAsap]; rw [hasAsap_erase_of args ih]

theorem hasAsap_congr {a b : Node Int} (h : erase a = erase b) : hasAsap a = hasAsap b := by
  rw [← hasAsap_erase a, ← hasAsap_erase b, h]

theorem evalNode_congr (P : Params) (env : Env Int) (now : Int) {a b : Node Int} (h : erase a = erase b) :
    (evalNode P env now a).2 = (evalNode P env now b).2 ∧
    erase (evalNode P env now a).1 = erase (evalNode P env now b).1 := by
  have ha := evalNode_erase P env now a
  have hb := evalNode_erase P env now b
  unfold EraseOk at ha hb
  rw [h] at ha
  exact ⟨ha.1.symm.trans hb.1, ha.2.symm.trans hb.2⟩

theorem applyRes_idem (v : Option Int) (r : Res Int) : applyRes (applyRes v r) r = applyRes v r := by
  cases r with
  | ok x => rfl
  | error f => cases f <;> rfl

/-- The skipping run's tree is settled for the port values `e`: any evaluation while it is paused is a no-op. -/
def Quiet (P : Params) (e : Env Int) (s : PortSt Int) : Prop :=
  ∀ now', 0 < now' → effPaused true now' s.tree = true →
    erase (evalNode P e now' s.tree).1 = erase s.tree ∧ applyRes s.value (evalNode P e now' s.tree).2 = s.value

def Inv (P : Params) (e : Env Int) (sS sE : PortSt Int) : Prop :=
  erase sS.tree = erase sE.tree ∧ sS.value = sE.value ∧ Quiet P e sS

/-- Every tick without a trigger sees the same port values as the tick before. -/
def TrigOk (e : Env Int) : List (Tick Int) → Prop
  | [] => True
  | tk :: rest => (tk.trig = false → tk.env = e) ∧ TrigOk tk.env rest

theorem quiet_after_eval (P : Params) (hP : P.fixed = true) (env : Env Int) (now : Int) (h0 : 0 < now)
    (s : PortSt Int) :
    Quiet P env { tree := (evalNode P env now s.tree).1, value := applyRes s.value (evalNode P env now s.tree).2 } := by
  intro now' h0' hp
  have hn := node_noop P hP env now now' h0 (Int.le_of_lt h0') s.tree
  unfold NoopOk at hn
  have hok : okPaused now' (evalNode P env now s.tree).1 = true := by
    revert hp
    cases (evalNode P env now s.tree).1 <;> simp [okPaused, effPaused]
  have := hn hok
  simp only
  exact ⟨this.2, by rw [this.1, applyRes_idem]⟩

theorem loop_step_inv (P : Params) (hP : P.fixed = true) (e : Env Int) (sS sE : PortSt Int) (tk : Tick Int)
    (hinv : Inv P e sS sE) (h0 : 0 < tk.now) (htr : tk.trig = false → tk.env = e) :
    (loopStep P true sS tk).value = (loopStep P false sE tk).value ∧
    Inv P tk.env (loopStep P true sS tk) (loopStep P false sE tk) := by
  obtain ⟨her, hval, hq⟩ := hinv
  have hasap := hasAsap_congr her
  unfold loopStep
  simp only [hP, Bool.false_and, Bool.not_false, Bool.and_true, Bool.true_and]
  rw [← hasap]
  by_cases hev : (tk.trig || (hasAsap sS.tree && !effPaused true tk.now sS.tree)) = true
  · -- both runs evaluate
    have hevE : (tk.trig || hasAsap sS.tree) = true := by
      revert hev; cases tk.trig <;> cases hasAsap sS.tree <;> simp
    simp only [hev, hevE, if_true]
    have hc := evalNode_congr P tk.env tk.now her
    refine ⟨by rw [hc.1, hval], hc.2, by rw [hc.1, hval], ?_⟩
    exact quiet_after_eval P hP tk.env tk.now h0 sS
  · simp only [hev, Bool.false_eq_true, if_false]
    have htrig : tk.trig = false := by revert hev; cases tk.trig <;> simp
    have henv := htr htrig
    by_cases has : hasAsap sS.tree = true
    · -- the skipping run skips, the reference evaluates: a no-op
      have hpaused : effPaused true tk.now sS.tree = true := by
        revert hev; rw [htrig, has]; cases effPaused true tk.now sS.tree <;> simp
      simp only [htrig, has, Bool.false_or, if_true]
      have hc := evalNode_congr P tk.env tk.now her
      have hqq := hq tk.now h0 hpaused
      rw [henv] at hc ⊢
      refine ⟨?_, ?_, ?_, hq⟩
      · rw [← hc.1, ← hval]; exact hqq.2.symm
      · rw [← hc.2]; exact hqq.1.symm
      · rw [← hc.1, ← hval]; exact hqq.2.symm
    · simp only [htrig, Bool.not_eq_true] at has ⊢
      simp only [has, Bool.false_or, Bool.false_eq_true, if_false]
      rw [henv]
      exact ⟨hval, her, hval, hq⟩

theorem run_inv (P : Params) (hP : P.fixed = true) (ticks : List (Tick Int)) :
    ∀ (e : Env Int) (sS sE : PortSt Int), Inv P e sS sE → (∀ tk ∈ ticks, 0 < tk.now) → TrigOk e ticks →
      runLoop P true sS ticks = runLoop P false sE ticks := by
  induction ticks with
  | nil => intros; rfl
  | cons tk rest ih =>
    intro e sS sE hinv hpos htr
    have hstep := loop_step_inv P hP e sS sE tk hinv (hpos tk (by simp)) htr.1
    simp only [runLoop]
    rw [hstep.1, ih tk.env _ _ hstep.2 (fun t ht => hpos t (by simp [ht])) htr.2]

/-- **Skipping while paused is unobservable** (repaired pause rule): for every expression tree (any nesting), every
initial memory, every history of ticks with positive times in which the first tick evaluates (setting an expression
forces an evaluation) and every later tick either is triggered or sees unchanged port values, the port takes the
same values with the skip rule as when the expression is evaluated on every tick. -/
theorem skip_unobservable (P : Params) (hP : P.fixed = true) (st : PortSt Int) (tk0 : Tick Int) (rest : List (Tick Int))
    (hfirst : tk0.trig = true) (hpos : ∀ tk ∈ tk0 :: rest, 0 < tk.now) (htr : TrigOk tk0.env rest) :
    runLoop P true st (tk0 :: rest) = runLoop P false st (tk0 :: rest) := by
  simp only [runLoop]
  have h1 : loopStep P true st tk0 = loopStep P false st tk0 := by
    unfold loopStep; simp [hfirst]
  rw [h1]
  congr 1
  apply run_inv P hP rest tk0.env _ _ _ (fun t ht => hpos t (by simp [ht])) htr
  refine ⟨rfl, rfl, ?_⟩
  unfold loopStep
  simp only [hfirst, Bool.true_or, if_true]
  exact quiet_after_eval P hP tk0.env tk0.now (hpos tk0 (by simp)) st

/-! ## Passes and the evaluation task as separate steps -/

/-- A pass immediately followed by the evaluation task (nothing pending before): exactly `loopStep` with the skip
rule — whatever the pending-evaluation shortcut is applied to. -/
theorem pass_then_run_is_loopStep (P : Params) (g : Bool) (st : PortSt Int) (tk : Tick Int) :
    (evStep P g (evStep P g { st := st, queue := [] } (.pass tk)) .run) = { st := loopStep P true st tk, queue := [] } := by
  simp only [evStep, passStep, loopStep, List.isEmpty_nil, Bool.not_true, Bool.and_false, Bool.false_eq_true,
    if_false, List.nil_append, Bool.true_and]
  cases hA : hasAsap st.tree <;> cases hT : tk.trig <;> cases hP : effPaused P.fixed tk.now st.tree <;>
    simp [runQueue]

/-- One pass + evaluation task per tick. -/
def runDrained (P : Params) (g : Bool) : PortSt Int → List (Tick Int) → List (Option Int)
  | _, [] => []
  | st, tk :: rest =>
    let q := evStep P g (evStep P g { st := st, queue := [] } (.pass tk)) .run
    q.st.value :: runDrained P g q.st rest

theorem runDrained_eq_runLoop (P : Params) (g : Bool) (ticks : List (Tick Int)) :
    ∀ st : PortSt Int, runDrained P g st ticks = runLoop P true st ticks := by
  induction ticks with
  | nil => intro st; rfl
  | cons tk rest ih =>
    intro st
    simp only [runDrained, runLoop, pass_then_run_is_loopStep]
    rw [ih]

/-- The code's rule: a pass that sees a changed dependency (or a forced evaluation) ALWAYS queues an evaluation
carrying the values of that pass, whatever is pending or paused. -/
theorem trig_always_queues (P : Params) (q : QPort Int) (tk : Tick Int) (h : tk.trig = true) :
    (passStep P false q tk).queue = q.queue ++ [(tk.now, tk.env)] ∧ (passStep P false q tk).st = q.st := by
  simp only [passStep, h, Bool.not_true, Bool.false_eq_true, if_false, Bool.false_and]
  cases hasAsap q.st.tree <;> simp

end QtVerif.TimeFns
