import QtVerif.Proofs.SequencePlay
import QtVerif.Proofs.SequenceInFlight
/-! C19: a sequence plays its schedule whatever else is queued (frame argument). One step of the loop task is a
`Delta` on the hub state that depends on `port.seq` and the clock only (`loopStep_eq`); the handles of the sequence
(`own`) therefore commute with the projection `proj` onto the sequence's part of the hub (`exec_own_loop`,
`exec_own_ff`), bystanders (`bys`: other sequences' leftovers, refused / malformed requests, enable, driver hooks,
the trips of harness calls through the queue) do not move the projection and use up a finite measure `mu`
(`exec_bys`). Lifted through `runHandles` / `moveDue` (`run_lockstep`, `moveDue_lockstep`, `iter_general`), the hub is at
every iteration "compact playback state of `Proofs/SequencePlay.lean` + bystanders" (`Rel`, `always`), and the playback
makes its next step after finitely many iterations (`progress`). -/
namespace QtVerif.Sequence
namespace Frame

/-- what one step of the loop task does to the hub: the new `port.seq`, the handles it appends to the ready queue, the
timer it sets (rank 0) -/
structure Delta where
  seq : Option Seq
  pushes : List Handle
  timer : Option (Nat × Handle)

def applyD (d : Delta) (s : St) : St :=
  let s := { s.setSeq d.seq with ready := s.ready ++ d.pushes }
  match d.timer with
  | none => s
  | some (t, h) => s.addTimer t 0 h

def sleepD (now : Nat) (q : Seq) (i : Nat) (ps : List Handle) : Delta :=
  match q.delays[i]? with
  | none => ⟨some { q with task := .crashed }, ps, none⟩
  | some d =>
    if d ≤ 0 then ⟨some { q with task := .pending (.slept i) false }, ps ++ [.loopStep q.id], none⟩
    else ⟨some { q with task := .pending (.slept i) false }, ps, some (now + d.toNat, .loopStep q.id)⟩

def bodyD (fix : Fix) (now : Nat) (q : Seq) (i : Nat) : Delta :=
  match q.values[i]? with
  | none => ⟨some { q with task := .none }, [], none⟩
  | some v =>
    if i + 1 < q.values.length then sleepD now q i [.ff q.id v]
    else if q.lastPass then
      if fix.flushLast then ⟨some { q with task := .pending .flush false }, [.ff q.id v, .loopStep q.id], none⟩
      else ⟨none, [.ff q.id v], none⟩
    else sleepD now { q with counter := q.counter + 1 } i [.ff q.id v]

def loopDelta (fix : Fix) (cur : Option Seq) (now : Nat) (sid : Nat) : Delta :=
  match cur with
  | none => ⟨cur, [], none⟩
  | some q =>
    if q.id ≠ sid then ⟨cur, [], none⟩ else
    match q.task with
    | .pending pos true =>
      if pos = .start then ⟨some { q with task := .cancelled }, [], none⟩ else ⟨some { q with task := .none }, [], none⟩
    | .pending .start false => bodyD fix now q 0
    | .pending (.slept i) false =>
      if i + 1 < q.values.length then bodyD fix now q (i + 1)
      else ⟨some { q with task := .pending .start false }, [.loopStep q.id], none⟩
    | .pending .flush false => ⟨none, [], none⟩
    | _ => ⟨cur, [], none⟩

theorem sleepOn_eq (s : St) (q : Seq) (i : Nat) (ps : List Handle) :
    sleepOn { s with ready := s.ready ++ ps } q i = applyD (sleepD s.now q i ps) s := by
  unfold sleepOn sleepD
  cases h : q.delays[i]? with
  | none => simp [applyD, St.setSeq]
  | some d => by_cases hd : d ≤ 0 <;> simp [hd, applyD, St.setSeq, St.push, St.addTimer, List.append_assoc]

theorem body_eq (fix : Fix) (s : St) (q : Seq) (i : Nat) :
    body fix s q i = applyD (bodyD fix s.now q i) s := by
  unfold body bodyD
  cases h : q.values[i]? with
  | none => simp [applyD, St.setSeq]
  | some v =>
    simp only
    by_cases h1 : i + 1 < q.values.length
    · simp only [h1, if_true]; exact sleepOn_eq s q i [.ff q.id v]
    · simp only [h1, if_false]
      by_cases h2 : q.lastPass = true
      · simp only [h2, if_true]
        by_cases h3 : fix.flushLast = true
        · simp [h3, applyD, St.setSeq, St.push, List.append_assoc]
        · simp [h3, applyD, St.setSeq, St.push, finishSeq]
      · simp only [h2, if_false]
        exact sleepOn_eq s { q with counter := q.counter + 1 } i [.ff q.id v]

theorem applyD_id (s : St) : applyD ⟨s.port.seq, [], none⟩ s = s := by
  simp [applyD, St.setSeq]

theorem loopStep_eq (fix : Fix) (s : St) (sid : Nat) (hw : s.waiting = none) :
    loopStep fix s sid = applyD (loopDelta fix s.port.seq s.now sid) s := by
  unfold loopStep loopDelta
  cases hq : s.port.seq with
  | none => simpa [hq] using (applyD_id s).symm
  | some q =>
    dsimp only
    by_cases hid : q.id ≠ sid
    · rw [if_pos hid, if_pos hid]; simpa [hq] using (applyD_id s).symm
    · rw [if_neg hid, if_neg hid]
      cases ht : q.task with
      | none => simpa [hq] using (applyD_id s).symm
      | cancelled => simpa [hq] using (applyD_id s).symm
      | crashed => simpa [hq] using (applyD_id s).symm
      | pending pos b =>
        cases b with
        | true => by_cases hp : pos = .start <;> simp [hp, wake, hw, applyD, St.setSeq]
        | false =>
          cases pos with
          | start => exact body_eq fix s q 0
          | slept i =>
            simp only
            by_cases h1 : i + 1 < q.values.length
            · simp only [h1, if_true]; exact body_eq fix s q _
            · simp [h1, applyD, St.setSeq, St.push]
          | flush => simp [applyD, St.setSeq, finishSeq]

/-! ### the sequence's own handles, bystanders, the projection onto the sequence's part of the hub -/

def own (sid : Nat) : Handle → Bool
  | .loopStep i => i == sid
  | .ff i _ => i == sid
  | _ => false

def ownT (sid : Nat) (t : Timer) : Bool := own sid t.h

def ownEv (sid : Nat) : Event → Bool
  | .sub _ i _ => i == sid
  | _ => false

/-- operations that cannot touch a sequence whatever the state: a malformed body, a length mismatch, enable -/
def harmlessOp : Op → Bool
  | .malformed => true
  | .patchSeq vs ds _ => vs.length != ds.length
  | .setEnabled true => true
  | _ => false

/-- handles that have nothing to do with sequence `sid` -/
def bys (sid : Nat) : Handle → Bool
  | .loopStep i => i != sid
  | .ff i _ => i != sid
  | .hop _ _ op => harmlessOp op
  | .hookEnd .. => true
  | _ => false

open Play

variable (K : Ctx)

def proj (s : St) : St :=
  K.mkSt s.now (s.ready.filter (own K.sid)) (s.timers.filter (ownT K.sid)) s.port.seq (s.log.filter (ownEv K.sid))

def timeSorted (l : List Timer) : Prop := l.Pairwise (fun a b => a.time ≤ b.time)

/-- everything that is not the sequence's own is a bystander; the observation window is open -/
structure Well (s : St) : Prop where
  rdy : ∀ h ∈ s.ready, own K.sid h = true ∨ bys K.sid h = true
  tms : ∀ t ∈ s.timers, own K.sid t.h = true ∨ bys K.sid t.h = true
  sorted : timeSorted s.timers
  wait : s.waiting = none
  cap : s.cap = 0
  run : s.stopped = false
  cur : ∀ q, s.port.seq = some q → q.id = K.sid

theorem mem_insertTimer_iff (t x : Timer) (l : List Timer) : x ∈ insertTimer t l ↔ x = t ∨ x ∈ l := by
  induction l with
  | nil => simp [insertTimer]
  | cons a l ih =>
    simp only [insertTimer]
    split
    · simp [ih]; constructor
      · rintro (h | h | h); exact Or.inr (Or.inl h); exact Or.inl h; exact Or.inr (Or.inr h)
      · rintro (h | h | h); exact Or.inr (Or.inl h); exact Or.inl h; exact Or.inr (Or.inr h)
    · simp

theorem filter_insertTimer_neg (p : Timer → Bool) (t : Timer) (l : List Timer) (h : p t = false) :
    (insertTimer t l).filter p = l.filter p := by
  induction l with
  | nil => simp [insertTimer, h]
  | cons a l ih =>
    simp only [insertTimer]
    split
    · simp [List.filter_cons, ih]
    · simp [List.filter_cons, h]

theorem filter_insertTimer_single (p : Timer → Bool) (t : Timer) (l : List Timer) (h : p t = true)
    (hl : l.filter p = []) : (insertTimer t l).filter p = [t] := by
  induction l with
  | nil => simp [insertTimer, h]
  | cons a l ih =>
    have ha : p a = false := by
      cases hpa : p a with
      | false => rfl
      | true => simp [List.filter_cons, hpa] at hl
    have hl' : l.filter p = [] := by simpa [List.filter_cons, ha] using hl
    simp only [insertTimer]
    split
    · simp [List.filter_cons, ha, ih hl']
    · simp [List.filter_cons, ha, h, hl']

theorem sum_filter_insertTimer (p : Timer → Bool) (f : Timer → Nat) (t : Timer) (l : List Timer) :
    (((insertTimer t l).filter p).map f).sum = (if p t then f t else 0) + ((l.filter p).map f).sum := by
  induction l with
  | nil => by_cases h : p t = true <;> simp [insertTimer, h]
  | cons a l ih =>
    simp only [insertTimer]
    split
    · by_cases ha : p a = true <;> simp [List.filter_cons, ha, ih] <;> omega
    · by_cases h : p t = true <;> simp [List.filter_cons, h]

theorem timeSorted_insert (t : Timer) (l : List Timer) (h : timeSorted l) : timeSorted (insertTimer t l) := by
  induction l with
  | nil => simp [insertTimer, timeSorted]
  | cons a l ih =>
    unfold timeSorted at h ih ⊢
    rw [List.pairwise_cons] at h
    simp only [insertTimer]
    split
    · rename_i hle
      rw [List.pairwise_cons]
      refine ⟨?_, ih h.2⟩
      intro x hx
      rcases (mem_insertTimer_iff t x l).mp hx with e | e
      · subst e
        simp [Timer.le] at hle
        rcases hle with h1 | h1
        · omega
        · omega
      · exact h.1 x e
    · rename_i hle
      have hta : t.time ≤ a.time := by
        simp [Timer.le] at hle
        omega
      rw [List.pairwise_cons]
      refine ⟨?_, List.pairwise_cons.mpr h⟩
      intro x hx
      rcases List.mem_cons.mp hx with e | e
      · subst e; exact hta
      · exact Nat.le_trans hta (h.1 x e)

def w : Handle → Nat
  | .hop k _ _ => k + 3
  | _ => 1

/-- work left for the bystanders -/
def mu (s : St) : Nat :=
  ((s.ready.filter (fun h => !own K.sid h)).map w).sum +
  ((s.timers.filter (fun t => !ownT K.sid t)).map (fun t => w t.h + 1)).sum

structure OwnDelta (d : Delta) : Prop where
  pushes : ∀ h ∈ d.pushes, own K.sid h = true
  timer : ∀ t h, d.timer = some (t, h) → own K.sid h = true
  seq : ∀ q, d.seq = some q → q.id = K.sid

theorem filter_own_append (l ps : List Handle) (hp : ∀ h ∈ ps, own K.sid h = true) :
    (l ++ ps).filter (own K.sid) = l.filter (own K.sid) ++ ps := by
  rw [List.filter_append, List.filter_eq_self.mpr hp]

theorem filter_notown_append (l ps : List Handle) (hp : ∀ h ∈ ps, own K.sid h = true) :
    (l ++ ps).filter (fun h => !own K.sid h) = l.filter (fun h => !own K.sid h) := by
  rw [List.filter_append]
  have : ps.filter (fun h => !own K.sid h) = [] := by
    rw [List.filter_eq_nil_iff]; intro h hh; simp [hp h hh]
  rw [this, List.append_nil]

theorem proj_applyD (d : Delta) (s : St) (od : OwnDelta K d)
    (ht : d.timer ≠ none → s.timers.filter (ownT K.sid) = []) :
    proj K (applyD d s) = applyD d (proj K s) := by
  cases hd : d.timer with
  | none =>
    simp [applyD, hd, proj, Ctx.mkSt, St.setSeq, filter_own_append K _ _ od.pushes]
  | some th =>
    obtain ⟨t, h⟩ := th
    have ho : ownT K.sid ⟨t, 0, h⟩ = true := od.timer t h hd
    have hnil := ht (by rw [hd]; simp)
    simp [applyD, hd, proj, Ctx.mkSt, St.setSeq, St.addTimer, filter_own_append K _ _ od.pushes,
      filter_insertTimer_single _ _ _ ho hnil, hnil, insertTimer]

theorem applyD_ready (d : Delta) (s : St) : (applyD d s).ready = s.ready ++ d.pushes := by
  unfold applyD; cases d.timer <;> rfl
theorem applyD_seq (d : Delta) (s : St) : (applyD d s).port.seq = d.seq := by
  unfold applyD; cases d.timer <;> rfl
theorem applyD_waiting (d : Delta) (s : St) : (applyD d s).waiting = s.waiting := by
  unfold applyD; cases d.timer <;> rfl
theorem applyD_cap (d : Delta) (s : St) : (applyD d s).cap = s.cap := by
  unfold applyD; cases d.timer <;> rfl
theorem applyD_stopped (d : Delta) (s : St) : (applyD d s).stopped = s.stopped := by
  unfold applyD; cases d.timer <;> rfl
theorem applyD_now (d : Delta) (s : St) : (applyD d s).now = s.now := by
  unfold applyD; cases d.timer <;> rfl
theorem applyD_timers_none (d : Delta) (s : St) (h : d.timer = none) : (applyD d s).timers = s.timers := by
  unfold applyD; rw [h]; rfl
theorem applyD_timers_some (d : Delta) (s : St) (t : Nat) (x : Handle) (h : d.timer = some (t, x)) :
    (applyD d s).timers = insertTimer ⟨t, 0, x⟩ s.timers := by
  unfold applyD; rw [h]; rfl

theorem mu_applyD (d : Delta) (s : St) (od : OwnDelta K d) : mu K (applyD d s) = mu K s := by
  unfold mu
  rw [applyD_ready, filter_notown_append K _ _ od.pushes]
  cases hd : d.timer with
  | none => rw [applyD_timers_none d s hd]
  | some th =>
    obtain ⟨t, h⟩ := th
    have ho : ownT K.sid ⟨t, 0, h⟩ = true := od.timer t h hd
    rw [applyD_timers_some d s t h hd,
      filter_insertTimer_neg (fun t => !ownT K.sid t) _ _ (by simp [ho])]

theorem Well_applyD (d : Delta) (s : St) (od : OwnDelta K d) (wl : Well K s) : Well K (applyD d s) := by
  refine ⟨?_, ?_, ?_, by rw [applyD_waiting]; exact wl.wait, by rw [applyD_cap]; exact wl.cap,
    by rw [applyD_stopped]; exact wl.run, ?_⟩
  · intro h hh
    rw [applyD_ready] at hh
    rcases List.mem_append.mp hh with e | e
    · exact wl.rdy h e
    · exact Or.inl (od.pushes h e)
  · cases hd : d.timer with
    | none => rw [applyD_timers_none d s hd]; exact wl.tms
    | some th =>
      obtain ⟨t, h⟩ := th
      rw [applyD_timers_some d s t h hd]
      intro x hx
      rcases (mem_insertTimer_iff _ _ _).mp hx with e | e
      · subst e; exact Or.inl (od.timer t h hd)
      · exact wl.tms x e
  · cases hd : d.timer with
    | none => rw [applyD_timers_none d s hd]; exact wl.sorted
    | some th =>
      obtain ⟨t, h⟩ := th
      rw [applyD_timers_some d s t h hd]; exact timeSorted_insert _ _ wl.sorted
  · intro q hq
    rw [applyD_seq] at hq
    exact od.seq q hq

theorem od_none (q' : Option Seq) (ps : List Handle) (hp : ∀ h ∈ ps, own K.sid h = true)
    (hs : ∀ q, q' = some q → q.id = K.sid) : OwnDelta K ⟨q', ps, none⟩ :=
  ⟨hp, (by intro t h e; cases e), hs⟩

theorem od_timer (q' : Option Seq) (ps : List Handle) (t : Nat) (x : Handle) (hp : ∀ h ∈ ps, own K.sid h = true)
    (hx : own K.sid x = true) (hs : ∀ q, q' = some q → q.id = K.sid) : OwnDelta K ⟨q', ps, some (t, x)⟩ :=
  ⟨hp, (by intro t' h e; cases e; exact hx), hs⟩

theorem own_nil : ∀ h ∈ ([] : List Handle), own K.sid h = true := by intro h hh; cases hh

theorem ownDelta_sleepD (now : Nat) (q : Seq) (i : Nat) (ps : List Handle) (hq : q.id = K.sid)
    (hp : ∀ h ∈ ps, own K.sid h = true) : OwnDelta K (sleepD now q i ps) := by
  have hs : ∀ (tk : Task) (q' : Seq), some ({ q with task := tk } : Seq) = some q' → q'.id = K.sid := by
    intro tk q' e; cases e; exact hq
  have hl : own K.sid (.loopStep q.id) = true := by simp [own, hq]
  unfold sleepD
  cases q.delays[i]? with
  | none => exact od_none K _ _ hp (hs _)
  | some d =>
    dsimp only
    by_cases hd : d ≤ 0
    · rw [if_pos hd]
      refine od_none K _ _ ?_ (hs _)
      intro h hh
      rcases List.mem_append.mp hh with e | e
      · exact hp h e
      · simp at e; subst e; exact hl
    · rw [if_neg hd]
      exact od_timer K _ _ _ _ hp hl (hs _)

theorem ownDelta_bodyD (fix : Fix) (now : Nat) (q : Seq) (i : Nat) (hq : q.id = K.sid) :
    OwnDelta K (bodyD fix now q i) := by
  have hs : ∀ (tk : Task) (q' : Seq), some ({ q with task := tk } : Seq) = some q' → q'.id = K.sid := by
    intro tk q' e; cases e; exact hq
  unfold bodyD
  cases q.values[i]? with
  | none => exact od_none K _ _ (own_nil K) (hs _)
  | some v =>
    have hff : ∀ h ∈ [Handle.ff q.id v], own K.sid h = true := by
      intro h hh; simp at hh; subst hh; simp [own, hq]
    dsimp only
    split
    · exact ownDelta_sleepD K now q i _ hq hff
    · split
      · split
        · refine od_none K _ _ ?_ (hs _)
          intro h hh; simp at hh; rcases hh with e | e <;> subst e <;> simp [own, hq]
        · exact od_none K _ _ hff (by intro q' e; cases e)
      · exact ownDelta_sleepD K now { q with counter := q.counter + 1 } i _ hq hff

theorem ownDelta_loop (fix : Fix) (cur : Option Seq) (now : Nat) (hc : ∀ q, cur = some q → q.id = K.sid) :
    OwnDelta K (loopDelta fix cur now K.sid) := by
  have idd : OwnDelta K ⟨cur, [], none⟩ := od_none K _ _ (own_nil K) hc
  unfold loopDelta
  cases cur with
  | none => exact idd
  | some q =>
    have hq := hc q rfl
    have hs : ∀ (tk : Task) (q' : Seq), some ({ q with task := tk } : Seq) = some q' → q'.id = K.sid := by
      intro tk q' e; cases e; exact hq
    dsimp only
    split
    · exact idd
    · split
      · split
        · exact od_none K _ _ (own_nil K) (hs _)
        · exact od_none K _ _ (own_nil K) (hs _)
      · exact ownDelta_bodyD K fix now q 0 hq
      · split
        · exact ownDelta_bodyD K fix now q _ hq
        · refine od_none K _ _ ?_ (hs _)
          intro h hh; simp at hh; subst hh; simp [own, hq]
      · exact od_none K _ _ (own_nil K) (by intro q' e; cases e)
      · exact idd

theorem exec_own_loop (fix : Fix) (s : St) (wl : Well K s)
    (hT : ∀ q, s.port.seq = some q → s.timers.filter (ownT K.sid) = []) :
    proj K (exec fix s (.loopStep K.sid)) = exec fix (proj K s) (.loopStep K.sid) ∧
    Well K (exec fix s (.loopStep K.sid)) ∧ mu K (exec fix s (.loopStep K.sid)) = mu K s := by
  have od := ownDelta_loop K fix s.port.seq s.now wl.cur
  have e1 : exec fix s (.loopStep K.sid) = applyD (loopDelta fix s.port.seq s.now K.sid) s :=
    loopStep_eq fix s K.sid wl.wait
  have e2 : exec fix (proj K s) (.loopStep K.sid) = applyD (loopDelta fix s.port.seq s.now K.sid) (proj K s) :=
    loopStep_eq fix (proj K s) K.sid rfl
  rw [e1, e2]
  refine ⟨proj_applyD K _ s od ?_, Well_applyD K _ s od wl, mu_applyD K _ s od⟩
  intro hne
  cases hq : s.port.seq with
  | none => rw [hq] at hne; simp [loopDelta] at hne
  | some q => exact hT q hq

theorem exec_own_ff (fix : Fix) (s : St) (wl : Well K s) (v : Val) :
    proj K (exec fix s (.ff K.sid v)) = exec fix (proj K s) (.ff K.sid v) ∧
    Well K (exec fix s (.ff K.sid v)) ∧ mu K (exec fix s (.ff K.sid v)) = mu K s := by
  have hc := wl.cap
  refine ⟨?_, ?_, ?_⟩
  · simp [exec, St.emit, proj, Ctx.mkSt, hc, List.filter_append, ownEv]
  · simp only [exec, St.emit, hc]
    have : ¬ (s.subs + 1 = 0) := by omega
    simp only [this, if_false]
    exact ⟨wl.rdy, wl.tms, wl.sorted, wl.wait, rfl, wl.run, wl.cur⟩
  · simp only [exec, St.emit, hc]
    have : ¬ (s.subs + 1 = 0) := by omega
    simp only [this, if_false]
    rfl

/-- a step that leaves the queues, the sequence and the window alone and logs nothing of ours -/
theorem quiet_step (s s' : St) (wl : Well K s) (h1 : s'.now = s.now) (h2 : s'.ready = s.ready)
    (h3 : s'.timers = s.timers) (h4 : s'.port.seq = s.port.seq) (h5 : s'.waiting = s.waiting) (h6 : s'.cap = s.cap)
    (h7 : s'.stopped = s.stopped) (h8 : s'.log.filter (ownEv K.sid) = s.log.filter (ownEv K.sid)) :
    proj K s' = proj K s ∧ Well K s' ∧ mu K s' = mu K s := by
  refine ⟨?_, ?_, ?_⟩
  · unfold proj; rw [h1, h2, h3, h4, h8]
  · exact ⟨by rw [h2]; exact wl.rdy, by rw [h3]; exact wl.tms, by rw [h3]; exact wl.sorted, by rw [h5]; exact wl.wait,
      by rw [h6]; exact wl.cap, by rw [h7]; exact wl.run, by rw [h4]; exact wl.cur⟩
  · unfold mu; rw [h2, h3]

theorem validate_mismatch (m : Nat) (p : Port) (vs : List Val) (ds : List Int) (h : vs.length ≠ ds.length) :
    ∃ e, validate m p vs ds = some e := by
  unfold validate
  split
  · exact ⟨_, rfl⟩
  · split
    · exact ⟨_, rfl⟩
    · simp [h]

theorem pred_ite {P : St → Prop} (c : Prop) [Decidable c] (a b : St) (ha : P a) (hb : P b) :
    P (if c then a else b) := by split <;> assumption

theorem no_resume_of_well (s : St) (wl : Well K s) : s.ready.any isResume = false := by
  rw [List.any_eq_false]
  intro h hh
  rcases wl.rdy h hh with e | e <;> cases h <;> simp [own, bys, isResume] at e ⊢

theorem hookDone_quiet (s : St) (wl : Well K s) (opId : Nat) (on : Bool) :
    proj K (hookDone s opId on) = proj K s ∧ Well K (hookDone s opId on) ∧ mu K (hookDone s opId on) = mu K s := by
  unfold hookDone
  apply pred_ite (P := fun s' => proj K s' = proj K s ∧ Well K s' ∧ mu K s' = mu K s)
  · exact quiet_step K s _ wl rfl rfl rfl rfl rfl rfl rfl (by simp [St.emit, List.filter_append, ownEv])
  · exact quiet_step K s _ wl rfl rfl rfl rfl rfl rfl rfl (by simp [St.emit, List.filter_append, ownEv])

theorem exec_bys (fix : Fix) (s : St) (wl : Well K s) (h : Handle) (hb : bys K.sid h = true) :
    proj K (exec fix s h) = proj K s ∧ Well K (exec fix s h) ∧ mu K (exec fix s h) + 1 ≤ mu K s + w h := by
  have quiet : ∀ s', (proj K s' = proj K s ∧ Well K s' ∧ mu K s' = mu K s) → w h ≥ 1 →
      (proj K s' = proj K s ∧ Well K s' ∧ mu K s' + 1 ≤ mu K s + w h) := by
    intro s' ⟨a, b, c⟩ hw; exact ⟨a, b, by omega⟩
  cases h with
  | loopStep i =>
    have hi : i ≠ K.sid := by simpa [bys] using hb
    have : exec fix s (.loopStep i) = s := by
      simp only [exec]
      unfold loopStep
      cases hq : s.port.seq with
      | none => rfl
      | some q =>
        have := wl.cur q hq
        have hne : q.id ≠ i := by rw [this]; exact fun e => hi e.symm
        simp [hne]
    rw [this]
    exact ⟨rfl, wl, by simp [w]⟩
  | ff i v =>
    have hi : i ≠ K.sid := by simpa [bys] using hb
    apply quiet _ _ (by simp [w])
    have hne : ¬ (s.subs + 1 = s.cap) := by rw [wl.cap]; omega
    simp only [exec, St.emit, hne, if_false]
    exact quiet_step K s _ wl rfl rfl rfl rfl rfl rfl rfl (by simp [List.filter_append, ownEv, hi])
  | hop k opId op =>
    have hop : harmlessOp op = true := by simpa [bys] using hb
    cases k with
    | succ k =>
      simp only [exec]
      refine ⟨?_, ?_, ?_⟩
      · simp [proj, St.push, List.filter_append, own]
      · refine ⟨?_, wl.tms, wl.sorted, wl.wait, wl.cap, wl.run, wl.cur⟩
        intro h hh
        have hh' : h ∈ s.ready ++ [Handle.hop k opId op] := hh
        rcases List.mem_append.mp hh' with e | e
        · exact wl.rdy h e
        · simp at e; subst e; exact Or.inr (by simpa [bys] using hop)
      · simp [mu, St.push, List.filter_append, own, w]; omega
    | zero =>
      have hnc : s.cancelling = false := by
        simp [St.cancelling, wl.wait, no_resume_of_well K s wl]
      simp only [exec]
      unfold startOp
      rw [hnc]
      simp only [Bool.false_eq_true, if_false]
      cases op with
      | malformed =>
        apply quiet _ _ (by simp [w])
        exact quiet_step K s _ wl rfl rfl rfl rfl rfl rfl rfl (by simp [St.emit, List.filter_append, ownEv])
      | patchSeq vs ds r =>
        have hm : vs.length ≠ ds.length := by simpa [harmlessOp] using hop
        obtain ⟨e, he⟩ := validate_mismatch s.maxItems s.port vs ds hm
        simp only [he]
        apply quiet _ _ (by simp [w])
        exact quiet_step K s _ wl rfl rfl rfl rfl rfl rfl rfl (by simp [St.emit, List.filter_append, ownEv])
      | setExpr b => simp [harmlessOp] at hop
      | setEnabled on =>
        cases on with
        | false => simp [harmlessOp] at hop
        | true =>
          simp only
          split
          · apply quiet _ _ (by simp [w])
            exact quiet_step K s _ wl rfl rfl rfl rfl rfl rfl rfl (by simp [St.emit, List.filter_append, ownEv])
          · have wl1 : Well K { s with port := { s.port with enabled := true } } :=
              ⟨wl.rdy, wl.tms, wl.sorted, wl.wait, wl.cap, wl.run, wl.cur⟩
            have q1 : proj K { s with port := { s.port with enabled := true } } = proj K s := rfl
            have m1 : mu K { s with port := { s.port with enabled := true } } = mu K s := rfl
            unfold setEnabledThenHook
            simp only [if_true]
            split
            · obtain ⟨a, b, c⟩ := hookDone_quiet K _ wl1 opId true
              exact ⟨a.trans q1, b, (by intro x y e; simp [w]; omega : ∀ x y : Nat, x = y → x + 1 ≤ y + w (.hop 0 opId (.setEnabled true))) _ _ (c.trans m1)⟩
            · have hno : ownT K.sid ⟨s.now + s.enLat, 0, .hookEnd opId true⟩ = false := by simp [ownT, own]
              refine ⟨?_, ?_, ?_⟩
              · simp [proj, St.addTimer, filter_insertTimer_neg _ _ _ hno]
              · refine ⟨wl.rdy, ?_, timeSorted_insert _ _ wl.sorted, wl.wait, wl.cap, wl.run, wl.cur⟩
                intro x hx
                rcases (mem_insertTimer_iff _ _ _).mp hx with e | e
                · subst e; exact Or.inr (by simp [bys])
                · exact wl.tms x e
              · have := sum_filter_insertTimer (fun t => !ownT K.sid t) (fun t => w t.h + 1)
                  ⟨s.now + s.enLat, 0, .hookEnd opId true⟩ s.timers
                simp only [hno, Bool.not_false, if_true] at this
                simp only [mu, St.addTimer, w] at this ⊢
                omega
  | resume opId op exc => simp [bys] at hb
  | hookEnd opId on =>
    apply quiet _ _ (by simp [w])
    exact hookDone_quiet K s wl opId on
  | stop => simp [bys] at hb

theorem ready_own_loop (fix : Fix) (s : St) (wl : Well K s) :
    ∃ ps, (exec fix s (.loopStep K.sid)).ready = s.ready ++ ps := by
  have e1 : exec fix s (.loopStep K.sid) = applyD (loopDelta fix s.port.seq s.now K.sid) s :=
    loopStep_eq fix s K.sid wl.wait
  rw [e1, applyD_ready]; exact ⟨_, rfl⟩

theorem ready_own_ff (fix : Fix) (s : St) (v : Val) : ∃ ps, (exec fix s (.ff K.sid v)).ready = s.ready ++ ps := by
  refine ⟨[], ?_⟩
  simp only [exec, St.emit]
  apply pred_ite (P := fun s' => s'.ready = s.ready ++ []) <;> simp

theorem hookDone_ready (s : St) (opId : Nat) (on : Bool) : (hookDone s opId on).ready = s.ready := by
  unfold hookDone
  apply pred_ite (P := fun s' => s'.ready = s.ready) <;> rfl

theorem ready_bys (fix : Fix) (s : St) (wl : Well K s) (h : Handle) (hb : bys K.sid h = true) :
    ∃ ps, (exec fix s h).ready = s.ready ++ ps := by
  cases h with
  | loopStep i =>
    have hi : i ≠ K.sid := by simpa [bys] using hb
    refine ⟨[], ?_⟩
    simp only [exec]
    unfold loopStep
    cases hq : s.port.seq with
    | none => simp
    | some q =>
      have := wl.cur q hq
      have hne : q.id ≠ i := by rw [this]; exact fun e => hi e.symm
      simp [hne]
  | ff i v =>
    refine ⟨[], ?_⟩
    simp only [exec, St.emit]
    apply pred_ite (P := fun s' => s'.ready = s.ready ++ []) <;> simp
  | hop k opId op =>
    have hop : harmlessOp op = true := by simpa [bys] using hb
    cases k with
    | succ k => exact ⟨[.hop k opId op], rfl⟩
    | zero =>
      have hnc : s.cancelling = false := by
        simp [St.cancelling, wl.wait, no_resume_of_well K s wl]
      refine ⟨[], ?_⟩
      simp only [exec]
      unfold startOp
      rw [hnc]
      simp only [Bool.false_eq_true, if_false]
      cases op with
      | malformed => simp [St.emit]
      | patchSeq vs ds r =>
        have hm : vs.length ≠ ds.length := by simpa [harmlessOp] using hop
        obtain ⟨e, he⟩ := validate_mismatch s.maxItems s.port vs ds hm
        simp [he, St.emit]
      | setExpr b => simp [harmlessOp] at hop
      | setEnabled on =>
        cases on with
        | false => simp [harmlessOp] at hop
        | true =>
          simp only
          split
          · simp [St.emit]
          · unfold setEnabledThenHook
            simp only [if_true]
            split
            · rw [hookDone_ready]; simp
            · simp [St.addTimer]
  | resume opId op exc => simp [bys] at hb
  | hookEnd opId on =>
    refine ⟨[], ?_⟩
    simp only [exec]
    rw [hookDone_ready]; simp
  | stop => simp [bys] at hb

theorem Well_pop {s : St} (wl : Well K s) {h : Handle} {rest : List Handle} (hr : s.ready = h :: rest) :
    Well K { s with ready := rest } :=
  ⟨fun x hx => wl.rdy x (by rw [hr]; exact List.mem_cons_of_mem _ hx), wl.tms, wl.sorted, wl.wait, wl.cap, wl.run, wl.cur⟩

theorem own_cases {sid : Nat} {h : Handle} (ho : own sid h = true) : h = .loopStep sid ∨ ∃ v, h = .ff sid v := by
  cases h <;> simp [own] at ho
  · exact Or.inl (by rw [ho])
  · exact Or.inr ⟨_, by rw [ho]⟩

/-- the own timers are gone when the loop task is about to step (one pending activation per task) -/
theorem own_timers_nil {s : St} (g : Fl.G s) (wl : Well K s) (rest : List Handle)
    (hr : s.ready = .loopStep K.sid :: rest) (q : Seq) (hq : s.port.seq = some q) :
    s.timers.filter (ownT K.sid) = [] := by
  have hid := wl.cur q hq
  have h3 := g.g3 q hq
  unfold Fl.acts at h3
  rw [hid, hr, List.count_cons] at h3
  simp at h3
  rw [List.filter_eq_nil_iff]
  intro t ht ho
  rcases own_cases ho with e | ⟨v, e⟩
  · have : isTimerOf K.sid t = true := by simp [isTimerOf, e]
    have := List.countP_pos_iff.mpr ⟨t, ht, this⟩
    omega
  · have := g.g5 t ht
    simp [Fl.timerOk, Fl.isFf, e] at this

theorem bys_not_own {sid : Nat} {h : Handle} (hb : bys sid h = true) : own sid h = false := by
  cases h <;> simp [bys, own] at hb ⊢ <;> exact hb

theorem proj_stopped (s : St) : (proj K s).stopped = false := rfl

theorem run_lockstep (fix : Fix) (hfl : fix.flushLast = true) (n : Nat) : ∀ s, Fl.G s → Well K s → n ≤ s.ready.length →
    proj K (runHandles fix n s) = runHandles fix ((s.ready.take n).filter (own K.sid)).length (proj K s) ∧
    Fl.G (runHandles fix n s) ∧ Well K (runHandles fix n s) ∧
    mu K (runHandles fix n s) + ((s.ready.take n).filter (fun h => !own K.sid h)).length ≤ mu K s := by
  induction n with
  | zero => intro s g wl _; exact ⟨rfl, g, wl, by simp [runHandles]⟩
  | succ n ih =>
    intro s g wl hn
    cases hr : s.ready with
    | nil => rw [hr] at hn; simp at hn
    | cons h rest =>
      have hlen : n ≤ rest.length := by rw [hr] at hn; simpa using hn
      have e0 : runHandles fix (n + 1) s = runHandles fix n (exec fix { s with ready := rest } h) := by
        simp [runHandles, wl.run, hr]
      have wl1 := Well_pop K wl hr
      have g2 := Fl.G_exec fix hfl g h rest hr
      rw [e0]
      have tk : ∀ ps, ((rest ++ ps).take n) = rest.take n := fun ps => List.take_append_of_le_length hlen
      rcases wl.rdy h (by rw [hr]; exact List.mem_cons_self) with ho | hb
      · -- the sequence's own handle: both sides make the same step
        have hex : proj K (exec fix { s with ready := rest } h) = exec fix (proj K { s with ready := rest }) h ∧
            Well K (exec fix { s with ready := rest } h) ∧
            mu K (exec fix { s with ready := rest } h) = mu K { s with ready := rest } ∧
            ∃ ps, (exec fix { s with ready := rest } h).ready = rest ++ ps := by
          rcases own_cases ho with e | ⟨v, e⟩
          · subst e
            obtain ⟨a, b, c⟩ := exec_own_loop K fix { s with ready := rest } wl1
              (fun q hq => own_timers_nil K (s := s) g wl rest hr q hq)
            exact ⟨a, b, c, ready_own_loop K fix _ wl1⟩
          · subst e
            obtain ⟨a, b, c⟩ := exec_own_ff K fix { s with ready := rest } wl1 v
            exact ⟨a, b, c, ready_own_ff K fix _ v⟩
        obtain ⟨a, b, c, ps, hps⟩ := hex
        obtain ⟨i1, i2, i3, i4⟩ := ih _ g2 b (by rw [hps, List.length_append]; omega)
        rw [hps, tk] at i1 i4
        refine ⟨?_, i2, i3, ?_⟩
        · rw [i1, a]
          have : (List.take (n + 1) (h :: rest)).filter (own K.sid) = h :: (rest.take n).filter (own K.sid) := by
            simp [List.take_succ_cons, List.filter_cons, ho]
          rw [this, List.length_cons]
          have hp : (proj K s).ready = h :: (proj K { s with ready := rest }).ready := by
            simp [proj, Ctx.mkSt, hr, List.filter_cons, ho]
          have : runHandles fix (((rest.take n).filter (own K.sid)).length + 1) (proj K s) =
              runHandles fix ((rest.take n).filter (own K.sid)).length
                (exec fix { proj K s with ready := (proj K { s with ready := rest }).ready } h) := by
            simp [runHandles, proj_stopped, hp]
          rw [this]
          rfl
        · have : (List.take (n + 1) (h :: rest)).filter (fun h => !own K.sid h) =
              (rest.take n).filter (fun h => !own K.sid h) := by
            simp [List.take_succ_cons, List.filter_cons, ho]
          rw [this]
          have hm : mu K s = mu K { s with ready := rest } := by
            simp [mu, hr, List.filter_cons, ho]
          omega
      · -- a bystander: the projection does not move
        have hno := bys_not_own hb
        obtain ⟨a, b, c⟩ := exec_bys K fix { s with ready := rest } wl1 h hb
        obtain ⟨ps, hps⟩ := ready_bys K fix { s with ready := rest } wl1 h hb
        obtain ⟨i1, i2, i3, i4⟩ := ih _ g2 b (by rw [hps]; simp [List.length_append]; omega)
        rw [hps] at i1 i4
        simp only at i1 i4
        rw [tk] at i1 i4
        refine ⟨?_, i2, i3, ?_⟩
        · rw [i1, a]
          have : (List.take (n + 1) (h :: rest)).filter (own K.sid) = (rest.take n).filter (own K.sid) := by
            simp [List.take_succ_cons, List.filter_cons, hno]
          rw [this]
          have : proj K { s with ready := rest } = proj K s := by
            simp [proj, Ctx.mkSt, hr, List.filter_cons, hno]
          rw [this]
        · have : (List.take (n + 1) (h :: rest)).filter (fun h => !own K.sid h) =
              h :: (rest.take n).filter (fun h => !own K.sid h) := by
            simp [List.take_succ_cons, List.filter_cons, hno]
          rw [this, List.length_cons]
          have hm : mu K s = w h + mu K { s with ready := rest } := by
            simp [mu, hr, List.filter_cons, hno]; omega
          omega

theorem takeWhile_due (now : Nat) (l : List Timer) (h : timeSorted l) :
    l.takeWhile (fun t => decide (t.time ≤ now)) = l.filter (fun t => decide (t.time ≤ now)) ∧
    l.dropWhile (fun t => decide (t.time ≤ now)) = l.filter (fun t => !decide (t.time ≤ now)) := by
  induction l with
  | nil => simp
  | cons a l ih =>
    unfold timeSorted at h ih
    rw [List.pairwise_cons] at h
    by_cases ha : a.time ≤ now
    · simp [List.takeWhile_cons, List.dropWhile_cons, List.filter_cons, ha, ih h.2]
    · have hall : ∀ x ∈ l, ¬ x.time ≤ now := fun x hx => by have := h.1 x hx; omega
      have f1 : l.filter (fun t => decide (t.time ≤ now)) = [] := by
        rw [List.filter_eq_nil_iff]; intro x hx; simpa using hall x hx
      have f2 : l.filter (fun t => !decide (t.time ≤ now)) = l := by
        rw [List.filter_eq_self]; intro x hx; simpa using hall x hx
      simp [List.takeWhile_cons, List.dropWhile_cons, List.filter_cons, ha, f1, f2]

theorem timeSorted_filter (p : Timer → Bool) (l : List Timer) (h : timeSorted l) : timeSorted (l.filter p) :=
  List.Pairwise.sublist List.filter_sublist h

theorem sum_split (q : Timer → Bool) (f : Timer → Nat) (l : List Timer) :
    (l.map f).sum = ((l.filter q).map f).sum + ((l.filter (fun t => !q t)).map f).sum := by
  induction l with
  | nil => rfl
  | cons a l ih => by_cases h : q a = true <;> simp [List.filter_cons, h, ih] <;> omega

theorem sum_succ (f : Timer → Nat) (l : List Timer) : (l.map (fun t => f t + 1)).sum = (l.map f).sum + l.length := by
  induction l with
  | nil => rfl
  | cons a l ih => simp [ih]; omega

theorem filter_comm' {α : Type} (p q : α → Bool) (l : List α) : (l.filter p).filter q = (l.filter q).filter p := by
  simp [List.filter_filter, Bool.and_comm]

theorem moveDue_lockstep (s : St) (g : Fl.G s) (wl : Well K s) :
    proj K (moveDue s) = moveDue (proj K s) ∧ Fl.G (moveDue s) ∧ Well K (moveDue s) ∧
    mu K (moveDue s) +
      ((s.timers.filter (fun t => decide (t.time ≤ s.now))).filter (fun t => !ownT K.sid t)).length = mu K s := by
  obtain ⟨t1, d1⟩ := takeWhile_due s.now s.timers wl.sorted
  obtain ⟨t2, d2⟩ := takeWhile_due s.now (s.timers.filter (ownT K.sid)) (timeSorted_filter _ _ wl.sorted)
  have hsub : ∀ t, t ∈ s.timers.filter (fun t => decide (t.time ≤ s.now)) → t ∈ s.timers :=
    fun t ht => (List.mem_filter.mp ht).1
  refine ⟨?_, Fl.G_moveDue g, ?_, ?_⟩
  · have e1 : proj K (moveDue s) = K.mkSt s.now
        ((s.ready ++ (s.timers.filter (fun t => decide (t.time ≤ s.now))).map (·.h)).filter (own K.sid))
        ((s.timers.filter (fun t => !decide (t.time ≤ s.now))).filter (ownT K.sid)) s.port.seq
        (s.log.filter (ownEv K.sid)) := by
      unfold moveDue
      rw [t1, d1]; rfl
    have e2 : moveDue (proj K s) = K.mkSt s.now
        (s.ready.filter (own K.sid) ++
          ((s.timers.filter (ownT K.sid)).filter (fun t => decide (t.time ≤ s.now))).map (·.h))
        ((s.timers.filter (ownT K.sid)).filter (fun t => !decide (t.time ≤ s.now))) s.port.seq
        (s.log.filter (ownEv K.sid)) := by
      have h2 := takeWhile_due (proj K s).now (proj K s).timers (timeSorted_filter _ _ wl.sorted)
      unfold moveDue
      rw [h2.1, h2.2]; rfl
    rw [e1, e2]
    have c1 : ((s.timers.filter (fun t => decide (t.time ≤ s.now))).map (·.h)).filter (own K.sid) =
        ((s.timers.filter (ownT K.sid)).filter (fun t => decide (t.time ≤ s.now))).map (·.h) := by
      rw [List.filter_map, filter_comm']; rfl
    rw [List.filter_append, c1, filter_comm' (fun t => !decide (t.time ≤ s.now)) (ownT K.sid)]
  · unfold moveDue
    rw [t1, d1]
    refine ⟨?_, ?_, timeSorted_filter _ _ wl.sorted, wl.wait, wl.cap, wl.run, wl.cur⟩
    · intro h hh
      rcases List.mem_append.mp hh with e | e
      · exact wl.rdy h e
      · obtain ⟨t, ht, rfl⟩ := List.mem_map.mp e
        exact wl.tms t (hsub t ht)
    · intro t ht; exact wl.tms t (List.mem_filter.mp ht).1
  · have hm' : mu K (moveDue s) =
        (((s.ready ++ (s.timers.filter (fun t => decide (t.time ≤ s.now))).map (·.h)).filter
          (fun h => !own K.sid h)).map w).sum +
        (((s.timers.filter (fun t => !decide (t.time ≤ s.now))).filter (fun t => !ownT K.sid t)).map
          (fun t => w t.h + 1)).sum := by
      unfold moveDue mu; rw [t1, d1]
    rw [hm']
    unfold mu
    have cA : (s.timers.filter (fun t => decide (t.time ≤ s.now))).filter (fun t => !ownT K.sid t) =
        (s.timers.filter (fun t => !ownT K.sid t)).filter (fun t => decide (t.time ≤ s.now)) := filter_comm' _ _ _
    have cB : (s.timers.filter (fun t => !decide (t.time ≤ s.now))).filter (fun t => !ownT K.sid t) =
        (s.timers.filter (fun t => !ownT K.sid t)).filter (fun t => !decide (t.time ≤ s.now)) := filter_comm' _ _ _
    have cM : ((s.timers.filter (fun t => decide (t.time ≤ s.now))).map (·.h)).filter (fun h => !own K.sid h) =
        ((s.timers.filter (fun t => decide (t.time ≤ s.now))).filter (fun t => !ownT K.sid t)).map (·.h) := by
      rw [List.filter_map]; rfl
    have h1 := sum_split (fun t => decide (t.time ≤ s.now)) (fun t => w t.h + 1)
      (s.timers.filter (fun t => !ownT K.sid t))
    have h2 := sum_succ (fun t => w t.h)
      ((s.timers.filter (fun t => !ownT K.sid t)).filter (fun t => decide (t.time ≤ s.now)))
    rw [List.filter_append, List.map_append, List.sum_append, cM, cA, cB, List.map_map]
    have e3 : (List.map (w ∘ fun x => x.h)
        ((s.timers.filter (fun t => !ownT K.sid t)).filter (fun t => decide (t.time ≤ s.now)))).sum =
        (List.map (fun t => w t.h)
        ((s.timers.filter (fun t => !ownT K.sid t)).filter (fun t => decide (t.time ≤ s.now)))).sum := rfl
    omega

theorem Well_now (s : St) (t : Nat) (wl : Well K s) : Well K { s with now := t } :=
  ⟨wl.rdy, wl.tms, wl.sorted, wl.wait, wl.cap, wl.run, wl.cur⟩

theorem jump_cases (s : St) : jump s = s ∨ ∃ t, jump s = { s with now := t } := by
  unfold jump
  split
  · split
    · exact Or.inr ⟨_, rfl⟩
    · exact Or.inl rfl
  · exact Or.inl rfl

theorem jump_facts (s : St) (g : Fl.G s) (wl : Well K s) :
    Fl.G (jump s) ∧ Well K (jump s) ∧ mu K (jump s) = mu K s ∧
    proj K (jump s) = { proj K s with now := (jump s).now } ∧ (jump s).ready = s.ready ∧
    (jump s).timers = s.timers := by
  refine ⟨Fl.G_jump g, ?_⟩
  rcases jump_cases s with e | ⟨t, e⟩
  · rw [e]; exact ⟨wl, rfl, rfl, rfl, rfl⟩
  · rw [e]; exact ⟨Well_now K s t wl, rfl, rfl, rfl, rfl⟩

/-- one `_run_once` of the hub, seen through the projection -/
theorem iter_general (fix : Fix) (hfl : fix.flushLast = true) (s : St) (g : Fl.G s) (wl : Well K s) :
    proj K (iter fix s) =
      runHandles fix (proj K (moveDue (jump s))).ready.length (proj K (moveDue (jump s))) ∧
    Fl.G (iter fix s) ∧ Well K (iter fix s) ∧
    mu K (iter fix s) + ((moveDue (jump s)).ready.filter (fun h => !own K.sid h)).length +
      (((jump s).timers.filter (fun t => decide (t.time ≤ (jump s).now))).filter (fun t => !ownT K.sid t)).length
      ≤ mu K s := by
  obtain ⟨gj, wj, mj, _, _, _⟩ := jump_facts K s g wl
  obtain ⟨pm, gm, wm, mm⟩ := moveDue_lockstep K (jump s) gj wj
  obtain ⟨r1, r2, r3, r4⟩ := run_lockstep K fix hfl (moveDue (jump s)).ready.length (moveDue (jump s)) gm wm
    (Nat.le_refl _)
  have e : iter fix s = runHandles fix (moveDue (jump s)).ready.length (moveDue (jump s)) := by
    simp [iter, wl.run]
  rw [e]
  rw [List.take_length] at r1 r4
  refine ⟨?_, r2, r3, by omega⟩
  rw [r1]
  rfl

theorem jump_ready_ne (s : St) (h : s.ready ≠ []) : jump s = s := by
  unfold jump
  cases hr : s.ready with
  | nil => exact absurd hr h
  | cons a l => rfl

/-- the hub state `s` is the compact playback state `x` of the sequence plus bystanders -/
def Rel (s : St) (x : C) : Prop := Fl.G s ∧ Well K s ∧ proj K s = K.emb x

theorem iter_not_stopped (fix : Fix) (y : St) (h : y.stopped = false) :
    iter fix y = runHandles fix (moveDue (jump y)).ready.length (moveDue (jump y)) := by
  simp [iter, h]

theorem ready_ne_of_proj (s : St) (h : (proj K s).ready ≠ []) : s.ready ≠ [] := by
  intro e
  apply h
  simp [proj, Ctx.mkSt, e]

/-- the sequence has something in the ready queue: the hub's iteration is the sequence's iteration -/
theorem step_busy (wf : K.WF) (s : St) (x : C) (r : Rel K s x) (hx : K.ok x) (hne : (K.emb x).ready ≠ []) :
    Rel K (iter Fix.repaired s) (K.nxt x) ∧ mu K (iter Fix.repaired s) ≤ mu K s := by
  obtain ⟨g, wl, pe⟩ := r
  obtain ⟨i1, i2, i3, i4⟩ := iter_general K Fix.repaired rfl s g wl
  have hj : jump s = s := jump_ready_ne s (ready_ne_of_proj K s (by rw [pe]; exact hne))
  have hj2 : jump (K.emb x) = K.emb x := jump_ready_ne _ hne
  rw [hj] at i1 i4
  obtain ⟨pm, _, _, _⟩ := moveDue_lockstep K s g wl
  refine ⟨⟨i2, i3, ?_⟩, by omega⟩
  rw [i1, pm, pe, ← iter_emb K wf x hx, iter_not_stopped _ _ (by cases x <;> rfl), hj2]

theorem mem_of_filter_eq_singleton {α : Type} (p : α → Bool) (l : List α) (a : α) (h : l.filter p = [a]) :
    a ∈ l ∧ p a = true := by
  have : a ∈ l.filter p := by rw [h]; exact List.mem_singleton.mpr rfl
  exact List.mem_filter.mp this

theorem head_le_of_sorted (a : Timer) (l : List Timer) (x : Timer) (h : timeSorted (a :: l)) (hx : x ∈ a :: l) :
    a.time ≤ x.time := by
  unfold timeSorted at h
  rw [List.pairwise_cons] at h
  rcases List.mem_cons.mp hx with e | e
  · subst e; exact Nat.le_refl _
  · exact h.1 x e

theorem step_W2 (wf : K.WF) (s : St) (c i t : Nat) (r : Rel K s (.W2 c i t)) (hx : K.ok (.W2 c i t)) :
    Rel K (iter Fix.repaired s) (K.wakeTo c i) ∨
    ∃ t', K.ok (.W2 c i t') ∧ Rel K (iter Fix.repaired s) (.W2 c i t') ∧ mu K (iter Fix.repaired s) < mu K s := by
  obtain ⟨g, wl, pe⟩ := r
  obtain ⟨hi, hd, hlt⟩ := hx
  obtain ⟨i1, i2, i3, i4⟩ := iter_general K Fix.repaired rfl s g wl
  obtain ⟨gj, wj, mj, pj, rj, tj⟩ := jump_facts K s g wl
  obtain ⟨pm, _, _, _⟩ := moveDue_lockstep K (jump s) gj wj
  have hnow : s.now = t := congrArg St.now pe
  have hrd : s.ready.filter (own K.sid) = [] := congrArg St.ready pe
  have htm : s.timers.filter (ownT K.sid) = [⟨K.tm c i + eff (K.dl i), 0, .loopStep K.sid⟩] := congrArg St.timers pe
  obtain ⟨hmem, _⟩ := mem_of_filter_eq_singleton _ _ _ htm
  have pj' : proj K (jump s) = K.emb (.W2 c i (jump s).now) := by rw [pj, pe]; rfl
  by_cases hcase : (jump s).now < K.tm c i + eff (K.dl i)
  · -- the clock has not reached the sequence's timer: only bystanders run
    right
    refine ⟨(jump s).now, ⟨hi, hd, hcase⟩, ?_, ?_⟩
    · refine ⟨i2, i3, ?_⟩
      have hm : moveDue (K.emb (.W2 c i (jump s).now)) = K.emb (.W2 c i (jump s).now) := by
        have : ¬ (K.tm c i + eff (K.dl i) ≤ (jump s).now) := by omega
        simp [moveDue, Ctx.emb, Ctx.mkSt, List.takeWhile, List.dropWhile, this]
      rw [i1, pm, pj', hm]
      rfl
    · -- some bystander is moved or run
      by_cases hr : s.ready = []
      · -- nothing ready: the clock jumped to (or is behind) the first timer, which is a bystander's
        cases hts : s.timers with
        | nil => rw [hts] at hmem; cases hmem
        | cons a l =>
          have ha : a.time ≤ (jump s).now := by
            have : (jump s).now = if s.now < a.time then a.time else s.now := by
              unfold jump; rw [hr, hts]; simp only; split <;> rfl
            rw [this]; split <;> omega
          have hao : ownT K.sid a = false := by
            cases ho : ownT K.sid a with
            | false => rfl
            | true =>
              have : a ∈ s.timers.filter (ownT K.sid) := List.mem_filter.mpr ⟨by rw [hts]; exact List.mem_cons_self, ho⟩
              rw [htm] at this
              have := List.mem_singleton.mp this
              rw [this] at ha
              simp at ha; omega
          have hin : a ∈ ((jump s).timers.filter (fun t => decide (t.time ≤ (jump s).now))).filter
              (fun t => !ownT K.sid t) := by
            rw [tj, hts]
            exact List.mem_filter.mpr ⟨List.mem_filter.mpr ⟨List.mem_cons_self, by simpa using ha⟩, by simp [hao]⟩
          have := List.length_pos_of_mem hin
          omega
      · have hj : jump s = s := jump_ready_ne s hr
        have hall : s.ready.filter (fun h => !own K.sid h) = s.ready := by
          rw [List.filter_eq_self]
          intro h hh
          have : own K.sid h = false := by
            cases ho : own K.sid h with
            | false => rfl
            | true =>
              have : h ∈ s.ready.filter (own K.sid) := List.mem_filter.mpr ⟨hh, ho⟩
              rw [hrd] at this; cases this
          simp [this]
        have hlen : 0 < s.ready.length := List.length_pos_iff.mpr hr
        have hsub : s.ready.length ≤ ((moveDue (jump s)).ready.filter (fun h => !own K.sid h)).length := by
          rw [hj]
          unfold moveDue
          simp only [List.filter_append, List.length_append, hall]
          omega
        omega
  · -- the clock is at the sequence's timer: same step as the sequence alone
    left
    have hr : s.ready = [] := by
      cases hr : s.ready with
      | nil => rfl
      | cons a l =>
        have hj : jump s = s := jump_ready_ne s (by rw [hr]; simp)
        rw [hj, hnow] at hcase
        exact absurd hlt hcase
    cases hts : s.timers with
    | nil => rw [hts] at hmem; cases hmem
    | cons a l =>
      have hle : a.time ≤ K.tm c i + eff (K.dl i) := by
        have := head_le_of_sorted a l _ (by rw [← hts]; exact wl.sorted) (by rw [← hts]; exact hmem)
        simpa using this
      have hjn : (jump s).now = K.tm c i + eff (K.dl i) := by
        have : (jump s).now = if s.now < a.time then a.time else s.now := by
          unfold jump; rw [hr, hts]; simp only; split <;> rfl
        rw [this] at hcase ⊢
        by_cases h : s.now < a.time
        · rw [if_pos h] at hcase ⊢; omega
        · rw [if_neg h] at hcase ⊢; omega
      have hjs : jump (K.emb (.W2 c i t)) = K.emb (.W2 c i (K.tm c i + eff (K.dl i))) := by
        simp [jump, Ctx.emb, Ctx.mkSt, hlt]
      refine ⟨i2, i3, ?_⟩
      have hxok : K.ok (.W2 c i t) := ⟨hi, hd, hlt⟩
      rw [i1, pm, pj', hjn, ← hjs]
      have := iter_emb K wf (.W2 c i t) hxok
      rw [iter_not_stopped _ _ rfl] at this
      exact this

theorem step_D (s : St) (c t : Nat) (r : Rel K s (.D c t)) :
    Rel K (iter Fix.repaired s) (.D c (jump s).now) := by
  obtain ⟨g, wl, pe⟩ := r
  obtain ⟨i1, i2, i3, _⟩ := iter_general K Fix.repaired rfl s g wl
  obtain ⟨gj, wj, _, pj, _, _⟩ := jump_facts K s g wl
  obtain ⟨pm, _, _, _⟩ := moveDue_lockstep K (jump s) gj wj
  have pj' : proj K (jump s) = K.emb (.D c (jump s).now) := by rw [pj, pe]; rfl
  refine ⟨i2, i3, ?_⟩
  have hm : moveDue (K.emb (.D c (jump s).now)) = K.emb (.D c (jump s).now) := by
    simp [moveDue, Ctx.emb, Ctx.mkSt]
  rw [i1, pm, pj', hm]
  rfl

/-- whatever is queued, the hub stays "playback state + bystanders" -/
theorem always (wf : K.WF) (s : St) (x : C) (r : Rel K s x) (hx : K.ok x) :
    ∃ x', K.ok x' ∧ Rel K (iter Fix.repaired s) x' := by
  cases x with
  | A c => exact ⟨_, ok_nxt K wf _ hx, (step_busy K wf s _ r hx (by simp [Ctx.emb, Ctx.mkSt])).1⟩
  | Z c i => exact ⟨_, ok_nxt K wf _ hx, (step_busy K wf s _ r hx (by simp [Ctx.emb, Ctx.mkSt])).1⟩
  | W1 c i => exact ⟨_, ok_nxt K wf _ hx, (step_busy K wf s _ r hx (by simp [Ctx.emb, Ctx.mkSt])).1⟩
  | F1 c => exact ⟨_, ok_nxt K wf _ hx, (step_busy K wf s _ r hx (by simp [Ctx.emb, Ctx.mkSt])).1⟩
  | W2 c i t =>
    rcases step_W2 K wf s c i t r hx with h | ⟨t', h1, h2, _⟩
    · exact ⟨_, ok_nxt K wf _ hx, h⟩
    · exact ⟨_, h1, h2⟩
  | D c t => exact ⟨.D c (jump s).now, trivial, step_D K s c t r⟩

theorem alwaysN (wf : K.WF) (k : Nat) : ∀ (s : St) (x : C), Rel K s x → K.ok x →
    ∃ x', K.ok x' ∧ Rel K (iterN Fix.repaired k s) x' := by
  induction k with
  | zero => intro s x r hx; exact ⟨x, hx, r⟩
  | succ k ih =>
    intro s x r hx
    obtain ⟨x1, h1, r1⟩ := always K wf s x r hx
    exact ih _ x1 r1 h1

/-- the sequence makes its next step after finitely many iterations, however many bystanders there are -/
theorem progress (wf : K.WF) (n : Nat) : ∀ (s : St) (x : C), Rel K s x → K.ok x → mu K s ≤ n →
    ∃ k, Rel K (iterN Fix.repaired k s) (K.nxt x) := by
  induction n with
  | zero =>
    intro s x r hx hm
    cases x with
    | A c => exact ⟨1, (step_busy K wf s _ r hx (by simp [Ctx.emb, Ctx.mkSt])).1⟩
    | Z c i => exact ⟨1, (step_busy K wf s _ r hx (by simp [Ctx.emb, Ctx.mkSt])).1⟩
    | W1 c i => exact ⟨1, (step_busy K wf s _ r hx (by simp [Ctx.emb, Ctx.mkSt])).1⟩
    | F1 c => exact ⟨1, (step_busy K wf s _ r hx (by simp [Ctx.emb, Ctx.mkSt])).1⟩
    | W2 c i t =>
      rcases step_W2 K wf s c i t r hx with h | ⟨t', _, _, h3⟩
      · exact ⟨1, h⟩
      · omega
    | D c t => exact ⟨0, r⟩
  | succ n ih =>
    intro s x r hx hm
    cases x with
    | A c => exact ⟨1, (step_busy K wf s _ r hx (by simp [Ctx.emb, Ctx.mkSt])).1⟩
    | Z c i => exact ⟨1, (step_busy K wf s _ r hx (by simp [Ctx.emb, Ctx.mkSt])).1⟩
    | W1 c i => exact ⟨1, (step_busy K wf s _ r hx (by simp [Ctx.emb, Ctx.mkSt])).1⟩
    | F1 c => exact ⟨1, (step_busy K wf s _ r hx (by simp [Ctx.emb, Ctx.mkSt])).1⟩
    | W2 c i t =>
      rcases step_W2 K wf s c i t r hx with h | ⟨t', h1, h2, h3⟩
      · exact ⟨1, h⟩
      · obtain ⟨k, hk⟩ := ih _ (.W2 c i t') h2 h1 (by omega)
        exact ⟨k + 1, hk⟩
    | D c t => exact ⟨0, r⟩

theorem iterN_add (fix : Fix) (a b : Nat) (s : St) : iterN fix (a + b) s = iterN fix b (iterN fix a s) := by
  induction a generalizing s with
  | zero => simp [iterN]
  | succ a ih => rw [Nat.succ_add]; simp only [iterN]; exact ih _

theorem progressN (wf : K.WF) (j : Nat) : ∀ (s : St) (x : C), Rel K s x → K.ok x →
    ∃ k, Rel K (iterN Fix.repaired k s) (K.nxtN j x) := by
  induction j with
  | zero => intro s x r _; exact ⟨0, r⟩
  | succ j ih =>
    intro s x r hx
    obtain ⟨k1, h1⟩ := progress K wf (mu K s) s x r hx (Nat.le_refl _)
    obtain ⟨k2, h2⟩ := ih _ _ h1 (ok_nxt K wf x hx)
    exact ⟨k1 + k2, by rw [iterN_add]; exact h2⟩

theorem subsOfSid_filter (sid : Nat) (log : List Event) : subsOfSid sid log = subsOf (log.filter (ownEv sid)) := by
  induction log with
  | nil => rfl
  | cons e l ih =>
    cases e with
    | sub t i v =>
      by_cases h : i = sid
      · simp [subsOfSid, subsOf, List.filter_cons, ownEv, h] at ih ⊢; exact ih
      · simp [subsOfSid, subsOf, List.filter_cons, ownEv, h] at ih ⊢; exact ih
    | ret t o r => simp [subsOfSid, subsOf, List.filter_cons, ownEv] at ih ⊢; exact ih

theorem rel_log (s : St) (x : C) (r : Rel K s x) : ∃ c i, subsOfSid K.sid s.log =
    schedule K.t0 K.vs K.ds c ++ (passAt K.t0 K.vs K.ds c).take i := by
  obtain ⟨c, i, h⟩ := log_emb K x
  refine ⟨c, i, ?_⟩
  have : s.log.filter (ownEv K.sid) = (K.emb x).log := congrArg St.log r.2.2
  rw [subsOfSid_filter, this, h, subsOf_logCI]

/-- A hub on which a sequence has just been installed, with only bystanders queued, is "playback state A 0 +
bystanders". `s0` is the hub before the installation: no sequence, nothing of the new identifier around. -/
theorem installed_rel (s0 : St) (vs : List Val) (ds : List Int) (r : Int) (hne : vs ≠ [])
    (g : Fl.G s0) (hseq : s0.port.seq = none)
    (hb : ∀ h ∈ s0.ready, bys s0.nextId h = true) (ht : ∀ t ∈ s0.timers, bys s0.nextId t.h = true)
    (hs : timeSorted s0.timers) (hw : s0.waiting = none) (hc : s0.cap = 0) (hst : s0.stopped = false)
    (hlog : s0.log.filter (ownEv s0.nextId) = []) :
    Rel ⟨s0.now, vs, ds, r, s0.nextId⟩ (install s0 vs ds r) (.A 0) := by
  have hemp : vs.isEmpty = false := by cases vs with | nil => exact absurd rfl hne | cons _ _ => rfl
  have hnr : s0.ready.any isResume = false := by
    rw [List.any_eq_false]; intro h hh; have := hb h hh; cases h <;> simp [bys, isResume] at this ⊢
  have hfo : s0.ready.filter (own s0.nextId) = [] := by
    rw [List.filter_eq_nil_iff]; intro h hh; simp [bys_not_own (hb h hh)]
  have hto : s0.timers.filter (ownT s0.nextId) = [] := by
    rw [List.filter_eq_nil_iff]; intro t htt; simp [ownT, bys_not_own (ht t htt)]
  refine ⟨Fl.G_install g vs ds r hseq hnr, ?_, ?_⟩
  · refine ⟨?_, ?_, ?_, ?_, ?_, ?_, ?_⟩
    · intro h hh
      have hh' : h ∈ s0.ready ++ [Handle.loopStep s0.nextId] := by
        simpa [install, hemp, St.push, St.setSeq] using hh
      rcases List.mem_append.mp hh' with e | e
      · exact Or.inr (hb h e)
      · simp at e; subst e; exact Or.inl (by simp [own])
    · intro t htt
      have : t ∈ s0.timers := by simpa [install, hemp, St.push, St.setSeq] using htt
      exact Or.inr (ht t this)
    · simpa [install, hemp, St.push, St.setSeq] using hs
    · simpa [install, hemp, St.push, St.setSeq] using hw
    · simpa [install, hemp, St.push, St.setSeq] using hc
    · simpa [install, hemp, St.push, St.setSeq] using hst
    · intro q hq
      have : some (⟨s0.nextId, vs, ds, r, 0, .pending .start false⟩ : Seq) = some q := by
        simpa [install, hemp, St.push, St.setSeq] using hq
      cases this; rfl
  · simp [proj, install, hemp, St.push, St.setSeq, Ctx.emb, Ctx.mkSt, Ctx.sq, Ctx.tm, Ctx.logCI, pre, schedule,
      List.filter_append, hfo, hto, hlog, own]

end Frame

open Play Frame in
/-- **A sequence plays its schedule whatever else is queued.** `s` = a hub state that is "the sequence `sid` just
installed (its loop task created, nothing of it submitted yet) + bystanders" (`Rel … (.A 0)`, see `installed_rel`).
Then, for the repaired code:
* at every later moment the submissions of `sid` are full passes of the schedule followed by the beginning of the next;
* for r > 0 some moment has exactly `schedule now vs ds r` submitted for `sid` and the port reporting no sequence;
* for r ≤ 0 every number of passes is eventually submitted in full. -/
theorem playback_among_bystanders (s : St) (sid : Nat) (vs : List Val) (ds : List Int) (r : Int)
    (hne : vs ≠ []) (hlen : ds.length = vs.length) (hrel : Rel ⟨s.now, vs, ds, r, sid⟩ s (.A 0)) :
    (∀ k, ∃ c i, subsOfSid sid (iterN Fix.repaired k s).log =
      schedule s.now vs ds c ++ (passAt s.now vs ds c).take i) ∧
    (0 < r → ∃ k, (iterN Fix.repaired k s).port.seq = none ∧
      subsOfSid sid (iterN Fix.repaired k s).log = schedule s.now vs ds r.toNat) ∧
    (r ≤ 0 → ∀ c, ∃ k, subsOfSid sid (iterN Fix.repaired k s).log = schedule s.now vs ds c) := by
  let K : Ctx := ⟨s.now, vs, ds, r, sid⟩
  have wf : K.WF := ⟨by show 0 < vs.length; exact List.length_pos_iff.mpr hne, hlen⟩
  refine ⟨?_, ?_, ?_⟩
  · intro k
    obtain ⟨x', _, r'⟩ := alwaysN K wf k s (.A 0) hrel trivial
    exact rel_log K _ x' r'
  · intro hr
    have hA : ∃ k, K.nxtN k (.A 0) = .A (r.toNat - 1) := by
      apply reach_A K wf
      intro c' hc'
      have : ¬ (K.r > 0 ∧ (c' : Int) ≥ K.r - 1) := by show ¬ (r > 0 ∧ (c' : Int) ≥ r - 1); omega
      cases hl : K.last c' with
      | false => rfl
      | true => exact absurd ((last_iff K c').mp hl) this
    obtain ⟨k1, hk1⟩ := hA
    obtain ⟨k2, hk2⟩ := reach_pass K wf (r.toNat - 1)
    have hl : K.last (r.toNat - 1) = true :=
      (last_iff K _).mpr (by show r > 0 ∧ ((r.toNat - 1 : Nat) : Int) ≥ r - 1; omega)
    rw [hl] at hk2
    simp only [if_true] at hk2
    obtain ⟨k, hk⟩ := progressN K wf (k1 + k2) s (.A 0) hrel trivial
    rw [nxtN_add, hk1, hk2] at hk
    refine ⟨k, ?_, ?_⟩
    · exact congrArg (fun y => y.port.seq) hk.2.2
    · have hlog : (iterN Fix.repaired k s).log.filter (ownEv K.sid) = K.logCI (r.toNat - 1) K.n :=
        congrArg St.log hk.2.2
      rw [subsOfSid_filter, hlog, logCI_pass, subsOf_logCI]
      have : r.toNat - 1 + 1 = r.toNat := by omega
      rw [this]; simp; rfl
  · intro hr c
    have hl : ∀ c, K.last c = false := by
      intro c
      cases h : K.last c with
      | false => rfl
      | true =>
        have := (last_iff K c).mp h
        have h1 : K.r > 0 := this.1
        exact absurd h1 (by show ¬ r > 0; omega)
    obtain ⟨j, hj⟩ := reach_A K wf c (fun c' _ => hl c')
    obtain ⟨k, hk⟩ := progressN K wf j s (.A 0) hrel trivial
    rw [hj] at hk
    refine ⟨k, ?_⟩
    have hlog : (iterN Fix.repaired k s).log.filter (ownEv K.sid) = K.logCI c 0 := congrArg St.log hk.2.2
    rw [subsOfSid_filter, hlog, subsOf_logCI]; simp; rfl

end QtVerif.Sequence
