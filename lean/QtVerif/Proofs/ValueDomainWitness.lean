import QtVerif.Proofs.ValueDomain
/-!
C05 — concrete port definitions used by the non-vacuity examples and the `unrepaired_…` counter-examples of Props/C05.lean,
with the proofs that they meet the hypotheses (`WF`, `TwRespectsJson`).
-/
namespace QtVerif.ValueDomain.C05

open QtVerif.ValueDomain

/-- number port, [0, 10], step 0.1, write transform "times two" -/
def dStep : PortDef :=
  { type := .number, min := some 0, max := some 10, step := some (1 / 10),
    tw := some fun v => match v with
      | .num q _ => .val (.num (q * 2) false)
      | _ => .error }

/-- the docstring example of core/ports.py: integer port, min 1, max 100, step 5, choices 2 and 4 -/
def dDoc : PortDef :=
  { type := .number, min := some 1, max := some 100, integer := true, step := some 5,
    choices := some [.cnum 2, .cnum 4] }

def dInt : PortDef := { type := .number, min := some 0, max := some 10, integer := true }

theorem wf_dStep : WF dStep := by
  refine ⟨fun h => by simp [dStep] at h, fun cs h => by simp [dStep] at h⟩

theorem wf_dDoc : WF dDoc := by
  refine ⟨fun h => by simp [dDoc] at h, fun cs h c hc => ?_⟩
  simp only [dDoc, Option.some.injEq] at h
  subst h
  simp only [List.mem_cons, List.mem_nil_iff, or_false] at hc
  rcases hc with rfl | rfl
  · exact ⟨rfl, fun _ => ⟨2, by decide +kernel⟩⟩
  · exact ⟨rfl, fun _ => ⟨4, by decide +kernel⟩⟩

theorem wf_dInt : WF dInt := by
  refine ⟨fun h => by simp [dInt] at h, fun cs h => by simp [dInt] at h⟩

theorem tw_dStep : TwRespectsJson dStep := by
  intro f hf a b hab
  simp only [dStep, Option.some.injEq] at hf
  subst hf
  cases a <;> cases b <;> simp_all [JVal.same, TOut.same]

end QtVerif.ValueDomain.C05
