import QtVerif.Proofs.ParseFix
/-! A small concrete registry and tree used by the non-vacuity examples of `Props/C03.lean`. -/
namespace QtVerif.Parse
open QtVerif.Syntax

def exReg : Registry := [
  ⟨"ADD".toList, "ADD".toList, true, some 2, none, [], []⟩,
  ⟨"TIME".toList, "TIME".toList, true, some 0, some 0, [], ["second"]⟩,
  ⟨"HISTORY".toList, "HISTORY".toList, true, some 3, some 3, [⟨false, false, false, true, true, false⟩], ["second"]⟩,
  ⟨"OFF".toList, "OFF".toList, false, some 0, some 0, [], []⟩]

def exEnv : Env := { reg := exReg, digits := [(0x660, 0x669)] }

/-- `ADD(1, ADD($a, $), TIME())` -/
def exExpr : Expr := .call "ADD" [.lit "1", .call "ADD" [.portVal "a", .selfVal], .call "TIME" []]

theorem exExpr_wf : WF exEnv exExpr := by
  simp only [exExpr, WF, WFArgs, and_true]
  exact ⟨_, rfl, rfl, rfl, by decide, ⟨rfl, rfl⟩, rfl, by decide,
    ⟨_, rfl, rfl, rfl, by decide, ⟨rfl, rfl⟩, rfl, by decide⟩,
    ⟨_, rfl, rfl, rfl, by decide, ⟨rfl, rfl⟩, rfl⟩⟩

theorem exReg_canonical : RegCanonical exReg := by
  intro key f hl hen
  simp only [lookup, exReg, List.find?] at hl
  repeat' split at hl
  all_goals first
    | (cases hl; first | (exact ⟨_, rfl, rfl, rfl, by decide, rfl, rfl, rfl⟩) | (cases hen))
    | cases hl

end QtVerif.Parse
